(** str.encode('utf-8') / bytes.decode('utf-8') (strict) on code-point lists. *)
From Asn1V Require Import Base.Prelude.

Definition utf8_encode_cp (c : Z) : option (list Z) :=
  if c <? 0 then None
  else if c <? 128 then Some [c]
  else if c <? 2048 then Some [192 + c / 64; 128 + c mod 64]
  else if c <? 65536 then
    if (55296 <=? c) && (c <=? 57343) then None   (* surrogates *)
    else Some [224 + c / 4096; 128 + (c / 64) mod 64; 128 + c mod 64]
  else if c <? 1114112 then
    Some [240 + c / 262144; 128 + (c / 4096) mod 64; 128 + (c / 64) mod 64; 128 + c mod 64]
  else None.

Fixpoint utf8_encode (cps : list Z) : option (list Z) :=
  match cps with
  | [] => Some []
  | c :: r =>
    match utf8_encode_cp c, utf8_encode r with
    | Some a, Some b => Some (a ++ b)
    | _, _ => None
    end
  end.

Definition is_cont (b : Z) : bool := (128 <=? b) && (b <=? 191).

(** One scalar value from the front of the byte list, as CPython's strict
    decoder accepts it (no overlong forms, no surrogates, max U+10FFFF). *)
Definition utf8_decode_one (bs : list Z) : option (Z * list Z) :=
  match bs with
  | [] => None
  | b0 :: r =>
    if (0 <=? b0) && (b0 <? 128) then Some (b0, r)
    else if (194 <=? b0) && (b0 <=? 223) then
      match r with
      | b1 :: r' => if is_cont b1 then Some ((b0 - 192) * 64 + (b1 - 128), r') else None
      | _ => None
      end
    else if (224 <=? b0) && (b0 <=? 239) then
      match r with
      | b1 :: b2 :: r' =>
        let lo := if b0 =? 224 then 160 else 128 in
        let hi := if b0 =? 237 then 159 else 191 in
        if (lo <=? b1) && (b1 <=? hi) && is_cont b2
        then Some ((b0 - 224) * 4096 + (b1 - 128) * 64 + (b2 - 128), r') else None
      | _ => None
      end
    else if (240 <=? b0) && (b0 <=? 244) then
      match r with
      | b1 :: b2 :: b3 :: r' =>
        let lo := if b0 =? 240 then 144 else 128 in
        let hi := if b0 =? 244 then 143 else 191 in
        if (lo <=? b1) && (b1 <=? hi) && is_cont b2 && is_cont b3
        then Some ((b0 - 240) * 262144 + (b1 - 128) * 4096 + (b2 - 128) * 64 + (b3 - 128), r')
        else None
      | _ => None
      end
    else None
  end.

Fixpoint utf8_decode_fuel (fuel : nat) (bs : list Z) : option (list Z) :=
  match bs with
  | [] => Some []
  | _ =>
    match fuel with
    | O => None
    | S f =>
      match utf8_decode_one bs with
      | Some (c, r) =>
        match utf8_decode_fuel f r with Some cs => Some (c :: cs) | None => None end
      | None => None
      end
    end
  end.
Definition utf8_decode (bs : list Z) : option (list Z) := utf8_decode_fuel (length bs) bs.
