(** Bit lists and the bit reader used by the PER/UPER models. *)
From Asn1V Require Import Base.Prelude.

Definition bits := list bool.

(** [to_bits n v]: the low [n] bits of [v], most significant first — what
    Encoder.append_non_negative_binary_integer(v, n) contributes when
    0 <= v < 2^n. *)
Fixpoint to_bits (n : nat) (v : Z) : bits :=
  match n with
  | O => []
  | S k => Z.testbit v (Z.of_nat k) :: to_bits k v
  end.

Fixpoint of_bits_acc (acc : Z) (bs : bits) : Z :=
  match bs with
  | [] => acc
  | b :: r => of_bits_acc (2 * acc + Z.b2z b) r
  end.
Definition of_bits (bs : bits) : Z := of_bits_acc 0 bs.

Definition bytes_to_bits (bs : list Z) : bits := flat_map (to_bits 8) bs.

(** Pack bits into octets, padding the last octet with zero bits
    (Encoder.as_bytearray / Decoder.read_bits). *)
Fixpoint bits_to_bytes (bs : bits) : list Z :=
  match bs with
  | [] => []
  | b0 :: b1 :: b2 :: b3 :: b4 :: b5 :: b6 :: b7 :: r =>
    of_bits [b0; b1; b2; b3; b4; b5; b6; b7] :: bits_to_bytes r
  | partial => [of_bits (partial ++ repeat false (8 - length partial))]
  end.

(** Python bit_length. *)
Definition bit_length (v : Z) : Z :=
  if v =? 0 then 0 else Z.log2 (Z.abs v) + 1.

(** The reader monad over the remaining bits. *)
Definition reader (A : Type) : Type := bits -> result (A * bits).

Definition rret {A} (a : A) : reader A := fun bs => Ok (a, bs).
Definition rfail {A} (e : err) : reader A := fun _ => Err e.
Definition rbind {A B} (m : reader A) (f : A -> reader B) : reader B :=
  fun bs => match m bs with Ok (a, r) => f a r | Err e => Err e end.
Notation "'do*' x '<-' m ';' k" := (rbind m (fun x => k))
  (at level 200, x pattern, m at level 100, k at level 200).

(** Decoder.read_bit *)
Definition read_bit : reader bool :=
  fun bs => match bs with [] => Err EOutOfData | b :: r => Ok (b, r) end.

(** Decoder.read_non_negative_binary_integer(n) *)
Definition read_uint (n : nat) : reader Z :=
  fun bs => if (length bs <? n)%nat then Err EOutOfData
            else Ok (of_bits (firstn n bs), skipn n bs).

(** Decoder.read_bits(n): the raw bits (the Python returns them packed). *)
Definition read_raw (n : nat) : reader bits :=
  fun bs => if (length bs <? n)%nat then Err EOutOfData
            else Ok (firstn n bs, skipn n bs).

(** Decoder.skip_bits(n) *)
Definition skip_bits (n : nat) : reader unit :=
  fun bs => if (length bs <? n)%nat then Err EOutOfData else Ok (tt, skipn n bs).
