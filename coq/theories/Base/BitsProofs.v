(** Representation lemmas for bit lists: n-bit big-endian numbers. *)
From Asn1V Require Import Base.Prelude Base.Bits.

Lemma to_bits_length n v : length (to_bits n v) = n.
Proof. induction n as [|n IH]; cbn [to_bits length]; congruence. Qed.

Lemma pow2_pos k : 0 <= k -> 0 < 2 ^ k.
Proof. intros H. apply Z.pow_pos_nonneg; lia. Qed.

(** v mod 2^(k+1) = 2^k * bit k + v mod 2^k *)
Lemma mod_pow2_succ v k :
  0 <= k -> v mod 2 ^ (k + 1) = 2 ^ k * Z.b2z (Z.testbit v k) + v mod 2 ^ k.
Proof.
  intros Hk. rewrite Z.pow_add_r by lia. change (2 ^ 1) with 2.
  rewrite Z.rem_mul_r by (try apply Z.pow_nonzero; lia).
  rewrite Z.testbit_spec' by lia. lia.
Qed.

Lemma of_bits_acc_to_bits n v acc :
  of_bits_acc acc (to_bits n v) = acc * 2 ^ Z.of_nat n + v mod 2 ^ Z.of_nat n.
Proof.
  revert acc. induction n as [|n IH]; intros acc.
  - cbn [to_bits of_bits_acc]. change (2 ^ Z.of_nat 0) with 1. rewrite Z.mod_1_r. lia.
  - cbn [to_bits of_bits_acc]. rewrite IH.
    replace (Z.of_nat (S n)) with (Z.of_nat n + 1) by lia.
    rewrite (mod_pow2_succ v (Z.of_nat n)) by lia.
    rewrite Z.pow_add_r by lia. change (2 ^ 1) with 2. ring.
Qed.

Lemma of_bits_to_bits_mod n v : of_bits (to_bits n v) = v mod 2 ^ Z.of_nat n.
Proof. unfold of_bits. rewrite of_bits_acc_to_bits. lia. Qed.

Lemma of_bits_to_bits n v : 0 <= v < 2 ^ Z.of_nat n -> of_bits (to_bits n v) = v.
Proof. intros H. rewrite of_bits_to_bits_mod. apply Z.mod_small. exact H. Qed.

Lemma of_bits_acc_bounds bs acc :
  0 <= acc -> acc * 2 ^ Z.of_nat (length bs) <= of_bits_acc acc bs < (acc + 1) * 2 ^ Z.of_nat (length bs).
Proof.
  revert acc. induction bs as [|b bs IH]; intros acc Ha; cbn [of_bits_acc length].
  - change (2 ^ Z.of_nat 0) with 1. lia.
  - specialize (IH (2 * acc + Z.b2z b)).
    assert (Hb : 0 <= Z.b2z b <= 1) by (destruct b; cbn; lia).
    replace (Z.of_nat (S (length bs))) with (Z.of_nat (length bs) + 1) by lia.
    rewrite Z.pow_add_r by lia. change (2 ^ 1) with 2.
    assert (Hp : 0 < 2 ^ Z.of_nat (length bs)) by (apply pow2_pos; lia).
    specialize (IH ltac:(lia)). nia.
Qed.

Lemma of_bits_bounds bs : 0 <= of_bits bs < 2 ^ Z.of_nat (length bs).
Proof. unfold of_bits. pose proof (of_bits_acc_bounds bs 0 ltac:(lia)). lia. Qed.

(** Reading back an n-bit field. *)
Lemma read_uint_app n v rest :
  0 <= v < 2 ^ Z.of_nat n -> read_uint n (to_bits n v ++ rest) = Ok (v, rest).
Proof.
  intros H. unfold read_uint. rewrite app_length, to_bits_length.
  destruct (n + length rest <? n)%nat eqn:E; [lia|].
  rewrite firstn_app, to_bits_length, Nat.sub_diag. cbn [firstn]. rewrite app_nil_r.
  rewrite (firstn_all2 (to_bits n v)) by (rewrite to_bits_length; lia).
  rewrite skipn_app, to_bits_length, Nat.sub_diag. cbn [skipn].
  rewrite (skipn_all2 (to_bits n v)) by (rewrite to_bits_length; lia).
  rewrite of_bits_to_bits by exact H. reflexivity.
Qed.

Lemma read_uint_app_mod n v rest :
  read_uint n (to_bits n v ++ rest) = Ok (v mod 2 ^ Z.of_nat n, rest).
Proof.
  unfold read_uint. rewrite app_length, to_bits_length.
  destruct (n + length rest <? n)%nat eqn:E; [lia|].
  rewrite firstn_app, to_bits_length, Nat.sub_diag. cbn [firstn]. rewrite app_nil_r.
  rewrite (firstn_all2 (to_bits n v)) by (rewrite to_bits_length; lia).
  rewrite skipn_app, to_bits_length, Nat.sub_diag. cbn [skipn].
  rewrite (skipn_all2 (to_bits n v)) by (rewrite to_bits_length; lia).
  rewrite of_bits_to_bits_mod. reflexivity.
Qed.

Lemma read_uint_short n bs : (length bs < n)%nat -> read_uint n bs = Err EOutOfData.
Proof. intros H. unfold read_uint. destruct (length bs <? n)%nat eqn:E; [reflexivity|lia]. Qed.

Lemma read_bit_app b rest : read_bit (b :: rest) = Ok (b, rest).
Proof. reflexivity. Qed.

(** Packing into octets and unpacking again only appends the 0..7 padding bits. *)
Lemma list_ind8 {A} (P : list A -> Prop) :
  (forall l, (length l < 8)%nat -> P l) ->
  (forall b0 b1 b2 b3 b4 b5 b6 b7 r, P r -> P (b0 :: b1 :: b2 :: b3 :: b4 :: b5 :: b6 :: b7 :: r)) ->
  forall l, P l.
Proof.
  intros Hsmall Hstep l. remember (length l) as n eqn:En. revert l En.
  induction n as [n IH] using lt_wf_ind. intros l En.
  destruct (Nat.lt_ge_cases (length l) 8) as [Hlt|Hge]; [apply Hsmall; exact Hlt|].
  destruct l as [|b0 [|b1 [|b2 [|b3 [|b4 [|b5 [|b6 [|b7 r]]]]]]]]; cbn [length] in Hge; try lia.
  apply Hstep. apply (IH (length r)); [subst n; cbn [length]; lia | reflexivity].
Qed.

Lemma byte_of_8bits b0 b1 b2 b3 b4 b5 b6 b7 :
  to_bits 8 (of_bits [b0; b1; b2; b3; b4; b5; b6; b7]) = [b0; b1; b2; b3; b4; b5; b6; b7].
Proof. destruct b0, b1, b2, b3, b4, b5, b6, b7; reflexivity. Qed.

Lemma bits_to_bytes_small (l : bits) :
  (0 < length l < 8)%nat ->
  bits_to_bytes l = [of_bits (l ++ repeat false (8 - length l))] /\
  to_bits 8 (of_bits (l ++ repeat false (8 - length l))) = l ++ repeat false (8 - length l).
Proof.
  intros H.
  destruct l as [|b0 [|b1 [|b2 [|b3 [|b4 [|b5 [|b6 [|b7 r]]]]]]]]; cbn [length] in H; try lia;
    (split; [reflexivity|]);
    repeat match goal with b : bool |- _ => destruct b end; reflexivity.
Qed.

Lemma bytes_bits_roundtrip (bs : bits) :
  bytes_to_bits (bits_to_bytes bs) = bs ++ repeat false ((8 - length bs mod 8) mod 8).
Proof.
  induction bs as [l Hl | b0 b1 b2 b3 b4 b5 b6 b7 r IH] using list_ind8.
  - destruct l as [|x l']; [reflexivity|].
    assert (Hr : (0 < length (x :: l') < 8)%nat) by (cbn [length] in *; lia).
    destruct (bits_to_bytes_small (x :: l') Hr) as (Hb & Ht). rewrite Hb.
    unfold bytes_to_bits. cbn [flat_map]. rewrite app_nil_r, Ht.
    rewrite (Nat.mod_small (length (x :: l')) 8) by lia.
    rewrite (Nat.mod_small (8 - length (x :: l')) 8) by lia. reflexivity.
  - change (bits_to_bytes (b0 :: b1 :: b2 :: b3 :: b4 :: b5 :: b6 :: b7 :: r))
      with (of_bits [b0; b1; b2; b3; b4; b5; b6; b7] :: bits_to_bytes r).
    unfold bytes_to_bits in *. cbn [flat_map]. rewrite IH, byte_of_8bits.
    replace (length (b0 :: b1 :: b2 :: b3 :: b4 :: b5 :: b6 :: b7 :: r)) with (8 + length r)%nat by reflexivity.
    replace ((8 + length r) mod 8)%nat with (length r mod 8)%nat
      by (rewrite Nat.add_mod by lia; rewrite Nat.mod_same by lia; cbn [Nat.add]; rewrite Nat.mod_mod by lia; reflexivity).
    reflexivity.
Qed.

Lemma bits_to_bytes_length (bs : bits) : (8 * length (bits_to_bytes bs) = length bs + (8 - length bs mod 8) mod 8)%nat.
Proof.
  pose proof (f_equal (@length bool) (bytes_bits_roundtrip bs)) as H.
  rewrite app_length, repeat_length in H. rewrite <- H. clear H.
  unfold bytes_to_bits. induction (bits_to_bytes bs) as [|b l IH]; [reflexivity|].
  cbn [flat_map length]. rewrite app_length, to_bits_length. lia.
Qed.
