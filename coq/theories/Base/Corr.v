(** Helpers for the generated correspondence case files: the harness writes
    (input, expected-from-implementation) pairs; Coq evaluates the model and
    prints only the indices on which model and implementation differ. *)
From Asn1V Require Import Base.Prelude.

Fixpoint mismatches_from {A B} (eqb : B -> B -> bool) (f : A -> B)
         (cases : list (A * B)) (i : Z) : list Z :=
  match cases with
  | [] => []
  | (a, b) :: r =>
    if eqb (f a) b then mismatches_from eqb f r (i + 1)
    else i :: mismatches_from eqb f r (i + 1)
  end.
Definition mismatches {A B} eqb (f : A -> B) cases := mismatches_from eqb f cases 0.

Fixpoint list_eqb {A} (eqb : A -> A -> bool) (l1 l2 : list A) : bool :=
  match l1, l2 with
  | [], [] => true
  | x :: r1, y :: r2 => eqb x y && list_eqb eqb r1 r2
  | _, _ => false
  end.
Definition zlist_eqb := list_eqb Z.eqb.

(** Large deterministic values and digests, so that cases with tens of
    thousands of octets need neither big literals nor big printed results. *)
Definition pattern_byte (i : Z) : Z := (i * 7 + 3) mod 251.
Definition pattern (n : Z) : list Z := map (fun i => pattern_byte (Z.of_nat i)) (seq 0 (Z.to_nat n)).

Fixpoint wsum (acc i : Z) (l : list Z) : Z :=
  match l with
  | [] => acc
  | b :: r => wsum ((acc + (i mod 65521 + 1) * (b + 1)) mod 2147483647) (i + 1) r
  end.
(** (length, position-weighted checksum, first 12, last 12) *)
Definition digest (l : list Z) : Z * Z * list Z * list Z :=
  (Z.of_nat (length l), wsum 0 0 l, firstn 12 l, skipn (length l - 12) l).
Definition digest_eqb (a b : Z * Z * list Z * list Z) : bool :=
  let '(n1, s1, h1, t1) := a in let '(n2, s2, h2, t2) := b in
  (n1 =? n2) && (s1 =? s2) && list_eqb Z.eqb h1 h2 && list_eqb Z.eqb t1 t2.
