(** Helpers for the generated correspondence case files: the harness writes
    (input, expected-from-implementation) pairs; Coq evaluates the model and
    prints only the indices on which model and implementation differ. *)
From Asn1V Require Import Base.Prelude.

Fixpoint mismatches_from {A B} (eqb : B -> B -> bool) (f : A -> B)
         (cases : list (A * B)) (i : Z) : list Z :=
  match cases with
  | [] => []
  | (a, b) :: r =>
    if eqb (f a) b then mismatches_from eqb f r (i + 1)
    else i :: mismatches_from eqb f r (i + 1)
  end.
Definition mismatches {A B} eqb (f : A -> B) cases := mismatches_from eqb f cases 0.

Fixpoint list_eqb {A} (eqb : A -> A -> bool) (l1 l2 : list A) : bool :=
  match l1, l2 with
  | [], [] => true
  | x :: r1, y :: r2 => eqb x y && list_eqb eqb r1 r2
  | _, _ => false
  end.
Definition zlist_eqb := list_eqb Z.eqb.
