(** Basic lemmas about the runtime of the Python-subset translator: how the
    Python primitives of Py/PyRuntime.v (Z offsets, Python's negative-index and
    clamping rules) specialise to the nat-indexed list functions the
    hand-written implementation models use when offsets are non-negative. *)
From Asn1V Require Import Base.Prelude Base.Corr Py.PyRuntime.

Arguments Z.mul : simpl never.
Arguments Z.add : simpl never.
Arguments Z.sub : simpl never.
Arguments Z.pow : simpl never.
Arguments Z.div : simpl never.
Arguments Z.modulo : simpl never.

Lemma py_len_nonneg l : 0 <= py_len l.
Proof. unfold py_len. lia. Qed.

Lemma py_len_app l1 l2 : py_len (l1 ++ l2) = py_len l1 + py_len l2.
Proof. unfold py_len. rewrite app_length. lia. Qed.

Lemma py_index_nat l (n : nat) :
  py_index l (Z.of_nat n) =
  match nth_error l n with Some x => Ok x | None => Err (EForeign "IndexError") end.
Proof.
  unfold py_index.
  destruct (Z.of_nat n <? 0) eqn:E; [lia|].
  rewrite E. rewrite Nat2Z.id. reflexivity.
Qed.

Lemma py_index_nonneg l i : 0 <= i ->
  py_index l i =
  match nth_error l (Z.to_nat i) with Some x => Ok x | None => Err (EForeign "IndexError") end.
Proof.
  intros H. rewrite <- (Z2Nat.id i) at 1 by lia. apply py_index_nat.
Qed.

Lemma py_bound_nat n (i : nat) : py_bound (Z.of_nat n) (Z.of_nat i) = Z.of_nat (Nat.min i n).
Proof. unfold py_bound. destruct (Z.of_nat i <? 0) eqn:E; lia. Qed.

Lemma py_slice_nat l (a b : nat) : py_slice l (Z.of_nat a) (Z.of_nat b) = slice l a b.
Proof.
  unfold py_slice, slice, py_len. rewrite !py_bound_nat.
  replace (Z.to_nat (Z.of_nat (Nat.min b (length l)) - Z.of_nat (Nat.min a (length l))))
    with (Nat.min b (length l) - Nat.min a (length l))%nat by lia.
  rewrite !Nat2Z.id.
  destruct (Nat.le_gt_cases (length l) a) as [Ha|Ha].
  - rewrite (skipn_all2 l) by lia. rewrite (skipn_all2 l) by lia. rewrite !firstn_nil. reflexivity.
  - replace (Nat.min a (length l)) with a by lia.
    destruct (Nat.le_gt_cases b (length l)) as [Hb|Hb].
    + replace (Nat.min b (length l)) with b by lia. reflexivity.
    + replace (Nat.min b (length l)) with (length l) by lia.
      rewrite !firstn_all2; try reflexivity; rewrite skipn_length; lia.
Qed.

Lemma py_slice_nonneg l a b : 0 <= a -> 0 <= b ->
  py_slice l a b = slice l (Z.to_nat a) (Z.to_nat b).
Proof.
  intros Ha Hb. rewrite <- (Z2Nat.id a) at 1 by lia. rewrite <- (Z2Nat.id b) at 1 by lia.
  apply py_slice_nat.
Qed.

Lemma slice_length {A} (l : list A) a b : (length (slice l a b) <= b - a)%nat.
Proof. unfold slice. rewrite firstn_length. lia. Qed.

Lemma nth_error_skipn_cons {A} (l : list A) n x :
  nth_error l n = Some x -> skipn n l = x :: skipn (S n) l.
Proof.
  revert l. induction n as [|n IH]; intros [|y l] H; simpl in *; try discriminate.
  - inversion H. reflexivity.
  - apply IH. exact H.
Qed.

Lemma nth_error_skipn_nil {A} (l : list A) n :
  nth_error l n = None -> skipn n l = [].
Proof.
  intros H. apply nth_error_None in H. apply skipn_all2. exact H.
Qed.

Lemma nth_error_skipn0 {A} (l : list A) n : nth_error l n = nth_error (skipn n l) 0.
Proof.
  destruct (nth_error l n) eqn:E.
  - rewrite (nth_error_skipn_cons _ _ _ E). reflexivity.
  - rewrite (nth_error_skipn_nil _ _ E). reflexivity.
Qed.

(** ** int.bit_length *)
Lemma py_bit_length_nonneg n : 0 <= py_bit_length n.
Proof.
  unfold py_bit_length. destruct (n =? 0); [lia|].
  pose proof (Z.log2_nonneg (Z.abs n)). lia.
Qed.

Lemma py_bit_length_bound n : Z.abs n < 2 ^ py_bit_length n.
Proof.
  unfold py_bit_length. destruct (n =? 0) eqn:E.
  - assert (n = 0) by lia. subst. reflexivity.
  - assert (0 < Z.abs n) by lia.
    destruct (Z.log2_spec (Z.abs n) H) as [_ H2].
    replace (Z.log2 (Z.abs n) + 1) with (Z.succ (Z.log2 (Z.abs n))) by lia. exact H2.
Qed.

Lemma py_bit_length_pos n : 0 < n -> 2 ^ (py_bit_length n - 1) <= n.
Proof.
  intros H. unfold py_bit_length. destruct (n =? 0) eqn:E; [lia|].
  rewrite Z.abs_eq by lia.
  destruct (Z.log2_spec n H) as [H1 _].
  replace (Z.log2 n + 1 - 1) with (Z.log2 n) by lia. exact H1.
Qed.

(** ** bytes in range *)
Lemma lor_byte a b : 0 <= a < 256 -> 0 <= b < 256 -> 0 <= Z.lor a b < 256.
Proof.
  intros Ha Hb.
  assert (H0 : 0 <= Z.lor a b) by (apply Z.lor_nonneg; lia).
  split; [exact H0|].
  destruct (Z.eq_dec (Z.lor a b) 0) as [E|E]; [lia|].
  apply (Z.log2_lt_pow2 _ 8); [lia|].
  rewrite Z.log2_lor by lia.
  assert (La : Z.log2 a < 8) by (destruct (Z.eq_dec a 0); [subst; simpl; lia | apply Z.log2_lt_pow2; lia]).
  assert (Lb : Z.log2 b < 8) by (destruct (Z.eq_dec b 0); [subst; simpl; lia | apply Z.log2_lt_pow2; lia]).
  lia.
Qed.

Lemma py_byte_ok x : 0 <= x < 256 -> py_byte x = Ok x.
Proof.
  intros H. unfold py_byte.
  destruct ((0 <=? x) && (x <? 256)) eqn:E; [reflexivity|lia].
Qed.

(** ** to_bytes *)
Lemma to_bytes_signed_fits n len :
  0 < len -> - 2 ^ (8 * len - 1) <= n < 2 ^ (8 * len - 1) ->
  to_bytes_signed n len = Ok (rev (le_bytes (Z.to_nat len) n)).
Proof.
  intros Hl H. unfold to_bytes_signed.
  destruct (len <? 0) eqn:E1; [lia|].
  destruct (len =? 0) eqn:E2; [lia|].
  destruct ((- 2 ^ (8 * len - 1) <=? n) && (n <? 2 ^ (8 * len - 1))) eqn:E3; [reflexivity|lia].
Qed.

(** ** big-endian numbers *)
Lemma be_number_cons b bs : be_number (b :: bs) = Ok (be_value (b :: bs)).
Proof. reflexivity. Qed.
