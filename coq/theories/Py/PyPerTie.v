(** Tie between the functions REGENERATED from asn1tools/codecs/per.py
    (coq/gen/PyPer.v, produced by translator/pyfun.py on every run) and the
    width / size functions of the hand-written PER/UPER implementation models
    (Per/UperImpl.v, Per/PerImpl.v, Base/Bits.v).  Where the models inline the
    logic ([to_int], [to_byte_array]: the big-integer accumulator of
    per.Encoder is abstracted to a bit list) the theorem is stated against the
    specification-level function ([be_value], big-endian [be_bytes]). *)
From Asn1V Require Import Base.Prelude Base.Corr Py.PyRuntime Py.PyRuntimeProofs.
From Asn1V Require Base.Bits Syntax.Asn1 Ber.BerCommon Per.UperImpl Per.PerImpl.
From Asn1Gen Require PyPer.

Arguments Z.mul : simpl never.
Arguments Z.add : simpl never.
Arguments Z.sub : simpl never.
Arguments Z.pow : simpl never.
Arguments Z.div : simpl never.
Arguments Z.modulo : simpl never.
Arguments Z.shiftr : simpl never.
Arguments Z.shiftl : simpl never.
Arguments Z.land : simpl never.
Arguments Z.lor : simpl never.
Arguments Z.log2 : simpl never.
Arguments Z.of_nat : simpl never.
Arguments Z.to_nat : simpl never.

(* ------------------------------------------------------------------ *)
(** * integer_as_number_of_bits, size_as_number_of_bytes *)

Theorem py_integer_as_number_of_bits_eq : forall size,
  PyPer.integer_as_number_of_bits size = Ok (Bits.bit_length size).
Proof.
  intros size. unfold PyPer.integer_as_number_of_bits, Bits.bit_length, py_bit_length.
  destruct (size =? 0); reflexivity.
Qed.
Print Assumptions py_integer_as_number_of_bits_eq.

Theorem py_size_as_number_of_bytes_eq : forall size,
  PyPer.size_as_number_of_bytes size = Ok (PerImpl.size_as_bytes size).
Proof.
  intros size. unfold PyPer.size_as_number_of_bytes, PerImpl.size_as_bytes.
  destruct (size =? 0); [reflexivity|].
  change (Bits.bit_length size) with (py_bit_length size).
  pose proof (py_bit_length_nonneg size) as B0.
  set (B := py_bit_length size) in *.
  f_equal. destruct (B mod 8 =? 0) eqn:E; cbn [negb]; Z.div_mod_to_equations; lia.
Qed.
Print Assumptions py_size_as_number_of_bytes_eq.

(* ------------------------------------------------------------------ *)
(** * integer_as_number_of_bits_power_of_two *)

Lemma pow2_loop_step f bl p :
  PyPer.integer_as_number_of_bits_power_of_two_loop1 (S f) bl p =
  if bl >? p then PyPer.integer_as_number_of_bits_power_of_two_loop1 f bl (Z.shiftl p 1) else Ok p.
Proof. reflexivity. Qed.

Lemma bit_length_le_32 size : 0 < size < 2 ^ 32 -> 1 <= py_bit_length size <= 32.
Proof.
  intros H. pose proof (py_bit_length_pos size ltac:(lia)) as P.
  pose proof (py_bit_length_bound size) as Q. rewrite Z.abs_eq in Q by lia.
  pose proof (py_bit_length_nonneg size) as N.
  split.
  - destruct (Z.eq_dec (py_bit_length size) 0) as [E|E]; [|lia].
    rewrite E in Q. change (2 ^ 0) with 1 in Q. lia.
  - destruct (Z.le_gt_cases (py_bit_length size) 32) as [L|L]; [exact L|].
    assert (2 ^ 32 <= 2 ^ (py_bit_length size - 1)) by (apply Z.pow_le_mono_r; lia). lia.
Qed.

(** The IM's table [pow2_bits] stops at 32 (alphabets have fewer than 2^32
    characters); the Python loop continues (64 for bit lengths 33..64, ...):
    the two agree exactly on 0 <= size < 2^32. *)
Theorem py_integer_as_number_of_bits_power_of_two_eq : forall size fuel,
  0 <= size < 2 ^ 32 -> (7 <= fuel)%nat ->
  PyPer.integer_as_number_of_bits_power_of_two fuel size = Ok (Z.of_nat (PerImpl.pow2_bits size)).
Proof.
  intros size fuel Hs Hf. unfold PyPer.integer_as_number_of_bits_power_of_two, PerImpl.pow2_bits.
  destruct (size =? 0) eqn:E0; [reflexivity|].
  rewrite py_integer_as_number_of_bits_eq. cbn [bind].
  change (Bits.bit_length size) with (py_bit_length size).
  pose proof (bit_length_le_32 size ltac:(lia)) as B.
  set (bl := py_bit_length size) in *.
  do 7 (destruct fuel as [|fuel]; [lia|]).
  rewrite pow2_loop_step. destruct (bl >? 1) eqn:C1.
  2:{ cbn [bind]. destruct (bl <=? 1) eqn:D1; [reflexivity|lia]. }
  change (Z.shiftl 1 1) with 2.
  rewrite pow2_loop_step. destruct (bl >? 2) eqn:C2.
  2:{ cbn [bind]. destruct (bl <=? 1) eqn:D1; [lia|]. destruct (bl <=? 2) eqn:D2; [reflexivity|lia]. }
  change (Z.shiftl 2 1) with 4.
  rewrite pow2_loop_step. destruct (bl >? 4) eqn:C3.
  2:{ cbn [bind]. destruct (bl <=? 1) eqn:D1; [lia|]. destruct (bl <=? 2) eqn:D2; [lia|].
      destruct (bl <=? 4) eqn:D3; [reflexivity|lia]. }
  change (Z.shiftl 4 1) with 8.
  rewrite pow2_loop_step. destruct (bl >? 8) eqn:C4.
  2:{ cbn [bind]. destruct (bl <=? 1) eqn:D1; [lia|]. destruct (bl <=? 2) eqn:D2; [lia|].
      destruct (bl <=? 4) eqn:D3; [lia|]. destruct (bl <=? 8) eqn:D4; [reflexivity|lia]. }
  change (Z.shiftl 8 1) with 16.
  rewrite pow2_loop_step. destruct (bl >? 16) eqn:C5.
  2:{ cbn [bind]. destruct (bl <=? 1) eqn:D1; [lia|]. destruct (bl <=? 2) eqn:D2; [lia|].
      destruct (bl <=? 4) eqn:D3; [lia|]. destruct (bl <=? 8) eqn:D4; [lia|].
      destruct (bl <=? 16) eqn:D5; [reflexivity|lia]. }
  change (Z.shiftl 16 1) with 32.
  rewrite pow2_loop_step. destruct (bl >? 32) eqn:C6; [lia|].
  cbn [bind]. destruct (bl <=? 1) eqn:D1; [lia|]. destruct (bl <=? 2) eqn:D2; [lia|].
  destruct (bl <=? 4) eqn:D3; [lia|]. destruct (bl <=? 8) eqn:D4; [lia|].
  destruct (bl <=? 16) eqn:D5; [lia|]. reflexivity.
Qed.
Print Assumptions py_integer_as_number_of_bits_power_of_two_eq.

(** outside that domain they differ (not reachable from the callers: the
    argument is an alphabet size minus one) *)
Example py_integer_as_number_of_bits_power_of_two_disagree :
  PyPer.integer_as_number_of_bits_power_of_two 20 (2 ^ 32) = Ok 64 /\
  Z.of_nat (PerImpl.pow2_bits (2 ^ 32)) = 32.
Proof. split; vm_compute; reflexivity. Qed.

(* ------------------------------------------------------------------ *)
(** * to_int *)

Lemma to_int_loop_step f num ba :
  PyPer.to_int_loop1 (S f) num ba =
  if py_len ba >? 0 then
    let* (byte, ba') := py_pop0 ba in PyPer.to_int_loop1 f (Z.shiftl num 8 + byte) ba'
  else Ok (num, ba).
Proof. reflexivity. Qed.

Lemma to_int_loop_spec f : forall num ba,
  (length ba + 1 <= f)%nat -> PyPer.to_int_loop1 f num ba = Ok (be_value_acc num ba, []).
Proof.
  induction f as [|f IH]; intros num ba Hf; [lia|].
  rewrite to_int_loop_step. destruct ba as [|b ba].
  - reflexivity.
  - replace (py_len (b :: ba) >? 0) with true by (unfold py_len; cbn [length]; lia).
    cbn [py_pop0 bind be_value_acc]. rewrite IH by (cbn [length] in Hf; lia).
    rewrite Z.shiftl_mul_pow2 by lia. change (2 ^ 8) with 256. reflexivity.
Qed.

Theorem py_to_int_eq : forall chars fuel,
  (match chars with IBInt _ => 0 | IBBytes b => length b + 1 end <= fuel)%nat ->
  PyPer.to_int fuel chars = Ok (match chars with IBInt z => z | IBBytes b => be_value b end).
Proof.
  intros [z|b] fuel Hf; unfold PyPer.to_int; [reflexivity|].
  rewrite to_int_loop_spec by exact Hf. reflexivity.
Qed.
Print Assumptions py_to_int_eq.

(* ------------------------------------------------------------------ *)
(** * to_byte_array *)

Lemma to_byte_array_loop_step f ba num nb :
  PyPer.to_byte_array_loop1 (S f) ba num nb =
  if nb >? 0 then PyPer.to_byte_array_loop1 f (Z.land num 255 :: ba) (Z.shiftr num 8) (nb - 8)
  else Ok (ba, num, nb).
Proof. reflexivity. Qed.

Lemma to_byte_array_loop_spec f : forall ba num nb,
  (1 <= f)%nat -> nb <= 8 * Z.of_nat f - 8 ->
  exists num' nb',
  PyPer.to_byte_array_loop1 f ba num nb =
  Ok (rev (BerCommon.le_bytes (Z.to_nat ((nb + 7) / 8)) num) ++ ba, num', nb').
Proof.
  induction f as [|f IH]; intros ba num nb H1 Hf.
  - exfalso. lia.
  - rewrite to_byte_array_loop_step. destruct (nb >? 0) eqn:E.
    + destruct (IH (Z.land num 255 :: ba) (Z.shiftr num 8) (nb - 8) ltac:(lia) ltac:(lia)) as (num' & nb' & R).
      exists num', nb'. rewrite R.
      replace (Z.to_nat ((nb + 7) / 8)) with (S (Z.to_nat ((nb - 8 + 7) / 8)))
        by (Z.div_mod_to_equations; lia).
      cbn [BerCommon.le_bytes rev]. rewrite <- app_assoc. cbn [app].
      rewrite Z.shiftr_div_pow2 by lia. change (2 ^ 8) with 256.
      change 255 with (Z.ones 8). rewrite Z.land_ones by lia. change (2 ^ 8) with 256. reflexivity.
    + exists num, nb.
      replace (Z.to_nat ((nb + 7) / 8)) with 0%nat by (Z.div_mod_to_equations; lia).
      reflexivity.
Qed.

(** [number_of_bits] rounded up to whole octets of [num], big-endian
    (two's complement of the low octets for a negative [num]) *)
Theorem py_to_byte_array_eq : forall num nbits fuel,
  (Z.to_nat (nbits / 8) + 2 <= fuel)%nat ->
  PyPer.to_byte_array fuel num nbits = Ok (BerCommon.be_bytes (Z.to_nat ((nbits + 7) / 8)) num).
Proof.
  intros num nbits fuel Hf. unfold PyPer.to_byte_array, BerCommon.be_bytes.
  destruct (to_byte_array_loop_spec fuel [] num nbits) as (num' & nb' & R).
  { lia. }
  { destruct (Z.le_gt_cases nbits 0); [lia|]. Z.div_mod_to_equations; lia. }
  rewrite R. cbn [bind]. rewrite app_nil_r. reflexivity.
Qed.
Print Assumptions py_to_byte_array_eq.

(* ------------------------------------------------------------------ *)
(** * is_unbound *)

(** exactly what the Python expression does on every combination of
    None / string / int (TypeError when a string that is not 'MAX' is compared with 65535) *)
Theorem py_is_unbound_spec : forall mn mx,
  PyPer.is_unbound mn mx =
  if py_bound_in mn [BNone; BStr "MIN"] then Ok true
  else if py_bound_in mx [BNone; BStr "MAX"] then Ok true
  else match mx with BInt z => Ok (z >? 65535) | _ => Err (EForeign "TypeError") end.
Proof.
  intros mn mx. unfold PyPer.is_unbound.
  destruct (py_bound_in mn [BNone; BStr "MIN"]); [reflexivity|].
  destruct (py_bound_in mx [BNone; BStr "MAX"]); [reflexivity|].
  destruct mx; reflexivity.
Qed.
Print Assumptions py_is_unbound_spec.

(** how per.py sees a SIZE constraint of the model: no constraint = (None,
    None); a range lo..MAX = (lo, 'MAX'); lo..hi = (lo, hi) *)
Definition size_minimum (s : Asn1.size) : pybound :=
  match s with Asn1.SzNone => BNone | Asn1.SzRange lo _ _ => BInt lo end.
Definition size_maximum (s : Asn1.size) : pybound :=
  match s with
  | Asn1.SzNone => BNone
  | Asn1.SzRange _ None _ => BStr "MAX"
  | Asn1.SzRange _ (Some hi) _ => BInt hi
  end.

Theorem py_is_unbound_eq : forall s,
  PyPer.is_unbound (size_minimum s) (size_maximum s) = Ok (UperImpl.size_unbound s).
Proof.
  intros [|lo [hi|] ext]; reflexivity.
Qed.
Print Assumptions py_is_unbound_eq.
