(** Tie between the function REGENERATED from asn1tools/codecs/oer.py
    (coq/gen/PyOer.v, produced by translator/pyfun.py on every run) and the tag
    encoder of the hand-written OER implementation model (Oer/OerPrim.v).

    The model's [OerPrim.encode_tag] is written arithmetically ([flags + n],
    base-128 digits most significant first); the Python builds the octets with
    [|], a little-endian digit loop and a reversal.  [py_oer_encode_tag_digits_eq]
    ties the regenerated function, for all arguments, to the same computation
    written with the digit function of Ber/Header.v; [oer_tag_digits_prim]
    proves that this is the model's function on the flags the callers use
    (class bits only: 0, 64, 128, 192); [py_oer_encode_tag_eq] composes them. *)
From Asn1V Require Import Base.Prelude Base.Corr Py.PyRuntime Py.PyRuntimeProofs Py.PyBerTie.
From Asn1V Require Ber.Header Oer.OerPrim.
From Asn1Gen Require PyOer.

Arguments Z.mul : simpl never.
Arguments Z.add : simpl never.
Arguments Z.sub : simpl never.
Arguments Z.pow : simpl never.
Arguments Z.div : simpl never.
Arguments Z.modulo : simpl never.
Arguments Z.shiftr : simpl never.
Arguments Z.shiftl : simpl never.
Arguments Z.land : simpl never.
Arguments Z.lor : simpl never.
Arguments Z.log2 : simpl never.
Arguments Z.of_nat : simpl never.
Arguments Z.to_nat : simpl never.

(** oer.encode_tag written with Header.digits_le (the shape of ber.encode_tag, 63 instead of 31) *)
Definition oer_tag_digits (number flags : Z) : list Z :=
  if number <? 63 then [Z.lor flags number]
  else
    let enc := map (fun d => Z.lor 128 d) (Header.digits_le 7 (Header.digits_fuel number) number) in
    let enc := match enc with [] => [] | d0 :: r => Z.land d0 127 :: r end in
    Z.lor flags 63 :: rev enc.

Lemma oer_encode_tag_loop_step f acc n :
  PyOer.encode_tag_loop1 (S f) acc n =
  if n >? 0 then PyOer.encode_tag_loop1 f (acc ++ [Z.lor 128 (Z.land n 127)]) (Z.shiftr n 7)
  else Ok (acc, n).
Proof. reflexivity. Qed.

Lemma oer_encode_tag_loop_spec f : forall f' n acc,
  n < 2 ^ Z.of_nat f -> n < 2 ^ Z.of_nat f' ->
  exists n', n' <= 0 /\
  PyOer.encode_tag_loop1 (S f) acc n =
  Ok (acc ++ map (fun d => Z.lor 128 d) (Header.digits_le 7 f' n), n').
Proof.
  induction f as [|f IH]; intros f' n acc Hf Hf'; rewrite oer_encode_tag_loop_step.
  - change (2 ^ Z.of_nat 0) with 1 in Hf. destruct (n >? 0) eqn:E; [lia|].
    exists n. split; [lia|]. rewrite digits_le_nonpos by lia. cbn [map]. rewrite app_nil_r. reflexivity.
  - destruct (n >? 0) eqn:E.
    + destruct f' as [|f']; [change (2 ^ Z.of_nat 0) with 1 in Hf'; lia|].
      destruct (shiftr_bound 7 n f ltac:(lia) ltac:(lia) Hf) as [S1 S2].
      destruct (shiftr_bound 7 n f' ltac:(lia) ltac:(lia) Hf') as [_ S3].
      destruct (IH f' (Z.shiftr n 7) (acc ++ [Z.lor 128 (Z.land n 127)]) S2 S3) as (n' & N & R).
      exists n'. split; [exact N|]. rewrite R.
      cbn [Header.digits_le]. rewrite E. change (2 ^ 7 - 1) with 127. cbn [map].
      rewrite <- app_assoc. reflexivity.
    + exists n. split; [lia|]. rewrite digits_le_nonpos by lia. cbn [map]. rewrite app_nil_r. reflexivity.
Qed.

Lemma oer_encode_tag_loop_fuel n fuel acc :
  (Z.to_nat (Z.log2 n) + 2 <= fuel)%nat -> PyOer.encode_tag_loop1 fuel acc n <> Err EFuel.
Proof.
  intros Hf. destruct (fuel_bound_any n fuel Hf) as (f & -> & B).
  destruct (oer_encode_tag_loop_spec f f n acc B B) as (n' & _ & R). rewrite R. discriminate.
Qed.

Theorem py_oer_encode_tag_digits_eq : forall number flags fuel,
  0 <= number -> 0 <= flags < 256 -> (Z.to_nat (Z.log2 number) + 2 <= fuel)%nat ->
  PyOer.encode_tag fuel number flags = Ok (oer_tag_digits number flags).
Proof.
  intros number flags fuel Hn Hfl Hf. unfold PyOer.encode_tag, oer_tag_digits.
  destruct (number <? 63) eqn:E.
  - rewrite py_byte_ok by (apply lor_byte; lia). reflexivity.
  - rewrite py_byte_ok by (apply lor_byte; lia). cbn [bind].
    destruct (fuel_bound_any number fuel Hf) as (f & -> & B).
    destruct (oer_encode_tag_loop_spec f (Header.digits_fuel number) number [] B (digits_fuel_bound_any number))
      as (n' & _ & R).
    rewrite R. cbn [bind app].
    unfold Header.digits_fuel. cbn [Header.digits_le].
    destruct (number >? 0) eqn:E2; [|lia]. cbn [map].
    rewrite py_index_0. cbn [bind]. rewrite py_setitem_0. cbn [bind app]. reflexivity.
Qed.
Print Assumptions py_oer_encode_tag_digits_eq.
(* ------------------------------------------------------------------ *)
(** * The digit form is the model's OerPrim.encode_tag *)

Lemma lor_disjoint a b : Z.land a b = 0 -> Z.lor a b = a + b.
Proof. intros H. rewrite (Z.add_nocarry_lxor a b H). symmetry. apply Z.lxor_lor. exact H. Qed.

Lemma lor_128_low d : 0 <= d < 128 -> Z.lor 128 d = 128 + d.
Proof.
  intros H. apply lor_disjoint.
  replace d with (Z.land 127 d).
  - rewrite Z.land_assoc. reflexivity.
  - rewrite Z.land_comm. change 127 with (Z.ones 7). rewrite Z.land_ones by lia.
    apply Z.mod_small. change (2 ^ 7) with 128. lia.
Qed.

Lemma lor_class_flags fl x :
  fl = 0 \/ fl = 64 \/ fl = 128 \/ fl = 192 -> 0 <= x < 64 -> Z.lor fl x = fl + x.
Proof.
  intros Hf Hx. apply lor_disjoint.
  replace x with (Z.land 63 x).
  - rewrite Z.land_assoc. destruct Hf as [->|[->|[->| ->]]]; reflexivity.
  - rewrite Z.land_comm. change 63 with (Z.ones 6). rewrite Z.land_ones by lia.
    apply Z.mod_small. change (2 ^ 6) with 64. lia.
Qed.

(** [k] digits of [w], most significant first, all with the continuation bit *)
Fixpoint cont_digits (k : nat) (w : Z) : list Z :=
  match k with
  | O => []
  | S k' => (128 + (w / 128 ^ Z.of_nat k') mod 128) :: cont_digits k' w
  end.

Lemma pow128_pos k : 0 < 128 ^ Z.of_nat k.
Proof. apply Z.pow_pos_nonneg; lia. Qed.

Lemma div_div_128 w k : w / 128 / 128 ^ Z.of_nat k = w / 128 ^ Z.of_nat (S k).
Proof.
  pose proof (pow128_pos k).
  rewrite Z.div_div by lia. rewrite Nat2Z.inj_succ, Z.pow_succ_r by lia. reflexivity.
Qed.

Lemma b128_digits_low k : forall v,
  OerPrim.b128_digits (S k) v = cont_digits k (v / 128) ++ [v mod 128].
Proof.
  induction k as [|k IH]; intros v; [reflexivity|].
  change (OerPrim.b128_digits (S (S k)) v)
    with ((128 + (v / 128 ^ Z.of_nat (S k)) mod 128) :: OerPrim.b128_digits (S k) v).
  rewrite IH. cbn [cont_digits app]. rewrite div_div_128. reflexivity.
Qed.

Lemma cont_digits_low k : forall w,
  cont_digits (S k) w = cont_digits k (w / 128) ++ [128 + w mod 128].
Proof.
  induction k as [|k IH]; intros w.
  - cbn [cont_digits app]. change (128 ^ Z.of_nat 0) with 1. rewrite Z.div_1_r. reflexivity.
  - change (cont_digits (S (S k)) w) with ((128 + (w / 128 ^ Z.of_nat (S k)) mod 128) :: cont_digits (S k) w).
    rewrite IH. cbn [cont_digits app]. rewrite div_div_128. reflexivity.
Qed.

(** [w] has exactly [k] base-128 digits (k = 0: w = 0) *)
Definition digits_exact (k : nat) (w : Z) : Prop := 128 ^ (Z.of_nat k - 1) <= w < 128 ^ Z.of_nat k.

Lemma digits_exact_div k w : digits_exact (S k) w -> digits_exact k (w / 128).
Proof.
  unfold digits_exact. intros [L U].
  replace (Z.of_nat (S k) - 1) with (Z.of_nat k) in L by lia.
  rewrite Nat2Z.inj_succ, Z.pow_succ_r in U by lia.
  split.
  - destruct k as [|k].
    + change (128 ^ (Z.of_nat 0 - 1)) with 0. apply Z.div_pos; lia.
    + replace (Z.of_nat (S k) - 1) with (Z.of_nat k) by lia.
      rewrite Nat2Z.inj_succ, Z.pow_succ_r in L by lia.
      apply Z.div_le_lower_bound; lia.
  - apply Z.div_lt_upper_bound; lia.
Qed.

Lemma digits_le_cont k : forall w f,
  digits_exact k w -> (k <= f)%nat ->
  rev (map (fun d => Z.lor 128 d) (Header.digits_le 7 f w)) = cont_digits k w.
Proof.
  induction k as [|k IH]; intros w f He Hf.
  - unfold digits_exact in He. change (128 ^ Z.of_nat 0) with 1 in He.
    rewrite digits_le_nonpos by lia. reflexivity.
  - destruct f as [|f]; [lia|].
    assert (Hw : 0 < w).
    { destruct He as [L _]. replace (Z.of_nat (S k) - 1) with (Z.of_nat k) in L by lia.
      pose proof (pow128_pos k). lia. }
    cbn [Header.digits_le]. destruct (w >? 0) eqn:E; [|lia].
    cbn [map rev]. rewrite Z.shiftr_div_pow2 by lia. change (2 ^ 7) with 128.
    rewrite (IH (w / 128) f (digits_exact_div _ _ He) ltac:(lia)).
    rewrite cont_digits_low. f_equal. f_equal.
    change (128 - 1) with (Z.ones 7). rewrite Z.land_ones by lia. change (2 ^ 7) with 128.
    apply lor_128_low. apply Z.mod_pos_bound. lia.
Qed.

Lemma oer_bit_length_bounds v : 0 < v ->
  1 <= OerPrim.bit_length v /\ 2 ^ (OerPrim.bit_length v - 1) <= v < 2 ^ OerPrim.bit_length v.
Proof.
  intros H. unfold OerPrim.bit_length. destruct (v <=? 0) eqn:E; [lia|].
  pose proof (Z.log2_nonneg v). destruct (Z.log2_spec v H) as [L U].
  replace (Z.log2 v + 1 - 1) with (Z.log2 v) by lia.
  replace (Z.log2 v + 1) with (Z.succ (Z.log2 v)) by lia. lia.
Qed.

Lemma b128_len_exact v : 0 < v -> digits_exact (Z.to_nat (OerPrim.b128_len v)) v.
Proof.
  intros H. destruct (oer_bit_length_bounds v H) as (B1 & L & U).
  unfold digits_exact, OerPrim.b128_len.
  set (bl := OerPrim.bit_length v) in *.
  replace (Z.max bl 1) with bl by lia.
  pose proof (Z.div_mod (bl + 6) 7 ltac:(lia)) as D.
  pose proof (Z.mod_pos_bound (bl + 6) 7 ltac:(lia)) as D2.
  set (k := (bl + 6) / 7) in *.
  rewrite Z2Nat.id by lia.
  change 128 with (2 ^ 7). rewrite <- !Z.pow_mul_r by lia.
  split.
  - apply Z.le_trans with (2 ^ (bl - 1)); [|exact L]. apply Z.pow_le_mono_r; lia.
  - apply Z.lt_le_trans with (2 ^ bl); [exact U|]. apply Z.pow_le_mono_r; lia.
Qed.

Lemma b128_len_fuel v : 0 < v -> (Z.to_nat (OerPrim.b128_len v) <= S (Z.to_nat (Z.log2 v)))%nat.
Proof.
  intros H. unfold OerPrim.b128_len, OerPrim.bit_length. destruct (v <=? 0) eqn:E; [lia|].
  pose proof (Z.log2_nonneg v).
  replace (Z.max (Z.log2 v + 1) 1) with (Z.log2 v + 1) by lia.
  Z.div_mod_to_equations. lia.
Qed.

Theorem oer_tag_digits_prim : forall number flags,
  0 <= number -> flags = 0 \/ flags = 64 \/ flags = 128 \/ flags = 192 ->
  oer_tag_digits number flags = OerPrim.encode_tag number flags.
Proof.
  intros number flags Hn Hfl. unfold oer_tag_digits, OerPrim.encode_tag.
  destruct (number <? 63) eqn:E.
  - rewrite lor_class_flags by (try exact Hfl; lia). reflexivity.
  - rewrite lor_class_flags by (try exact Hfl; lia). f_equal.
    assert (Hp : 0 < number) by lia.
    pose proof (b128_len_exact number Hp) as He.
    pose proof (b128_len_fuel number Hp) as Hf.
    destruct (Z.to_nat (OerPrim.b128_len number)) as [|k] eqn:K.
    { unfold digits_exact in He. change (128 ^ Z.of_nat 0) with 1 in He. lia. }
    rewrite b128_digits_low.
    unfold Header.digits_fuel. cbn [Header.digits_le].
    destruct (number >? 0) eqn:E2; [|lia]. cbn [map rev].
    rewrite Z.shiftr_div_pow2 by lia. change (2 ^ 7) with 128.
    rewrite (digits_le_cont k (number / 128) (Z.to_nat (Z.log2 number)) (digits_exact_div _ _ He) ltac:(lia)).
    f_equal. f_equal.
    change (128 - 1) with (Z.ones 7). rewrite Z.land_ones by lia. change (2 ^ 7) with 128.
    pose proof (Z.mod_pos_bound number 128 ltac:(lia)) as M.
    rewrite lor_128_low by exact M.
    change 127 with (Z.ones 7). rewrite Z.land_ones by lia. change (2 ^ 7) with 128.
    replace (128 + number mod 128) with (number mod 128 + 1 * 128) by lia.
    rewrite Z.mod_add by lia. apply Z.mod_mod. lia.
Qed.
Print Assumptions oer_tag_digits_prim.

Theorem py_oer_encode_tag_eq : forall number flags fuel,
  0 <= number -> flags = 0 \/ flags = 64 \/ flags = 128 \/ flags = 192 ->
  (Z.to_nat (Z.log2 number) + 2 <= fuel)%nat ->
  PyOer.encode_tag fuel number flags = Ok (OerPrim.encode_tag number flags).
Proof.
  intros number flags fuel Hn Hfl Hf.
  rewrite py_oer_encode_tag_digits_eq by (try assumption; lia).
  rewrite oer_tag_digits_prim by assumption. reflexivity.
Qed.
Print Assumptions py_oer_encode_tag_eq.

(** with other flag bits the Python ORs where the model adds: outside the callers' domain *)
Example py_oer_encode_tag_disagree :
  PyOer.encode_tag 20 1 1 = Ok [1] /\ OerPrim.encode_tag 1 1 = [2].
Proof. split; vm_compute; reflexivity. Qed.
