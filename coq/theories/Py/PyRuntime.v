(** Runtime of the Python-subset translator (translator/pyfun.py).

    The generated files coq/gen/Py*.v are shallow Gallina: Python ints are [Z],
    bytes / bytearray / lists of ints are [list Z], [None]-able values are
    [option], tuples are products, and every translated function returns
    [result T] (Base/Prelude.v): a raised exception is [Err] of its class.  This
    file gives the meaning of the Python primitives the subset uses.  It is the
    TRUSTED part of the tie (together with the translator): each definition
    states what CPython does, including the partiality (IndexError, ValueError,
    OverflowError, TypeError, ZeroDivisionError); harness/pyfun_tie.py
    cross-checks it differentially against the real interpreter on every run.

    No proofs here (Py/PyRuntimeProofs.v). *)
From Asn1V Require Import Base.Prelude Base.Corr.

(** ** Exceptions: the classes an [except] clause of the subset may name. *)
Inductive pyexc : Type :=
| XIndexError | XValueError | XTypeError | XOverflowError | XZeroDivisionError
| XDecodeError            (* asn1tools.codecs.DecodeError and every subclass *)
| XOutOfByteDataError     (* ber.OutOfByteDataError and its subclass MissingDataError *)
| XMissingDataError       (* ber.MissingDataError *)
| XOutOfDataError         (* codecs.OutOfDataError (per/oer) *)
| XEncodeError.

Definition foreign_is (k : string) (e : err) : bool :=
  match e with EForeign k' => String.eqb k k' | _ => false end.

(** [exc_matches c e]: would [except c:] catch the exception modelled by [e]?
    [EFuel] and [EUnmodelled] are not Python exceptions: nothing catches them. *)
Definition exc_matches (c : pyexc) (e : err) : bool :=
  match c with
  | XIndexError => foreign_is "IndexError" e
  | XValueError => foreign_is "ValueError" e
  | XTypeError => foreign_is "TypeError" e
  | XOverflowError => foreign_is "OverflowError" e
  | XZeroDivisionError => foreign_is "ZeroDivisionError" e
  | XDecodeError => is_decode_error e
  | XOutOfByteDataError => match e with EOutOfData | EMissing _ _ => true | _ => false end
  | XMissingDataError => match e with EMissing _ _ => true | _ => false end
  | XOutOfDataError => match e with EOutOfData => true | _ => false end
  | XEncodeError => match e with EEncode => true | _ => false end
  end.

(** [try: r  except ...: h]; [h e = None] when no clause matches. *)
Definition py_try {A} (r : result A) (h : err -> option (result A)) : result A :=
  match r with
  | Ok a => Ok a
  | Err e => match h e with Some r' => r' | None => Err e end
  end.

(** ** ints *)
Definition py_bit_length (n : Z) : Z := if n =? 0 then 0 else Z.log2 (Z.abs n) + 1.
Definition py_truthy (n : Z) : bool := negb (n =? 0).

(** [a // b], [a % b]: floor division (Coq's [Z.div]/[Z.modulo] have Python's sign convention). *)
Definition py_floordiv (a b : Z) : result Z :=
  if b =? 0 then Err (EForeign "ZeroDivisionError") else Ok (a / b).
Definition py_mod (a b : Z) : result Z :=
  if b =? 0 then Err (EForeign "ZeroDivisionError") else Ok (a mod b).
(** [a << b], [a >> b] with a shift count that is not a literal *)
Definition py_shiftl (a b : Z) : result Z :=
  if b <? 0 then Err (EForeign "ValueError") else Ok (Z.shiftl a b).
Definition py_shiftr (a b : Z) : result Z :=
  if b <? 0 then Err (EForeign "ValueError") else Ok (Z.shiftr a b).

(** ** sequences of ints *)
Definition py_len (l : list Z) : Z := Z.of_nat (length l).

(** [l[i]], negative [i] counts from the end *)
Definition py_index (l : list Z) (i : Z) : result Z :=
  let j := if i <? 0 then i + py_len l else i in
  if j <? 0 then Err (EForeign "IndexError")
  else match nth_error l (Z.to_nat j) with
       | Some x => Ok x
       | None => Err (EForeign "IndexError")
       end.

(** a slice bound: negative counts from the end, then clamped to [0, n] *)
Definition py_bound (n i : Z) : Z := if i <? 0 then Z.max 0 (i + n) else Z.min i n.
(** [l[a:b]], [l[a:]], [l[:b]] *)
Definition py_slice (l : list Z) (a b : Z) : list Z :=
  let n := py_len l in
  let a' := py_bound n a in
  let b' := py_bound n b in
  firstn (Z.to_nat (b' - a')) (skipn (Z.to_nat a') l).
Definition py_slice_from (l : list Z) (a : Z) : list Z := skipn (Z.to_nat (py_bound (py_len l) a)) l.
Definition py_slice_to (l : list Z) (b : Z) : list Z := firstn (Z.to_nat (py_bound (py_len l) b)) l.

(** an element stored into a bytearray must be in range(256) *)
Definition py_byte (x : Z) : result Z :=
  if (0 <=? x) && (x <? 256) then Ok x else Err (EForeign "ValueError").

Fixpoint set_nth (l : list Z) (n : nat) (x : Z) : option (list Z) :=
  match l, n with
  | [], _ => None
  | _ :: r, O => Some (x :: r)
  | y :: r, S m => match set_nth r m x with Some r' => Some (y :: r') | None => None end
  end.
(** [l[i] = x] *)
Definition py_setitem (l : list Z) (i x : Z) : result (list Z) :=
  let j := if i <? 0 then i + py_len l else i in
  if j <? 0 then Err (EForeign "IndexError")
  else match set_nth l (Z.to_nat j) x with
       | Some l' => Ok l'
       | None => Err (EForeign "IndexError")
       end.

(** [x = l.pop(0)]: the element and the remaining list *)
Definition py_pop0 (l : list Z) : result (Z * list Z) :=
  match l with [] => Err (EForeign "IndexError") | x :: r => Ok (x, r) end.

(** [int(binascii.hexlify(bs), 16)]: int('', 16) raises ValueError *)
Definition be_number (bs : list Z) : result Z :=
  match bs with [] => Err (EForeign "ValueError") | _ => Ok (be_value bs) end.

Fixpoint le_bytes (len : nat) (n : Z) : list Z :=
  match len with
  | O => []
  | S l => n mod 256 :: le_bytes l (n / 256)
  end.
(** [n.to_bytes(length=len, byteorder='big', signed=True)] *)
Definition to_bytes_signed (n len : Z) : result (list Z) :=
  if len <? 0 then Err (EForeign "ValueError")
  else if (if len =? 0 then n =? 0
           else (- 2 ^ (8 * len - 1) <=? n) && (n <? 2 ^ (8 * len - 1)))
  then Ok (rev (le_bytes (Z.to_nat len) n))
  else Err (EForeign "OverflowError").

(** an operand of [+] (inside [sum(...)]) that may be None *)
Definition py_int_of_opt (o : option Z) : result Z :=
  match o with Some v => Ok v | None => Err (EForeign "TypeError") end.

(** ** values of mixed type *)

(** a constraint bound as per.py sees it: None, a string ('MIN'/'MAX') or an int *)
Inductive pybound : Type := BNone | BStr (s : string) | BInt (z : Z).
Definition pybound_eqb (a b : pybound) : bool :=
  match a, b with
  | BNone, BNone => true
  | BStr s, BStr t => String.eqb s t
  | BInt x, BInt y => x =? y
  | _, _ => false
  end.
(** [x in [c1, c2, ...]] *)
Definition py_bound_in (x : pybound) (cs : list pybound) : bool := existsb (pybound_eqb x) cs.
(** [x > n] for an int [n]: TypeError unless [x] is an int *)
Definition py_bound_int (x : pybound) : result Z :=
  match x with BInt z => Ok z | _ => Err (EForeign "TypeError") end.

(** an argument that is an int or a bytes object (per.to_int) *)
Inductive pyintbytes : Type := IBInt (z : Z) | IBBytes (b : list Z).
