(** Tie between the functions REGENERATED from asn1tools/codecs/ber.py
    (coq/gen/PyBer.v, produced by translator/pyfun.py on every run) and the
    functions the hand-written BER/DER implementation models use
    (Ber/Header.v, Ber/BerCommon.v).  One theorem per regenerated function, for
    all arguments of the stated domain, error outcomes included; every loop
    has an explicit fuel bound under which [EFuel] is unreachable.

    Conventions: the IM uses [nat] offsets, the regenerated code Python ints
    ([Z]); a theorem about an offset is stated at [Z.of_nat off] (the callers
    only produce non-negative offsets; for negative ones Python indexes from
    the end, which the IM does not model).  [bytes_ok data] says every element
    is in 0..255 (what a Python bytes object guarantees). *)
From Asn1V Require Import Base.Prelude Base.Corr Py.PyRuntime Py.PyRuntimeProofs.
From Asn1V Require Syntax.Asn1 Ber.Header Ber.BerCommon.
From Asn1Gen Require PyBer.

Arguments Z.mul : simpl never.
Arguments Z.add : simpl never.
Arguments Z.sub : simpl never.
Arguments Z.pow : simpl never.
Arguments Z.div : simpl never.
Arguments Z.modulo : simpl never.
Arguments Z.shiftr : simpl never.
Arguments Z.shiftl : simpl never.
Arguments Z.land : simpl never.
Arguments Z.lor : simpl never.
Arguments Z.log2 : simpl never.
Arguments Z.of_nat : simpl never.
Arguments Z.to_nat : simpl never.

(** [r] with its offset component mapped back to a Python int *)
Definition off_z (r : result nat) : result Z :=
  match r with Ok o => Ok (Z.of_nat o) | Err e => Err e end.
Definition snd_off_z {A} (r : result (A * nat)) : result (A * Z) :=
  match r with Ok (a, o) => Ok (a, Z.of_nat o) | Err e => Err e end.

(* ------------------------------------------------------------------ *)
(** * Arithmetic helpers *)

Lemma pow2_pos k : 0 <= k -> 0 < 2 ^ k.
Proof. intros. apply Z.pow_pos_nonneg; lia. Qed.

Lemma lt_pow2_of_log2 n m : 0 <= n -> Z.log2 n < m -> n < 2 ^ m.
Proof.
  intros Hn H. destruct (Z.eq_dec n 0) as [->|N].
  - apply pow2_pos. pose proof (Z.log2_nonneg 0). lia.
  - apply Z.log2_lt_pow2; lia.
Qed.

Lemma shiftr_bound k n m :
  0 < k -> 0 <= n -> n < 2 ^ Z.of_nat (S m) -> 0 <= Z.shiftr n k < 2 ^ Z.of_nat m.
Proof.
  intros Hk Hn H. rewrite Z.shiftr_div_pow2 by lia.
  assert (P : 0 < 2 ^ k) by (apply pow2_pos; lia).
  assert (Q : 0 < 2 ^ Z.of_nat m) by (apply pow2_pos; lia).
  assert (K : 2 <= 2 ^ k).
  { change 2 with (2 ^ 1) at 1. apply Z.pow_le_mono_r; lia. }
  rewrite Nat2Z.inj_succ, Z.pow_succ_r in H by lia.
  split.
  - apply Z.div_pos; lia.
  - apply Z.div_lt_upper_bound; [lia|]. nia.
Qed.

Lemma fuel_bound n fuel :
  0 <= n -> (Z.to_nat (Z.log2 n) + 2 <= fuel)%nat ->
  exists f, fuel = S f /\ n < 2 ^ Z.of_nat f.
Proof.
  intros Hn H. destruct fuel as [|f]; [lia|]. exists f. split; [reflexivity|].
  apply lt_pow2_of_log2; [lia|]. pose proof (Z.log2_nonneg n). lia.
Qed.

Lemma digits_fuel_bound n : 0 <= n -> n < 2 ^ Z.of_nat (Header.digits_fuel n).
Proof.
  intros Hn. unfold Header.digits_fuel. apply lt_pow2_of_log2; [lia|].
  pose proof (Z.log2_nonneg n). lia.
Qed.

(** number of base-2^k digits *)
Lemma digits_le_length k f : forall n m,
  0 < k -> 0 <= n < 2 ^ (k * Z.of_nat m) -> (length (Header.digits_le k f n) <= m)%nat.
Proof.
  induction f as [|f IH]; intros n m Hk Hn; [simpl; lia|].
  cbn [Header.digits_le]. destruct (n >? 0) eqn:E; [|simpl; lia].
  destruct m as [|m].
  - replace (k * Z.of_nat 0) with 0 in Hn by lia. change (2 ^ 0) with 1 in Hn. lia.
  - cbn [length]. apply le_n_S. apply IH; [lia|].
    rewrite Z.shiftr_div_pow2 by lia.
    assert (P : 0 < 2 ^ k) by (apply pow2_pos; lia).
    split; [apply Z.div_pos; lia|].
    apply Z.div_lt_upper_bound; [lia|].
    rewrite <- Z.pow_add_r by lia.
    replace (k + k * Z.of_nat m) with (k * Z.of_nat (S m)) by lia. lia.
Qed.

(** digits of a number that is not positive *)
Lemma digits_le_nonpos k f n : n <= 0 -> Header.digits_le k f n = [].
Proof. intros H. destruct f; [reflexivity|]. cbn [Header.digits_le]. destruct (n >? 0) eqn:E; [lia|reflexivity]. Qed.

(* ------------------------------------------------------------------ *)
(** * encode_length_definite *)

Lemma encode_length_definite_loop_step f acc n :
  PyBer.encode_length_definite_loop1 (S f) acc n =
  if n >? 0 then PyBer.encode_length_definite_loop1 f (acc ++ [Z.land n 255]) (Z.shiftr n 8)
  else Ok (acc, n).
Proof. reflexivity. Qed.

Lemma encode_length_definite_loop_spec f : forall f' n acc,
  0 <= n -> n < 2 ^ Z.of_nat f -> n < 2 ^ Z.of_nat f' ->
  PyBer.encode_length_definite_loop1 (S f) acc n = Ok (acc ++ Header.digits_le 8 f' n, 0).
Proof.
  induction f as [|f IH]; intros f' n acc Hn Hf Hf'; rewrite encode_length_definite_loop_step.
  - change (2 ^ Z.of_nat 0) with 1 in Hf. assert (n = 0) by lia. subst n.
    rewrite digits_le_nonpos by lia. rewrite app_nil_r. reflexivity.
  - destruct (n >? 0) eqn:E.
    + destruct f' as [|f']; [change (2 ^ Z.of_nat 0) with 1 in Hf'; lia|].
      destruct (shiftr_bound 8 n f ltac:(lia) Hn Hf) as [S1 S2].
      destruct (shiftr_bound 8 n f' ltac:(lia) Hn Hf') as [_ S3].
      rewrite (IH f' (Z.shiftr n 8) (acc ++ [Z.land n 255]) S1 S2 S3).
      cbn [Header.digits_le]. rewrite E. change (2 ^ 8 - 1) with 255.
      rewrite <- app_assoc. reflexivity.
    + assert (n = 0) by lia. subst n.
      rewrite digits_le_nonpos by lia. rewrite app_nil_r. reflexivity.
Qed.

(** out of fuel is unreachable with the stated bound *)
Lemma encode_length_definite_loop_fuel n fuel acc :
  0 <= n -> (Z.to_nat (Z.log2 n) + 2 <= fuel)%nat ->
  PyBer.encode_length_definite_loop1 fuel acc n <> Err EFuel.
Proof.
  intros Hn Hf. destruct (fuel_bound n fuel Hn Hf) as (f & -> & B).
  rewrite (encode_length_definite_loop_spec f f n acc Hn B B). discriminate.
Qed.

Theorem py_encode_length_definite_eq : forall n fuel,
  0 <= n < 2 ^ 2040 -> (Z.to_nat (Z.log2 n) + 2 <= fuel)%nat ->
  PyBer.encode_length_definite fuel n = Ok (Header.encode_length_definite n).
Proof.
  intros n fuel Hn Hf. unfold PyBer.encode_length_definite, Header.encode_length_definite.
  destruct (n <=? 127) eqn:E.
  - rewrite py_byte_ok by lia. reflexivity.
  - destruct (fuel_bound n fuel ltac:(lia) Hf) as (f & -> & B).
    rewrite (encode_length_definite_loop_spec f (Header.digits_fuel n) n [] ltac:(lia) B
               (digits_fuel_bound n ltac:(lia))).
    cbn [bind app].
    set (enc := Header.digits_le 8 (Header.digits_fuel n) n).
    assert (L : (length enc <= 255)%nat).
    { apply digits_le_length; [lia|]. change (8 * Z.of_nat 255) with 2040. lia. }
    rewrite py_byte_ok by (apply lor_byte; unfold py_len; lia).
    cbn [bind]. reflexivity.
Qed.
Print Assumptions py_encode_length_definite_eq.

(* ------------------------------------------------------------------ *)
(** * encode_signed_integer *)

Lemma le_bytes_eq len : forall n, PyRuntime.le_bytes len n = BerCommon.le_bytes len n.
Proof. induction len as [|l IH]; intros n; [reflexivity|]. cbn [PyRuntime.le_bytes BerCommon.le_bytes]. rewrite IH. reflexivity. Qed.

Theorem py_encode_signed_integer_eq : forall n,
  PyBer.encode_signed_integer n = Ok (BerCommon.encode_signed_integer n).
Proof.
  intros n. unfold PyBer.encode_signed_integer, BerCommon.encode_signed_integer, BerCommon.be_bytes,
              BerCommon.int_byte_length.
  change BerCommon.bit_length with py_bit_length.
  replace (Z.b2z (n <? 0)) with (if n <? 0 then 1 else 0) by (destruct (n <? 0); reflexivity).
  set (m := n + (if n <? 0 then 1 else 0)).
  pose proof (py_bit_length_nonneg m) as B0.
  pose proof (py_bit_length_bound m) as B1.
  set (B := py_bit_length m) in *.
  pose proof (Z.div_mod (8 + B) 8 ltac:(lia)) as D.
  pose proof (Z.mod_pos_bound (8 + B) 8 ltac:(lia)) as D2.
  set (L := (8 + B) / 8) in *.
  assert (P : 2 ^ B <= 2 ^ (8 * L - 1)) by (apply Z.pow_le_mono_r; lia).
  assert (Q : 0 < 2 ^ B) by (apply pow2_pos; lia).
  rewrite to_bytes_signed_fits.
  - rewrite le_bytes_eq. reflexivity.
  - lia.
  - subst m. destruct (n <? 0) eqn:E; lia.
Qed.
Print Assumptions py_encode_signed_integer_eq.

(* ------------------------------------------------------------------ *)
(** * encode_tag *)

Lemma py_index_0 x r : py_index (x :: r) 0 = Ok x.
Proof. reflexivity. Qed.
Lemma py_setitem_0 x r v : py_setitem (x :: r) 0 v = Ok (v :: r).
Proof. reflexivity. Qed.

Lemma fuel_bound_any n fuel :
  (Z.to_nat (Z.log2 n) + 2 <= fuel)%nat -> exists f, fuel = S f /\ n < 2 ^ Z.of_nat f.
Proof.
  intros H. destruct (Z.le_gt_cases 0 n) as [Hn|Hn].
  - apply fuel_bound; assumption.
  - destruct fuel as [|f]; [lia|]. exists f. split; [reflexivity|].
    pose proof (pow2_pos (Z.of_nat f) ltac:(lia)). lia.
Qed.

Lemma digits_fuel_bound_any n : n < 2 ^ Z.of_nat (Header.digits_fuel n).
Proof.
  destruct (Z.le_gt_cases 0 n) as [Hn|Hn]; [apply digits_fuel_bound; exact Hn|].
  pose proof (pow2_pos (Z.of_nat (Header.digits_fuel n)) ltac:(lia)). lia.
Qed.

Lemma encode_tag_loop_step f acc n :
  PyBer.encode_tag_loop1 (S f) acc n =
  if n >? 0 then PyBer.encode_tag_loop1 f (acc ++ [Z.lor 128 (Z.land n 127)]) (Z.shiftr n 7)
  else Ok (acc, n).
Proof. reflexivity. Qed.

Lemma encode_tag_loop_spec f : forall f' n acc,
  n < 2 ^ Z.of_nat f -> n < 2 ^ Z.of_nat f' ->
  exists n', n' <= 0 /\
  PyBer.encode_tag_loop1 (S f) acc n =
  Ok (acc ++ map (fun d => Z.lor 128 d) (Header.digits_le 7 f' n), n').
Proof.
  induction f as [|f IH]; intros f' n acc Hf Hf'; rewrite encode_tag_loop_step.
  - change (2 ^ Z.of_nat 0) with 1 in Hf. destruct (n >? 0) eqn:E; [lia|].
    exists n. split; [lia|]. rewrite digits_le_nonpos by lia. cbn [map]. rewrite app_nil_r. reflexivity.
  - destruct (n >? 0) eqn:E.
    + destruct f' as [|f']; [change (2 ^ Z.of_nat 0) with 1 in Hf'; lia|].
      destruct (shiftr_bound 7 n f ltac:(lia) ltac:(lia) Hf) as [S1 S2].
      destruct (shiftr_bound 7 n f' ltac:(lia) ltac:(lia) Hf') as [_ S3].
      destruct (IH f' (Z.shiftr n 7) (acc ++ [Z.lor 128 (Z.land n 127)]) S2 S3) as (n' & N & R).
      exists n'. split; [exact N|]. rewrite R.
      cbn [Header.digits_le]. rewrite E. change (2 ^ 7 - 1) with 127. cbn [map].
      rewrite <- app_assoc. reflexivity.
    + exists n. split; [lia|]. rewrite digits_le_nonpos by lia. cbn [map]. rewrite app_nil_r. reflexivity.
Qed.

Lemma encode_tag_loop_fuel n fuel acc :
  (Z.to_nat (Z.log2 n) + 2 <= fuel)%nat -> PyBer.encode_tag_loop1 fuel acc n <> Err EFuel.
Proof.
  intros Hf. destruct (fuel_bound_any n fuel Hf) as (f & -> & B).
  destruct (encode_tag_loop_spec f f n acc B B) as (n' & _ & R). rewrite R. discriminate.
Qed.

Theorem py_encode_tag_eq : forall number flags fuel,
  0 <= number -> 0 <= flags < 256 -> (Z.to_nat (Z.log2 number) + 2 <= fuel)%nat ->
  PyBer.encode_tag fuel number flags = Ok (Header.encode_tag number flags).
Proof.
  intros number flags fuel Hn Hfl Hf. unfold PyBer.encode_tag, Header.encode_tag.
  destruct (number <? 31) eqn:E.
  - rewrite py_byte_ok by (apply lor_byte; lia). reflexivity.
  - rewrite py_byte_ok by (apply lor_byte; lia). cbn [bind].
    destruct (fuel_bound_any number fuel Hf) as (f & -> & B).
    destruct (encode_tag_loop_spec f (Header.digits_fuel number) number [] B (digits_fuel_bound_any number))
      as (n' & _ & R).
    rewrite R. cbn [bind app].
    unfold Header.digits_fuel. cbn [Header.digits_le].
    destruct (number >? 0) eqn:E2; [|lia]. cbn [map].
    rewrite py_index_0. cbn [bind]. rewrite py_setitem_0. cbn [bind app]. reflexivity.
Qed.
Print Assumptions py_encode_tag_eq.

(* ------------------------------------------------------------------ *)
(** * encode_object_identifier_subidentifier *)

Lemma encode_subid_loop_step f acc n :
  PyBer.encode_object_identifier_subidentifier_loop1 (S f) acc n =
  if n >? 0 then PyBer.encode_object_identifier_subidentifier_loop1 f (acc ++ [Z.lor 128 (Z.land n 127)]) (Z.shiftr n 7)
  else Ok (acc, n).
Proof. reflexivity. Qed.

Lemma encode_subid_loop_spec f : forall f' n acc,
  n < 2 ^ Z.of_nat f -> n < 2 ^ Z.of_nat f' ->
  exists n', n' <= 0 /\
  PyBer.encode_object_identifier_subidentifier_loop1 (S f) acc n =
  Ok (acc ++ map (fun d => Z.lor 128 d) (Header.digits_le 7 f' n), n').
Proof.
  induction f as [|f IH]; intros f' n acc Hf Hf'; rewrite encode_subid_loop_step.
  - change (2 ^ Z.of_nat 0) with 1 in Hf. destruct (n >? 0) eqn:E; [lia|].
    exists n. split; [lia|]. rewrite digits_le_nonpos by lia. cbn [map]. rewrite app_nil_r. reflexivity.
  - destruct (n >? 0) eqn:E.
    + destruct f' as [|f']; [change (2 ^ Z.of_nat 0) with 1 in Hf'; lia|].
      destruct (shiftr_bound 7 n f ltac:(lia) ltac:(lia) Hf) as [S1 S2].
      destruct (shiftr_bound 7 n f' ltac:(lia) ltac:(lia) Hf') as [_ S3].
      destruct (IH f' (Z.shiftr n 7) (acc ++ [Z.lor 128 (Z.land n 127)]) S2 S3) as (n' & N & R).
      exists n'. split; [exact N|]. rewrite R.
      cbn [Header.digits_le]. rewrite E. change (2 ^ 7 - 1) with 127. cbn [map].
      rewrite <- app_assoc. reflexivity.
    + exists n. split; [lia|]. rewrite digits_le_nonpos by lia. cbn [map]. rewrite app_nil_r. reflexivity.
Qed.

Lemma shiftr_le_self n k : 0 <= k -> 0 <= n -> Z.shiftr n k <= n.
Proof.
  intros Hk Hn. rewrite Z.shiftr_div_pow2 by lia.
  pose proof (pow2_pos k Hk).
  apply Z.div_le_upper_bound; [lia|]. nia.
Qed.

Lemma shiftr_neg_le n k : 0 <= k -> n < 0 -> Z.shiftr n k < 0.
Proof. intros Hk Hn. apply Z.shiftr_neg. exact Hn. Qed.

Lemma encode_subid_fuel s fuel :
  (Z.to_nat (Z.log2 s) + 2 <= fuel)%nat -> exists f, fuel = S f /\ Z.shiftr s 7 < 2 ^ Z.of_nat f.
Proof.
  intros H. destruct (fuel_bound_any s fuel H) as (f & -> & B). exists f. split; [reflexivity|].
  destruct (Z.le_gt_cases 0 s) as [Hs|Hs].
  - pose proof (shiftr_le_self s 7 ltac:(lia) Hs). lia.
  - pose proof (shiftr_neg_le s 7 ltac:(lia) Hs). pose proof (pow2_pos (Z.of_nat f) ltac:(lia)). lia.
Qed.

Lemma encode_subid_loop_fuel s fuel acc :
  (Z.to_nat (Z.log2 s) + 2 <= fuel)%nat ->
  PyBer.encode_object_identifier_subidentifier_loop1 fuel acc (Z.shiftr s 7) <> Err EFuel.
Proof.
  intros Hf. destruct (encode_subid_fuel s fuel Hf) as (f & -> & B).
  destruct (encode_subid_loop_spec f f _ acc B B) as (n' & _ & R). rewrite R. discriminate.
Qed.

(** for every int, negative ones included (the loop then does not run) *)
Theorem py_encode_object_identifier_subidentifier_eq : forall s fuel,
  (Z.to_nat (Z.log2 s) + 2 <= fuel)%nat ->
  PyBer.encode_object_identifier_subidentifier fuel s = Ok (BerCommon.encode_subid s).
Proof.
  intros s fuel Hf. unfold PyBer.encode_object_identifier_subidentifier, BerCommon.encode_subid.
  destruct (encode_subid_fuel s fuel Hf) as (f & -> & B).
  destruct (encode_subid_loop_spec f (Header.digits_fuel (Z.shiftr s 7)) (Z.shiftr s 7) [Z.land s 127] B
              (digits_fuel_bound_any _)) as (n' & _ & R).
  rewrite R. cbn [bind app]. reflexivity.
Qed.
Print Assumptions py_encode_object_identifier_subidentifier_eq.

(* ------------------------------------------------------------------ *)
(** * skip_tag, read_tag *)

Lemma skip_tag_loop_step f data off :
  PyBer.skip_tag_loop1 (S f) data off =
  let* t := py_index data off in
  if negb (Z.land t 128 =? 0) then PyBer.skip_tag_loop1 f data (off + 1) else Ok off.
Proof. reflexivity. Qed.

Lemma skip_high_err d : forall o e, Header.skip_high d o = Err e -> e = EOutOfData.
Proof.
  induction d as [|b d IH]; intros o e H; cbn [Header.skip_high] in H.
  - inversion H. reflexivity.
  - destruct (Z.land b 128 =? 0); [discriminate|]. eapply IH. exact H.
Qed.

(** the loop is [skip_high] up to the final [offset += 1]; running off the
    end is Python's IndexError (turned into OutOfByteDataError by the caller) *)
Lemma skip_tag_loop_spec data f : forall off,
  (length data - off + 1 <= f)%nat ->
  PyBer.skip_tag_loop1 f data (Z.of_nat off) =
  match Header.skip_high (skipn off data) off with
  | Ok o => Ok (Z.of_nat o - 1)
  | Err _ => Err (EForeign "IndexError")
  end.
Proof.
  induction f as [|f IH]; intros off Hf; [lia|].
  rewrite skip_tag_loop_step, py_index_nat.
  destruct (nth_error data off) as [b|] eqn:N.
  - rewrite (nth_error_skipn_cons _ _ _ N). cbn [bind Header.skip_high].
    destruct (Z.land b 128 =? 0) eqn:E; cbn [negb].
    + f_equal. lia.
    + replace (Z.of_nat off + 1) with (Z.of_nat (S off)) by lia.
      apply IH. assert (off < length data)%nat by (apply nth_error_Some; congruence). lia.
  - rewrite (nth_error_skipn_nil _ _ N). reflexivity.
Qed.

Lemma skip_tag_loop_fuel data fuel off :
  (length data + 1 <= fuel)%nat -> PyBer.skip_tag_loop1 fuel data (Z.of_nat off) <> Err EFuel.
Proof.
  intros Hf. rewrite skip_tag_loop_spec by lia.
  destruct (Header.skip_high (skipn off data) off); discriminate.
Qed.

Theorem py_skip_tag_eq : forall data off fuel,
  (length data + 1 <= fuel)%nat ->
  PyBer.skip_tag fuel data (Z.of_nat off) = off_z (Header.skip_tag data off).
Proof.
  intros data off fuel Hf. unfold PyBer.skip_tag, Header.skip_tag.
  rewrite py_index_nat.
  destruct (nth_error data off) as [b|] eqn:N.
  - rewrite (nth_error_skipn_cons _ _ _ N). cbn [bind].
    replace (Z.of_nat off + 1) with (Z.of_nat (S off)) by lia.
    destruct (Z.land b 31 =? 31) eqn:E.
    + rewrite skip_tag_loop_spec by lia.
      destruct (Header.skip_high (skipn (S off) data) (S off)) as [o|e] eqn:H.
      * cbn [bind py_try off_z]. unfold py_len.
        destruct (Z.of_nat o - 1 + 1 >=? Z.of_nat (length data)) eqn:C1;
          destruct (length data <=? o)%nat eqn:C2; cbn [off_z]; try lia; f_equal; lia.
      * rewrite (skip_high_err _ _ _ H). reflexivity.
    + cbn [bind py_try off_z]. unfold py_len.
      destruct (Z.of_nat (S off) >=? Z.of_nat (length data)) eqn:C1;
        destruct (length data <=? S off)%nat eqn:C2; cbn [off_z]; try lia; reflexivity.
  - rewrite (nth_error_skipn_nil _ _ N). reflexivity.
Qed.
Print Assumptions py_skip_tag_eq.

(** the IM has no separate read_tag: stated against the slice up to Header.skip_tag *)
Theorem py_read_tag_eq : forall data off fuel,
  (length data + 1 <= fuel)%nat ->
  PyBer.read_tag fuel data (Z.of_nat off) =
  match Header.skip_tag data off with Ok o => Ok (slice data off o) | Err e => Err e end.
Proof.
  intros data off fuel Hf. unfold PyBer.read_tag. rewrite py_skip_tag_eq by exact Hf.
  destruct (Header.skip_tag data off) as [o|e]; cbn [off_z bind]; [|reflexivity].
  rewrite py_slice_nat. reflexivity.
Qed.
Print Assumptions py_read_tag_eq.

(* ------------------------------------------------------------------ *)
(** * decode_length *)

Lemma byte_long_form_nonzero l0 :
  0 <= l0 < 256 -> Z.land l0 128 <> 0 -> l0 <> 128 -> 0 < Z.land l0 127.
Proof.
  intros B H1 H2.
  assert (N : 0 <= Z.land l0 127) by (apply Z.land_nonneg; lia).
  destruct (Z.eq_dec (Z.land l0 127) 0) as [Z0|]; [|lia]. exfalso.
  change 127 with (Z.ones 7) in Z0. rewrite Z.land_ones in Z0 by lia.
  change (2 ^ 7) with 128 in Z0.
  pose proof (Z.div_mod l0 128 ltac:(lia)) as D. rewrite Z0 in D.
  assert (Q : 0 <= l0 / 128 < 2).
  { split; [apply Z.div_pos; lia | apply Z.div_lt_upper_bound; lia]. }
  assert (C : l0 / 128 = 0 \/ l0 / 128 = 1) by lia.
  destruct C as [C|C]; rewrite C in D.
  - assert (l0 = 0) by lia. subst l0. apply H1. reflexivity.
  - lia.
Qed.

Lemma nth_error_byte data off b : bytes_ok data -> nth_error data off = Some b -> 0 <= b < 256.
Proof.
  intros H N. unfold bytes_ok in H. rewrite Forall_forall in H.
  apply (H b). eapply nth_error_In. exact N.
Qed.

Theorem py_decode_length_eq : forall enc off ed,
  bytes_ok enc ->
  PyBer.decode_length enc (Z.of_nat off) ed = snd_off_z (Header.decode_length enc off ed).
Proof.
  intros enc off ed HB. unfold PyBer.decode_length, Header.decode_length.
  rewrite py_index_nat.
  destruct (nth_error enc off) as [l0|] eqn:N; [|reflexivity].
  cbn [bind py_try].
  replace (Z.of_nat off + 1) with (Z.of_nat (S off)) by lia.
  pose proof (nth_error_byte _ _ _ HB N) as Bl.
  destruct (Z.land l0 128 =? 0) eqn:E1; cbn [negb].
  - unfold Header.check_missing, py_len.
    destruct (Z.of_nat (S off) + l0 >? Z.of_nat (length enc)); reflexivity.
  - destruct (l0 =? 128) eqn:E2.
    + destruct ed; reflexivity.
    + pose proof (byte_long_form_nonzero l0 Bl ltac:(lia) ltac:(lia)) as NB.
      set (nb := Z.land l0 127) in *.
      replace (nb + Z.of_nat (S off)) with (Z.of_nat (Z.to_nat nb + S off)) by lia.
      rewrite py_slice_nat.
      set (el := slice enc (S off) (Z.to_nat nb + S off)).
      assert (EQ : (py_len el =? nb) = (length el =? Z.to_nat nb)%nat).
      { unfold py_len. destruct (Z.of_nat (length el) =? nb) eqn:A;
          destruct (length el =? Z.to_nat nb)%nat eqn:B; try reflexivity; lia. }
      rewrite EQ.
      destruct (length el =? Z.to_nat nb)%nat eqn:L; cbn [negb]; [|reflexivity].
      destruct el as [|x el'] eqn:EL; [cbn [length] in L; lia|].
      rewrite be_number_cons. cbn [bind].
      unfold Header.check_missing, py_len.
      replace (Z.of_nat (S off) + nb) with (Z.of_nat (S off + Z.to_nat nb)) by lia.
      destruct (Z.of_nat (S off + Z.to_nat nb) + be_value (x :: el') >? Z.of_nat (length enc)); reflexivity.
Qed.
Print Assumptions py_decode_length_eq.

(* ------------------------------------------------------------------ *)
(** * skip_tag_length_contents, decode_full_length *)

Theorem py_skip_tag_length_contents_eq : forall data off fuel,
  bytes_ok data -> (length data + 1 <= fuel)%nat ->
  PyBer.skip_tag_length_contents fuel data (Z.of_nat off) = Header.skip_tag_length_contents data off.
Proof.
  intros data off fuel HB Hf. unfold PyBer.skip_tag_length_contents, Header.skip_tag_length_contents.
  rewrite py_skip_tag_eq by exact Hf.
  destruct (Header.skip_tag data off) as [o|e]; cbn [off_z bind]; [|reflexivity].
  rewrite py_decode_length_eq by exact HB.
  destruct (Header.decode_length data o true) as [[l o']|e]; cbn [snd_off_z bind]; [|reflexivity].
  destruct l as [len|]; cbn [py_int_of_opt bind]; [|reflexivity].
  replace (0 + len + Z.of_nat o') with (len + Z.of_nat o') by lia. reflexivity.
Qed.
Print Assumptions py_skip_tag_length_contents_eq.

Theorem py_decode_full_length_eq : forall data fuel,
  bytes_ok data -> (length data + 1 <= fuel)%nat ->
  PyBer.decode_full_length fuel data = Header.decode_full_length data.
Proof.
  intros data fuel HB Hf. unfold PyBer.decode_full_length, Header.decode_full_length.
  change 0 with (Z.of_nat 0) at 1.
  rewrite py_skip_tag_length_contents_eq by assumption.
  destruct (Header.skip_tag_length_contents data 0) as [n|e]; cbn [bind py_try]; [reflexivity|].
  destruct e; reflexivity.
Qed.
Print Assumptions py_decode_full_length_eq.

(** out of fuel is unreachable in the whole chain *)
Lemma header_skip_tag_err data off e : Header.skip_tag data off = Err e -> e = EOutOfData.
Proof.
  unfold Header.skip_tag. intros H.
  destruct (skipn off data) as [|b d'].
  - cbn [bind] in H. inversion H. reflexivity.
  - destruct (Z.land b 31 =? 31).
    + destruct (Header.skip_high d' (S off)) as [o|e'] eqn:SH; cbn [bind] in H.
      * destruct (length data <=? o)%nat; inversion H; reflexivity.
      * inversion H. subst. eapply skip_high_err. exact SH.
    + cbn [bind] in H. destruct (length data <=? S off)%nat; inversion H; reflexivity.
Qed.

Lemma header_decode_length_not_fuel enc off ed : Header.decode_length enc off ed <> Err EFuel.
Proof.
  unfold Header.decode_length, Header.check_missing.
  destruct (nth_error enc off); [|discriminate].
  repeat match goal with |- context [if ?c then _ else _] => destruct c end; discriminate.
Qed.

Corollary py_decode_full_length_fuel : forall data fuel,
  bytes_ok data -> (length data + 1 <= fuel)%nat -> PyBer.decode_full_length fuel data <> Err EFuel.
Proof.
  intros data fuel HB Hf. rewrite py_decode_full_length_eq by assumption.
  unfold Header.decode_full_length, Header.skip_tag_length_contents.
  destruct (Header.skip_tag data 0) as [o|e] eqn:S0; cbn [bind].
  - pose proof (header_decode_length_not_fuel data o true) as NF.
    destruct (Header.decode_length data o true) as [[l o']|e]; cbn [bind].
    + destruct l; discriminate.
    + destruct e; try discriminate. exfalso. apply NF. reflexivity.
  - rewrite (header_skip_tag_err _ _ _ S0). discriminate.
Qed.
Print Assumptions py_decode_full_length_fuel.

(* ------------------------------------------------------------------ *)
(** * detect_end_of_contents_tag, is_end_of_data *)

Lemma zlist_eqb_same a : forall b, Corr.zlist_eqb a b = Syntax.Asn1.zlist_eqb a b.
Proof.
  induction a as [|x a IH]; intros [|y b]; try reflexivity.
  cbn [Syntax.Asn1.zlist_eqb]. rewrite <- IH. reflexivity.
Qed.

Theorem py_detect_end_of_contents_tag_eq : forall data off,
  PyBer.detect_end_of_contents_tag data (Z.of_nat off) = BerCommon.detect_eoc data off.
Proof.
  intros data off. unfold PyBer.detect_end_of_contents_tag, BerCommon.detect_eoc.
  replace (Z.of_nat off + 2) with (Z.of_nat (off + 2)) by lia.
  rewrite py_slice_nat.
  set (two := slice data off (off + 2)).
  rewrite zlist_eqb_same.
  destruct (Syntax.Asn1.zlist_eqb two [0; 0]); [reflexivity|].
  unfold py_len.
  destruct (Z.of_nat (length two) =? 2) eqn:A; destruct (length two =? 2)%nat eqn:B;
    cbn [negb]; try reflexivity; lia.
Qed.
Print Assumptions py_detect_end_of_contents_tag_eq.

Theorem py_is_end_of_data_eq : forall data off endo,
  PyBer.is_end_of_data data (Z.of_nat off) (option_map Z.of_nat endo) =
  snd_off_z (BerCommon.is_end_of_data data off endo).
Proof.
  intros data off endo. unfold PyBer.is_end_of_data, BerCommon.is_end_of_data.
  destruct endo as [en|]; cbn [option_map].
  - cbn [snd_off_z].
    destruct (Z.of_nat off >=? Z.of_nat en) eqn:A; destruct (en <=? off)%nat eqn:B;
      try reflexivity; lia.
  - rewrite py_detect_end_of_contents_tag_eq.
    destruct (BerCommon.detect_eoc data off) as [b|e]; cbn [bind snd_off_z]; [|reflexivity].
    destruct b; cbn [snd_off_z]; f_equal; f_equal; lia.
Qed.
Print Assumptions py_is_end_of_data_eq.

(* ------------------------------------------------------------------ *)
(** * decode_object_identifier_subidentifier *)

Lemma decode_subid_loop_step f data dec off :
  PyBer.decode_object_identifier_subidentifier_loop1 (S f) data dec off =
  let* t1 := py_index data off in
  if negb (Z.land t1 128 =? 0) then
    let* t2 := py_index data off in
    PyBer.decode_object_identifier_subidentifier_loop1 f data (Z.shiftl (dec + Z.land t2 127) 7) (off + 1)
  else Ok (dec, off).
Proof. reflexivity. Qed.

Lemma decode_subid_spec data f : forall off acc,
  (length data - off + 1 <= f)%nat ->
  (let* (dec, o) := PyBer.decode_object_identifier_subidentifier_loop1 f data acc (Z.of_nat off) in
   let* t3 := py_index data o in Ok (dec + t3, o + 1)) =
  match BerCommon.decode_subid (skipn off data) acc with
  | Ok (v, n) => Ok (v, Z.of_nat (off + n))
  | Err e => Err e
  end.
Proof.
  induction f as [|f IH]; intros off acc Hf; [lia|].
  rewrite decode_subid_loop_step, py_index_nat.
  destruct (nth_error data off) as [b|] eqn:N.
  - rewrite (nth_error_skipn_cons _ _ _ N). cbn [bind BerCommon.decode_subid].
    destruct (Z.land b 128 =? 0) eqn:E; cbn [negb].
    + cbn [bind]. rewrite py_index_nat, N. cbn [bind]. f_equal. f_equal. lia.
    + cbn [bind].
      replace (Z.of_nat off + 1) with (Z.of_nat (S off)) by lia.
      rewrite Z.shiftl_mul_pow2 by lia. change (2 ^ 7) with 128.
      assert (off < length data)%nat by (apply nth_error_Some; congruence).
      rewrite IH by lia.
      destruct (BerCommon.decode_subid (skipn (S off) data) ((acc + Z.land b 127) * 128)) as [[v n]|e];
        cbn [bind]; [|reflexivity].
      f_equal. f_equal. lia.
  - rewrite (nth_error_skipn_nil _ _ N). reflexivity.
Qed.

Theorem py_decode_object_identifier_subidentifier_eq : forall data off fuel,
  (length data + 1 <= fuel)%nat ->
  PyBer.decode_object_identifier_subidentifier fuel data (Z.of_nat off) =
  match BerCommon.decode_subid (skipn off data) 0 with
  | Ok (v, n) => Ok (v, Z.of_nat (off + n))
  | Err e => Err e
  end.
Proof.
  intros data off fuel Hf. unfold PyBer.decode_object_identifier_subidentifier.
  apply decode_subid_spec. lia.
Qed.
Print Assumptions py_decode_object_identifier_subidentifier_eq.

Lemma decode_subid_no_fuel_err d : forall acc, BerCommon.decode_subid d acc <> Err EFuel.
Proof.
  induction d as [|b d IH]; intros acc; cbn [BerCommon.decode_subid]; [discriminate|].
  destruct (Z.land b 128 =? 0); [discriminate|].
  specialize (IH ((acc + Z.land b 127) * 128)).
  destruct (BerCommon.decode_subid d ((acc + Z.land b 127) * 128)) as [[v n]|e]; cbn [bind]; [discriminate|].
  intros H. apply IH. inversion H. reflexivity.
Qed.

Corollary py_decode_object_identifier_subidentifier_fuel : forall data off fuel,
  (length data + 1 <= fuel)%nat ->
  PyBer.decode_object_identifier_subidentifier fuel data (Z.of_nat off) <> Err EFuel.
Proof.
  intros data off fuel Hf. rewrite py_decode_object_identifier_subidentifier_eq by exact Hf.
  pose proof (decode_subid_no_fuel_err (skipn off data) 0) as NF.
  destruct (BerCommon.decode_subid (skipn off data) 0) as [[v n]|e]; [discriminate|].
  intros H. apply NF. inversion H. reflexivity.
Qed.
Print Assumptions py_decode_object_identifier_subidentifier_fuel.
