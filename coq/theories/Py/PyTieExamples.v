(** Executable examples of the REGENERATED helper functions (coq/gen/Py*.v) on
    boundary arguments: 127/128/255/256/65535/65536, tag numbers 30/31/127/128
    (62/63/64 for OER), offsets at and past the end of the data, truncated
    headers, negative offsets, error outcomes.  The expected values were
    produced by the real library functions (asn1tools.codecs.ber / per / oer
    at the pinned revision); each Example is checked by [vm_compute], so the
    file doubles as a sanity check that the translation is executable and
    that Py/PyRuntime.v means what CPython does on these inputs.
    harness/pyfun_tie.py re-does this comparison on fresh inputs on every run. *)
From Asn1V Require Import Base.Prelude Base.Corr Py.PyRuntime.
From Asn1Gen Require PyBer PyPer PyOer.

Example ex_PyBer_encode_length_definite_1 :
  PyBer.encode_length_definite 400%nat (0)%Z =
  (Ok [(0)%Z]).
Proof. vm_compute. reflexivity. Qed.

Example ex_PyBer_encode_length_definite_2 :
  PyBer.encode_length_definite 400%nat (127)%Z =
  (Ok [(127)%Z]).
Proof. vm_compute. reflexivity. Qed.

Example ex_PyBer_encode_length_definite_3 :
  PyBer.encode_length_definite 400%nat (128)%Z =
  (Ok [(129)%Z; (128)%Z]).
Proof. vm_compute. reflexivity. Qed.

Example ex_PyBer_encode_length_definite_4 :
  PyBer.encode_length_definite 400%nat (255)%Z =
  (Ok [(129)%Z; (255)%Z]).
Proof. vm_compute. reflexivity. Qed.

Example ex_PyBer_encode_length_definite_5 :
  PyBer.encode_length_definite 400%nat (256)%Z =
  (Ok [(130)%Z; (1)%Z; (0)%Z]).
Proof. vm_compute. reflexivity. Qed.

Example ex_PyBer_encode_length_definite_6 :
  PyBer.encode_length_definite 400%nat (65535)%Z =
  (Ok [(130)%Z; (255)%Z; (255)%Z]).
Proof. vm_compute. reflexivity. Qed.

Example ex_PyBer_encode_length_definite_7 :
  PyBer.encode_length_definite 400%nat (65536)%Z =
  (Ok [(131)%Z; (1)%Z; (0)%Z; (0)%Z]).
Proof. vm_compute. reflexivity. Qed.

Example ex_PyBer_encode_length_definite_8 :
  PyBer.encode_length_definite 400%nat (18446744073709551616)%Z =
  (Ok [(137)%Z; (1)%Z; (0)%Z; (0)%Z; (0)%Z; (0)%Z; (0)%Z; (0)%Z; (0)%Z; (0)%Z]).
Proof. vm_compute. reflexivity. Qed.

Example ex_PyBer_encode_signed_integer_1 :
  PyBer.encode_signed_integer (0)%Z =
  (Ok [(0)%Z]).
Proof. vm_compute. reflexivity. Qed.

Example ex_PyBer_encode_signed_integer_2 :
  PyBer.encode_signed_integer (127)%Z =
  (Ok [(127)%Z]).
Proof. vm_compute. reflexivity. Qed.

Example ex_PyBer_encode_signed_integer_3 :
  PyBer.encode_signed_integer (128)%Z =
  (Ok [(0)%Z; (128)%Z]).
Proof. vm_compute. reflexivity. Qed.

Example ex_PyBer_encode_signed_integer_4 :
  PyBer.encode_signed_integer (-128)%Z =
  (Ok [(128)%Z]).
Proof. vm_compute. reflexivity. Qed.

Example ex_PyBer_encode_signed_integer_5 :
  PyBer.encode_signed_integer (-129)%Z =
  (Ok [(255)%Z; (127)%Z]).
Proof. vm_compute. reflexivity. Qed.

Example ex_PyBer_encode_signed_integer_6 :
  PyBer.encode_signed_integer (255)%Z =
  (Ok [(0)%Z; (255)%Z]).
Proof. vm_compute. reflexivity. Qed.

Example ex_PyBer_encode_signed_integer_7 :
  PyBer.encode_signed_integer (256)%Z =
  (Ok [(1)%Z; (0)%Z]).
Proof. vm_compute. reflexivity. Qed.

Example ex_PyBer_encode_signed_integer_8 :
  PyBer.encode_signed_integer (32767)%Z =
  (Ok [(127)%Z; (255)%Z]).
Proof. vm_compute. reflexivity. Qed.

Example ex_PyBer_encode_signed_integer_9 :
  PyBer.encode_signed_integer (32768)%Z =
  (Ok [(0)%Z; (128)%Z; (0)%Z]).
Proof. vm_compute. reflexivity. Qed.

Example ex_PyBer_encode_signed_integer_10 :
  PyBer.encode_signed_integer (-32768)%Z =
  (Ok [(128)%Z; (0)%Z]).
Proof. vm_compute. reflexivity. Qed.

Example ex_PyBer_encode_signed_integer_11 :
  PyBer.encode_signed_integer (-32769)%Z =
  (Ok [(255)%Z; (127)%Z; (255)%Z]).
Proof. vm_compute. reflexivity. Qed.

Example ex_PyBer_encode_signed_integer_12 :
  PyBer.encode_signed_integer (65535)%Z =
  (Ok [(0)%Z; (255)%Z; (255)%Z]).
Proof. vm_compute. reflexivity. Qed.

Example ex_PyBer_encode_signed_integer_13 :
  PyBer.encode_signed_integer (65536)%Z =
  (Ok [(1)%Z; (0)%Z; (0)%Z]).
Proof. vm_compute. reflexivity. Qed.

Example ex_PyBer_encode_tag_1 :
  PyBer.encode_tag 400%nat (0)%Z (0)%Z =
  (Ok [(0)%Z]).
Proof. vm_compute. reflexivity. Qed.

Example ex_PyBer_encode_tag_2 :
  PyBer.encode_tag 400%nat (30)%Z (160)%Z =
  (Ok [(190)%Z]).
Proof. vm_compute. reflexivity. Qed.

Example ex_PyBer_encode_tag_3 :
  PyBer.encode_tag 400%nat (31)%Z (160)%Z =
  (Ok [(191)%Z; (31)%Z]).
Proof. vm_compute. reflexivity. Qed.

Example ex_PyBer_encode_tag_4 :
  PyBer.encode_tag 400%nat (127)%Z (128)%Z =
  (Ok [(159)%Z; (127)%Z]).
Proof. vm_compute. reflexivity. Qed.

Example ex_PyBer_encode_tag_5 :
  PyBer.encode_tag 400%nat (128)%Z (128)%Z =
  (Ok [(159)%Z; (129)%Z; (0)%Z]).
Proof. vm_compute. reflexivity. Qed.

Example ex_PyBer_encode_tag_6 :
  PyBer.encode_tag 400%nat (16383)%Z (64)%Z =
  (Ok [(95)%Z; (255)%Z; (127)%Z]).
Proof. vm_compute. reflexivity. Qed.

Example ex_PyBer_encode_tag_7 :
  PyBer.encode_tag 400%nat (16384)%Z (192)%Z =
  (Ok [(223)%Z; (129)%Z; (128)%Z; (0)%Z]).
Proof. vm_compute. reflexivity. Qed.

Example ex_PyBer_encode_tag_8 :
  PyBer.encode_tag 400%nat (5)%Z (256)%Z =
  (Err (EForeign "ValueError"%string)).
Proof. vm_compute. reflexivity. Qed.

Example ex_PyBer_skip_tag_1 :
  PyBer.skip_tag 400%nat (hex "020105"%string) (0)%Z =
  (Ok (1)%Z).
Proof. vm_compute. reflexivity. Qed.

Example ex_PyBer_skip_tag_2 :
  PyBer.skip_tag 400%nat (hex "020105"%string) (2)%Z =
  (Err EOutOfData).
Proof. vm_compute. reflexivity. Qed.

Example ex_PyBer_skip_tag_3 :
  PyBer.skip_tag 400%nat (hex "020105"%string) (3)%Z =
  (Err EOutOfData).
Proof. vm_compute. reflexivity. Qed.

Example ex_PyBer_skip_tag_4 :
  PyBer.skip_tag 400%nat (hex "1f81000107"%string) (0)%Z =
  (Ok (3)%Z).
Proof. vm_compute. reflexivity. Qed.

Example ex_PyBer_skip_tag_5 :
  PyBer.skip_tag 400%nat (hex "1f81"%string) (0)%Z =
  (Err EOutOfData).
Proof. vm_compute. reflexivity. Qed.

Example ex_PyBer_skip_tag_6 :
  PyBer.skip_tag 400%nat (hex "1f8100"%string) (0)%Z =
  (Err EOutOfData).
Proof. vm_compute. reflexivity. Qed.

Example ex_PyBer_skip_tag_7 :
  PyBer.skip_tag 400%nat (hex "02"%string) (0)%Z =
  (Err EOutOfData).
Proof. vm_compute. reflexivity. Qed.

Example ex_PyBer_skip_tag_8 :
  PyBer.skip_tag 400%nat (hex "020105"%string) (-1)%Z =
  (Ok (0)%Z).
Proof. vm_compute. reflexivity. Qed.

Example ex_PyBer_read_tag_1 :
  PyBer.read_tag 400%nat (hex "bf876803616263"%string) (0)%Z =
  (Ok [(191)%Z; (135)%Z; (104)%Z]).
Proof. vm_compute. reflexivity. Qed.

Example ex_PyBer_read_tag_2 :
  PyBer.read_tag 400%nat (hex "020105"%string) (1)%Z =
  (Ok [(1)%Z]).
Proof. vm_compute. reflexivity. Qed.

Example ex_PyBer_read_tag_3 :
  PyBer.read_tag 400%nat (hex "1f81"%string) (0)%Z =
  (Err EOutOfData).
Proof. vm_compute. reflexivity. Qed.

Example ex_PyBer_decode_length_1 :
  PyBer.decode_length (hex "047f71717171717171717171717171717171717171717171717171717171717171717171717171717171717171717171717171717171717171717171717171717171717171717171717171717171717171717171717171717171717171717171717171717171717171717171717171717171717171717171717171717171717171"%string) (1)%Z true =
  (Ok ((Some (127)%Z), (2)%Z)).
Proof. vm_compute. reflexivity. Qed.

Example ex_PyBer_decode_length_2 :
  PyBer.decode_length (hex "047f717171717171717171717171717171717171717171717171717171717171717171717171717171717171717171717171717171717171717171717171717171717171717171717171717171717171717171717171717171717171717171717171717171717171717171717171717171717171717171717171717171717171"%string) (1)%Z true =
  (Err (EMissing (2)%Z (127)%Z)).
Proof. vm_compute. reflexivity. Qed.

Example ex_PyBer_decode_length_3 :
  PyBer.decode_length (hex "0481807878787878787878787878787878787878787878787878787878787878787878787878787878787878787878787878787878787878787878787878787878787878787878787878787878787878787878787878787878787878787878787878787878787878787878787878787878787878787878787878787878787878787878"%string) (1)%Z true =
  (Ok ((Some (128)%Z), (3)%Z)).
Proof. vm_compute. reflexivity. Qed.

Example ex_PyBer_decode_length_4 :
  PyBer.decode_length (hex "0482010079797979797979797979797979797979797979797979797979797979797979797979797979797979797979797979797979797979797979797979797979797979797979797979797979797979797979797979797979797979797979797979797979797979797979797979797979797979797979797979797979797979797979797979797979797979797979797979797979797979797979797979797979797979797979797979797979797979797979797979797979797979797979797979797979797979797979797979797979797979797979797979797979797979797979797979797979797979797979797979797979797979797979797979797979797979"%string) (1)%Z true =
  (Ok ((Some (256)%Z), (4)%Z)).
Proof. vm_compute. reflexivity. Qed.

Example ex_PyBer_decode_length_5 :
  PyBer.decode_length (hex "048201"%string) (1)%Z true =
  (Err EOutOfData).
Proof. vm_compute. reflexivity. Qed.

Example ex_PyBer_decode_length_6 :
  PyBer.decode_length (hex "0480"%string) (1)%Z true =
  (Err EDecode).
Proof. vm_compute. reflexivity. Qed.

Example ex_PyBer_decode_length_7 :
  PyBer.decode_length (hex "0480"%string) (1)%Z false =
  (Ok (None, (2)%Z)).
Proof. vm_compute. reflexivity. Qed.

Example ex_PyBer_decode_length_8 :
  PyBer.decode_length (hex "04"%string) (1)%Z true =
  (Err EOutOfData).
Proof. vm_compute. reflexivity. Qed.

Example ex_PyBer_decode_length_9 :
  PyBer.decode_length (hex "0484ffffffff"%string) (1)%Z true =
  (Err (EMissing (6)%Z (4294967295)%Z)).
Proof. vm_compute. reflexivity. Qed.

Example ex_PyBer_skip_tag_length_contents_1 :
  PyBer.skip_tag_length_contents 400%nat (hex "3006020101020102"%string) (0)%Z =
  (Ok (8)%Z).
Proof. vm_compute. reflexivity. Qed.

Example ex_PyBer_skip_tag_length_contents_2 :
  PyBer.skip_tag_length_contents 400%nat (hex "3006020101020102"%string) (2)%Z =
  (Ok (5)%Z).
Proof. vm_compute. reflexivity. Qed.

Example ex_PyBer_skip_tag_length_contents_3 :
  PyBer.skip_tag_length_contents 400%nat (hex "30800000"%string) (0)%Z =
  (Err EDecode).
Proof. vm_compute. reflexivity. Qed.

Example ex_PyBer_decode_full_length_1 :
  PyBer.decode_full_length 400%nat (hex ""%string) =
  (Ok None).
Proof. vm_compute. reflexivity. Qed.

Example ex_PyBer_decode_full_length_2 :
  PyBer.decode_full_length 400%nat (hex "30"%string) =
  (Ok None).
Proof. vm_compute. reflexivity. Qed.

Example ex_PyBer_decode_full_length_3 :
  PyBer.decode_full_length 400%nat (hex "3082"%string) =
  (Ok None).
Proof. vm_compute. reflexivity. Qed.

Example ex_PyBer_decode_full_length_4 :
  PyBer.decode_full_length 400%nat (hex "30820100"%string) =
  (Ok (Some (260)%Z)).
Proof. vm_compute. reflexivity. Qed.

Example ex_PyBer_decode_full_length_5 :
  PyBer.decode_full_length 400%nat (hex "30060201"%string) =
  (Ok (Some (8)%Z)).
Proof. vm_compute. reflexivity. Qed.

Example ex_PyBer_decode_full_length_6 :
  PyBer.decode_full_length 400%nat (hex "30800000"%string) =
  (Err EDecode).
Proof. vm_compute. reflexivity. Qed.

Example ex_PyBer_decode_full_length_7 :
  PyBer.decode_full_length 400%nat (hex "1f81000107"%string) =
  (Ok (Some (5)%Z)).
Proof. vm_compute. reflexivity. Qed.

Example ex_PyBer_detect_end_of_contents_tag_1 :
  PyBer.detect_end_of_contents_tag (hex "0000"%string) (0)%Z =
  (Ok true).
Proof. vm_compute. reflexivity. Qed.

Example ex_PyBer_detect_end_of_contents_tag_2 :
  PyBer.detect_end_of_contents_tag (hex "0000"%string) (1)%Z =
  (Err EOutOfData).
Proof. vm_compute. reflexivity. Qed.

Example ex_PyBer_detect_end_of_contents_tag_3 :
  PyBer.detect_end_of_contents_tag (hex "0001"%string) (0)%Z =
  (Ok false).
Proof. vm_compute. reflexivity. Qed.

Example ex_PyBer_detect_end_of_contents_tag_4 :
  PyBer.detect_end_of_contents_tag (hex "050000"%string) (1)%Z =
  (Ok true).
Proof. vm_compute. reflexivity. Qed.

Example ex_PyBer_detect_end_of_contents_tag_5 :
  PyBer.detect_end_of_contents_tag (hex "050000"%string) (3)%Z =
  (Err EOutOfData).
Proof. vm_compute. reflexivity. Qed.

Example ex_PyBer_is_end_of_data_1 :
  PyBer.is_end_of_data (hex "0000"%string) (0)%Z None =
  (Ok (true, (2)%Z)).
Proof. vm_compute. reflexivity. Qed.

Example ex_PyBer_is_end_of_data_2 :
  PyBer.is_end_of_data (hex "0000"%string) (0)%Z (Some (2)%Z) =
  (Ok (false, (0)%Z)).
Proof. vm_compute. reflexivity. Qed.

Example ex_PyBer_is_end_of_data_3 :
  PyBer.is_end_of_data (hex "0000"%string) (2)%Z (Some (2)%Z) =
  (Ok (true, (2)%Z)).
Proof. vm_compute. reflexivity. Qed.

Example ex_PyBer_is_end_of_data_4 :
  PyBer.is_end_of_data (hex "00"%string) (0)%Z None =
  (Err EOutOfData).
Proof. vm_compute. reflexivity. Qed.

Example ex_PyBer_is_end_of_data_5 :
  PyBer.is_end_of_data (hex "0102"%string) (0)%Z None =
  (Ok (false, (0)%Z)).
Proof. vm_compute. reflexivity. Qed.

Example ex_PyBer_encode_object_identifier_subidentifier_1 :
  PyBer.encode_object_identifier_subidentifier 400%nat (0)%Z =
  (Ok [(0)%Z]).
Proof. vm_compute. reflexivity. Qed.

Example ex_PyBer_encode_object_identifier_subidentifier_2 :
  PyBer.encode_object_identifier_subidentifier 400%nat (1)%Z =
  (Ok [(1)%Z]).
Proof. vm_compute. reflexivity. Qed.

Example ex_PyBer_encode_object_identifier_subidentifier_3 :
  PyBer.encode_object_identifier_subidentifier 400%nat (127)%Z =
  (Ok [(127)%Z]).
Proof. vm_compute. reflexivity. Qed.

Example ex_PyBer_encode_object_identifier_subidentifier_4 :
  PyBer.encode_object_identifier_subidentifier 400%nat (128)%Z =
  (Ok [(129)%Z; (0)%Z]).
Proof. vm_compute. reflexivity. Qed.

Example ex_PyBer_encode_object_identifier_subidentifier_5 :
  PyBer.encode_object_identifier_subidentifier 400%nat (16383)%Z =
  (Ok [(255)%Z; (127)%Z]).
Proof. vm_compute. reflexivity. Qed.

Example ex_PyBer_encode_object_identifier_subidentifier_6 :
  PyBer.encode_object_identifier_subidentifier 400%nat (16384)%Z =
  (Ok [(129)%Z; (128)%Z; (0)%Z]).
Proof. vm_compute. reflexivity. Qed.

Example ex_PyBer_encode_object_identifier_subidentifier_7 :
  PyBer.encode_object_identifier_subidentifier 400%nat (4294967296)%Z =
  (Ok [(144)%Z; (128)%Z; (128)%Z; (128)%Z; (0)%Z]).
Proof. vm_compute. reflexivity. Qed.

Example ex_PyBer_encode_object_identifier_subidentifier_8 :
  PyBer.encode_object_identifier_subidentifier 400%nat (-1)%Z =
  (Ok [(127)%Z]).
Proof. vm_compute. reflexivity. Qed.

Example ex_PyBer_decode_object_identifier_subidentifier_1 :
  PyBer.decode_object_identifier_subidentifier 400%nat (hex "2a864886f70d"%string) (0)%Z =
  (Ok ((42)%Z, (1)%Z)).
Proof. vm_compute. reflexivity. Qed.

Example ex_PyBer_decode_object_identifier_subidentifier_2 :
  PyBer.decode_object_identifier_subidentifier 400%nat (hex "2a864886f70d"%string) (1)%Z =
  (Ok ((840)%Z, (3)%Z)).
Proof. vm_compute. reflexivity. Qed.

Example ex_PyBer_decode_object_identifier_subidentifier_3 :
  PyBer.decode_object_identifier_subidentifier 400%nat (hex "2a864886f70d"%string) (3)%Z =
  (Ok ((113549)%Z, (6)%Z)).
Proof. vm_compute. reflexivity. Qed.

Example ex_PyBer_decode_object_identifier_subidentifier_4 :
  PyBer.decode_object_identifier_subidentifier 400%nat (hex "86f7"%string) (0)%Z =
  (Err (EForeign "IndexError"%string)).
Proof. vm_compute. reflexivity. Qed.

Example ex_PyBer_decode_object_identifier_subidentifier_5 :
  PyBer.decode_object_identifier_subidentifier 400%nat (hex "7f"%string) (1)%Z =
  (Err (EForeign "IndexError"%string)).
Proof. vm_compute. reflexivity. Qed.

Example ex_PyPer_is_unbound_1 :
  PyPer.is_unbound BNone BNone =
  (Ok true).
Proof. vm_compute. reflexivity. Qed.

Example ex_PyPer_is_unbound_2 :
  PyPer.is_unbound (BStr "MIN"%string) (BInt (5)%Z) =
  (Ok true).
Proof. vm_compute. reflexivity. Qed.

Example ex_PyPer_is_unbound_3 :
  PyPer.is_unbound (BInt (0)%Z) (BStr "MAX"%string) =
  (Ok true).
Proof. vm_compute. reflexivity. Qed.

Example ex_PyPer_is_unbound_4 :
  PyPer.is_unbound (BInt (0)%Z) (BInt (65535)%Z) =
  (Ok false).
Proof. vm_compute. reflexivity. Qed.

Example ex_PyPer_is_unbound_5 :
  PyPer.is_unbound (BInt (0)%Z) (BInt (65536)%Z) =
  (Ok true).
Proof. vm_compute. reflexivity. Qed.

Example ex_PyPer_is_unbound_6 :
  PyPer.is_unbound (BInt (0)%Z) BNone =
  (Ok true).
Proof. vm_compute. reflexivity. Qed.

Example ex_PyPer_is_unbound_7 :
  PyPer.is_unbound (BInt (0)%Z) (BStr "MIN"%string) =
  (Err (EForeign "TypeError"%string)).
Proof. vm_compute. reflexivity. Qed.

Example ex_PyPer_to_int_1 :
  PyPer.to_int 400%nat (IBInt (5)%Z) =
  (Ok (5)%Z).
Proof. vm_compute. reflexivity. Qed.

Example ex_PyPer_to_int_2 :
  PyPer.to_int 400%nat (IBBytes (hex ""%string)) =
  (Ok (0)%Z).
Proof. vm_compute. reflexivity. Qed.

Example ex_PyPer_to_int_3 :
  PyPer.to_int 400%nat (IBBytes (hex "0100"%string)) =
  (Ok (256)%Z).
Proof. vm_compute. reflexivity. Qed.

Example ex_PyPer_to_int_4 :
  PyPer.to_int 400%nat (IBBytes (hex "ffffff"%string)) =
  (Ok (16777215)%Z).
Proof. vm_compute. reflexivity. Qed.

Example ex_PyPer_to_byte_array_1 :
  PyPer.to_byte_array 400%nat (4660)%Z (16)%Z =
  (Ok [(18)%Z; (52)%Z]).
Proof. vm_compute. reflexivity. Qed.

Example ex_PyPer_to_byte_array_2 :
  PyPer.to_byte_array 400%nat (4660)%Z (9)%Z =
  (Ok [(18)%Z; (52)%Z]).
Proof. vm_compute. reflexivity. Qed.

Example ex_PyPer_to_byte_array_3 :
  PyPer.to_byte_array 400%nat (4660)%Z (8)%Z =
  (Ok [(52)%Z]).
Proof. vm_compute. reflexivity. Qed.

Example ex_PyPer_to_byte_array_4 :
  PyPer.to_byte_array 400%nat (5)%Z (0)%Z =
  (Ok []).
Proof. vm_compute. reflexivity. Qed.

Example ex_PyPer_to_byte_array_5 :
  PyPer.to_byte_array 400%nat (-2)%Z (16)%Z =
  (Ok [(255)%Z; (254)%Z]).
Proof. vm_compute. reflexivity. Qed.

Example ex_PyPer_to_byte_array_6 :
  PyPer.to_byte_array 400%nat (65536)%Z (17)%Z =
  (Ok [(1)%Z; (0)%Z; (0)%Z]).
Proof. vm_compute. reflexivity. Qed.

Example ex_PyPer_integer_as_number_of_bits_1 :
  PyPer.integer_as_number_of_bits (0)%Z =
  (Ok (0)%Z).
Proof. vm_compute. reflexivity. Qed.

Example ex_PyPer_integer_as_number_of_bits_power_of_two_1 :
  PyPer.integer_as_number_of_bits_power_of_two 400%nat (0)%Z =
  (Ok (0)%Z).
Proof. vm_compute. reflexivity. Qed.

Example ex_PyPer_size_as_number_of_bytes_1 :
  PyPer.size_as_number_of_bytes (0)%Z =
  (Ok (1)%Z).
Proof. vm_compute. reflexivity. Qed.

Example ex_PyPer_integer_as_number_of_bits_2 :
  PyPer.integer_as_number_of_bits (1)%Z =
  (Ok (1)%Z).
Proof. vm_compute. reflexivity. Qed.

Example ex_PyPer_integer_as_number_of_bits_power_of_two_2 :
  PyPer.integer_as_number_of_bits_power_of_two 400%nat (1)%Z =
  (Ok (1)%Z).
Proof. vm_compute. reflexivity. Qed.

Example ex_PyPer_size_as_number_of_bytes_2 :
  PyPer.size_as_number_of_bytes (1)%Z =
  (Ok (1)%Z).
Proof. vm_compute. reflexivity. Qed.

Example ex_PyPer_integer_as_number_of_bits_3 :
  PyPer.integer_as_number_of_bits (127)%Z =
  (Ok (7)%Z).
Proof. vm_compute. reflexivity. Qed.

Example ex_PyPer_integer_as_number_of_bits_power_of_two_3 :
  PyPer.integer_as_number_of_bits_power_of_two 400%nat (127)%Z =
  (Ok (8)%Z).
Proof. vm_compute. reflexivity. Qed.

Example ex_PyPer_size_as_number_of_bytes_3 :
  PyPer.size_as_number_of_bytes (127)%Z =
  (Ok (1)%Z).
Proof. vm_compute. reflexivity. Qed.

Example ex_PyPer_integer_as_number_of_bits_4 :
  PyPer.integer_as_number_of_bits (128)%Z =
  (Ok (8)%Z).
Proof. vm_compute. reflexivity. Qed.

Example ex_PyPer_integer_as_number_of_bits_power_of_two_4 :
  PyPer.integer_as_number_of_bits_power_of_two 400%nat (128)%Z =
  (Ok (8)%Z).
Proof. vm_compute. reflexivity. Qed.

Example ex_PyPer_size_as_number_of_bytes_4 :
  PyPer.size_as_number_of_bytes (128)%Z =
  (Ok (1)%Z).
Proof. vm_compute. reflexivity. Qed.

Example ex_PyPer_integer_as_number_of_bits_5 :
  PyPer.integer_as_number_of_bits (255)%Z =
  (Ok (8)%Z).
Proof. vm_compute. reflexivity. Qed.

Example ex_PyPer_integer_as_number_of_bits_power_of_two_5 :
  PyPer.integer_as_number_of_bits_power_of_two 400%nat (255)%Z =
  (Ok (8)%Z).
Proof. vm_compute. reflexivity. Qed.

Example ex_PyPer_size_as_number_of_bytes_5 :
  PyPer.size_as_number_of_bytes (255)%Z =
  (Ok (1)%Z).
Proof. vm_compute. reflexivity. Qed.

Example ex_PyPer_integer_as_number_of_bits_6 :
  PyPer.integer_as_number_of_bits (256)%Z =
  (Ok (9)%Z).
Proof. vm_compute. reflexivity. Qed.

Example ex_PyPer_integer_as_number_of_bits_power_of_two_6 :
  PyPer.integer_as_number_of_bits_power_of_two 400%nat (256)%Z =
  (Ok (16)%Z).
Proof. vm_compute. reflexivity. Qed.

Example ex_PyPer_size_as_number_of_bytes_6 :
  PyPer.size_as_number_of_bytes (256)%Z =
  (Ok (2)%Z).
Proof. vm_compute. reflexivity. Qed.

Example ex_PyPer_integer_as_number_of_bits_7 :
  PyPer.integer_as_number_of_bits (65535)%Z =
  (Ok (16)%Z).
Proof. vm_compute. reflexivity. Qed.

Example ex_PyPer_integer_as_number_of_bits_power_of_two_7 :
  PyPer.integer_as_number_of_bits_power_of_two 400%nat (65535)%Z =
  (Ok (16)%Z).
Proof. vm_compute. reflexivity. Qed.

Example ex_PyPer_size_as_number_of_bytes_7 :
  PyPer.size_as_number_of_bytes (65535)%Z =
  (Ok (2)%Z).
Proof. vm_compute. reflexivity. Qed.

Example ex_PyPer_integer_as_number_of_bits_8 :
  PyPer.integer_as_number_of_bits (65536)%Z =
  (Ok (17)%Z).
Proof. vm_compute. reflexivity. Qed.

Example ex_PyPer_integer_as_number_of_bits_power_of_two_8 :
  PyPer.integer_as_number_of_bits_power_of_two 400%nat (65536)%Z =
  (Ok (32)%Z).
Proof. vm_compute. reflexivity. Qed.

Example ex_PyPer_size_as_number_of_bytes_8 :
  PyPer.size_as_number_of_bytes (65536)%Z =
  (Ok (3)%Z).
Proof. vm_compute. reflexivity. Qed.

Example ex_PyPer_integer_as_number_of_bits_power_of_two_9 :
  PyPer.integer_as_number_of_bits_power_of_two 400%nat (4294967296)%Z =
  (Ok (64)%Z).
Proof. vm_compute. reflexivity. Qed.

Example ex_PyOer_encode_tag_1 :
  PyOer.encode_tag 400%nat (0)%Z (128)%Z =
  (Ok [(128)%Z]).
Proof. vm_compute. reflexivity. Qed.

Example ex_PyOer_encode_tag_2 :
  PyOer.encode_tag 400%nat (62)%Z (128)%Z =
  (Ok [(190)%Z]).
Proof. vm_compute. reflexivity. Qed.

Example ex_PyOer_encode_tag_3 :
  PyOer.encode_tag 400%nat (63)%Z (128)%Z =
  (Ok [(191)%Z; (63)%Z]).
Proof. vm_compute. reflexivity. Qed.

Example ex_PyOer_encode_tag_4 :
  PyOer.encode_tag 400%nat (64)%Z (64)%Z =
  (Ok [(127)%Z; (64)%Z]).
Proof. vm_compute. reflexivity. Qed.

Example ex_PyOer_encode_tag_5 :
  PyOer.encode_tag 400%nat (127)%Z (192)%Z =
  (Ok [(255)%Z; (127)%Z]).
Proof. vm_compute. reflexivity. Qed.

Example ex_PyOer_encode_tag_6 :
  PyOer.encode_tag 400%nat (128)%Z (192)%Z =
  (Ok [(255)%Z; (129)%Z; (0)%Z]).
Proof. vm_compute. reflexivity. Qed.

Example ex_PyOer_encode_tag_7 :
  PyOer.encode_tag 400%nat (16384)%Z (128)%Z =
  (Ok [(191)%Z; (129)%Z; (128)%Z; (0)%Z]).
Proof. vm_compute. reflexivity. Qed.

