(** Read-back theorem: the RFC 3641 reader, run on the text the
    implementation model writes for an in-scope value, consumes exactly that
    text and returns the abstract value.  Open recursion: one lemma per level
    of type structure ([step_agree]), closed by induction on the fuel. *)
From Asn1V Require Import Base.Prelude Syntax.Asn1 Gser.Chars Gser.GserImpl Gser.Gser3641
     Gser.GserSpec Gser.LexProofs.

Definition sep_ok (d : dialect) (sep : text) : Prop :=
  sep <> [] /\ forallb (is_ws d) sep = true.

(** The encoder [self], the reader [rd], the abstraction [nf] and the scope
    [sc] agree: on every in-scope value the encoder succeeds, its text starts
    with a non-delimiter, and the reader applied to that text followed by
    anything that may follow a value returns the abstract value and exactly
    the remainder. *)
Definition agree (d : dialect) (self : encoder) (rd : reader) (nf : normalizer) (sc : scope_pred)
  : Prop :=
  forall t v sep ind, sc t v = true -> sep_ok d sep ->
    exists tx, self t v sep ind = Ok tx /\ head_ok tx /\
      forall rest, follow_ok rest -> rd t (tx ++ rest) = Some (nf t v, rest).

(** white space followed by the closing brace, then [rest] *)
Definition tail_ok (d : dialect) (tail rest : text) : Prop :=
  exists w, tail = w ++ "}"%char :: rest /\ w <> [] /\ forallb (is_ws d) w = true.

Lemma is_ws_space d : is_ws d " " = true.
Proof. reflexivity. Qed.

Lemma skip_ws_space d s : skip_ws d (" "%char :: s) = skip_ws d s.
Proof. reflexivity. Qed.

Lemma is_ws_not c d x : is_ws d c = true -> delim x = false -> Ascii.eqb c x = false.
Proof.
  intros H Hx. destruct (Ascii.eqb_spec c x); [subst|reflexivity].
  apply is_ws_delim in H. congruence.
Qed.

Lemma is_ws_false d c :
  Ascii.eqb c " " = false -> Ascii.eqb c "010" = false -> is_ws d c = false.
Proof. intros H1 H2. unfold is_ws. rewrite H1, H2. now rewrite andb_false_r. Qed.

Lemma is_ws_cases d c : is_ws d c = true -> c = " "%char \/ c = "010"%char.
Proof.
  unfold is_ws. intros H. apply orb_true_iff in H. destruct H as [H|H].
  - left. now apply Ascii.eqb_eq.
  - right. apply andb_true_iff in H. now apply Ascii.eqb_eq.
Qed.

Lemma tail_follow d tail rest : tail_ok d tail rest -> follow_ok tail.
Proof.
  intros (w & -> & Hw & Hws). destruct w as [|c w]; [congruence|]. simpl in *.
  apply andb_true_iff in Hws. destruct Hws as [Hc _]. now apply is_ws_delim in Hc.
Qed.

Lemma tail_skip d tail rest : tail_ok d tail rest -> skip_ws d tail = "}"%char :: rest.
Proof.
  intros (w & -> & Hw & Hws). rewrite skip_ws_app by auto. apply skip_ws_stop.
  now apply is_ws_false.
Qed.

Lemma tail_no_comma d tail rest : tail_ok d tail rest -> expect "," tail = None.
Proof.
  intros (w & -> & Hw & Hws). destruct w as [|c w]; [congruence|]. simpl in *.
  apply andb_true_iff in Hws. destruct Hws as [Hc _].
  apply is_ws_cases in Hc. destruct Hc as [-> | ->]; reflexivity.
Qed.

Lemma sep_tail d sep rest : sep_ok d sep -> tail_ok d (sep ++ "}"%char :: rest) rest.
Proof. intros [H1 H2]. exists sep. auto. Qed.

Lemma sep_spaces d sep n : sep_ok d sep -> sep_ok d (sep ++ spaces n).
Proof.
  intros [H1 H2]. split.
  - destruct sep; [congruence | discriminate].
  - rewrite forallb_app, H2. simpl. induction n; simpl; auto.
Qed.

(** ** SEQUENCE and SET *)
Fixpoint items_text (first : bool) (msep : text) (items : list (string * text)) : text :=
  match items with
  | [] => []
  | it :: r =>
    (if first then [] else [","%char]) ++ member_item msep it ++ items_text false msep r
  end.

Lemma join_items msep it r :
  join [","%char] (map (member_item msep) (it :: r)) = member_item msep it ++ items_text false msep r.
Proof.
  revert it. induction r as [|y r IH]; intros it.
  - simpl. now rewrite app_nil_r.
  - change (join [","%char] (map (member_item msep) (it :: y :: r)))
      with (member_item msep it ++ [","%char] ++ join [","%char] (map (member_item msep) (y :: r))).
    rewrite IH. reflexivity.
Qed.

Lemma join_items_true msep items :
  join [","%char] (map (member_item msep) items) = items_text true msep items.
Proof. destruct items as [|it r]; [reflexivity|]. now rewrite join_items. Qed.

Lemma items_text_cons first msep nm tx r tail :
  items_text first msep ((nm, tx) :: r) ++ tail =
  (if first then [] else [","%char]) ++ msep ++ s2t nm ++
  " "%char :: (tx ++ (items_text false msep r ++ tail)).
Proof.
  unfold items_text; fold items_text. unfold member_item. simpl fst. simpl snd.
  destruct first; cbn [app]; rewrite <- ?app_assoc; cbn [app]; rewrite <- ?app_assoc; reflexivity.
Qed.

Lemma items_follow d msep r tail rest :
  tail_ok d tail rest -> follow_ok (items_text false msep r ++ tail).
Proof.
  intros H. destruct r as [|it r]; [simpl; eapply tail_follow; eauto | reflexivity].
Qed.

Lemma lex_ident_brace r : lex_ident ("}"%char :: r) = None.
Proof. reflexivity. Qed.

Lemma next_name_tail d first tail rest : tail_ok d tail rest -> next_name d first tail = None.
Proof.
  intros H. unfold next_name. destruct first.
  - erewrite tail_skip by eauto. apply lex_ident_brace.
  - erewrite tail_no_comma by eauto. reflexivity.
Qed.

Lemma next_name_item d first msep nm more :
  forallb (is_ws d) msep = true -> is_identifier nm = true ->
  next_name d first ((if first then [] else [","%char]) ++ msep ++ s2t nm ++ " "%char :: more)
  = Some (nm, " "%char :: more).
Proof.
  intros Hm Hn. unfold next_name.
  assert (E : skip_ws d (msep ++ s2t nm ++ " "%char :: more) = s2t nm ++ " "%char :: more).
  { rewrite skip_ws_app by auto. apply skip_ws_stop. apply head_ok_stops_ws.
    now apply ident_head_ok. }
  destruct first; cbn [app expect]; rewrite ?Ascii.eqb_refl, E; apply lex_ident_ok; auto; reflexivity.
Qed.

Lemma existsb_eqb_false x l y :
  existsb (String.eqb x) l = false -> In y l -> String.eqb y x = false.
Proof.
  intros H Hy. destruct (String.eqb_spec y x); [subst|reflexivity].
  assert (existsb (String.eqb x) l = true); [|congruence].
  apply existsb_exists. exists x. split; auto. apply String.eqb_refl.
Qed.

Lemma members_ok d self rd nf sc msep ind :
  agree d self rd nf sc -> sep_ok d msep ->
  forall ms fields,
    names_okb (map m_name ms) = true ->
    members_scope sc ms fields = true ->
    exists items,
      enc_members self ms fields msep ind = Ok items /\
      Forall (fun it => In (fst it) (map m_name ms)) items /\
      forall first tail rest, tail_ok d tail rest ->
        read_members d rd first ms (items_text first msep items ++ tail)
        = Some (norm_members nf ms fields, tail).
Proof.
  intros Hag Hsep. induction ms as [|m ms IH]; intros fields Hn Hs.
  - exists []. repeat split; auto.
  - unfold names_okb in Hn. cbn [map forallb nodupb] in Hn.
    apply andb_true_iff in Hn. destruct Hn as [Hid Hnd].
    apply andb_true_iff in Hid. destruct Hid as [Hid Hids].
    apply andb_true_iff in Hnd. destruct Hnd as [Hfresh Hnd].
    apply negb_true_iff in Hfresh.
    cbn [members_scope] in Hs. apply andb_true_iff in Hs. destruct Hs as [Hm Hs].
    destruct (IH fields) as (items & Henc & Hin & Hread).
    { unfold names_okb. now rewrite Hids, Hnd. }
    { exact Hs. }
    cbn [enc_members norm_members].
    destruct (lookup (m_name m) fields) as [x|] eqn:El.
    + destruct (Hag (m_ty m) x msep ind Hm Hsep) as (tx & Htx & Hhead & Hrd).
      exists ((m_name m, tx) :: items). rewrite Htx, Henc. cbn [bind].
      split; [reflexivity|]. split.
      { constructor; [now left|]. eapply Forall_impl; [|exact Hin]. intros it Hit. now right. }
      intros first tail rest Ht. rewrite items_text_cons. cbn [read_members].
      rewrite next_name_item by (auto; apply Hsep). rewrite String.eqb_refl.
      cbn [skip_ws1]. rewrite is_ws_space.
      rewrite skip_ws_stop by now apply head_ok_stops_ws.
      rewrite Hrd by (eapply items_follow; eauto).
      now rewrite (Hread false tail rest Ht).
    + exists items.
      assert (Hopt : m_opt m <> Mandatory) by (destruct (m_opt m); congruence).
      split; [destruct (m_opt m); congruence|]. split.
      { eapply Forall_impl; [|exact Hin]. intros it Hit. now right. }
      intros first tail rest Ht. cbn [read_members].
      assert (Hpres : match next_name d first (items_text first msep items ++ tail) with
                      | Some (id, s1) => if String.eqb id (m_name m) then Some s1 else None
                      | None => None
                      end = None).
      { destruct items as [|[nm tx] r].
        - simpl app. now erewrite next_name_tail by eauto.
        - rewrite items_text_cons. inversion Hin as [|? ? Hnm _]; subst. simpl in Hnm.
          rewrite next_name_item; [| apply Hsep |].
          + now rewrite (existsb_eqb_false _ _ _ Hfresh Hnm).
          + rewrite forallb_forall in Hids. now apply Hids. }
      rewrite Hpres. rewrite (Hread first tail rest Ht).
      unfold absent. destruct (m_opt m); [congruence | reflexivity | reflexivity].
Qed.

(** ** SEQUENCE OF and SET OF *)
Fixpoint ne_text (esep : text) (tx : text) (r : list text) (tail : text) : text :=
  tx ++ match r with
        | [] => tail
        | y :: r' => ","%char :: esep ++ ne_text esep y r' tail
        end.

Lemma join_elems esep tx r tail :
  join [","%char] (map (fun x => esep ++ x) (tx :: r)) ++ tail = esep ++ ne_text esep tx r tail.
Proof.
  revert tx. induction r as [|y r IH]; intros tx.
  - simpl. now rewrite <- app_assoc.
  - change (join [","%char] (map (fun x => esep ++ x) (tx :: y :: r)))
      with ((esep ++ tx) ++ [","%char] ++ join [","%char] (map (fun x => esep ++ x) (y :: r))).
    rewrite <- !app_assoc. rewrite IH. reflexivity.
Qed.

Section Elems.
  Variable d : dialect.
  Variable rd1 : text -> option (value * text).
  Variable nf1 : value -> value.

  Definition elem_ok (x : value) (tx : text) : Prop :=
    head_ok tx /\ forall rest, follow_ok rest -> rd1 (tx ++ rest) = Some (nf1 x, rest).

  Lemma ne_text_stops esep tx r tail : head_ok tx -> stops (is_ws d) (ne_text esep tx r tail).
  Proof. intros H. destruct r; simpl; now apply head_ok_stops_ws. Qed.

  Lemma ne_text_len esep r : forall xs tx tail,
    head_ok tx -> Forall2 elem_ok xs r -> (length r < length (ne_text esep tx r tail))%nat.
  Proof.
    induction r as [|y r IH]; intros xs tx tail Hh H2.
    - destruct tx; [destruct Hh|]. simpl. lia.
    - inversion H2 as [|x0 y0 xs0 r0 Hy H2']; subst.
      cbn [ne_text]. rewrite app_length. cbn [length]. rewrite app_length.
      pose proof (IH xs0 y tail (proj1 Hy) H2'). simpl. lia.
  Qed.

  Lemma elems_ne_ok esep r : forall xs x tx k tail rest,
    forallb (is_ws d) esep = true ->
    elem_ok x tx -> Forall2 elem_ok xs r -> (length r < k)%nat -> tail_ok d tail rest ->
    read_elems_ne d rd1 k (ne_text esep tx r tail) = Some (nf1 x :: map nf1 xs, rest).
  Proof.
    induction r as [|y r IH]; intros xs x tx k tail rest He [Hh Hrd] H2 Hk Ht.
    - inversion H2; subst. destruct k as [|k]; [lia|]. cbn [ne_text read_elems_ne].
      rewrite Hrd by (eapply tail_follow; eauto).
      erewrite tail_no_comma by eauto. erewrite tail_skip by eauto.
      cbn [expect]. rewrite Ascii.eqb_refl. reflexivity.
    - inversion H2 as [|x0 y0 xs0 r0 Hy H2']; subst. destruct k as [|k]; [lia|].
      cbn [ne_text read_elems_ne]. rewrite Hrd by reflexivity.
      cbn [expect]. rewrite Ascii.eqb_refl.
      rewrite skip_ws_app by auto. rewrite skip_ws_stop by (apply ne_text_stops; apply Hy).
      rewrite (IH xs0 x0 y k tail rest); auto. simpl in Hk. lia.
  Qed.
End Elems.

Lemma elems_total d self rd nf sc te esep ind :
  agree d self rd nf sc -> sep_ok d esep ->
  forall xs, forallb (sc te) xs = true ->
  exists items, enc_elems (fun x => self te x esep ind) xs = Ok items /\
                Forall2 (elem_ok (rd te) (nf te)) xs items.
Proof.
  intros Hag Hsep. induction xs as [|x xs IH]; intros H.
  - exists []. split; [reflexivity | constructor].
  - cbn [forallb] in H. apply andb_true_iff in H. destruct H as [Hx H].
    destruct (Hag te x esep ind Hx Hsep) as (tx & Htx & Hh & Hrd).
    destruct (IH H) as (items & Hi & H2).
    exists (tx :: items). cbn [enc_elems]. rewrite Htx, Hi. split; [reflexivity|].
    constructor; [split|]; auto.
Qed.

Lemma head_ok_not_brace tx rest : head_ok tx -> expect "}" (tx ++ rest) = None.
Proof.
  destruct tx as [|c tx]; [intros []|]. simpl. intros H.
  destruct (Ascii.eqb_spec c "}"); [subst; discriminate | reflexivity].
Qed.

(** ** One level of type structure *)
Lemma and3 (b1 b2 b3 : bool) : b1 && b2 && b3 = true -> b1 = true /\ b2 = true /\ b3 = true.
Proof. destruct b1, b2, b3; simpl; auto. Qed.

Lemma step_agree d e self rd nf sc :
  d_colon_sp d = true ->
  agree d self rd nf sc ->
  agree d (enc_step self e) (read_step d rd e) (norm_step nf e) (scope_step sc e).
Proof.
  intros Hcolon Hag t v sep ind Hs Hsep.
  destruct t; cbn [scope_step] in Hs.
  - (* BOOLEAN *)
    destruct v; try discriminate. destruct b.
    + eexists; split; [reflexivity|]. split; [reflexivity|]. intros rest _. reflexivity.
    + eexists; split; [reflexivity|]. split; [reflexivity|]. intros rest _. reflexivity.
  - (* NULL *)
    destruct v; try discriminate.
    eexists; split; [reflexivity|]. split; [reflexivity|]. intros rest _. reflexivity.
  - (* INTEGER *)
    destruct v; try discriminate.
    eexists; split; [reflexivity|]. split; [apply dec_Z_head_ok|]. intros rest Hf.
    cbn [read_step norm_step]. apply read_integer_ok. apply follow_stops; auto using delim_not_digit.
  - (* ENUMERATED *)
    destruct v; try discriminate. apply andb_true_iff in Hs. destruct Hs as [Hid Hex].
    cbn [enc_step]. rewrite Hex. eexists; split; [reflexivity|]. split; [now apply ident_head_ok|].
    intros rest Hf. cbn [read_step norm_step].
    rewrite lex_ident_ok by (auto; apply follow_stops; auto using delim_not_idchar).
    now rewrite Hex.
  - (* BIT STRING *)
    destruct v; try discriminate. apply and3 in Hs. destruct Hs as (Hb & H0 & H8).
    cbn [enc_step read_step norm_step].
    assert (Hex : exists tx, enc_bits bytes nbits = Ok tx /\ head_ok tx).
    { unfold enc_bits. destruct (0 <? nbits) eqn:E.
      - destruct bytes; [simpl in H8; lia|]. eexists; split; reflexivity.
      - eexists; split; reflexivity. }
    destruct Hex as (tx & Htx & Hh). exists tx. repeat split; auto.
    intros rest _. apply read_bits_ok; auto. lia.
  - (* OCTET STRING *)
    destruct v; try discriminate.
    eexists; split; [reflexivity|]. split; [reflexivity|]. intros rest _.
    cbn [read_step norm_step]. now apply read_octets_ok.
  - (* character strings *)
    destruct v; try discriminate. cbn [enc_step read_step norm_step].
    destruct (enc_string_total cps Hs) as (tx & Htx & Hh). exists tx. repeat split; auto.
    intros rest Hf. apply read_string_ok; auto. apply follow_stops; auto using delim_not_dquote.
  - (* OBJECT IDENTIFIER *)
    destruct v; try discriminate. apply andb_true_iff in Hs. destruct Hs as [Hl Ha].
    eexists; split; [reflexivity|]. split; [now apply enc_oid_head_ok|]. intros rest Hf.
    cbn [read_step norm_step]. now apply read_oid_ok.
  - (* SEQUENCE, SET *)
    destruct v; try discriminate. apply andb_true_iff in Hs. destruct Hs as [Hn Hm].
    pose proof (sep_spaces d sep ind Hsep) as Hmsep.
    destruct (members_ok d self rd nf sc (sep ++ spaces ind) ind Hag Hmsep _ _ Hn Hm)
      as (items & Henc & _ & Hread).
    cbn [enc_step]. rewrite Henc. cbn [bind]. eexists; split; [reflexivity|].
    split; [reflexivity|]. intros rest Hf.
    unfold braces. rewrite join_items_true. cbn [app read_step expect]. rewrite Ascii.eqb_refl.
    rewrite <- !app_assoc. cbn [app].
    rewrite (Hread true _ rest (sep_tail d sep rest Hsep)).
    erewrite tail_skip by (apply sep_tail; eauto). cbn [expect]. rewrite Ascii.eqb_refl.
    reflexivity.
  - (* SEQUENCE OF, SET OF *)
    destruct v; try discriminate.
    pose proof (sep_spaces d sep ind Hsep) as Hesep.
    destruct (elems_total d self rd nf sc t (sep ++ spaces ind) ind Hag Hesep vs Hs)
      as (items & Henc & H2).
    cbn [enc_step]. rewrite Henc. cbn [bind]. eexists; split; [reflexivity|].
    split; [reflexivity|]. intros rest Hf.
    unfold braces. cbn [app read_step expect norm_step]. rewrite Ascii.eqb_refl.
    unfold read_elems. destruct items as [|tx r].
    + inversion H2; subst. cbn [map join app]. rewrite <- app_assoc. cbn [app].
      erewrite tail_skip by (apply sep_tail; eauto). cbn [expect]. rewrite Ascii.eqb_refl.
      reflexivity.
    + inversion H2 as [|x0 y0 xs0 r0 Hx H2']; subst.
      rewrite <- app_assoc.
      replace ((sep ++ ["}"%char]) ++ rest) with (sep ++ "}"%char :: rest)
        by (now rewrite <- app_assoc).
      rewrite join_elems. cbn [app].
      rewrite skip_ws_app by apply Hesep.
      rewrite skip_ws_stop by (apply ne_text_stops; apply Hx).
      assert (Hnb : expect "}" (ne_text (sep ++ spaces ind) tx r (sep ++ "}"%char :: rest)) = None).
      { destruct r; apply head_ok_not_brace; apply Hx. }
      rewrite Hnb.
      rewrite (elems_ne_ok d (rd t) (nf t) (sep ++ spaces ind) r xs0 x0 tx _ _ rest); auto.
      * apply Hesep.
      * eapply ne_text_len; eauto. apply Hx.
      * now apply sep_tail.
  - (* CHOICE *)
    destruct v; try discriminate. apply andb_true_iff in Hs. destruct Hs as [Hid Hm].
    cbn [enc_step read_step norm_step].
    destruct (find_member alt (alts_of root ext)) as [m|] eqn:Ef; [|discriminate].
    destruct (Hag (m_ty m) v sep ind Hm Hsep) as (tx & Htx & Hh & Hrd).
    rewrite Htx. cbn [bind]. eexists; split; [reflexivity|]. split.
    { pose proof (ident_head_ok alt Hid) as Hi. destruct (s2t alt); [destruct Hi | exact Hi]. }
    intros rest Hf. rewrite <- !app_assoc.
    rewrite lex_ident_ok by (auto; reflexivity). rewrite Hcolon.
    change (s2t " : " ++ tx ++ rest) with (" "%char :: ":"%char :: " "%char :: tx ++ rest).
    rewrite skip_ws_space.
    rewrite (skip_ws_stop d (":"%char :: _)) by (now apply is_ws_false).
    cbn [expect]. rewrite Ascii.eqb_refl. rewrite skip_ws_space.
    rewrite skip_ws_stop by now apply head_ok_stops_ws.
    rewrite Ef, Hrd by auto. reflexivity.
  - (* type reference *)
    cbn [enc_step read_step norm_step].
    destruct (lookup name e) as [t'|]; [|discriminate]. now apply Hag.
  - (* tagged type *)
    cbn [enc_step read_step norm_step]. now apply Hag.
Qed.

(** ** Closing the recursion *)
Theorem agree_fuel d e n :
  d_colon_sp d = true -> agree d (enc n e) (read_val d n e) (norm n e) (in_scope n e).
Proof.
  intros Hc. induction n as [|n IH].
  - intros t v sep ind H. discriminate.
  - cbn [enc read_val norm in_scope]. now apply step_agree.
Qed.

(** ** The value assignment wrapper *)
Lemma lower_upper c : is_upper c = true -> is_lower (lower_char c) = true.
Proof.
  unfold is_upper, is_lower, lower_char. intros H. pose proof (zc_range c).
  cbv zeta in *. rewrite H. rewrite zc_ch by lia. lia.
Qed.

Lemma lower_not_upper c : is_upper c = false -> lower_char c = c.
Proof. unfold is_upper, lower_char. cbv zeta. now intros ->. Qed.

Lemma lower_hyphen c : Ascii.eqb (lower_char c) "-" = Ascii.eqb c "-".
Proof.
  destruct (is_upper c) eqn:E; [|now rewrite lower_not_upper].
  pose proof (lower_upper c E) as L. rewrite !eqb_zc.
  unfold is_upper, is_lower in *. cbv zeta in *. change (zc "-") with 45. lia.
Qed.

Lemma lower_idchar c : is_idchar c = true -> is_idchar (lower_char c) = true.
Proof.
  destruct (is_upper c) eqn:E; [|now rewrite lower_not_upper].
  intros _. unfold is_idchar, is_alnum. rewrite (lower_upper c E). now rewrite orb_true_r.
Qed.

Lemma lower_hyphens_ok s : hyphens_ok (map lower_char s) = hyphens_ok s.
Proof.
  induction s as [|c r IH]; [reflexivity|]. cbn [map hyphens_ok]. rewrite lower_hyphen.
  destruct r as [|c2 r']; [reflexivity|]. cbn [map] in *. now rewrite lower_hyphen, IH.
Qed.

Lemma lower_typeref s : is_typeref_t s = true -> is_identifier_t (map lower_char s) = true.
Proof.
  destruct s as [|c r]; [discriminate|]. unfold is_typeref_t, is_identifier_t.
  intros H. apply and3 in H. destruct H as (Hc & Hr & Hh).
  change (map lower_char (c :: r)) with (lower_char c :: map lower_char r). cbv iota.
  rewrite (lower_upper c Hc). rewrite <- (lower_hyphens_ok (c :: r)) in Hh.
  change (map lower_char (c :: r)) with (lower_char c :: map lower_char r) in Hh.
  rewrite Hh, andb_true_r. cbn [andb].
  rewrite forallb_forall in *. intros x Hx. apply in_map_iff in Hx.
  destruct Hx as (y & <- & Hy). apply lower_idchar. now apply Hr.
Qed.

Lemma lex_ident_t_ok a rest :
  is_identifier_t a = true -> stops is_idchar rest ->
  lex_ident (a ++ rest) = Some (string_of_list_ascii a, rest).
Proof.
  intros H Hr. unfold lex_ident. rewrite span_app; auto using ident_idchars. now rewrite H.
Qed.

Lemma typeref_stops_ws d nm rest : is_typeref nm = true -> stops (is_ws d) (s2t nm ++ rest).
Proof.
  unfold is_typeref. destruct (s2t nm) as [|c r]; [discriminate|]. intros H.
  apply and3 in H. destruct H as (Hc & _ & _). simpl.
  destruct (is_ws d c) eqn:E; [|reflexivity].
  apply is_ws_cases in E. destruct E as [-> | ->]; discriminate.
Qed.

Lemma lstrip_head_ok tx : head_ok tx -> lstrip_sp tx = tx.
Proof.
  destruct tx as [|c r]; [reflexivity|]. simpl. intros H.
  destruct (Ascii.eqb_spec c " "); [subst; discriminate | reflexivity].
Qed.

Definition layout_ok (d : dialect) (indent : option nat) : Prop :=
  d_colon_sp d = true /\ (indent <> None -> d_nl d = true).

Lemma layout_sep_ok d indent : layout_ok d indent -> sep_ok d (fst (layout indent)).
Proof.
  intros [_ H]. destruct indent as [i|]; simpl.
  - split; [discriminate|]. unfold is_ws. rewrite H by discriminate. reflexivity.
  - split; [discriminate | reflexivity].
Qed.

Theorem readback_top d n e name t v indent :
  layout_ok d indent -> is_typeref name = true -> in_scope n e t v = true ->
  exists tx, encode n e name t v indent = Ok tx /\
             read_top d n e name t tx = Some (norm n e t v).
Proof.
  intros Hl Hname Hs. pose proof (layout_sep_ok d indent Hl) as Hsep.
  unfold encode. destruct (layout indent) as [sep ind]. simpl fst in Hsep.
  destruct (agree_fuel d e n (proj1 Hl) t v sep ind Hs Hsep) as (tx & Htx & Hh & Hrd).
  rewrite Htx. cbn [bind]. eexists; split; [reflexivity|].
  rewrite lstrip_head_ok by auto. unfold read_top.
  rewrite lex_ident_t_ok by (auto using lower_typeref; reflexivity).
  cbn [skip_ws1]. rewrite is_ws_space.
  rewrite skip_ws_stop by now apply typeref_stops_ws.
  rewrite lex_typeref_ok by (auto; reflexivity). rewrite String.eqb_refl.
  change (s2t " ::= " ++ tx) with (" "%char :: s2t "::=" ++ " "%char :: tx).
  cbn [skip_ws1]. rewrite is_ws_space.
  rewrite (skip_ws_stop d (s2t "::=" ++ _)) by (now apply is_ws_false).
  rewrite expect_str_app. rewrite skip_ws_space.
  rewrite <- (app_nil_r tx) at 1. rewrite skip_ws_stop by now apply head_ok_stops_ws.
  now rewrite Hrd.
Qed.

(** Two in-scope values with the same text denote the same abstract value. *)
Theorem injective_top n e name t v1 v2 indent tx :
  is_typeref name = true -> in_scope n e t v1 = true -> in_scope n e t v2 = true ->
  encode n e name t v1 indent = Ok tx -> encode n e name t v2 indent = Ok tx ->
  norm n e t v1 = norm n e t v2.
Proof.
  intros Hname H1 H2 E1 E2.
  assert (Hl : layout_ok x680_ws indent) by (split; reflexivity).
  destruct (readback_top x680_ws n e name t v1 indent Hl Hname H1) as (t1 & Ht1 & R1).
  destruct (readback_top x680_ws n e name t v2 indent Hl Hname H2) as (t2 & Ht2 & R2).
  congruence.
Qed.
