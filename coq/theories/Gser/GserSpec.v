(** What the GSER theorems talk about: the abstract value a (type, Python
    value) pair denotes, and the decidable scope of the theorems. *)
From Asn1V Require Import Base.Prelude Syntax.Asn1 Gser.Chars Gser.Gser3641.

(** ** The abstract value

    [norm] maps a Python-shaped value to the abstract value it denotes under
    its type: members in the order of the type definition, entries that are
    not members of the type dropped, absent DEFAULT members filled in, and a
    BIT STRING reduced to the bits that count (the first [nbits] bits, unused
    bits of the last octet cleared).  The correspondence run of harness/c20.py
    compares it, case by case, with an abstract value computed independently
    in Python ([c20.py_norm]). *)
Definition normalizer := ty -> value -> value.

Fixpoint norm_members (normf : normalizer) (ms : list (member_of ty))
         (fields : list (string * value)) : list (string * value) :=
  match ms with
  | [] => []
  | m :: r =>
    match lookup (m_name m) fields with
    | Some x => (m_name m, normf (m_ty m) x) :: norm_members normf r fields
    | None =>
      match m_opt m with
      | Default dv => (m_name m, dv) :: norm_members normf r fields
      | _ => norm_members normf r fields
      end
    end
  end.

Definition norm_bits (bs : list Z) (nb : Z) : value :=
  let bits := firstn (Z.to_nat nb) (bits_of_bytes bs) in
  VBits (pack bits) (Z.of_nat (length bits)).

Definition norm_step (nf : normalizer) (e : env) (t : ty) (v : value) : value :=
  match t with
  | TBits _ _ => match v with VBits bs nb => norm_bits bs nb | _ => v end
  | TSeq _ root ext =>
    match v with
    | VSeq fields => VSeq (norm_members nf (members_of root ext) fields)
    | _ => v
    end
  | TSeqOf _ te _ => match v with VList xs => VList (map (nf te) xs) | _ => v end
  | TChoice root ext =>
    match v with
    | VChoice alt x =>
      match find_member alt (alts_of root ext) with
      | Some m => VChoice alt (nf (m_ty m) x)
      | None => v
      end
    | _ => v
    end
  | TRef nm => match lookup nm e with Some t' => nf t' v | None => v end
  | TTag _ t' => nf t' v
  | _ => v
  end.

Fixpoint norm (fuel : nat) (e : env) : normalizer :=
  match fuel with
  | O => fun _ v => v
  | S n => norm_step (norm n e) e
  end.

(** ** Scope

    [in_scope fuel e t v]: within [fuel] levels of type structure, the value
    has the Python shape of its type (so the encoder takes no foreign
    exception), mandatory members are present, names are ASN.1 identifiers
    and pairwise different within one type, octets are octets, code points
    are Unicode scalar values, a BIT STRING does not claim more bits than it
    has octets for, and an OBJECT IDENTIFIER has at least two non-negative
    arcs.  Nothing is said about constraints: GSER does not look at them. *)
Fixpoint nodupb (l : list string) : bool :=
  match l with
  | [] => true
  | x :: r => negb (existsb (String.eqb x) r) && nodupb r
  end.

Definition names_okb (ns : list string) : bool := forallb is_identifier ns && nodupb ns.

Definition valid_cp (c : Z) : bool :=
  (0 <=? c) && (c <? 1114112) && negb ((55296 <=? c) && (c <=? 57343)).

Definition scope_pred := ty -> value -> bool.

Fixpoint members_scope (f : scope_pred) (ms : list (member_of ty)) (fields : list (string * value))
  : bool :=
  match ms with
  | [] => true
  | m :: r =>
    match lookup (m_name m) fields with
    | Some x => f (m_ty m) x
    | None => match m_opt m with Mandatory => false | _ => true end
    end && members_scope f r fields
  end.

Definition scope_step (sc : scope_pred) (e : env) (t : ty) (v : value) : bool :=
  match t with
  | TBool => match v with VBool _ => true | _ => false end
  | TNull => match v with VNone => true | _ => false end
  | TInt _ => match v with VInt _ => true | _ => false end
  | TEnum root ext =>
    match v with
    | VEnum nm => is_identifier nm && existsb (String.eqb nm) (enum_names root ext)
    | _ => false
    end
  | TBits _ _ =>
    match v with
    | VBits bs nb => forallb is_byteb bs && (0 <=? nb) && (nb <=? 8 * Z.of_nat (length bs))
    | _ => false
    end
  | TOctets _ => match v with VBytes bs => forallb is_byteb bs | _ => false end
  | TStr _ _ _ => match v with VStr cps => forallb valid_cp cps | _ => false end
  | TOid =>
    match v with
    | VOid arcs => (2 <=? length arcs)%nat && forallb (fun a => 0 <=? a) arcs
    | _ => false
    end
  | TSeq _ root ext =>
    match v with
    | VSeq fields =>
      names_okb (map m_name (members_of root ext)) &&
      members_scope sc (members_of root ext) fields
    | _ => false
    end
  | TSeqOf _ te _ => match v with VList xs => forallb (sc te) xs | _ => false end
  | TChoice root ext =>
    match v with
    | VChoice alt x =>
      is_identifier alt &&
      match find_member alt (alts_of root ext) with
      | Some m => sc (m_ty m) x
      | None => false
      end
    | _ => false
    end
  | TRef nm => match lookup nm e with Some t' => sc t' v | None => false end
  | TTag _ t' => sc t' v
  end.

Fixpoint in_scope (fuel : nat) (e : env) : scope_pred :=
  match fuel with
  | O => fun _ _ => false
  | S n => scope_step (in_scope n e) e
  end.
