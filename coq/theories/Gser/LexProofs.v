(** Lexical round-trip lemmas: what the RFC 3641 reader's lexical functions
    return on the texts the implementation model writes for scalars. *)
From Coq Require Import DecimalString DecimalN DecimalFacts.
From Asn1V Require Import Base.Prelude Syntax.Asn1 Gser.Chars Gser.GserImpl Gser.Gser3641 Gser.GserSpec.

(** ** Characters *)
Lemma zc_ch z : 0 <= z < 256 -> zc (ch z) = z.
Proof.
  intros H. unfold zc, ch. rewrite N_ascii_embedding by lia. lia.
Qed.

Lemma ch_zc c : ch (zc c) = c.
Proof.
  unfold zc, ch. rewrite N2Z.id. apply ascii_N_embedding.
Qed.

Lemma zc_range c : 0 <= zc c < 256.
Proof.
  unfold zc. pose proof (N_ascii_bounded c). lia.
Qed.

Lemma zc_inj a b : zc a = zc b -> a = b.
Proof.
  intros H. rewrite <- (ch_zc a), <- (ch_zc b). now rewrite H.
Qed.

Lemma eqb_zc a b : Ascii.eqb a b = (zc a =? zc b).
Proof.
  destruct (Ascii.eqb_spec a b) as [->|N].
  - now rewrite Z.eqb_refl.
  - symmetry. apply Z.eqb_neq. intros H. apply N. now apply zc_inj.
Qed.

(** What may follow a value in the library's output: nothing, white space, a
    comma or a closing brace. *)
Definition delim (c : ascii) : bool :=
  Ascii.eqb c " " || Ascii.eqb c "010" || Ascii.eqb c "," || Ascii.eqb c "}".

Definition follow_ok (rest : text) : Prop :=
  match rest with [] => True | c :: _ => delim c = true end.

Definition stops (p : ascii -> bool) (rest : text) : Prop :=
  match rest with [] => True | c :: _ => p c = false end.

(** A value's text starts with a character that is not a delimiter. *)
Definition head_ok (tx : text) : Prop :=
  match tx with [] => False | c :: _ => delim c = false end.

Lemma delim_cases c : delim c = true -> c = " "%char \/ c = "010"%char \/ c = ","%char \/ c = "}"%char.
Proof.
  unfold delim. intros H.
  repeat (apply orb_true_iff in H; destruct H as [H|H]);
    apply Ascii.eqb_eq in H; auto.
Qed.

Ltac delim_solve H :=
  apply delim_cases in H; destruct H as [ -> | [ -> | [ -> | -> ] ] ]; reflexivity.

Lemma delim_not_digit c : delim c = true -> is_digit c = false.
Proof. intros H. delim_solve H. Qed.
Lemma delim_not_idchar c : delim c = true -> is_idchar c = false.
Proof. intros H. delim_solve H. Qed.
Lemma delim_not_dot c : delim c = true -> Ascii.eqb c "." = false.
Proof. intros H. delim_solve H. Qed.
Lemma delim_not_dquote c : delim c = true -> (zc c =? 34) = false.
Proof. intros H. delim_solve H. Qed.

Lemma follow_stops p rest :
  (forall c, delim c = true -> p c = false) -> follow_ok rest -> stops p rest.
Proof. destruct rest; simpl; auto. Qed.

Lemma is_ws_delim d c : is_ws d c = true -> delim c = true.
Proof.
  unfold is_ws, delim. intros H. apply orb_true_iff in H. destruct H as [H|H].
  - now rewrite H.
  - apply andb_true_iff in H. destruct H as [_ H]. rewrite H. now rewrite orb_true_r.
Qed.

(** ** span, skip_ws, expect *)
Lemma span_app p a rest :
  forallb p a = true -> stops p rest -> span p (a ++ rest) = (a, rest).
Proof.
  induction a as [|c a IH]; simpl; intros Ha Hr.
  - destruct rest as [|x r]; simpl in *; [reflexivity| now rewrite Hr].
  - apply andb_true_iff in Ha. destruct Ha as [Hc Ha]. rewrite Hc, IH; auto.
Qed.

Lemma skip_ws_app d w rest :
  forallb (is_ws d) w = true -> skip_ws d (w ++ rest) = skip_ws d rest.
Proof.
  induction w as [|c w IH]; simpl; intros H; [reflexivity|].
  apply andb_true_iff in H. destruct H as [Hc H]. now rewrite Hc, IH.
Qed.

Lemma skip_ws_stop d s : stops (is_ws d) s -> skip_ws d s = s.
Proof. destruct s; simpl; intros H; [reflexivity | now rewrite H]. Qed.

Lemma head_ok_stops_ws d tx rest : head_ok tx -> stops (is_ws d) (tx ++ rest).
Proof.
  destruct tx as [|c tx]; simpl; [tauto|]. intros H.
  destruct (is_ws d c) eqn:E; [|reflexivity]. apply is_ws_delim in E. congruence.
Qed.

Lemma expect_str_app p s : expect_str p (p ++ s) = Some s.
Proof.
  induction p as [|c p IH]; simpl; [reflexivity|]. now rewrite Ascii.eqb_refl.
Qed.

Lemma s2t_app a b : s2t (a ++ b)%string = s2t a ++ s2t b.
Proof. induction a; simpl; [reflexivity | now rewrite IHa]. Qed.

(** ** Identifiers *)
Lemma ident_idchars a : is_identifier_t a = true -> forallb is_idchar a = true.
Proof.
  destruct a as [|c r]; simpl; [discriminate|]. intros H.
  apply andb_true_iff in H. destruct H as [H _].
  apply andb_true_iff in H. destruct H as [Hc Hr]. rewrite Hr, andb_true_r.
  unfold is_idchar, is_alnum. now rewrite Hc, orb_true_r.
Qed.

Lemma typeref_idchars a : is_typeref_t a = true -> forallb is_idchar a = true.
Proof.
  destruct a as [|c r]; simpl; [discriminate|]. intros H.
  apply andb_true_iff in H. destruct H as [H _].
  apply andb_true_iff in H. destruct H as [Hc Hr]. rewrite Hr, andb_true_r.
  unfold is_idchar, is_alnum. now rewrite Hc, orb_true_r.
Qed.

Lemma lex_ident_ok nm rest :
  is_identifier nm = true -> stops is_idchar rest ->
  lex_ident (s2t nm ++ rest) = Some (nm, rest).
Proof.
  intros H Hr. unfold lex_ident. rewrite span_app; auto using ident_idchars.
  unfold is_identifier in H. rewrite H. unfold s2t.
  now rewrite string_of_list_ascii_of_string.
Qed.

Lemma lex_typeref_ok nm rest :
  is_typeref nm = true -> stops is_idchar rest ->
  lex_typeref (s2t nm ++ rest) = Some (nm, rest).
Proof.
  intros H Hr. unfold lex_typeref. rewrite span_app; auto using typeref_idchars.
  unfold is_typeref in H. rewrite H. unfold s2t.
  now rewrite string_of_list_ascii_of_string.
Qed.

Lemma ident_head_ok nm : is_identifier nm = true -> head_ok (s2t nm).
Proof.
  unfold is_identifier. destruct (s2t nm) as [|c r]; simpl; [discriminate|].
  intros H. apply andb_true_iff in H. destruct H as [H _].
  apply andb_true_iff in H. destruct H as [Hc _].
  destruct (delim c) eqn:E; [|reflexivity].
  apply delim_not_idchar in E. unfold is_idchar, is_alnum in E.
  rewrite Hc in E. now rewrite orb_true_r in E.
Qed.

(** ** Decimal numbers *)
Lemma uint_digits u : forallb is_digit (s2t (NilEmpty.string_of_uint u)) = true.
Proof. induction u; simpl; auto. Qed.

Lemma nzhead_not_D0 u : match Decimal.nzhead u with Decimal.D0 _ => False | _ => True end.
Proof. induction u; simpl; auto. Qed.

Lemma N_to_uint_unorm n : Decimal.unorm (N.to_uint n) = N.to_uint n.
Proof.
  rewrite <- (DecimalN.Unsigned.of_to n) at 2. now rewrite DecimalN.Unsigned.to_of.
Qed.

Lemma N_to_uint_shape n :
  N.to_uint n = Decimal.D0 Decimal.Nil \/
  match N.to_uint n with Decimal.Nil | Decimal.D0 _ => False | _ => True end.
Proof.
  pose proof (N_to_uint_unorm n) as H. unfold Decimal.unorm in H.
  pose proof (nzhead_not_D0 (N.to_uint n)) as Hz.
  destruct (Decimal.nzhead (N.to_uint n)) eqn:E;
    first [ left; now rewrite <- H | tauto | right; rewrite <- H; exact I ].
Qed.

Lemma dec_N_digits n : forallb is_digit (dec_N n) = true.
Proof. apply uint_digits. Qed.

Lemma dec_N_shape n :
  dec_N n = ["0"%char] \/ exists c r, dec_N n = c :: r /\ Ascii.eqb c "0" = false.
Proof.
  unfold dec_N. destruct (N_to_uint_shape n) as [H|H].
  - left. now rewrite H.
  - right. destruct (N.to_uint n); try tauto; simpl; eauto.
Qed.

Lemma lex_number_ok n rest :
  stops is_digit rest -> lex_number (dec_N n ++ rest) = Some (n, rest).
Proof.
  intros Hr. unfold lex_number. rewrite span_app; auto using dec_N_digits.
  assert (Hu : NilEmpty.uint_of_string (string_of_list_ascii (dec_N n)) = Some (N.to_uint n)).
  { unfold dec_N, s2t. rewrite string_of_list_ascii_of_string. apply NilEmpty.usu. }
  destruct (dec_N_shape n) as [H|(c & r & H & Hc)]; rewrite H in *.
  - rewrite Hu. simpl. now rewrite DecimalN.Unsigned.of_to.
  - rewrite Hc, Hu. simpl. now rewrite DecimalN.Unsigned.of_to.
Qed.

Lemma dec_N_head n : exists c r, dec_N n = c :: r /\ is_digit c = true.
Proof.
  unfold dec_N. destruct (N_to_uint_shape n) as [H|H].
  - rewrite H. simpl. eauto.
  - destruct (N.to_uint n); try tauto; simpl; eauto.
Qed.

Lemma digit_not_minus c : is_digit c = true -> Ascii.eqb c "-" = false.
Proof.
  intros H. destruct (Ascii.eqb_spec c "-"); [subst; discriminate | reflexivity].
Qed.

Lemma digit_not_delim c : is_digit c = true -> delim c = false.
Proof.
  intros H. destruct (delim c) eqn:E; [|reflexivity]. apply delim_not_digit in E. congruence.
Qed.

Lemma read_integer_ok z rest :
  stops is_digit rest -> read_integer (dec_Z z ++ rest) = Some (VInt z, rest).
Proof.
  intros Hr. unfold read_integer, dec_Z. destruct (z <? 0) eqn:E.
  - simpl. rewrite lex_number_ok by auto.
    destruct (N.eqb_spec (Z.abs_N z) 0); [lia|]. do 3 f_equal. lia.
  - destruct (dec_N_head (Z.to_N z)) as (c & r & Hd & Hc).
    rewrite lex_number_ok by auto. rewrite Hd. simpl.
    rewrite digit_not_minus by auto.
    do 3 f_equal. lia.
Qed.

Lemma dec_Z_head_ok z : head_ok (dec_Z z).
Proof.
  unfold dec_Z. destruct (z <? 0); [reflexivity|].
  destruct (dec_N_head (Z.to_N z)) as (c & r & -> & Hc). simpl. now apply digit_not_delim.
Qed.

(** ** hstring and bstring *)
Lemma hexdig_ok n :
  0 <= n < 16 -> hexval (hexdig n) = Some n /\ Ascii.eqb (hexdig n) "'" = false.
Proof.
  intros H.
  assert (C : n = 0 \/ n = 1 \/ n = 2 \/ n = 3 \/ n = 4 \/ n = 5 \/ n = 6 \/ n = 7 \/ n = 8 \/
              n = 9 \/ n = 10 \/ n = 11 \/ n = 12 \/ n = 13 \/ n = 14 \/ n = 15) by lia.
  repeat (destruct C as [C|C]; [subst; split; reflexivity|]). subst; split; reflexivity.
Qed.

Lemma is_byteb_range b : is_byteb b = true -> 0 <= b < 256.
Proof. unfold is_byteb. lia. Qed.

Lemma read_hex_pairs_ok bs rest :
  forallb is_byteb bs = true ->
  read_hex_pairs (hex_of_bytes bs ++ "'"%char :: rest) = Some (bs, "'"%char :: rest).
Proof.
  induction bs as [|b bs IH]; intros H.
  - reflexivity.
  - simpl in H. apply andb_true_iff in H. destruct H as [Hb H]. apply is_byteb_range in Hb.
    change (hex_of_bytes (b :: bs)) with (hexdig (b / 16) :: hexdig (b mod 16) :: hex_of_bytes bs).
    assert (H1 : 0 <= b / 16 < 16) by (split; [apply Z.div_pos; lia | apply Z.div_lt_upper_bound; lia]).
    assert (H2 : 0 <= b mod 16 < 16) by (apply Z.mod_pos_bound; lia).
    destruct (hexdig_ok _ H1) as [V1 Q1]. destruct (hexdig_ok _ H2) as [V2 Q2].
    cbn [app read_hex_pairs]. rewrite Q1, V1, V2, IH by auto.
    do 2 f_equal. f_equal. pose proof (Z.div_mod b 16). lia.
Qed.

Lemma read_octets_ok bs rest :
  forallb is_byteb bs = true ->
  read_octets (enc_octets bs ++ rest) = Some (VBytes bs, rest).
Proof.
  intros H. unfold read_octets, enc_octets. cbn [app expect]. rewrite Ascii.eqb_refl.
  rewrite <- app_assoc. change (s2t "'H" ++ rest) with ("'"%char :: "H"%char :: rest).
  rewrite read_hex_pairs_ok by auto. reflexivity.
Qed.

Lemma bitch_binary bits : forallb is_binary (map bitch bits) = true.
Proof. induction bits as [|[] r IH]; simpl; auto. Qed.

Lemma bitch_back bits : map (fun c => Ascii.eqb c "1") (map bitch bits) = bits.
Proof. induction bits as [|[] r IH]; simpl; congruence. Qed.

Lemma read_bits_ok bs nb tx rest :
  0 <= nb <= 8 * Z.of_nat (length bs) ->
  enc_bits bs nb = Ok tx ->
  read_bits (tx ++ rest) = Some (norm_bits bs nb, rest).
Proof.
  intros Hn. unfold enc_bits. destruct (0 <? nb) eqn:E.
  - destruct bs as [|b bs]; [simpl in Hn; lia|]. unfold norm_bits.
    set (bits := firstn (Z.to_nat nb) (bits_of_bytes (b :: bs))). clearbody bits.
    intros H. injection H as <-.
    unfold read_bits. cbn [app expect]. rewrite Ascii.eqb_refl.
    rewrite <- app_assoc. change (s2t "'B" ++ rest) with (["'"%char; "B"%char] ++ rest).
    rewrite span_app; [|apply bitch_binary|reflexivity].
    rewrite expect_str_app, bitch_back. reflexivity.
  - intros H. injection H as <-. assert (nb = 0) by lia. subst nb. reflexivity.
Qed.

(** ** Character strings: UTF-8 and doubled quotes *)
Ltac ifs :=
  repeat match goal with
         | |- context [if ?x then _ else _] =>
           let E := fresh "E" in destruct x eqn:E; try (exfalso; lia)
         end.

Lemma utf8_2_facts c :
  128 <= c < 2048 ->
  194 <= 192 + c / 64 < 224 /\ 128 <= 128 + c mod 64 < 192 /\
  (192 + c / 64 - 192) * 64 + (128 + c mod 64 - 128) = c.
Proof. intros H. Z.div_mod_to_equations. lia. Qed.

Lemma utf8_3_facts c :
  2048 <= c < 65536 ->
  224 <= 224 + c / 4096 < 240 /\ 128 <= 128 + (c / 64) mod 64 < 192 /\
  128 <= 128 + c mod 64 < 192 /\
  (224 + c / 4096 - 224) * 4096 + (128 + (c / 64) mod 64 - 128) * 64 + (128 + c mod 64 - 128) = c.
Proof. intros H. Z.div_mod_to_equations. lia. Qed.

Lemma utf8_4_facts c :
  65536 <= c < 1114112 ->
  240 <= 240 + c / 262144 < 245 /\ 128 <= 128 + (c / 4096) mod 64 < 192 /\
  128 <= 128 + (c / 64) mod 64 < 192 /\ 128 <= 128 + c mod 64 < 192 /\
  (240 + c / 262144 - 240) * 262144 + (128 + (c / 4096) mod 64 - 128) * 4096 +
  (128 + (c / 64) mod 64 - 128) * 64 + (128 + c mod 64 - 128) = c.
Proof. intros H. Z.div_mod_to_equations. lia. Qed.

Lemma Ok_inj {A} (a b : A) : Ok a = Ok b -> a = b.
Proof. congruence. Qed.

Lemma utf8_cp_ok c bytes rest :
  utf8_cp c = Ok bytes -> c <> 34 ->
  read_chars (map ch bytes ++ rest) = push c (read_chars rest).
Proof.
  unfold utf8_cp. intros H Hq.
  destruct (c <? 0) eqn:E0; [discriminate|].
  destruct (c <? 128) eqn:E1.
  { apply Ok_inj in H; subst bytes. cbn [map app read_chars]. rewrite !zc_ch by lia. ifs. reflexivity. }
  destruct (c <? 2048) eqn:E2.
  { apply Ok_inj in H; subst bytes. destruct (utf8_2_facts c ltac:(lia)) as (F0 & F1 & F).
    revert F0 F1 F. generalize (192 + c / 64) (128 + c mod 64). intros b0 b1 F0 F1 F.
    cbn [map app read_chars]. unfold cont. rewrite !zc_ch by lia. ifs.
    f_equal. lia. }
  destruct (c <? 65536) eqn:E3.
  { destruct ((55296 <=? c) && (c <=? 57343)) eqn:Es; [discriminate|].
    apply Ok_inj in H; subst bytes. destruct (utf8_3_facts c ltac:(lia)) as (F0 & F1 & F2 & F).
    revert F0 F1 F2 F. generalize (224 + c / 4096) (128 + (c / 64) mod 64) (128 + c mod 64).
    intros b0 b1 b2 F0 F1 F2 F.
    cbn [map app read_chars]. unfold cont. rewrite !zc_ch by lia. ifs.
    f_equal. lia. }
  destruct (c <? 1114112) eqn:E4; [|discriminate].
  apply Ok_inj in H; subst bytes. destruct (utf8_4_facts c ltac:(lia)) as (F0 & F1 & F2 & F3 & F).
  revert F0 F1 F2 F3 F.
  generalize (240 + c / 262144) (128 + (c / 4096) mod 64) (128 + (c / 64) mod 64) (128 + c mod 64).
  intros b0 b1 b2 b3 F0 F1 F2 F3 F.
  cbn [map app read_chars]. unfold cont. rewrite !zc_ch by lia. ifs.
  f_equal. lia.
Qed.

Lemma read_chars_quote2 rest :
  read_chars (ch 34 :: ch 34 :: rest) = push 34 (read_chars rest).
Proof. reflexivity. Qed.

Lemma read_chars_ok cps : forall body rest,
  utf8 (dbl_quotes cps) = Ok body ->
  stops (fun c => zc c =? 34) rest ->
  read_chars (map ch body ++ """"%char :: rest) = Some (cps, rest).
Proof.
  induction cps as [|c cps IH]; intros body rest H Hr.
  - injection H as <-. destruct rest as [|x r]; [reflexivity|].
    simpl in Hr. cbn [map app read_chars].
    change (zc """" =? 34) with true. cbv iota. now rewrite Hr.
  - unfold dbl_quotes in H. cbn [flat_map] in H. fold (dbl_quotes cps) in H.
    destruct (c =? 34) eqn:E.
    + assert (c = 34) by lia. subst c. cbn [app utf8] in H.
      change (utf8_cp 34) with (Ok [34]) in H. cbn [bind] in H.
      destruct (utf8 (dbl_quotes cps)) as [b|] eqn:Eb; [|discriminate].
      cbn [bind app] in H. injection H as <-.
      cbn [map app]. rewrite read_chars_quote2, (IH b rest) by auto. reflexivity.
    + cbn [app utf8] in H.
      destruct (utf8_cp c) as [a|] eqn:Ea; [|discriminate]. cbn [bind] in H.
      destruct (utf8 (dbl_quotes cps)) as [b|] eqn:Eb; [|discriminate].
      cbn [bind] in H. injection H as <-.
      rewrite map_app, <- app_assoc.
      rewrite (utf8_cp_ok c a) by (auto; lia). rewrite (IH b rest) by auto. reflexivity.
Qed.

Lemma read_string_ok cps tx rest :
  enc_string cps = Ok tx -> stops (fun c => zc c =? 34) rest ->
  read_string (tx ++ rest) = Some (VStr cps, rest).
Proof.
  unfold enc_string. destruct (utf8 (dbl_quotes cps)) as [body|] eqn:E; [|discriminate].
  cbn [bind]. intros H Hr. injection H as <-.
  unfold read_string. cbn [app expect]. rewrite Ascii.eqb_refl.
  rewrite <- app_assoc. cbn [app]. now rewrite (read_chars_ok cps body rest).
Qed.

(** The encoder accepts every string of Unicode scalar values. *)
Lemma utf8_cp_total c : valid_cp c = true -> exists a, utf8_cp c = Ok a.
Proof.
  unfold valid_cp, utf8_cp. intros H.
  destruct (c <? 0) eqn:E0; [lia|].
  destruct (c <? 128); [eauto|]. destruct (c <? 2048); [eauto|].
  destruct (c <? 65536).
  - destruct ((55296 <=? c) && (c <=? 57343)) eqn:Es; [lia | eauto].
  - destruct (c <? 1114112) eqn:E; [eauto | lia].
Qed.

Lemma utf8_total cps : forallb valid_cp cps = true -> exists b, utf8 cps = Ok b.
Proof.
  induction cps as [|c r IH]; simpl; intros H; [eauto|].
  apply andb_true_iff in H. destruct H as [Hc H].
  destruct (utf8_cp_total c Hc) as [a ->]. destruct (IH H) as [b ->]. simpl. eauto.
Qed.

Lemma dbl_quotes_valid cps : forallb valid_cp cps = true -> forallb valid_cp (dbl_quotes cps) = true.
Proof.
  induction cps as [|c r IH]; simpl; intros H; [reflexivity|].
  apply andb_true_iff in H. destruct H as [Hc H]. fold (dbl_quotes r).
  destruct (c =? 34) eqn:E; simpl; rewrite ?Hc, IH; auto.
Qed.

Lemma enc_string_total cps :
  forallb valid_cp cps = true -> exists tx, enc_string cps = Ok tx /\ head_ok tx.
Proof.
  intros H. unfold enc_string.
  destruct (utf8_total _ (dbl_quotes_valid _ H)) as [b ->]. simpl. eexists; split; reflexivity.
Qed.

(** ** OBJECT IDENTIFIER *)
Definition arcs_text (xs : list Z) : text := flat_map (fun a => "."%char :: dec_Z a) xs.

Lemma join_arcs x xs : join ["."%char] (map dec_Z (x :: xs)) = dec_Z x ++ arcs_text xs.
Proof.
  revert x. induction xs as [|y r IH]; intros x.
  - simpl. now rewrite app_nil_r.
  - change (join ["."%char] (map dec_Z (x :: y :: r)))
      with (dec_Z x ++ ["."%char] ++ join ["."%char] (map dec_Z (y :: r))).
    rewrite IH. reflexivity.
Qed.

Lemma arcs_text_len xs rest : (length xs <= length (arcs_text xs ++ rest))%nat.
Proof.
  induction xs as [|a r IH]; simpl; [lia|]. rewrite <- app_assoc, app_length. lia.
Qed.

Lemma dec_Z_nonneg a : 0 <= a -> dec_Z a = dec_N (Z.to_N a).
Proof. intros H. unfold dec_Z. destruct (a <? 0) eqn:E; [lia | reflexivity]. Qed.

Lemma arcs_text_stops xs rest : stops is_digit rest -> stops is_digit (arcs_text xs ++ rest).
Proof. destruct xs; simpl; auto. Qed.

Lemma read_arcs_ok xs : forall k rest,
  forallb (fun a => 0 <=? a) xs = true -> (length xs < k)%nat ->
  stops is_digit rest -> stops (fun c => Ascii.eqb c ".") rest ->
  read_arcs k (arcs_text xs ++ rest) = Some (xs, rest).
Proof.
  induction xs as [|a xs IH]; intros k rest Hx Hk Hd Hp.
  - destruct k as [|k]; [simpl in Hk; lia|]. destruct rest as [|c r]; [reflexivity|].
    simpl in Hp. simpl. now rewrite Hp.
  - destruct k as [|k]; [simpl in Hk; lia|]. simpl in Hx. apply andb_true_iff in Hx.
    destruct Hx as [Ha Hx]. simpl in Hk.
    change (arcs_text (a :: xs)) with (("."%char :: dec_Z a) ++ arcs_text xs).
    rewrite <- app_assoc. cbn [app read_arcs]. rewrite Ascii.eqb_refl.
    rewrite dec_Z_nonneg by lia.
    rewrite lex_number_ok by now apply arcs_text_stops.
    rewrite IH by (auto; lia). simpl. do 3 f_equal. lia.
Qed.

Lemma read_oid_ok arcs rest :
  (2 <=? length arcs)%nat = true -> forallb (fun a => 0 <=? a) arcs = true ->
  follow_ok rest ->
  read_oid (enc_oid arcs ++ rest) = Some (VOid arcs, rest).
Proof.
  intros Hl Ha Hf. destruct arcs as [|a0 [|a1 more]]; try discriminate.
  unfold enc_oid. rewrite join_arcs. cbn [forallb] in Ha. apply andb_true_iff in Ha. destruct Ha as [H0 Ha].
  assert (Hd : stops is_digit rest) by (apply follow_stops; auto using delim_not_digit).
  assert (Hp : stops (fun c => Ascii.eqb c ".") rest) by (apply follow_stops; auto using delim_not_dot).
  unfold read_oid. rewrite dec_Z_nonneg by lia. rewrite <- app_assoc.
  rewrite lex_number_ok by now apply arcs_text_stops.
  rewrite read_arcs_ok; auto.
  - repeat f_equal. lia.
  - pose proof (arcs_text_len (a1 :: more) rest). lia.
Qed.

Lemma enc_oid_head_ok arcs : (2 <=? length arcs)%nat = true -> head_ok (enc_oid arcs).
Proof.
  destruct arcs as [|a r]; [discriminate|]. intros _. unfold enc_oid. rewrite join_arcs.
  pose proof (dec_Z_head_ok a) as H. destruct (dec_Z a); [destruct H | exact H].
Qed.
