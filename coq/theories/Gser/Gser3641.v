(** A type-directed recursive-descent READER for the value notation of
    RFC 3641 (Generic String Encoding Rules), written from the RFC's ABNF and
    independent of the implementation model (it does not import GserImpl).

      sp   = *%x20            msp = 1*%x20
      identifier     = lowercase *alphanumeric *(hyphen 1*alphanumeric)
      BooleanValue   = %x54.52.55.45 / %x46.41.4C.53.45        ; TRUE / FALSE
      NullValue      = %x4E.55.4C.4C                             ; NULL
      INTEGER-value  = "0" / positive-number / ("-" positive-number)
      EnumeratedValue = identifier
      bstring        = squote *binary-digit squote %x42
      hstring        = squote *hex-digit squote %x48           ; hex-digit upper case
      StringValue    = dquote *SafeUTF8Character dquote         ; dquote doubled inside
      numeric-oid    = oid-component 1*( "." oid-component )
      SequenceValue  = "{" [ sp NamedValue *( "," sp NamedValue ) ] sp "}"
      NamedValue     = identifier msp Value
      SequenceOfValue = "{" [ sp Value *( "," sp Value ) ] sp "}"
      IdentifiedChoiceValue = identifier ":" Value

    Two points of the library's output are outside this grammar and are
    admitted by a [dialect] switch each, so that the strict RFC reader is
    available as well:
      - [d_nl]: a line feed counts as white space (the library's indented
        layout; X.680 value notation allows any white space);
      - [d_colon_sp]: white space is allowed on both sides of the CHOICE
        colon (the library writes [alt : value], as X.680 does).

    The reader is a partial function text -> option (value * rest); it reads
    members of SEQUENCE and SET in the order of the type definition, fills
    in DEFAULT values of absent members, rejects missing mandatory members,
    unknown names, malformed UTF-8 (overlong forms, surrogates, > 10FFFF),
    leading zeros, lower-case hex digits and odd hex digit counts. *)
From Coq Require Import DecimalString DecimalN.
From Asn1V Require Import Base.Prelude Syntax.Asn1 Gser.Chars.

Record dialect : Type := { d_nl : bool; d_colon_sp : bool }.
Definition rfc3641_strict : dialect := {| d_nl := false; d_colon_sp := false |}.
Definition rfc3641_colon : dialect := {| d_nl := false; d_colon_sp := true |}.
Definition x680_ws : dialect := {| d_nl := true; d_colon_sp := true |}.

(** ** Lexical level *)
Definition is_ws (d : dialect) (c : ascii) : bool :=
  Ascii.eqb c " " || (d_nl d && Ascii.eqb c "010").

Fixpoint skip_ws (d : dialect) (s : text) : text :=
  match s with
  | c :: r => if is_ws d c then skip_ws d r else s
  | [] => []
  end.

Definition skip_ws1 (d : dialect) (s : text) : option text :=
  match s with
  | c :: r => if is_ws d c then Some (skip_ws d r) else None
  | [] => None
  end.

Definition is_digit (c : ascii) : bool := let z := zc c in (48 <=? z) && (z <=? 57).
Definition is_lower (c : ascii) : bool := let z := zc c in (97 <=? z) && (z <=? 122).
Definition is_upper (c : ascii) : bool := let z := zc c in (65 <=? z) && (z <=? 90).
Definition is_alnum (c : ascii) : bool := is_digit c || is_lower c || is_upper c.
Definition is_idchar (c : ascii) : bool := is_alnum c || Ascii.eqb c "-".
Definition is_binary (c : ascii) : bool := Ascii.eqb c "0" || Ascii.eqb c "1".

Fixpoint span (p : ascii -> bool) (s : text) : text * text :=
  match s with
  | c :: r => if p c then let '(a, b) := span p r in (c :: a, b) else ([], s)
  | [] => ([], [])
  end.

Definition expect (c : ascii) (s : text) : option text :=
  match s with
  | x :: r => if Ascii.eqb x c then Some r else None
  | [] => None
  end.

Fixpoint expect_str (p : text) (s : text) : option text :=
  match p with
  | [] => Some s
  | c :: p' => match expect c s with Some r => expect_str p' r | None => None end
  end.

(** No hyphen at the end and no two hyphens in a row. *)
Fixpoint hyphens_ok (s : text) : bool :=
  match s with
  | [] => true
  | c :: r =>
    if Ascii.eqb c "-" then
      match r with
      | [] => false
      | c2 :: _ => negb (Ascii.eqb c2 "-") && hyphens_ok r
      end
    else hyphens_ok r
  end.

Definition is_identifier_t (s : text) : bool :=
  match s with
  | c :: r => is_lower c && forallb is_idchar r && hyphens_ok s
  | [] => false
  end.
Definition is_typeref_t (s : text) : bool :=
  match s with
  | c :: r => is_upper c && forallb is_idchar r && hyphens_ok s
  | [] => false
  end.
Definition is_identifier (s : string) : bool := is_identifier_t (s2t s).
Definition is_typeref (s : string) : bool := is_typeref_t (s2t s).

Definition lex_ident (s : text) : option (string * text) :=
  let '(a, r) := span is_idchar s in
  if is_identifier_t a then Some (string_of_list_ascii a, r) else None.

Definition lex_typeref (s : text) : option (string * text) :=
  let '(a, r) := span is_idchar s in
  if is_typeref_t a then Some (string_of_list_ascii a, r) else None.

(** "0" / positive-number: the longest run of digits, no leading zero. *)
Definition lex_number (s : text) : option (N * text) :=
  let '(ds, r) := span is_digit s in
  match ds with
  | [] => None
  | c :: ds' =>
    if Ascii.eqb c "0" && negb (match ds' with [] => true | _ => false end) then None
    else match NilEmpty.uint_of_string (string_of_list_ascii ds) with
         | Some u => Some (N.of_uint u, r)
         | None => None
         end
  end.

Definition read_integer (s : text) : option (value * text) :=
  match s with
  | c :: r =>
    if Ascii.eqb c "-" then
      match lex_number r with
      | Some (n, r') => if N.eqb n 0 then None else Some (VInt (- Z.of_N n), r')
      | None => None
      end
    else
      match lex_number s with
      | Some (n, r') => Some (VInt (Z.of_N n), r')
      | None => None
      end
  | [] => None
  end.

(** hex-digit = %x30-39 / %x41-46 *)
Definition hexval (c : ascii) : option Z :=
  let z := zc c in
  if is_digit c then Some (z - 48)
  else if (65 <=? z) && (z <=? 70) then Some (z - 55) else None.

(** Pairs of hex digits up to (not including) the closing squote. *)
Fixpoint read_hex_pairs (s : text) : option (list Z * text) :=
  match s with
  | c1 :: r1 =>
    if Ascii.eqb c1 "'" then Some ([], s)
    else match r1 with
         | c2 :: r =>
           match hexval c1, hexval c2 with
           | Some a, Some b =>
             match read_hex_pairs r with
             | Some (bs, r') => Some (a * 16 + b :: bs, r')
             | None => None
             end
           | _, _ => None
           end
         | [] => None
         end
  | [] => None
  end.

Definition read_octets (s : text) : option (value * text) :=
  match expect "'" s with
  | Some s1 =>
    match read_hex_pairs s1 with
    | Some (bs, s2) =>
      match expect_str ["'"%char; "H"%char] s2 with
      | Some s3 => Some (VBytes bs, s3)
      | None => None
      end
    | None => None
    end
  | None => None
  end.

Definition read_bits (s : text) : option (value * text) :=
  match expect "'" s with
  | Some s1 =>
    let '(bs, s2) := span is_binary s1 in
    match expect_str ["'"%char; "B"%char] s2 with
    | Some s3 =>
      let bits := map (fun c => Ascii.eqb c "1") bs in
      Some (VBits (pack bits) (Z.of_nat (length bits)), s3)
    | None => None
    end
  | None => None
  end.

(** UTF-8 continuation octet. *)
Definition cont (c : ascii) : option Z :=
  let z := zc c in if (128 <=? z) && (z <? 192) then Some (z - 128) else None.

Definition push {A B} (a : A) (r : option (list A * B)) : option (list A * B) :=
  match r with Some (l, b) => Some (a :: l, b) | None => None end.

(** *SafeUTF8Character up to and including the closing dquote; the result is
    the list of code points (RFC 3629 UTF-8: shortest form only, no
    surrogates, at most 10FFFF). *)
Fixpoint read_chars (s : text) : option (list Z * text) :=
  match s with
  | [] => None
  | c :: r =>
    let b := zc c in
    if b =? 34 then
      match r with
      | c2 :: r2 => if zc c2 =? 34 then push 34 (read_chars r2) else Some ([], r)
      | [] => Some ([], [])
      end
    else if b <? 128 then push b (read_chars r)
    else if b <? 194 then None
    else if b <? 224 then
      match r with
      | c1 :: r1 =>
        match cont c1 with
        | Some x1 => push ((b - 192) * 64 + x1) (read_chars r1)
        | None => None
        end
      | [] => None
      end
    else if b <? 240 then
      match r with
      | c1 :: c2 :: r2 =>
        match cont c1, cont c2 with
        | Some x1, Some x2 =>
          let cp := (b - 224) * 4096 + x1 * 64 + x2 in
          if (cp <? 2048) || ((55296 <=? cp) && (cp <=? 57343)) then None
          else push cp (read_chars r2)
        | _, _ => None
        end
      | _ => None
      end
    else if b <? 245 then
      match r with
      | c1 :: c2 :: c3 :: r3 =>
        match cont c1, cont c2, cont c3 with
        | Some x1, Some x2, Some x3 =>
          let cp := (b - 240) * 262144 + x1 * 4096 + x2 * 64 + x3 in
          if (cp <? 65536) || (1114111 <? cp) then None
          else push cp (read_chars r3)
        | _, _, _ => None
        end
      | _ => None
      end
    else None
  end.

Definition read_string (s : text) : option (value * text) :=
  match expect """" s with
  | Some s1 =>
    match read_chars s1 with
    | Some (cps, s2) => Some (VStr cps, s2)
    | None => None
    end
  | None => None
  end.

(** *( "." oid-component ) *)
Fixpoint read_arcs (k : nat) (s : text) : option (list Z * text) :=
  match k with
  | O => None
  | S k' =>
    match s with
    | c :: r =>
      if Ascii.eqb c "." then
        match lex_number r with
        | Some (n, r') => push (Z.of_N n) (read_arcs k' r')
        | None => None
        end
      else Some ([], s)
    | [] => Some ([], [])
    end
  end.

Definition read_oid (s : text) : option (value * text) :=
  match lex_number s with
  | Some (n, r) =>
    match read_arcs (S (length r)) r with
    | Some (a :: more, r') => Some (VOid (Z.of_N n :: a :: more), r')
    | _ => None
    end
  | None => None
  end.

(** ** Structured values *)
Definition reader := ty -> text -> option (value * text).

(** An absent member: nothing for OPTIONAL, the DEFAULT value, or a
    rejection for a mandatory member. *)
Definition absent (m : member_of ty) : option (list (string * value)) :=
  match m_opt m with
  | Mandatory => None
  | Optional => Some []
  | Default dv => Some [(m_name m, dv)]
  end.

(** The identifier of the next NamedValue, if there is one: at the first
    position [sp identifier], afterwards ["," sp identifier]. *)
Definition next_name (d : dialect) (first : bool) (s : text) : option (string * text) :=
  match (if first then Some s else expect "," s) with
  | Some s1 => lex_ident (skip_ws d s1)
  | None => None
  end.

Fixpoint read_members (d : dialect) (rd : reader) (first : bool) (ms : list (member_of ty))
         (s : text) : option (list (string * value) * text) :=
  match ms with
  | [] => Some ([], s)
  | m :: ms' =>
    let present :=
        match next_name d first s with
        | Some (id, s1) => if String.eqb id (m_name m) then Some s1 else None
        | None => None
        end in
    match present with
    | Some s1 =>
      match skip_ws1 d s1 with
      | Some s2 =>
        match rd (m_ty m) s2 with
        | Some (v, s3) =>
          match read_members d rd false ms' s3 with
          | Some (r, s4) => Some ((m_name m, v) :: r, s4)
          | None => None
          end
        | None => None
        end
      | None => None
      end
    | None =>
      match absent m with
      | Some fs =>
        match read_members d rd first ms' s with
        | Some (r, s') => Some (fs ++ r, s')
        | None => None
        end
      | None => None
      end
    end
  end.

(** Value *( "," sp Value ) sp "}" *)
Fixpoint read_elems_ne (d : dialect) (rd1 : text -> option (value * text)) (k : nat) (s : text)
  : option (list value * text) :=
  match k with
  | O => None
  | S k' =>
    match rd1 s with
    | Some (v, s1) =>
      match expect "," s1 with
      | Some s2 => push v (read_elems_ne d rd1 k' (skip_ws d s2))
      | None =>
        match expect "}" (skip_ws d s1) with
        | Some s3 => Some ([v], s3)
        | None => None
        end
      end
    | None => None
    end
  end.

(** after the opening brace: [ sp Value *( "," sp Value ) ] sp "}" *)
Definition read_elems (d : dialect) (rd1 : text -> option (value * text)) (s : text)
  : option (list value * text) :=
  let s1 := skip_ws d s in
  match expect "}" s1 with
  | Some s2 => Some ([], s2)
  | None => read_elems_ne d rd1 (length s1) s1
  end.

(** One level of the type-directed descent; nested values are read by [rd]. *)
Definition read_step (d : dialect) (rd : reader) (e : env) (t : ty) (s : text)
  : option (value * text) :=
  match t with
  | TBool =>
    match expect_str (s2t "TRUE") s with
    | Some r => Some (VBool true, r)
    | None =>
      match expect_str (s2t "FALSE") s with
      | Some r => Some (VBool false, r)
      | None => None
      end
    end
  | TNull =>
    match expect_str (s2t "NULL") s with
    | Some r => Some (VNone, r)
    | None => None
    end
  | TInt _ => read_integer s
  | TEnum root ext =>
    match lex_ident s with
    | Some (id, r) =>
      if existsb (String.eqb id) (enum_names root ext) then Some (VEnum id, r) else None
    | None => None
    end
  | TBits _ _ => read_bits s
  | TOctets _ => read_octets s
  | TStr _ _ _ => read_string s
  | TOid => read_oid s
  | TSeq _ root ext =>
    match expect "{" s with
    | Some s1 =>
      match read_members d rd true (members_of root ext) s1 with
      | Some (fs, s2) =>
        match expect "}" (skip_ws d s2) with
        | Some s3 => Some (VSeq fs, s3)
        | None => None
        end
      | None => None
      end
    | None => None
    end
  | TSeqOf _ te _ =>
    match expect "{" s with
    | Some s1 =>
      match read_elems d (rd te) s1 with
      | Some (vs, s2) => Some (VList vs, s2)
      | None => None
      end
    | None => None
    end
  | TChoice root ext =>
    match lex_ident s with
    | Some (id, s1) =>
      let s2 := if d_colon_sp d then skip_ws d s1 else s1 in
      match expect ":" s2 with
      | Some s3 =>
        let s4 := if d_colon_sp d then skip_ws d s3 else s3 in
        match find_member id (alts_of root ext) with
        | Some m =>
          match rd (m_ty m) s4 with
          | Some (v, r) => Some (VChoice id v, r)
          | None => None
          end
        | None => None
        end
      | None => None
      end
    | None => None
    end
  | TRef nm =>
    match lookup nm e with
    | Some t' => rd t' s
    | None => None
    end
  | TTag _ t' => rd t' s
  end.

Fixpoint read_val (d : dialect) (fuel : nat) (e : env) : reader :=
  match fuel with
  | O => fun _ _ => None
  | S n => read_step d (read_val d n e) e
  end.

(** The value assignment the library prints:
    valuereference msp typereference msp "::=" sp Value, and nothing after it. *)
Definition read_top (d : dialect) (fuel : nat) (e : env) (name : string) (t : ty) (s : text)
  : option value :=
  match lex_ident s with
  | Some (_, s1) =>
    match skip_ws1 d s1 with
    | Some s2 =>
      match lex_typeref s2 with
      | Some (tn, s3) =>
        if String.eqb tn name then
          match skip_ws1 d s3 with
          | Some s4 =>
            match expect_str (s2t "::=") s4 with
            | Some s5 =>
              match read_val d fuel e t (skip_ws d s5) with
              | Some (v, []) => Some v
              | _ => None
              end
            | None => None
            end
          | None => None
          end
        else None
      | None => None
      end
    | None => None
    end
  | None => None
  end.
