(** Pins for the RFC 3641 reader that do not come from the encoder: hand
    written value notation with the spacing freedom the ABNF allows (sp is
    zero or more spaces), rejected malformed texts, and the two places where
    the library's output leaves the strict grammar. *)
From Asn1V Require Import Base.Prelude Syntax.Asn1 Gser.Chars Gser.GserImpl Gser.Gser3641 Gser.GserSpec.
Local Open Scope string_scope.

Definition ex_env : env :=
  [("Inner", TChoice [(("num", TInt IcNone), Mandatory); (("txt", TStr SkUTF8 SzNone None), Mandatory)]
                     (Some [(("more", TSeqOf false (TRef "Inner") SzNone), Mandatory)]));
   ("Outer", TSeq false
                  [(("flag", TBool), Default (VBool false));
                   (("items", TSeqOf false (TRef "Inner") SzNone), Mandatory);
                   (("bits", TBits None SzNone), Optional);
                   (("kind", TEnum [("red", 0); ("dark-blue", 1)] None), Mandatory)]
                  (Some [(true, [(("oid", TOid), Mandatory); (("raw", TOctets SzNone), Optional)])]))].

Definition ex_value : value :=
  VSeq [("items", VList [VChoice "num" (VInt (-12));
                         VChoice "txt" (VStr [120; 34; 32; 121; 233; 8364]);
                         VChoice "more" (VList [VChoice "num" (VInt 0)])]);
        ("bits", VBits [160] 3);
        ("kind", VEnum "dark-blue");
        ("oid", VOid [2; 999; 3]);
        ("raw", VBytes [1; 171])].

Definition ex_abstract : value :=
  VSeq [("flag", VBool false);
        ("items", VList [VChoice "num" (VInt (-12));
                         VChoice "txt" (VStr [120; 34; 32; 121; 233; 8364]);
                         VChoice "more" (VList [VChoice "num" (VInt 0)])]);
        ("bits", VBits [160] 3);
        ("kind", VEnum "dark-blue");
        ("oid", VOid [2; 999; 3]);
        ("raw", VBytes [1; 171])].

Definition rd (d : dialect) (tn : string) (s : string) : option value :=
  match read_val d 20 ex_env (TRef tn) (s2t s) with
  | Some (v, []) => Some v
  | _ => None
  end.

(** the strict RFC 3641 reader on hand-written notation: no space after the
    opening brace or before the closing one, several spaces elsewhere, no
    space around the CHOICE colon *)
Example vec_spacing :
  rd rfc3641_strict "Outer"
     "{items {num:-12,   txt:""x"""" y""},kind   red, oid 1.2,raw ''H  }"
  = Some (VSeq [("flag", VBool false);
                ("items", VList [VChoice "num" (VInt (-12)); VChoice "txt" (VStr [120; 34; 32; 121])]);
                ("kind", VEnum "red"); ("oid", VOid [1; 2]); ("raw", VBytes [])]).
Proof. vm_compute. reflexivity. Qed.

Example vec_rejects :
  rd x680_ws "Outer" "{ items { }, kind red }" = None (* mandatory oid missing *) /\
  rd x680_ws "Outer" "{ items { }, kind red, oid 1.2, }" = None (* trailing comma *) /\
  rd x680_ws "Outer" "{ items { num : 01 }, kind red, oid 1.2 }" = None (* leading zero *) /\
  rd x680_ws "Outer" "{ items { num : -0 }, kind red, oid 1.2 }" = None /\
  rd x680_ws "Outer" "{ items { }, kind green, oid 1.2 }" = None (* unknown identifier *) /\
  rd x680_ws "Outer" "{ items { }, kind red, oid 1 }" = None (* one arc *) /\
  rd x680_ws "Outer" "{ items { }, kind red, oid 1.2, raw 'ab'H }" = None (* lower-case hex *) /\
  rd x680_ws "Outer" "{ items { }, kind red, oid 1.2, raw 'ABC'H }" = None (* odd digits *) /\
  rd x680_ws "Outer" "{ kind red, items { }, oid 1.2 }" = None (* order *) /\
  rd x680_ws "Outer" "{ items { txt : ""x"" y"" }, kind red, oid 1.2 }" = None (* quote not doubled *) /\
  rd x680_ws "Outer" "{ items { }, kind red, oid 1.2 } " = None (* trailing text *).
Proof. vm_compute. repeat split; reflexivity. Qed.

(** The model's text for [ex_value], compact and indented. *)
Example vec_compact :
  encode 20 ex_env "Outer" (TRef "Outer") ex_value None =
  Ok (s2t "outer Outer ::= { items { num : -12, txt : ""x"""" yé€"", more : { num : 0 } }, bits '101'B, kind dark-blue, oid 2.999.3, raw '01AB'H }").
Proof. vm_compute. reflexivity. Qed.

Example vec_indented :
  match encode 20 ex_env "Outer" (TRef "Outer") ex_value (Some 2%nat) with
  | Ok tx => read_top x680_ws 20 ex_env "Outer" (TRef "Outer") tx = Some ex_abstract /\
             read_top rfc3641_colon 20 ex_env "Outer" (TRef "Outer") tx = None
  | Err _ => False
  end.
Proof. vm_compute. split; reflexivity. Qed.
