(** Neutral utilities shared by the GSER implementation model, the RFC 3641
    reader and the specification: texts as lists of octets-as-characters,
    octet/character conversion, the flattened member lists of a type, and
    the bit view of an octet string.  Nothing here knows about GSER. *)
From Asn1V Require Import Base.Prelude Syntax.Asn1.

Definition text := list ascii.

Definition s2t (s : string) : text := list_ascii_of_string s.

(** Octet value <-> character. *)
Definition ch (z : Z) : ascii := ascii_of_N (Z.to_N z).
Definition zc (c : ascii) : Z := Z.of_N (N_of_ascii c).

(** All members of a SEQUENCE/SET in textual order: the root followed by the
    extension additions, addition groups flattened (compile_members). *)
Definition members_of (root : list (member_of ty)) (ext : option (list (addition_of ty)))
  : list (member_of ty) :=
  root ++ match ext with None => [] | Some adds => flat_map snd adds end.

Definition alts_of (root : list (member_of ty)) (ext : option (list (member_of ty)))
  : list (member_of ty) :=
  root ++ match ext with None => [] | Some x => x end.

Fixpoint find_member (n : string) (ms : list (member_of ty)) : option (member_of ty) :=
  match ms with
  | [] => None
  | m :: r => if String.eqb n (m_name m) then Some m else find_member n r
  end.

Definition enum_names (root : list (string * Z)) (ext : option (list (string * Z))) : list string :=
  map fst root ++ match ext with None => [] | Some x => map fst x end.

(** The bits of an octet string, most significant bit first. *)
Definition bits_of_byte (b : Z) : list bool :=
  [Z.testbit b 7; Z.testbit b 6; Z.testbit b 5; Z.testbit b 4;
   Z.testbit b 3; Z.testbit b 2; Z.testbit b 1; Z.testbit b 0].
Definition bits_of_bytes (bs : list Z) : list bool := flat_map bits_of_byte bs.

(** Bits packed into octets, most significant bit first, last octet padded
    with zero bits. *)
Fixpoint pack_acc (acc k : Z) (bits : list bool) : list Z :=
  match bits with
  | [] => if k =? 0 then [] else [acc * 2 ^ (8 - k)]
  | b :: r =>
    let acc' := 2 * acc + (if b then 1 else 0) in
    if k =? 7 then acc' :: pack_acc 0 0 r else pack_acc acc' (k + 1) r
  end.
Definition pack (bits : list bool) : list Z := pack_acc 0 0 bits.
