(** Implementation model of asn1tools/codecs/gser.py (the GSER *encoder*; the
    library has no GSER decoder).  The model produces the octets returned by
    [CompiledType.encode] (the Python [str] is built from ASCII pieces and the
    contents of character strings; [.encode('utf-8')] is a homomorphism over
    concatenation, so the model emits the UTF-8 octets of every piece
    directly).

    REPAIRED behaviour is modelled (proposed_fixes/C20-gser-quote-doubling.diff
    and C20-gser-empty-bit-string.diff): character strings are written with
    embedded double quotes doubled, and a BIT STRING of zero bits is the empty
    bstring instead of a ValueError from int(hexlify(empty), 16).  Everything else is as
    coded, including the spaces around the CHOICE colon and the newline
    separators of the indented layout.

    Values follow the Python representation of Syntax/Asn1.v; an OBJECT
    IDENTIFIER value (a Python str the encoder copies verbatim) is represented
    by its arcs and printed in canonical dotted decimal. *)
From Coq Require Import DecimalString DecimalN.
From Asn1V Require Import Base.Prelude Syntax.Asn1 Gser.Chars.

(** [str(int)]: decimal digits without leading zeros, a minus sign for negatives. *)
Definition dec_N (n : N) : text := s2t (NilEmpty.string_of_uint (N.to_uint n)).
Definition dec_Z (z : Z) : text :=
  if z <? 0 then "-"%char :: dec_N (Z.abs_N z) else dec_N (Z.to_N z).

(** One upper-case hexadecimal digit ([bytes.hex()] followed by [.upper()]). *)
Definition hexdig (n : Z) : ascii := if n <? 10 then ch (48 + n) else ch (55 + n).
Definition hex_of_bytes (bs : list Z) : text :=
  flat_map (fun b => [hexdig (b / 16); hexdig (b mod 16)]) bs.

(** The bits of data[0], most significant bit first, are what
    bin(int(hexlify(d),16) | 0x80 << 8*len(d))[10:] yields: [Chars.bits_of_bytes]. *)
Definition bitch (b : bool) : ascii := if b then "1"%char else "0"%char.

(** UTF-8 octets of one code point (what [str.encode('utf-8')] emits);
    surrogates raise UnicodeEncodeError, code points beyond 0x10FFFF do not
    exist in a Python str. *)
Definition utf8_cp (c : Z) : result (list Z) :=
  if c <? 0 then Err EUnmodelled
  else if c <? 128 then Ok [c]
  else if c <? 2048 then Ok [192 + c / 64; 128 + c mod 64]
  else if c <? 65536 then
    if (55296 <=? c) && (c <=? 57343) then Err (EForeign "UnicodeEncodeError")
    else Ok [224 + c / 4096; 128 + (c / 64) mod 64; 128 + c mod 64]
  else if c <? 1114112 then
    Ok [240 + c / 262144; 128 + (c / 4096) mod 64; 128 + (c / 64) mod 64; 128 + c mod 64]
  else Err EUnmodelled.

Fixpoint utf8 (cps : list Z) : result (list Z) :=
  match cps with
  | [] => Ok []
  | c :: r => let* a := utf8_cp c in let* b := utf8 r in Ok (a ++ b)
  end.

(** data.replace(dquote, dquote dquote) — the repaired quoting. *)
Definition dbl_quotes (cps : list Z) : list Z :=
  flat_map (fun c => if c =? 34 then [34; 34] else [c]) cps.

Fixpoint join (sep : text) (items : list text) : text :=
  match items with
  | [] => []
  | [x] => x
  | x :: r => x ++ sep ++ join sep r
  end.

Definition spaces (n : nat) : text := repeat " "%char n.

Definition encoder := ty -> value -> text -> nat -> result text.

(** MembersType.encode: the loop over the members, in type order.  Each item
    is (member name, encoded value). *)
Fixpoint enc_members (encf : encoder) (ms : list (member_of ty)) (fields : list (string * value))
         (msep : text) (indent : nat) : result (list (string * text)) :=
  match ms with
  | [] => Ok []
  | m :: r =>
    match lookup (m_name m) fields with
    | Some x =>
      let* tx := encf (m_ty m) x msep indent in
      let* rest := enc_members encf r fields msep indent in
      Ok ((m_name m, tx) :: rest)
    | None =>
      match m_opt m with
      | Mandatory => Err EEncode
      | _ => enc_members encf r fields msep indent
      end
    end
  end.

(** the format of one member: member_separator, member.name, a space, the encoded member *)
Definition member_item (msep : text) (it : string * text) : text :=
  msep ++ s2t (fst it) ++ " "%char :: snd it.

Fixpoint enc_elems (encf1 : value -> result text) (xs : list value) : result (list text) :=
  match xs with
  | [] => Ok []
  | x :: r => let* tx := encf1 x in let* rest := enc_elems encf1 r in Ok (tx :: rest)
  end.

(** separator.join([lbrace + comma.join(items), rbrace]) *)
Definition braces (sep : text) (items : list text) : text :=
  "{"%char :: join [","%char] items ++ sep ++ ["}"%char].

(** BitString.encode (repaired), OctetString.encode, the character string
    classes (repaired), ObjectIdentifier.encode. *)
Definition enc_bits (bs : list Z) (nb : Z) : result text :=
  if 0 <? nb then
    match bs with
    | [] => Err (EForeign "ValueError")
    | _ => Ok ("'"%char :: map bitch (firstn (Z.to_nat nb) (bits_of_bytes bs)) ++ s2t "'B")
    end
  else Ok (s2t "''B").

Definition enc_octets (bs : list Z) : text := "'"%char :: hex_of_bytes bs ++ s2t "'H".

Definition enc_string (cps : list Z) : result text :=
  let* body := utf8 (dbl_quotes cps) in
  Ok (""""%char :: map ch body ++ [""""%char]).

Definition enc_oid (arcs : list Z) : text := join ["."%char] (map dec_Z arcs).

(** One level of [Type.encode] dispatch; recursive calls (member, element and
    alternative types, and the referenced type of a type reference) go
    through [self]. *)
Definition enc_step (self : encoder) (e : env) (t : ty) (v : value) (sep : text) (indent : nat)
  : result text :=
  match t with
  | TBool => match v with VBool b => Ok (s2t (if b then "TRUE" else "FALSE")) | _ => Err EUnmodelled end
  | TNull => Ok (s2t "NULL")
  | TInt _ => match v with VInt z => Ok (dec_Z z) | _ => Err EUnmodelled end
  | TEnum root ext =>
    match v with
    | VEnum nm =>
      if existsb (String.eqb nm) (enum_names root ext) then Ok (s2t nm)
      else Err EEncode
    | _ => Err EUnmodelled
    end
  | TBits _ _ => match v with VBits bs nb => enc_bits bs nb | _ => Err EUnmodelled end
  | TOctets _ => match v with VBytes bs => Ok (enc_octets bs) | _ => Err EUnmodelled end
  | TStr _ _ _ => match v with VStr cps => enc_string cps | _ => Err EUnmodelled end
  | TOid => match v with VOid arcs => Ok (enc_oid arcs) | _ => Err EUnmodelled end
  | TSeq _ root ext =>
    match v with
    | VSeq fields =>
      let msep := sep ++ spaces indent in
      let* items := enc_members self (members_of root ext) fields msep indent in
      Ok (braces sep (map (member_item msep) items))
    | _ => Err EUnmodelled
    end
  | TSeqOf _ te _ =>
    match v with
    | VList xs =>
      let esep := sep ++ spaces indent in
      let* items := enc_elems (fun x => self te x esep indent) xs in
      Ok (braces sep (map (fun tx => esep ++ tx) items))
    | _ => Err EUnmodelled
    end
  | TChoice root ext =>
    match v with
    | VChoice alt x =>
      match find_member alt (alts_of root ext) with
      | None => Err EEncode
      | Some m =>
        let* tx := self (m_ty m) x sep indent in
        Ok (s2t alt ++ s2t " : " ++ tx)
      end
    | VUnknownChoice => Err EEncode
    | _ => Err EUnmodelled
    end
  | TRef nm =>
    match lookup nm e with
    | Some t' => self t' v sep indent
    | None => Err EUnmodelled
    end
  | TTag _ t' => self t' v sep indent
  end.

Fixpoint enc (fuel : nat) (e : env) : encoder :=
  match fuel with
  | O => fun _ _ _ _ => Err EFuel
  | S n => enc_step (enc n e) e
  end.

(** str.lower() on an ASCII type name; str.lstrip(space). *)
Definition lower_char (c : ascii) : ascii :=
  let z := zc c in if (65 <=? z) && (z <=? 90) then ch (z + 32) else c.
Fixpoint lstrip_sp (s : text) : text :=
  match s with
  | c :: r => if Ascii.eqb c " " then lstrip_sp r else s
  | [] => []
  end.

(** CompiledType.encode(data, indent=None): the [name Type ::= value] wrapper. *)
Definition layout (indent : option nat) : text * nat :=
  match indent with
  | None => ([" "%char], O)
  | Some i => (["010"%char], i)
  end.

Definition encode (fuel : nat) (e : env) (name : string) (t : ty) (v : value)
           (indent : option nat) : result text :=
  let '(sep, ind) := layout indent in
  let* tx := enc fuel e t v sep ind in
  Ok (map lower_char (s2t name) ++ " "%char :: s2t name ++ s2t " ::= " ++ lstrip_sp tx).
