(** Sanity facts about the abstract value [norm]: on a BIT STRING that fills
    its octets it is the identity, and on scalars it is the identity by
    definition. *)
From Asn1V Require Import Base.Prelude Syntax.Asn1 Gser.Chars Gser.Gser3641 Gser.GserSpec.

Lemma pack_byte_all :
  forallb (fun b => match pack (bits_of_byte b) with [x] => x =? b | _ => false end)
          (map Z.of_nat (seq 0 256)) = true.
Proof. vm_compute. reflexivity. Qed.

Lemma pack_byte b : 0 <= b < 256 -> pack (bits_of_byte b) = [b].
Proof.
  intros H. pose proof pack_byte_all as A. rewrite forallb_forall in A.
  specialize (A b). destruct (pack (bits_of_byte b)) as [|x [|y r]] eqn:E.
  - exfalso. assert (false = true); [|discriminate]. apply A.
    apply in_map_iff. exists (Z.to_nat b). split; [lia|]. apply in_seq. lia.
  - assert (Hx : (x =? b) = true).
    { apply A. apply in_map_iff. exists (Z.to_nat b). split; [lia|]. apply in_seq. lia. }
    f_equal. lia.
  - exfalso. assert (false = true); [|discriminate]. apply A.
    apply in_map_iff. exists (Z.to_nat b). split; [lia|]. apply in_seq. lia.
Qed.

Lemma pack_cons b rest : pack (bits_of_byte b ++ rest) = pack (bits_of_byte b) ++ pack rest.
Proof. reflexivity. Qed.

Lemma pack_bits_of_bytes bs : forallb is_byteb bs = true -> pack (bits_of_bytes bs) = bs.
Proof.
  induction bs as [|b bs IH]; intros H; [reflexivity|].
  cbn [forallb] in H. apply andb_true_iff in H. destruct H as [Hb H].
  change (bits_of_bytes (b :: bs)) with (bits_of_byte b ++ bits_of_bytes bs).
  rewrite pack_cons, pack_byte, IH; auto. unfold is_byteb in Hb. lia.
Qed.

Lemma bits_of_bytes_length bs : length (bits_of_bytes bs) = (8 * length bs)%nat.
Proof.
  induction bs as [|b bs IH]; [reflexivity|].
  change (bits_of_bytes (b :: bs)) with (bits_of_byte b ++ bits_of_bytes bs).
  rewrite app_length, IH. simpl. lia.
Qed.

Lemma norm_bits_whole_octets bs :
  forallb is_byteb bs = true ->
  norm_bits bs (8 * Z.of_nat (length bs)) = VBits bs (8 * Z.of_nat (length bs)).
Proof.
  intros H. unfold norm_bits.
  rewrite firstn_all2 by (rewrite bits_of_bytes_length; lia).
  rewrite pack_bits_of_bytes, bits_of_bytes_length by auto. f_equal. lia.
Qed.
