(** Specification model of ITU-T X.691 (PER), UNALIGNED variant, written from
    the structure of the Recommendation and independently of the
    implementation model [Per/UperImpl.v] (this file does not import it).

    Clause numbers are those of X.691 (08/2015): 11 = encoding procedures,
    12 BOOLEAN, 13 INTEGER, 14 ENUMERATED, 16 BIT STRING, 17 OCTET STRING,
    18 NULL, 19 SEQUENCE, 20 SEQUENCE OF, 21 SET, 22 SET OF, 23 CHOICE,
    24 OBJECT IDENTIFIER, 30 restricted character strings.  (The 2002 edition
    numbers every clause one lower: 10.5 = 11.5 and so on.)

    Two layers, as in the Recommendation:
    - [x691_fields]: a type and an abstract value give a FIELD-LIST (clauses
      12 to 30); the fields are those of clause 11 (constrained /
      semi-constrained / unconstrained / normally small whole numbers, length
      determinants with the items they count, open type fields, plain
      bit-fields);
    - [serialise]: the field-list becomes a bit string (clause 11; unaligned
      variant: no padding anywhere except inside open type fields and at the
      end of the complete encoding, 11.1).

    Values that are not values of the type have no encoding: [Err EEncode]
    (not a value of the kind of the type, absent mandatory component, unknown
    enumeration/alternative, character outside the alphabet) or
    [Err EConstraints] (value outside a PER-visible constraint).

    Recursion is on a depth counter [fuel] that is decremented at every nested
    type (references included), as everywhere else in this development: [ty]
    is a nested inductive and references make the descent non-structural.
    [Err EFuel] means that the counter was too small for the nesting depth of
    the value; it is not an X.691 outcome. *)
From Asn1V Require Import Base.Prelude Base.Bits Base.Utf8 Syntax.Asn1.

(** * Clause 11: the fields and their encoding *)

Inductive field : Type :=
| FBit (b : bool)                       (* a single-bit bit-field *)
| FRaw (bs : bits)                      (* a bit-field with the given contents *)
| FCwn (lb ub v : Z)                    (* 11.5 constrained whole number *)
| FNsnnwn (n : Z)                       (* 11.6 normally small non-negative whole number *)
| FSemi (lb v : Z)                      (* 11.7 semi-constrained whole number *)
| FUncon (v : Z)                        (* 11.8 unconstrained whole number *)
| FCounted (lb : Z) (ub : option Z) (items : list (list field))
                                        (* 11.9 length determinant for a count with bounds lb..ub
                                           (None = unbounded), then the counted items *)
| FSmallCounted (items : list (list field))
                                        (* 11.9.3.4 normally small length, then the counted items *)
| FOpen (fs : list field).              (* 11.2 open type field holding the encoding [fs] *)

(** 11.5.7 (unaligned): the field of a constrained whole number has the
    minimum number of bits for [range] values: ceil(log2 range), none for 1. *)
Definition width (range : Z) : nat := Z.to_nat (Z.log2_up range).

Definition cwn_bits (lb ub v : Z) : bits := to_bits (width (ub - lb + 1)) (v - lb).

(** 11.3: octets of the minimal non-negative-binary-integer encoding *)
Definition nnbi_octets (n : Z) : Z := if n =? 0 then 1 else Z.log2 n / 8 + 1.

(** 11.4: octets of the minimal 2's-complement-binary-integer encoding: the
    least k >= 1 with -2^(8k-1) <= v < 2^(8k-1) *)
Definition twos_octets (v : Z) : Z :=
  let w := if v <? 0 then - v - 1 else v in
  if w =? 0 then 1 else (Z.log2 w + 1) / 8 + 1.

(** [k] octets, most significant first, of the low 8k bits of [v] (for a
    negative [v]: of its 2's complement) *)
Fixpoint be_octets (k : nat) (v : Z) : list bits :=
  match k with
  | O => []
  | S j => to_bits 8 (Z.shiftr v (8 * Z.of_nat j)) :: be_octets j v
  end.

(** 11.9.3.6 / 11.9.3.7: a length below 16K *)
Definition len_short (n : Z) : bits :=
  if n <=? 127 then false :: to_bits 7 n else true :: false :: to_bits 14 n.

(** 11.9.3.5 - 11.9.3.8: unconstrained length determinant for [n] items,
    followed by the items; from 16K items on, fragments of m*16K items
    (m = 1..4, the largest possible) each preceded by the octet 11 mmmmmm, and a
    final fragment of fewer than 16K items (possibly none) with its own
    length.  [fuel] bounds the number of fragments. *)
Fixpoint frag (fuel : nat) (items : list bits) : bits :=
  let n := Z.of_nat (length items) in
  if n <? 16384 then len_short n ++ concat items
  else
    match fuel with
    | O => []
    | S f =>
      let m := Z.min 4 (n / 16384) in
      let k := Z.to_nat (m * 16384) in
      true :: true :: to_bits 6 m ++ concat (firstn k items) ++ frag f (skipn k items)
    end.
Definition unbounded_count (items : list bits) : bits := frag (S (length items)) items.

(** 11.7: the offset from the lower bound as a minimal non-negative binary
    integer, with an unconstrained length determinant counting its octets *)
Definition semi_bits (lb v : Z) : bits :=
  let n := v - lb in
  unbounded_count (be_octets (Z.to_nat (nnbi_octets n)) n).

(** 11.1: a complete encoding is a whole number of octets, the last one
    padded with zero bits, and never empty (11.1.3: a single zero octet) *)
Definition complete_octets (bs : bits) : list Z :=
  match bs with [] => [0] | _ => bits_to_bytes bs end.

Fixpoint ser (f : field) : bits :=
  match f with
  | FBit b => [b]
  | FRaw bs => bs
  | FCwn lb ub v => cwn_bits lb ub v
  | FNsnnwn n =>
    (* 11.6.1: n <= 63: bit 0 and a 6-bit field; 11.6.2: bit 1 and a
       semi-constrained whole number with lower bound 0 *)
    if n <=? 63 then false :: to_bits 6 n else true :: semi_bits 0 n
  | FSemi lb v => semi_bits lb v
  | FUncon v =>
    (* 11.8: 2's complement in the minimum number of octets, with length *)
    unbounded_count (be_octets (Z.to_nat (twos_octets v)) v)
  | FCounted lb ub items =>
    let n := Z.of_nat (length items) in
    let its := map (flat_map ser) items in
    match ub with
    | Some u =>
      (* 11.9.4.1: ub < 64K: constrained whole number lb..ub (nothing when
         lb = ub); otherwise 11.9.4.2 -> 11.9.3.5 *)
      if u <? 65536 then cwn_bits lb u n ++ concat its else unbounded_count its
    | None => unbounded_count its
    end
  | FSmallCounted items =>
    (* 11.9.3.4: n <= 64: bit 0 and n-1 in 6 bits; otherwise bit 1 and 11.9.3.5 *)
    let n := Z.of_nat (length items) in
    let its := map (flat_map ser) items in
    if n <=? 64 then false :: to_bits 6 (n - 1) ++ concat its else true :: unbounded_count its
  | FOpen fs =>
    (* 11.2: the complete encoding (11.1) of the value, as octets counted by
       an unconstrained length determinant *)
    unbounded_count (map (to_bits 8) (complete_octets (flat_map ser fs)))
  end.

Definition serialise (fs : list field) : bits := flat_map ser fs.

(** * Clauses 12 to 30: from a type and a value to a field-list *)

Fixpoint map_result {A B} (f : A -> result B) (l : list A) : result (list B) :=
  match l with
  | [] => Ok []
  | x :: r => let* y := f x in let* ys := map_result f r in Ok (y :: ys)
  end.

Definition octet (b : Z) : list field := [FRaw (to_bits 8 b)].

(** ** Effective size constraint (11.9, 16.6, 17.3, 20.4) *)

Definition sz_lb (s : size) : Z := match s with SzRange lo _ _ => lo | SzNone => 0 end.
Definition sz_ub (s : size) : option Z := match s with SzRange _ hi _ => hi | SzNone => None end.
Definition sz_ext (s : size) : bool := match s with SzRange _ _ x => x | SzNone => false end.
Definition sz_in_root (s : size) (n : Z) : bool :=
  (sz_lb s <=? n) && match sz_ub s with Some u => n <=? u | None => true end.

(** [n] items under a SIZE constraint: in the extension root the count is
    encoded with the bounds of the root (preceded by a 0 bit when the
    constraint is extensible); outside the root of an extensible constraint a
    1 bit and the count as for an unconstrained size. *)
Definition sized (s : size) (items : list (list field)) : result (list field) :=
  let n := Z.of_nat (length items) in
  if sz_in_root s n
  then Ok ((if sz_ext s then [FBit false] else []) ++ [FCounted (sz_lb s) (sz_ub s) items])
  else if sz_ext s then Ok [FBit true; FCounted 0 None items]
  else Err EConstraints.

(** ** 13 INTEGER *)

Definition opt_le_lo (lb : option Z) (v : Z) : bool := match lb with Some l => l <=? v | None => true end.
Definition opt_le_hi (v : Z) (ub : option Z) : bool := match ub with Some u => v <=? u | None => true end.

(** 13.2: the value is within the (root of the) constraint *)
Definition int_root_fields (lb ub : option Z) (v : Z) : result (list field) :=
  if negb (opt_le_lo lb v && opt_le_hi v ub) then Err EConstraints
  else
    match lb, ub with
    | Some l, Some u => Ok [FCwn l u v]        (* 13.2.1, 13.2.2 *)
    | Some l, None => Ok [FSemi l v]           (* 13.2.3 *)
    | None, _ => Ok [FUncon v]                 (* 13.2.4 *)
    end.

Definition int_fields (c : intc) (v : Z) : result (list field) :=
  match c with
  | IcNone => Ok [FUncon v]
  | IcRange lb ub false => int_root_fields lb ub v
  | IcRange lb ub true =>
    (* 13.1 *)
    if opt_le_lo lb v && opt_le_hi v ub
    then let* r := int_root_fields lb ub v in Ok (FBit false :: r)
    else Ok [FBit true; FUncon v]
  end.

(** ** 14 ENUMERATED *)

(** does the API datum [d] denote this enumeration item? (names, or the
    numbers when the module is compiled with numeric enumerations) *)
Definition denotes (numeric : bool) (d : value) (it : string * Z) : bool :=
  match d with
  | VEnum s => negb numeric && String.eqb s (fst it)
  | VInt z => numeric && (z =? snd it)
  | _ => false
  end.

Fixpoint find_item (numeric : bool) (d : value) (items : list (string * Z)) : option (nat * (string * Z)) :=
  match items with
  | [] => None
  | it :: r =>
    if denotes numeric d it then Some (O, it)
    else match find_item numeric d r with Some (i, x) => Some (S i, x) | None => None end
  end.

(** 14.1: the enumeration index: the position when the root enumerations are
    sorted by value = the number of root enumerations with a smaller value *)
Definition enum_index (root : list (string * Z)) (it : string * Z) : Z :=
  Z.of_nat (length (filter (fun x => snd x <? snd it) root)).

Definition enum_fields (numeric : bool) (root : list (string * Z)) (ext : option (list (string * Z)))
           (d : value) : result (list field) :=
  let marker (b : bool) := match ext with Some _ => [FBit b] | None => [] end in
  match find_item numeric d root with
  | Some (_, it) =>
    (* 14.2 (and 14.3 with the extension bit 0) *)
    Ok (marker false ++ [FCwn 0 (Z.of_nat (length root) - 1) (enum_index root it)])
  | None =>
    match ext with
    | None => Err EEncode
    | Some adds =>
      match find_item numeric d adds with
      | Some (j, _) => Ok [FBit true; FNsnnwn (Z.of_nat j)]     (* 14.3 *)
      | None => Err EEncode
      end
    end
  end.

(** ** 16 BIT STRING *)

Fixpoint drop_leading_zeros (bs : bits) : bits :=
  match bs with
  | false :: r => drop_leading_zeros r
  | _ => bs
  end.
Definition drop_trailing_zeros (bs : bits) : bits := rev (drop_leading_zeros (rev bs)).

(** the bits that are encoded: the first [nbits] bits of the data; with named
    bits (16.2/16.3) trailing 0 bits are removed, then 0 bits are added to
    reach the lower bound of the size constraint *)
Definition bitstring_bits (named : bool) (s : size) (bytes : list Z) (nbits : Z) : bits :=
  let value_bits := firstn (Z.to_nat nbits) (bytes_to_bits bytes) in
  if named then
    let stripped := drop_trailing_zeros value_bits in
    stripped ++ repeat false (Z.to_nat (sz_lb s) - length stripped)
  else value_bits.

Definition bitstring_fields (named : bool) (s : size) (bytes : list Z) (nbits : Z) : result (list field) :=
  if (nbits <? 0) || (8 * Z.of_nat (length bytes) <? nbits) then Err EEncode
  else sized s (map (fun b => [FBit b]) (bitstring_bits named s bytes nbits)).

(** ** 17 OCTET STRING *)
Definition octets_fields (s : size) (bytes : list Z) : result (list field) := sized s (map octet bytes).

(** ** 24 OBJECT IDENTIFIER: the contents octets of X.690 8.19 with an
    unconstrained length *)

(** number of 7-bit groups of a subidentifier *)
Definition subid_len (n : Z) : nat := if n =? 0 then 1%nat else Z.to_nat (Z.log2 n / 7 + 1).
(** [k] groups, most significant first; bit 8 set in all but the last *)
Fixpoint subid_groups (k : nat) (n : Z) : list Z :=
  match k with
  | O => []
  | S j => (Z.shiftr n (7 * Z.of_nat j)) mod 128 + (match j with O => 0 | _ => 128 end) :: subid_groups j n
  end.
Definition subid (n : Z) : list Z := subid_groups (subid_len n) n.

Definition oid_fields (arcs : list Z) : result (list field) :=
  match arcs with
  | a0 :: a1 :: rest =>
    if forallb (fun a => 0 <=? a) arcs && (a0 <=? 2) && ((a0 =? 2) || (a1 <? 40))
    then Ok [FCounted 0 None (map octet (subid (40 * a0 + a1) ++ flat_map subid rest))]
    else Err EEncode
  | _ => Err EEncode
  end.

(** ** 30 Restricted character strings *)

Definition chars (lo hi : Z) : list Z := map Z.of_nat (seq (Z.to_nat lo) (Z.to_nat (hi - lo + 1))).

(** the character sets of the known-multiplier types of this universe, in
    canonical (ascending) order: X.680 41 *)
Definition class_alphabet (k : strkind) : option (list Z) :=
  match k with
  | SkNumeric => Some (32 :: chars 48 57)
  | SkPrintable => Some ([32; 39; 40; 41] ++ chars 43 58 ++ [61; 63] ++ chars 65 90 ++ chars 97 122)
  | SkVisible => Some (chars 32 126)
  | SkIA5 => Some (chars 0 127)
  | _ => None
  end.

Fixpoint memb (c : Z) (l : list Z) : bool :=
  match l with [] => false | x :: r => (c =? x) || memb c r end.

(** 30.5: one character of a known-multiplier string over the effective
    permitted alphabet [a] (N characters, b = ceil(log2 N) bits each):
    30.5.4: when the largest character value fits in b bits the character
    value itself is encoded, otherwise the index in canonical order (= the
    number of smaller characters of the alphabet) *)
Definition char_value (a : list Z) (c : Z) : Z :=
  let b := Z.of_nat (width (Z.of_nat (length a))) in
  let ub := fold_right Z.max 0 a in
  if ub <=? 2 ^ b - 1 then c else Z.of_nat (length (filter (fun x => x <? c) a)).

Definition char_fields (a : list Z) (c : Z) : result (list field) :=
  if memb c a then Ok [FRaw (to_bits (width (Z.of_nat (length a))) (char_value a c))]
  else Err EEncode.

Definition kmstring_fields (k : strkind) (s : size) (alpha : option (list Z)) (cps : list Z)
  : result (list field) :=
  match class_alphabet k with
  | None => Err EUnmodelled                       (* not a known-multiplier type of this model *)
  | Some cls =>
    let a := match alpha with Some a => a | None => cls end in
    let* items := map_result (char_fields a) cps in
    sized s items
  end.

(** 30.6 (not a known-multiplier type): UTF8String is its UTF-8 octets with an
    unconstrained length; SIZE and FROM are not PER-visible *)
Definition utf8_fields (cps : list Z) : result (list field) :=
  match utf8_encode cps with
  | None => Err EEncode
  | Some bytes => Ok [FCounted 0 None (map octet bytes)]
  end.

(** ** Constructed types *)

(** equality of abstract values as needed for DEFAULT (19.5): bit strings are
    compared as bit strings (with named bits: up to trailing 0 bits) *)
Fixpoint same_bits (a b : bits) : bool :=
  match a, b with
  | [], [] => true
  | x :: a', y :: b' => Bool.eqb x y && same_bits a' b'
  | _, _ => false
  end.

Definition same_value (t : ty) (v d : value) : bool :=
  match t, v, d with
  | TBits named _, VBits b1 n1, VBits b2 n2 =>
    let bits_of (b : list Z) (n : Z) :=
        let bs := firstn (Z.to_nat n) (bytes_to_bits b) in
        match named with Some _ => drop_trailing_zeros bs | None => bs end in
    same_bits (bits_of b1 n1) (bits_of b2 n2)
  | _, _, _ => value_eqb v d
  end.

Definition optional_or_default {T} (m : member_of T) : bool :=
  match m_opt m with Mandatory => false | _ => true end.

Section Types.
  Variable numeric : bool.
  Variable e : env.

  (** the type behind references and tags *)
  Fixpoint deref (fuel : nat) (t : ty) : ty :=
    match fuel with
    | O => t
    | S f =>
      match t with
      | TRef n => match lookup n e with Some t' => deref f t' | None => t end
      | TTag _ t' => deref f t'
      | _ => t
      end
    end.

  Section Constructed.
    (** the field-list of a component / element / alternative *)
    Variable rec : ty -> value -> result (list field).
    Variable der : ty -> ty.

    (** is an encoding of this component present?  19.5: a DEFAULT component
        whose value is the default value is not encoded *)
    Definition comp_present (m : member_of ty) (data : list (string * value)) : bool :=
      match lookup (m_name m) data, m_opt m with
      | None, _ => false
      | Some v, Default d => negb (same_value (der (m_ty m)) v d)
      | Some _, _ => true
      end.

    (** 19.4: the field-list of one component *)
    Definition comp_fields (m : member_of ty) (data : list (string * value)) : result (list field) :=
      match lookup (m_name m) data with
      | Some v => if comp_present m data then rec (m_ty m) v else Ok []
      | None => match m_opt m with Mandatory => Err EEncode | _ => Ok [] end
      end.

    Fixpoint comps_fields (ms : list (member_of ty)) (data : list (string * value)) : result (list field) :=
      match ms with
      | [] => Ok []
      | m :: r => let* a := comp_fields m data in let* b := comps_fields r data in Ok (a ++ b)
      end.

    (** 19.2 - 19.4: the preamble (one bit per OPTIONAL/DEFAULT component),
        then the components that are present *)
    Definition seq_root_fields (ms : list (member_of ty)) (data : list (string * value))
      : result (list field) :=
      let* body := comps_fields ms data in
      Ok (map (fun m => FBit (comp_present m data)) (filter optional_or_default ms) ++ body).

    (** 19.7/19.9: an extension addition is present when one of its
        components is (a group whose components are all missing is absent) *)
    Definition addition_present (a : addition_of ty) (data : list (string * value)) : bool :=
      existsb (fun m => comp_present m data) (snd a).

    (** 19.9: the contents of the open type of an addition: the component, or
        the group as a SEQUENCE (19.2 - 19.6) *)
    Definition addition_fields (a : addition_of ty) (data : list (string * value)) : result (list field) :=
      match a with
      | (true, ms) => seq_root_fields ms data
      | (false, [m]) => comp_fields m data
      | (false, _) => Err EUnmodelled
      end.

    Fixpoint additions_open (adds : list (addition_of ty)) (data : list (string * value))
      : result (list field) :=
      match adds with
      | [] => Ok []
      | a :: r =>
        if addition_present a data then
          let* fs := addition_fields a data in
          let* rest := additions_open r data in
          Ok (FOpen fs :: rest)
        else additions_open r data
      end.

    (** 19 SEQUENCE and 21 SET (the components of a SET are listed in the
        canonical tag order by whoever builds the [ty]) *)
    Definition seq_fields (root : list (member_of ty)) (ext : option (list (addition_of ty)))
               (v : value) : result (list field) :=
      match v with
      | VSeq data =>
        let* r := seq_root_fields root data in
        match ext with
        | None => Ok r
        | Some adds =>
          (* 19.1: the extension bit *)
          if existsb (fun a => addition_present a data) adds then
            let* opens := additions_open adds data in
            (* 19.7/19.8: the presence bit-map of all additions of the type,
               counted by a normally small length; 19.9 the open types *)
            Ok (FBit true :: r
                ++ FSmallCounted (map (fun a => [FBit (addition_present a data)]) adds) :: opens)
          else Ok (FBit false :: r)
        end
      | _ => Err EEncode
      end.

    (** 20 SEQUENCE OF and 22 SET OF *)
    Definition seqof_fields (elem : ty) (s : size) (v : value) : result (list field) :=
      match v with
      | VList vs => let* items := map_result (rec elem) vs in sized s items
      | _ => Err EEncode
      end.

    (** 23 CHOICE *)
    Fixpoint alt_lookup (name : string) (alts : list (member_of ty)) : option (nat * ty) :=
      match alts with
      | [] => None
      | m :: r =>
        if String.eqb (m_name m) name then Some (O, m_ty m)
        else match alt_lookup name r with Some (i, t) => Some (S i, t) | None => None end
      end.

    Definition choice_fields (root : list (member_of ty)) (ext : option (list (member_of ty)))
               (v : value) : result (list field) :=
      match v with
      | VChoice name x =>
        let marker (b : bool) := match ext with Some _ => [FBit b] | None => [] end in
        match alt_lookup name root with
        | Some (i, t) =>
          (* 23.4 - 23.7: the index among the root alternatives (no field
             when there is a single one: range 1) *)
          let* body := rec t x in
          Ok (marker false ++ FCwn 0 (Z.of_nat (length root) - 1) (Z.of_nat i) :: body)
        | None =>
          match ext with
          | None => Err EEncode
          | Some adds =>
            match alt_lookup name adds with
            | Some (j, t) =>
              (* 23.8: index as a normally small number, value as an open type *)
              let* body := rec t x in
              Ok [FBit true; FNsnnwn (Z.of_nat j); FOpen body]
            | None => Err EEncode
            end
          end
        end
      | _ => Err EEncode
      end.
  End Constructed.

  Fixpoint x691_fields (fuel : nat) (t : ty) (v : value) {struct fuel} : result (list field) :=
    match fuel with
    | O => Err EFuel
    | S f =>
      match t with
      | TBool => match v with VBool b => Ok [FBit b] | _ => Err EEncode end           (* 12 *)
      | TNull => Ok []                                                                 (* 18 *)
      | TInt c => match v with VInt z => int_fields c z | _ => Err EEncode end
      | TEnum root ext => enum_fields numeric root ext v
      | TBits named s =>
        match v with
        | VBits b n => bitstring_fields (match named with Some _ => true | None => false end) s b n
        | _ => Err EEncode
        end
      | TOctets s => match v with VBytes b => octets_fields s b | _ => Err EEncode end
      | TStr SkUTF8 _ _ => match v with VStr c => utf8_fields c | _ => Err EEncode end
      | TStr k s alpha => match v with VStr c => kmstring_fields k s alpha c | _ => Err EEncode end
      | TOid => match v with VOid a => oid_fields a | _ => Err EEncode end
      | TSeq _ root ext => seq_fields (x691_fields f) (deref f) root ext v
      | TSeqOf _ elem s => seqof_fields (x691_fields f) elem s v
      | TChoice root ext => choice_fields (x691_fields f) root ext v
      | TRef n => match lookup n e with Some t' => x691_fields f t' v | None => Err EUnmodelled end
      | TTag _ t' => x691_fields f t' v      (* tags are not encoded in PER *)
      end
    end.

  (** the encoding as a bit string *)
  Definition x691_encode (fuel : nat) (t : ty) (v : value) : result bits :=
    let* fs := x691_fields fuel t v in Ok (serialise fs).

  (** 11.1: the complete encoding of an outermost value, as octets *)
  Definition x691_encode_octets (fuel : nat) (t : ty) (v : value) : result (list Z) :=
    let* bs := x691_encode fuel t v in Ok (complete_octets bs).
End Types.
