(** Non-vacuity of [per_refines_x691] and test vectors for the ALIGNED X.691
    specification model [Per/X691Aligned.v]: the aligned encodings of the three
    worked examples of X.691 Annex A (A.1.2, A.2.2, A.3.2; the types and the
    value are those of [Per/X691Ex.v]) and hand-derived clause vectors.  All
    hold for both readings of "an empty octet-aligned bit-field". *)
From Asn1V Require Import Base.Prelude Base.Bits Syntax.Asn1 Per.UperImpl Per.PerImpl Per.X691 Per.X691Refine
     Per.X691Aligned Per.X691AlignedRefine Per.X691Ex Per.UperExtendsEx Props.C01.
Local Open Scope string_scope.

(** * The scope is inhabited by nested extensible values *)

Example ex_in_ascope : forall pe, x691a_scope pe false ex_env 12 ex_ty ex_val = true.
Proof. intros []; vm_compute; reflexivity. Qed.

Example ex_arefines pe :
  forall st, penc_ty false ex_env 12 ex_ty ex_val st
             = match x691a_fields false ex_env 12 ex_ty ex_val with
               | Ok fs => Ok (pst_app st (serialise_aligned pe fs (fst st)))
               | Err err => Err err
               end.
Proof. intros st. apply per_refines_x691. apply ex_in_ascope. Qed.

Example ex_aoctets :
  forall pe, per_encode false 12 ex_env ex_ty ex_val = x691a_encode_octets false ex_env pe 12 ex_ty ex_val /\
             x691a_encode_octets false ex_env pe 12 ex_ty ex_val = Ok (hex "f00004800700c80498001007e0050102030405").
Proof.
  intros pe. split; [apply per_encode_refines_x691; [apply ex_in_ascope | destruct pe; vm_compute; discriminate]
                    | destruct pe; vm_compute; reflexivity].
Qed.

(** the aligned field-list of the example: the string fields differ from the
    unaligned one of [X691Ex.ex_fields] *)
Example ex_afields :
  x691a_fields false ex_env 12 ex_ty ex_val =
  Ok [ABit true; ABit true; ABit true;
      ABit true; ANsnnwn 0;
      AOpen [ABit true; ACwn 0 255 7; ABit false; ACwn 0 255 200];
      ACounted 0 None [[ABits [true]]; [ABits [false]]; [ABits [false]]; [ABits [true]]];
      ABit true; ANsnnwn 0;
      ASmallCounted [[ABit true]];
      AOpen [ABit true; ABit true; ABit true;
             ACounted 0 None [[ABits (to_bits 8 1)]; [ABits (to_bits 8 2)]; [ABits (to_bits 8 3)];
                              [ABits (to_bits 8 4)]; [ABits (to_bits 8 5)]]]].
Proof. vm_compute. reflexivity. Qed.

Example top2_in_ascope : forall pe, x691a_scope pe false env2 8 top2 val2 = true.
Proof. intros []; vm_compute; reflexivity. Qed.

Example top2_aoctets pe :
  per_encode false 8 env2 top2 val2 = x691a_encode_octets false env2 pe 8 top2 val2.
Proof. apply per_encode_refines_x691; [apply top2_in_ascope | destruct pe; vm_compute; discriminate]. Qed.

(** * X.691 Annex A, ALIGNED variant *)

(** A.1.2: 94 octets *)
Example annex_a1_aligned :
  forall pe, x691a_encode_octets false a1_env pe 8 a1_ty (record []) =
  Ok (hex ("80044a6f686e015005536d69746801330844697265" ++ "63746f72083139373130393137044d617279015405536d697468"
           ++ "020552616c7068015405536d69746808313935373131313105537573616e014205" ++ "4a6f6e6573083139353930373137")).
Proof. intros []; vm_compute; reflexivity. Qed.

(** A.2.2: 74 octets *)
Example annex_a2_aligned :
  forall pe, x691a_encode_octets false a2_env pe 8 a1_ty (record []) =
  Ok (hex ("864a6f686e5010536d6974680133084469726563746f72197109170c4d617279541053" ++ "6d697468"
           ++ "021052616c7068541053" ++ "6d69746819571111105375" ++ "73616e42104a6f6e657319590717")).
Proof. intros []; vm_compute; reflexivity. Qed.

(** A.3.2: 83 octets *)
Example annex_a3_aligned :
  forall pe, x691a_encode_octets false a3_env pe 8 a3_ty (record [("sex", VEnum "female")]) =
  Ok (hex ("40c04a6f686e5008536d697468000033084469726563746f720019710917034d6172795408536d697468"
           ++ "010052616c70685408536d69746800195711118200537573616e42084a6f6e657300195907170101" ++ "40")).
Proof. intros []; vm_compute; reflexivity. Qed.

Example annex_in_ascope :
  forall pe,
  x691a_scope pe false a1_env 8 a1_ty (record []) = true /\
  x691a_scope pe false a2_env 8 a1_ty (record []) = true /\
  x691a_scope pe false a3_env 8 a3_ty (record [("sex", VEnum "female")]) = true.
Proof. intros []; repeat split; vm_compute; reflexivity. Qed.

(** so the library (codec 'per') emits exactly the Annex A octets *)
Example annex_library_octets_aligned :
  forall pe,
  per_encode false 8 a1_env a1_ty (record []) = x691a_encode_octets false a1_env pe 8 a1_ty (record []) /\
  per_encode false 8 a2_env a1_ty (record []) = x691a_encode_octets false a2_env pe 8 a1_ty (record []) /\
  per_encode false 8 a3_env a3_ty (record [("sex", VEnum "female")])
  = x691a_encode_octets false a3_env pe 8 a3_ty (record [("sex", VEnum "female")]).
Proof.
  intros pe. destruct (annex_in_ascope pe) as (H1 & H2 & H3).
  repeat split; apply per_encode_refines_x691; try assumption; destruct pe; vm_compute; discriminate.
Qed.

(** * Clause vectors (octets of a complete encoding; [abc t] = SEQUENCE { a
    BOOLEAN, b t, c BOOLEAN } with a = c = TRUE shows the padding) *)

Definition xa (pe : bool) (t : ty) (v : value) : result (list Z) := x691a_encode_octets false [] pe 4 t v.
Definition int_ (lo hi : Z) : ty := TInt (IcRange (Some lo) (Some hi) false).

(** 11.5.7: range <= 255 is a bit-field (no padding); 256: one aligned
    octet; 257..64K: two aligned octets; above: length (here 2 bits for 1..4
    octets), then the aligned minimal octets *)
Example va_cwn : forall pe,
  xa pe (abc (int_ 0 254)) (abc_v (VInt 5)) = Ok (hex "82c0") /\          (* 1 00000101 1 *)
  xa pe (abc (int_ 0 255)) (abc_v (VInt 5)) = Ok (hex "800580") /\        (* 1 pad | 05 | 1 *)
  xa pe (abc (int_ 0 256)) (abc_v (VInt 5)) = Ok (hex "80000580") /\
  xa pe (abc (int_ 0 65535)) (abc_v (VInt 256)) = Ok (hex "80010080") /\
  xa pe (abc (int_ 0 65536)) (abc_v (VInt 256)) = Ok (hex "a0010080") /\  (* 1 01 pad | 0100 | 1 *)
  xa pe (abc (int_ 0 4294967295)) (abc_v (VInt 16777216)) = Ok (hex "e00100000080") /\
  xa pe (abc (int_ 1 1)) (abc_v (VInt 1)) = Ok (hex "c0").
Proof. intros []; repeat split; vm_compute; reflexivity. Qed.

(** 11.7/11.8: aligned length and contents *)
Example va_unconstrained : forall pe,
  xa pe (abc (TInt IcNone)) (abc_v (VInt 4096)) = Ok (hex "8002100080") /\
  xa pe (abc (TInt (IcRange (Some 1) None false))) (abc_v (VInt 128)) = Ok (hex "80017f80") /\
  xa pe (abc (TInt (IcRange (Some 0) (Some 7) true))) (abc_v (VInt 8)) = Ok (hex "c0010880").
Proof. intros []; repeat split; vm_compute; reflexivity. Qed.

(** 17: OCTET STRING: fixed <= 2 octets not aligned, fixed 3 aligned, variable aligned after the length *)
Example va_octets : forall pe,
  xa pe (abc (TOctets (SzRange 2 (Some 2) false))) (abc_v (VBytes [171; 205])) = Ok (hex "d5e6c0") /\
  xa pe (abc (TOctets (SzRange 3 (Some 3) false))) (abc_v (VBytes [171; 205; 239])) = Ok (hex "80abcdef80") /\
  xa pe (abc (TOctets (SzRange 0 (Some 3) false))) (abc_v (VBytes [171])) = Ok (hex "a0ab80") /\
  xa pe (abc (TOctets SzNone)) (abc_v (VBytes [171])) = Ok (hex "8001ab80").
Proof. intros []; repeat split; vm_compute; reflexivity. Qed.

(** 16: BIT STRING: fixed 16 bits not aligned, fixed 17 aligned, variable aligned *)
Example va_bits : forall pe,
  xa pe (abc (TBits None (SzRange 16 (Some 16) false))) (abc_v (VBits [171; 205] 16)) = Ok (hex "d5e6c0") /\
  xa pe (abc (TBits None (SzRange 17 (Some 17) false))) (abc_v (VBits [171; 205; 128] 17)) = Ok (hex "80abcdc0") /\
  xa pe (abc (TBits None (SzRange 0 (Some 7) false))) (abc_v (VBits [160] 3)) = Ok (hex "b0b0").
Proof. intros []; repeat split; vm_compute; reflexivity. Qed.

(** 30.5: IA5String: 8 bits per character; fixed 2 characters (16 bits) not
    aligned, fixed 3 aligned; variable (SIZE(0..1)): 8 < 16 not aligned,
    (SIZE(0..2)): aligned; NumericString: 4 bits, (SIZE(1..3)) not aligned
    (12 < 16), (SIZE(1..4)) aligned; a 2-character alphabet: 1 bit *)
Example va_strings : forall pe,
  xa pe (abc (TStr SkIA5 (SzRange 2 (Some 2) false) None)) (abc_v (VStr [65; 66])) = Ok (hex "a0a140") /\
  xa pe (abc (TStr SkIA5 (SzRange 3 (Some 3) false) None)) (abc_v (VStr [65; 66; 67])) = Ok (hex "8041424380") /\
  xa pe (abc (TStr SkIA5 (SzRange 0 (Some 1) false) None)) (abc_v (VStr [65])) = Ok (hex "d060") /\
  xa pe (abc (TStr SkIA5 (SzRange 0 (Some 2) false) None)) (abc_v (VStr [65])) = Ok (hex "a04180") /\
  xa pe (abc (TStr SkNumeric (SzRange 1 (Some 3) false) None)) (abc_v (VStr [49])) = Ok (hex "85") /\
  xa pe (abc (TStr SkNumeric (SzRange 1 (Some 4) false) None)) (abc_v (VStr [49])) = Ok (hex "8028") /\
  xa pe (abc (TStr SkIA5 (SzRange 3 (Some 3) false) (Some [65; 84]))) (abc_v (VStr [84; 65; 84])) = Ok (hex "d8").
Proof. intros []; repeat split; vm_compute; reflexivity. Qed.

(** 19.7 - 19.9, 23.8: the open types are aligned *)
Example va_open : forall pe,
  xa pe (seq_a [(false, [("b", int_ 0 255, Optional)])]) (VSeq [("a", VBool true); ("b", VInt 5)]) = Ok (hex "c0400105") /\
  xa pe (TChoice [("a", TBool, Mandatory)] (Some [("d", TBool, Mandatory)])) (VChoice "d" (VBool true)) = Ok (hex "800180").
Proof. intros []; repeat split; vm_compute; reflexivity. Qed.

Print Assumptions ex_arefines.
Print Assumptions annex_a3_aligned.
