(** Implementation model of the unaligned PER codec (asn1tools/codecs/uper.py
    on top of per.py): what the Python encoder/decoder objects DO, over bit
    lists.  The big-integer accumulator of per.Encoder is abstracted to the
    bit list it denotes (every append of an in-range value appends its bits;
    an out-of-range append is [EUnmodelled]); everything else follows the
    code: width computations, extension bits, presence bitmaps, open-type
    wrapping of additions, fragmentation markers, error kinds.

    Recursion is on fuel (decremented at every nested type); all list
    traversals are structural. *)
From Asn1V Require Import Base.Prelude Base.Bits Base.Utf8 Syntax.Asn1.

(** ** Sizes *)

(** per.is_unbound on a SIZE constraint *)
Definition size_unbound (s : size) : bool :=
  match s with
  | SzNone => true
  | SzRange _ None _ => true
  | SzRange _ (Some hi) _ => hi >? 65535
  end.
Definition size_lo (s : size) : Z := match s with SzRange lo _ _ => lo | SzNone => 0 end.
Definition size_hi (s : size) : Z := match s with SzRange _ (Some hi) _ => hi | _ => 0 end.
Definition size_ext (s : size) : bool := match s with SzRange _ _ e => e | SzNone => false end.
(** integer_as_number_of_bits(maximum - minimum) *)
Definition size_nbits (s : size) : nat := Z.to_nat (bit_length (size_hi s - size_lo s)).
Definition size_in_root (s : size) (n : Z) : bool := (size_lo s <=? n) && (n <=? size_hi s).

(** ** Length determinants (per.Encoder.append_length_determinant and its
    _chunks generator) *)

Definition enc_len_short (n : Z) : bits :=
  if n <? 128 then to_bits 8 n else to_bits 8 (Z.lor 128 (Z.shiftr n 8)) ++ to_bits 8 (Z.land n 255).

(** length determinant for a length known to be < 16384 by the caller's
    context; lengths >= 16384 make the single-determinant call sites of the
    Python emit a fragment marker and then ALL the data, which no decoder
    reads back: outside the model. *)
Definition enc_len_single (n : Z) : result bits :=
  if n <? 16384 then Ok (enc_len_short n) else Err EUnmodelled.

(** append_length_determinant_chunks applied to a list of already encoded
    items: 16K-blocks of 1..4 fragments, then a final short determinant. *)
Fixpoint enc_all {A} (enc1 : A -> result bits) (l : list A) : result bits :=
  match l with
  | [] => Ok []
  | x :: r => let* a := enc1 x in let* b := enc_all enc1 r in Ok (a ++ b)
  end.

Fixpoint enc_frag {A} (fuel : nat) (enc1 : A -> result bits) (l : list A) : result bits :=
  let n := Z.of_nat (length l) in
  if n <? 16384 then let* body := enc_all enc1 l in Ok (enc_len_short n ++ body)
  else
    match fuel with
    | O => Err EFuel
    | S f =>
      let m := if n <? 32768 then 1 else if n <? 49152 then 2 else if n <? 65536 then 3 else 4 in
      let k := Z.to_nat (16384 * m) in
      let* body := enc_all enc1 (firstn k l) in
      let* rest := enc_frag f enc1 (skipn k l) in
      Ok (to_bits 8 (192 + m) ++ body ++ rest)
    end.
Definition frag_fuel {A} (l : list A) : nat := S (Z.to_nat (Z.of_nat (length l) / 16384)).

(** Decoder.read_length_determinant *)
Definition read_len : reader Z :=
  do* v <- read_uint 8;
  if Z.land v 128 =? 0 then rret v
  else if Z.land v 192 =? 128 then
    do* w <- read_uint 8; rret (Z.lor (Z.shiftl (Z.land v 127) 8) w)
  else if v =? 193 then rret 16384
  else if v =? 194 then rret 32768
  else if v =? 195 then rret 49152
  else if v =? 196 then rret 65536
  else rfail EDecode.

(** [n] items read by [rd] *)
Fixpoint read_n {A} (n : nat) (rd : reader A) : reader (list A) :=
  match n with
  | O => rret []
  | S k => do* x <- rd; do* r <- read_n k rd; rret (x :: r)
  end.

(** run a reader and also report how many bits it consumed
    (offset - decoder.number_of_bits in the Python) *)
Definition with_consumed {A} (m : reader A) : reader (A * nat) :=
  fun bs => match m bs with
            | Ok (a, r) => Ok ((a, (length bs - length r)%nat), r)
            | Err x => Err x
            end.

(** read_length_determinant_chunks with the per-chunk item loop.  Fuel bounds
    the number of chunks; every chunk consumes at least the 8 determinant
    bits, so [S (length input / 8)] always suffices. *)
Fixpoint read_frag {A} (fuel : nat) (rd : reader A) : reader (list A) :=
  match fuel with
  | O => rfail EFuel
  | S f =>
    do* n <- read_len;
    do* items <- read_n (Z.to_nat n) rd;
    if n <? 16384 then rret items
    else do* more <- read_frag f rd; rret (items ++ more)
  end.
Definition read_frag_auto {A} (rd : reader A) : reader (list A) :=
  fun bs => read_frag (S (Nat.div (length bs) 8)) rd bs.

(** ** Whole numbers *)

(** Encoder.append_unconstrained_whole_number *)
Definition enc_unconstrained (v : Z) : result bits :=
  let nb := bit_length v in
  let nbytes :=
    if v <? 0 then
      let n0 := (nb + 7) / 8 in
      let value := 2 ^ (8 * n0) + v in
      if negb (Z.testbit value (8 * n0 - 1)) then n0 + 1 else n0
    else if v >? 0 then
      let n0 := (nb + 7) / 8 in
      if nb =? 8 * n0 then n0 + 1 else n0
    else 1 in
  let* l := enc_len_single nbytes in
  Ok (l ++ to_bits (Z.to_nat (8 * nbytes)) v).

(** Decoder.read_unconstrained_whole_number; a zero length makes the Python
    evaluate [1 << -1] (ValueError). *)
Definition read_unconstrained : reader Z :=
  do* len <- read_len;
  do* d <- read_uint (Z.to_nat (8 * len));
  if len =? 0 then rfail (EForeign "ValueError")
  else
    let nbits := 8 * len in
    if Z.testbit d (nbits - 1) then rret (d - 2 ^ nbits) else rret d.

(** Encoder.append_normally_small_non_negative_whole_number *)
Definition enc_small_nonneg (v : Z) : result bits :=
  if v <? 64 then Ok (to_bits 7 v)
  else
    let len := (bit_length v + 7) / 8 in
    let* l := enc_len_single len in
    Ok (true :: l ++ to_bits (Z.to_nat (8 * len)) v).

Definition read_small_nonneg : reader Z :=
  do* b <- read_bit;
  if negb b then read_uint 6
  else do* len <- read_len; read_uint (Z.to_nat (8 * len)).

(** Encoder.append_normally_small_length *)
Definition enc_small_len (v : Z) : result bits :=
  if v <=? 64 then Ok (to_bits 7 (v - 1))
  else if v <=? 127 then Ok (to_bits 9 (Z.lor 256 v))
  else Err (EForeign "NotImplementedError").

Definition read_small_len : reader Z :=
  do* b <- read_bit;
  if negb b then do* v <- read_uint 6; rret (v + 1)
  else do* b2 <- read_bit;
       if negb b2 then read_uint 7 else rfail (EForeign "NotImplementedError").

(** ** INTEGER (uper.Integer) *)

Definition int_bounds (c : intc) : option (Z * Z) :=
  match c with
  | IcRange (Some lo) (Some hi) _ => Some (lo, hi)
  | _ => None
  end.
Definition int_ext (c : intc) : bool := match c with IcRange _ _ e => e | IcNone => false end.

Definition enc_int_root (c : intc) (v : Z) : result bits :=
  match int_bounds c with
  | None => enc_unconstrained v
  | Some (lo, hi) =>
    if (lo <=? v) && (v <=? hi)
    then Ok (to_bits (Z.to_nat (bit_length (hi - lo))) (v - lo))
    else Err EUnmodelled
  end.

Definition enc_int (c : intc) (v : Z) : result bits :=
  if int_ext c then
    match int_bounds c with
    | None => Err (EForeign "TypeError")      (* None <= data *)
    | Some (lo, hi) =>
      if (lo <=? v) && (v <=? hi)
      then let* r := enc_int_root c v in Ok (false :: r)
      else let* r := enc_unconstrained v in Ok (true :: r)
    end
  else enc_int_root c v.

Definition read_int_root (c : intc) : reader Z :=
  match int_bounds c with
  | None => read_unconstrained
  | Some (lo, hi) =>
    do* d <- read_uint (Z.to_nat (bit_length (hi - lo))); rret (d + lo)
  end.

Definition read_int (c : intc) : reader Z :=
  if int_ext c then
    do* b <- read_bit;
    if b then read_unconstrained else read_int_root c
  else read_int_root c.

(** dict / list lookup by an integer that may be astronomically large
    (a decoded normally-small number is an arbitrary big integer) *)
Definition nth_z {A} (l : list A) (i : Z) : option A :=
  if (i <? 0) || (Z.of_nat (length l) <=? i) then None else nth_error l (Z.to_nat i).

(** ** ENUMERATED (per.Enumerated) *)

(** insertion sort by value, stable: sorted(root, key=itemgetter(1)) *)
Fixpoint insert_by_value (x : string * Z) (l : list (string * Z)) : list (string * Z) :=
  match l with
  | [] => [x]
  | y :: r => if snd x <? snd y then x :: y :: r else y :: insert_by_value x r
  end.
Definition sort_by_value (l : list (string * Z)) : list (string * Z) :=
  fold_left (fun acc x => insert_by_value x acc) l [].

(** the datum of an item as the API sees it *)
Definition enum_datum (numeric : bool) (it : string * Z) : value :=
  if numeric then VInt (snd it) else VEnum (fst it).

(** data_to_index: a dict built from index_to_data, so for duplicate data the
    LAST index wins *)
Fixpoint index_of_last (numeric : bool) (d : value) (items : list (string * Z)) (i : Z)
  : option Z :=
  match items with
  | [] => None
  | it :: r =>
    match index_of_last numeric d r (i + 1) with
    | Some j => Some j
    | None => if value_eqb (enum_datum numeric it) d then Some i else None
    end
  end.

Definition enum_root_bits (root : list (string * Z)) : nat :=
  Z.to_nat (bit_length (Z.of_nat (length root) - 1)).

Definition enc_enum (numeric : bool) (root : list (string * Z))
           (ext : option (list (string * Z))) (d : value) : result bits :=
  let sroot := sort_by_value root in
  match ext with
  | None =>
    match index_of_last numeric d sroot 0 with
    | Some i => Ok (to_bits (enum_root_bits root) i)
    | None => Err EEncode
    end
  | Some adds =>
    match index_of_last numeric d sroot 0 with
    | Some i => Ok (false :: to_bits (enum_root_bits root) i)
    | None =>
      match index_of_last numeric d adds 0 with
      | Some j => let* r := enc_small_nonneg j in Ok (true :: r)
      | None => Err EEncode
      end
    end
  end.

Definition read_enum_root (numeric : bool) (root : list (string * Z)) : reader value :=
  do* i <- read_uint (enum_root_bits root);
  match nth_z (sort_by_value root) i with
  | Some it => rret (enum_datum numeric it)
  | None => rfail EDecode
  end.

Definition read_enum (numeric : bool) (root : list (string * Z))
           (ext : option (list (string * Z))) : reader value :=
  match ext with
  | None => read_enum_root numeric root
  | Some adds =>
    do* b <- read_bit;
    if negb b then read_enum_root numeric root
    else
      do* i <- read_small_nonneg;
      match nth_z adds i with
      | Some it => rret (enum_datum numeric it)
      | None => rret VNone
      end
  end.

(** ** BIT STRING (uper.BitString, per.BitString.rstrip_zeros) *)

Fixpoint strip_trailing_false (bs : bits) : bits :=
  match bs with
  | [] => []
  | b :: r =>
    match strip_trailing_false r with
    | [] => if b then [true] else []
    | r' => b :: r'
    end
  end.

(** The bits a (bytes, nbits) value denotes for append_bits: the first
    [nbits] bits of the data. *)
Definition bitvalue_bits (bytes : list Z) (nbits : Z) : bits :=
  firstn (Z.to_nat nbits) (bytes_to_bits bytes).

(** rstrip_zeros: strip on the WHOLE data (not only nbits), then pad to the
    minimum size when there is one. *)
Definition named_bits_of (sz : size) (bytes : list Z) : bits :=
  let s := strip_trailing_false (bytes_to_bits bytes) in
  match sz with
  | SzNone => s
  | SzRange lo _ _ =>
    if Z.of_nat (length s) <? lo then s ++ repeat false (Z.to_nat lo - length s) else s
  end.

Definition enc_bitstring (named : bool) (sz : size) (bytes : list Z) (nbits : Z) : result bits :=
  if (Z.of_nat (length bytes) * 8 <? nbits) then Err EUnmodelled else
  let* pre :=
     if size_ext sz then
       if size_in_root sz nbits then Ok [false] else Err (EForeign "NotImplementedError")
     else Ok [] in
  let data := if named then named_bits_of sz bytes else bitvalue_bits bytes nbits in
  let n := Z.of_nat (length data) in
  if size_unbound sz then
    let* body := enc_frag (frag_fuel data) (fun b : bool => Ok [b]) data in Ok (pre ++ body)
  else if negb (size_lo sz =? size_hi sz) then
    if size_in_root sz n then Ok (pre ++ to_bits (size_nbits sz) (n - size_lo sz) ++ data)
    else Err EUnmodelled
  else if n =? size_lo sz then Ok (pre ++ data) else Err EUnmodelled   (* wrong fixed size: rejected by the constraints check *).

Definition read_bitstring (sz : size) : reader value :=
  let mk (bs : bits) := VBits (bits_to_bytes bs) (Z.of_nat (length bs)) in
  do* _ <- (if size_ext sz then
              do* b <- read_bit; if b then rfail (EForeign "NotImplementedError") else rret tt
            else rret tt);
  if size_unbound sz then
    do* bs <- read_frag_auto read_bit; rret (mk bs)
  else
    do* extra <- (if negb (size_lo sz =? size_hi sz) then read_uint (size_nbits sz) else rret 0);
    do* bs <- read_raw (Z.to_nat (size_lo sz + extra)); rret (mk bs).

(** ** OCTET STRING (uper.OctetString) *)

Definition enc_octets (sz : size) (bytes : list Z) : result bits :=
  let n := Z.of_nat (length bytes) in
  let data := bytes_to_bits bytes in
  let root :=
    if size_unbound sz then enc_frag (frag_fuel bytes) (fun b => Ok (to_bits 8 b)) bytes
    else if negb (size_lo sz =? size_hi sz) then
      if size_in_root sz n then Ok (to_bits (size_nbits sz) (n - size_lo sz) ++ data)
      else Err EUnmodelled
    else if n =? size_lo sz then Ok data else Err EUnmodelled in
  if size_ext sz then
    if size_in_root sz n then let* r := root in Ok (false :: r)
    else let* r := enc_frag (frag_fuel bytes) (fun b => Ok (to_bits 8 b)) bytes in Ok (true :: r)
  else root.

Definition read_byte : reader Z := read_uint 8.

Definition read_octets (sz : size) : reader value :=
  let fixed_or_var :=
    if size_unbound sz then
      do* bs <- read_frag_auto read_byte; rret (VBytes bs)
    else
      do* extra <- (if negb (size_lo sz =? size_hi sz) then read_uint (size_nbits sz) else rret 0);
      do* bs <- read_n (Z.to_nat (size_lo sz + extra)) read_byte; rret (VBytes bs) in
  if size_ext sz then
    do* b <- read_bit;
    if b then do* bs <- read_frag_auto read_byte; rret (VBytes bs)
    else fixed_or_var
  else fixed_or_var.

(** ** Known-multiplier character strings (uper.KnownMultiplierStringType) *)

Definition zrange_list (lo hi : Z) : list Z :=
  map (fun i => lo + Z.of_nat i) (seq 0 (Z.to_nat (hi - lo + 1))).

(** code points of the class alphabets (permitted_alphabet.py) *)
Definition numeric_alphabet : list Z := 32 :: zrange_list 48 57.
Definition printable_alphabet : list Z :=
  zrange_list 65 90 ++ zrange_list 97 122 ++ zrange_list 48 57 ++ [32; 39; 40; 41; 43; 44; 45; 46; 47; 58; 61; 63].

(** (alphabet in index order, identity-coded?, supported) *)
Definition km_alphabet (k : strkind) (alpha : option (list Z)) : option (list Z * bool) :=
  match alpha with
  | Some a => match k with
              | SkIA5 | SkVisible | SkNumeric | SkPrintable => Some (a, false)
              | _ => None
              end
  | None =>
    match k with
    | SkIA5 => Some (zrange_list 0 127, true)
    | SkVisible => Some (zrange_list 32 126, true)
    | SkPrintable => Some (printable_alphabet, true)
    | SkNumeric => Some (numeric_alphabet, false)
    | _ => None
    end
  end.

Fixpoint index_in (c : Z) (l : list Z) (i : Z) : option Z :=
  match l with
  | [] => None
  | x :: r => if x =? c then Some i else index_in c r (i + 1)
  end.
Definition mem_z (c : Z) (l : list Z) : bool :=
  match index_in c l 0 with Some _ => true | None => false end.

Definition km_bits (a : list Z) : nat := Z.to_nat (bit_length (Z.of_nat (length a) - 1)).

Definition km_enc_char (a : list Z) (ident : bool) (c : Z) : result bits :=
  if ident then (if mem_z c a then Ok (to_bits (km_bits a) c) else Err EEncode)
  else match index_in c a 0 with
       | Some i => Ok (to_bits (km_bits a) i)
       | None => Err EEncode
       end.

Definition km_read_char (a : list Z) (ident : bool) : reader Z :=
  do* v <- read_uint (km_bits a);
  if ident then (if mem_z v a then rret v else rfail EDecode)
  else match nth_z a v with
       | Some c => rret c
       | None => rfail EDecode
       end.

Definition enc_kmstring (k : strkind) (sz : size) (alpha : option (list Z)) (cps : list Z)
  : result bits :=
  match km_alphabet k alpha with
  | None => Err EUnmodelled
  | Some (a, ident) =>
    let n := Z.of_nat (length cps) in
    let pre := if size_ext sz then [false] else [] in
    if size_ext sz && negb (size_in_root sz n) then Err EUnmodelled   (* silent corruption in the code *)
    else if size_unbound sz then
      let* body := enc_frag (frag_fuel cps) (km_enc_char a ident) cps in Ok (pre ++ body)
    else
      let* chars := enc_all (km_enc_char a ident) cps in
      if negb (size_lo sz =? size_hi sz) then
        if size_in_root sz n then Ok (pre ++ to_bits (size_nbits sz) (n - size_lo sz) ++ chars)
        else Err EUnmodelled
      else if n =? size_lo sz then Ok (pre ++ chars) else Err EUnmodelled
  end.

Definition read_kmstring (k : strkind) (sz : size) (alpha : option (list Z)) : reader value :=
  match km_alphabet k alpha with
  | None => rfail EUnmodelled
  | Some (a, ident) =>
    do* _ <- (if size_ext sz then
                do* b <- read_bit; if b then rfail (EForeign "NotImplementedError") else rret tt
              else rret tt);
    if size_unbound sz then
      do* cs <- read_frag_auto (km_read_char a ident); rret (VStr cs)
    else
      do* extra <- (if negb (size_lo sz =? size_hi sz) then read_uint (size_nbits sz) else rret 0);
      do* cs <- read_n (Z.to_nat (size_lo sz + extra)) (km_read_char a ident); rret (VStr cs)
  end.

(** ** UTF8String (per.UTF8String) *)
Definition enc_utf8 (cps : list Z) : result bits :=
  match utf8_encode cps with
  | None => Err (EForeign "UnicodeEncodeError")
  | Some bytes => enc_frag (frag_fuel bytes) (fun b => Ok (to_bits 8 b)) bytes
  end.
Definition read_utf8 : reader value :=
  do* bs <- read_frag_auto read_byte;
  match utf8_decode bs with
  | Some cps => rret (VStr cps)
  | None => rfail (EForeign "UnicodeDecodeError")
  end.

(** ** OBJECT IDENTIFIER (ber.encode/decode_object_identifier) *)

Fixpoint base128_digits (fuel : nat) (n : Z) : list Z :=   (* most significant first *)
  match fuel with
  | O => []
  | S f => if n >? 0 then base128_digits f (Z.shiftr n 7) ++ [Z.lor 128 (Z.land n 127)] else []
  end.
Definition enc_subid (n : Z) : list Z :=
  base128_digits (S (Z.to_nat (Z.log2 n))) (Z.shiftr n 7) ++ [Z.land n 127].

Definition enc_oid_bytes (arcs : list Z) : result (list Z) :=
  if negb (forallb (fun a => 0 <=? a) arcs) then Err EUnmodelled   (* garbage in the code *)
  else
  match arcs with
  | a0 :: a1 :: rest => Ok (enc_subid (40 * a0 + a1) ++ flat_map enc_subid rest)
  | _ => Err (EForeign "IndexError")
  end.

(** decode_object_identifier_subidentifier: IndexError when the data ends
    inside a subidentifier *)
Fixpoint dec_subid (acc : Z) (bs : list Z) : result (Z * list Z) :=
  match bs with
  | [] => Err (EForeign "IndexError")
  | b :: r =>
    if Z.land b 128 =? 0 then Ok (acc + b, r)
    else dec_subid (Z.shiftl (acc + Z.land b 127) 7) r
  end.

Fixpoint dec_subids (fuel : nat) (bs : list Z) : result (list Z) :=
  match bs with
  | [] => Ok []
  | _ =>
    match fuel with
    | O => Err EFuel
    | S f => let* (v, r) := dec_subid 0 bs in let* vs := dec_subids f r in Ok (v :: vs)
    end
  end.

Definition dec_oid_bytes (bs : list Z) : result (list Z) :=
  let* (s, r) := dec_subid 0 bs in
  let* rest := dec_subids (length r) r in
  Ok ((if s <? 80 then [s / 40; s mod 40] else [2; s - 80]) ++ rest).

Definition enc_oid (arcs : list Z) : result bits :=
  let* bytes := enc_oid_bytes arcs in
  let* l := enc_len_single (Z.of_nat (length bytes)) in
  Ok (l ++ bytes_to_bits bytes).

Definition read_oid : reader value :=
  do* n <- read_len;
  do* bs <- read_n (Z.to_nat n) read_byte;
  match dec_oid_bytes bs with
  | Ok arcs => rret (VOid arcs)
  | Err e => rfail e
  end.

(** ** Composite types *)

Fixpoint bits_eqb (a b : bits) : bool :=
  match a, b with
  | [], [] => true
  | x :: a', y :: b' => Bool.eqb x y && bits_eqb a' b'
  | _, _ => false
  end.

(** BitString.is_default (clean_bit_string_value on both sides) and the
    generic [value == default] of BaseType.is_default.  [t] is the resolved
    member type. *)
Definition is_default_value (t : ty) (v d : value) : bool :=
  match t, v, d with
  | TBits named _, VBits b1 n1, VBits b2 n2 =>
    let clean (b : list Z) (n : Z) :=
        let bs := bitvalue_bits b n in
        match named with Some _ => strip_trailing_false bs | None => bs end in
    bits_eqb (clean b1 n1) (clean b2 n2)
  | _, _, _ => value_eqb v d
  end.

Definition pad8 (bs : bits) : bits :=
  bs ++ repeat false ((8 - length bs mod 8) mod 8)%nat.

Fixpoint all_false (bs : bits) : bool :=
  match bs with [] => true | b :: r => negb b && all_false r end.

Definition has_presence_bit {T} (m : member_of T) : bool :=
  match m_opt m with Mandatory => false | _ => true end.

Section Composite.
  Variable numeric : bool.
  Variable e : env.

  Fixpoint resolve (fuel : nat) (t : ty) : ty :=
    match fuel with
    | O => t
    | S f =>
      match t with
      | TRef n => match lookup n e with Some t' => resolve f t' | None => t end
      | TTag _ t' => resolve f t'
      | _ => t
      end
    end.

  Section Members.
    (** the codec of nested types, at the smaller fuel *)
    Variable encT : ty -> value -> result bits.
    Variable decT : ty -> reader value.
    Variable res : ty -> ty.

    (** MembersType.encode_member *)
    Definition enc_member (m : member_of ty) (data : list (string * value)) (encode_default : bool)
      : result bits :=
      match lookup (m_name m) data with
      | Some v =>
        match m_opt m with
        | Default d =>
          if negb (is_default_value (res (m_ty m)) v d) || encode_default
          then encT (m_ty m) v else Ok []
        | _ => encT (m_ty m) v
        end
      | None =>
        match m_opt m with
        | Mandatory => Err EEncode
        | _ => Ok []
        end
      end.

    Definition presence_bit (m : member_of ty) (data : list (string * value)) : bool :=
      match m_opt m, lookup (m_name m) data with
      | Optional, Some _ => true
      | Default d, Some v => negb (is_default_value (res (m_ty m)) v d)
      | _, _ => false
      end.

    Fixpoint enc_members (ms : list (member_of ty)) (data : list (string * value)) : result bits :=
      match ms with
      | [] => Ok []
      | m :: r => let* a := enc_member m data false in let* b := enc_members r data in Ok (a ++ b)
      end.

    (** MembersType.encode_root *)
    Definition enc_root (ms : list (member_of ty)) (data : list (string * value)) : result bits :=
      let pre := map (fun m => presence_bit m data) (filter has_presence_bit ms) in
      let* body := enc_members ms data in
      Ok (pre ++ body).

    (** AdditionGroup.encode_addition_group *)
    Definition enc_group (ms : list (member_of ty)) (data : list (string * value)) : result bits :=
      let* bs := enc_root ms data in
      if all_false bs && (length bs =? length (filter has_presence_bit ms))%nat then Ok [] else Ok bs.

    (** Does encode_root of this group fail because a mandatory member is
        missing (an EncodeError without location), before any error raised
        inside a present member? *)
    Fixpoint group_missing_first (ms : list (member_of ty)) (data : list (string * value)) : bool :=
      match ms with
      | [] => false
      | m :: r =>
        match lookup (m_name m) data with
        | None => match m_opt m with Mandatory => true | _ => group_missing_first r data end
        | Some _ => match enc_member m data false with
                    | Ok _ => group_missing_first r data
                    | Err _ => false
                    end
        end
      end.

    (** One entry per addition that was processed before the first missing
        one: [Some bits] when present.  [except EncodeError as e: if
        e.location: raise] makes a missing addition (an error without
        location) and all later ones absent; an error raised inside a present
        addition carries a location and propagates. *)
    Fixpoint enc_adds (adds : list (addition_of ty)) (data : list (string * value))
      : result (list (option bits)) :=
      match adds with
      | [] => Ok []
      | (isgroup, ms) :: r =>
        if isgroup then
          if group_missing_first ms data then Ok []
          else
            let* bs := enc_group ms data in
            let* rest := enc_adds r data in
            Ok ((if (0 <? length bs)%nat then Some bs else None) :: rest)
        else
          match ms with
          | [m] =>
            match lookup (m_name m) data, m_opt m with
            | None, Mandatory => Ok []
            | found, _ =>
              let* bs := enc_member m data true in
              let* rest := enc_adds r data in
              Ok ((if (0 <? length bs)%nat || match found with Some _ => true | None => false end
                   then Some bs else None) :: rest)
            end
          | _ => Err EUnmodelled
          end
      end.

    Fixpoint enc_open_types (l : list (option bits)) : result bits :=
      match l with
      | [] => Ok []
      | None :: r => enc_open_types r
      | Some bs :: r =>
        let p := pad8 bs in
        let* len := enc_len_single (Z.of_nat (length p / 8)) in
        let* rest := enc_open_types r in
        Ok (len ++ p ++ rest)
      end.

    Definition is_some {A} (o : option A) : bool := match o with Some _ => true | None => false end.

    (** MembersType.encode_additions: None = "no additions present" *)
    Definition enc_additions (adds : list (addition_of ty)) (data : list (string * value))
      : result (option bits) :=
      let* processed := enc_adds adds data in
      if negb (existsb is_some processed) then Ok None
      else
        let n := length adds in
        let pres := map is_some processed ++ repeat false (n - length processed) in
        let* l := enc_small_len (Z.of_nat n) in
        let* body := enc_open_types processed in
        Ok (Some (l ++ pres ++ body)).

    (** MembersType.encode *)
    Definition enc_seq (root : list (member_of ty)) (ext : option (list (addition_of ty)))
               (v : value) : result bits :=
      match v with
      | VSeq data =>
        match ext with
        | None => enc_root root data
        | Some adds =>
          let* r := enc_root root data in
          match adds with
          | [] => Ok (false :: r)
          | _ =>
            let* a := enc_additions adds data in
            match a with
            | None => Ok (false :: r)
            | Some abits => Ok (true :: r ++ abits)
            end
          end
        end
      | _ => Err EUnmodelled
      end.

    (** MembersType.decode_root *)
    Fixpoint dec_members (ms : list (member_of ty)) (pres : list bool)
      : reader (list (string * value)) :=
      match ms with
      | [] => rret []
      | m :: r =>
        if has_presence_bit m then
          match pres with
          | [] => rfail EUnmodelled
          | p :: pres' =>
            if p then
              do* v <- decT (m_ty m); do* vs <- dec_members r pres'; rret ((m_name m, v) :: vs)
            else
              match m_opt m with
              | Default d => do* vs <- dec_members r pres'; rret ((m_name m, d) :: vs)
              | _ => dec_members r pres'
              end
          end
        else
          do* v <- decT (m_ty m); do* vs <- dec_members r pres; rret ((m_name m, v) :: vs)
      end.

    Definition dec_root (ms : list (member_of ty)) : reader (list (string * value)) :=
      do* pres <- read_n (length (filter has_presence_bit ms)) read_bit;
      dec_members ms pres.

    (** MembersType.decode_additions: iterate over the presence bits; [adds]
        are the additions this version knows. *)
    Definition dec_one_addition (adds : list (addition_of ty)) (open_len : Z)
      : reader (list (string * value)) :=
      match adds with
      | [] => do* _ <- skip_bits (Z.to_nat (8 * open_len)); rret []
      | (isgroup, ms) :: _ =>
        if isgroup then dec_root ms
        else match ms with
             | [m] => do* v <- decT (m_ty m); rret [(m_name m, v)]
             | _ => rfail EUnmodelled
             end
      end.

    Fixpoint dec_adds (pres : list bool) (adds : list (addition_of ty))
      : reader (list (string * value)) :=
      match pres with
      | [] => rret []
      | p :: pres' =>
        let adds' := tl adds in
        if negb p then dec_adds pres' adds'
        else
          do* open_len <- read_len;
          do* (fields, consumed) <- with_consumed (dec_one_addition adds open_len);
          do* _ <- (let al := (consumed mod 8)%nat in
                    if (al =? 0)%nat then rret tt else skip_bits (8 - al));
          do* more <- dec_adds pres' adds';
          rret (fields ++ more)
      end.

    Definition dec_additions (adds : list (addition_of ty)) : reader (list (string * value)) :=
      do* n <- read_small_len;
      do* pres <- read_raw (Z.to_nat n);
      dec_adds pres adds.

    Definition dec_seq (root : list (member_of ty)) (ext : option (list (addition_of ty)))
      : reader value :=
      match ext with
      | None => do* fs <- dec_root root; rret (VSeq fs)
      | Some adds =>
        do* b <- read_bit;
        do* fs <- dec_root root;
        if b then do* more <- dec_additions adds; rret (VSeq (fs ++ more))
        else rret (VSeq fs)
      end.

    (** uper.ArrayType *)
    Definition enc_seqof (elem : ty) (sz : size) (v : value) : result bits :=
      match v with
      | VList vs =>
        let n := Z.of_nat (length vs) in
        let root :=
            if size_unbound sz then enc_frag (frag_fuel vs) (encT elem) vs
            else
              let* body := enc_all (encT elem) vs in
              if negb (size_lo sz =? size_hi sz) then
                if size_in_root sz n then Ok (to_bits (size_nbits sz) (n - size_lo sz) ++ body)
                else Err EUnmodelled
              else if n =? size_lo sz then Ok body else Err EUnmodelled in
        if size_ext sz then
          if size_in_root sz n then let* r := root in Ok (false :: r)
          else let* r := enc_frag (frag_fuel vs) (encT elem) vs in Ok (true :: r)
        else root
      | _ => Err EUnmodelled
      end.

    Definition dec_seqof (elem : ty) (sz : size) : reader value :=
      let normal :=
          if size_unbound sz then
            do* vs <- read_frag_auto (decT elem); rret (VList vs)
          else
            do* extra <- (if negb (size_lo sz =? size_hi sz) then read_uint (size_nbits sz) else rret 0);
            do* vs <- read_n (Z.to_nat (size_lo sz + extra)) (decT elem); rret (VList vs) in
      if size_ext sz then
        do* b <- read_bit;
        if b then do* vs <- read_frag_auto (decT elem); rret (VList vs)
        else normal
      else normal.

    (** per.Choice with uper's root index *)
    Fixpoint find_alt (name : string) (alts : list (member_of ty)) (i : Z)
      : option (Z * member_of ty) :=
      match alts with
      | [] => None
      | m :: r => if String.eqb (m_name m) name then Some (i, m) else find_alt name r (i + 1)
      end.

    Definition choice_root_bits (root : list (member_of ty)) : nat :=
      Z.to_nat (bit_length (Z.of_nat (length root) - 1)).

    Definition enc_choice_root (root : list (member_of ty)) (name : string) (v : value)
      : result bits :=
      match find_alt name root 0 with
      | None => Err EEncode
      | Some (i, m) =>
        let* body := encT (m_ty m) v in
        Ok ((if (1 <? length root)%nat then to_bits (choice_root_bits root) i else []) ++ body)
      end.

    Definition enc_choice (root : list (member_of ty)) (ext : option (list (member_of ty)))
               (v : value) : result bits :=
      match v with
      | VChoice name x =>
        match ext with
        | None => enc_choice_root root name x
        | Some adds =>
          match find_alt name root 0 with
          | Some _ => let* r := enc_choice_root root name x in Ok (false :: r)
          | None =>
            match find_alt name adds 0 with
            | None => Err EEncode
            | Some (i, m) =>
              let* body := encT (m_ty m) x in
              let p := pad8 body in
              let* idx := enc_small_nonneg i in
              let* len := enc_len_single (Z.of_nat (length p / 8)) in
              Ok (true :: idx ++ len ++ p)
            end
          end
        end
      | _ => Err EUnmodelled
      end.

    Definition dec_choice_root (root : list (member_of ty)) : reader value :=
      do* i <- (if (1 <? length root)%nat then read_uint (choice_root_bits root) else rret 0);
      match nth_z root i with
      | None => rfail EDecode
      | Some m => do* v <- decT (m_ty m); rret (VChoice (m_name m) v)
      end.

    Definition dec_choice (root : list (member_of ty)) (ext : option (list (member_of ty)))
      : reader value :=
      match ext with
      | None => dec_choice_root root
      | Some adds =>
        do* b <- read_bit;
        if negb b then dec_choice_root root
        else
          do* i <- read_small_nonneg;
          do* len <- read_len;
          let nbits := Z.to_nat (8 * len) in
          match nth_z adds i with
          | None => do* _ <- skip_bits nbits; rret VUnknownChoice
          | Some m =>
            do* (v, consumed) <- with_consumed (decT (m_ty m));
            if (nbits <? consumed)%nat then rfail EUnmodelled   (* skip_bits(negative) rewinds *)
            else do* _ <- skip_bits (nbits - consumed); rret (VChoice (m_name m) v)
          end
      end.
  End Members.

  Definition as_bool (v : value) : result bool :=
    match v with VBool b => Ok b | _ => Err EUnmodelled end.

  Fixpoint enc (fuel : nat) (t : ty) (v : value) {struct fuel} : result bits :=
    match fuel with
    | O => Err EFuel
    | S f =>
      match t with
      | TBool => let* b := as_bool v in Ok [b]
      | TNull => Ok []
      | TInt c => match v with VInt z => enc_int c z | _ => Err EUnmodelled end
      | TEnum root ext => enc_enum numeric root ext v
      | TBits named sz =>
        match v with
        | VBits b n => enc_bitstring (match named with Some _ => true | None => false end) sz b n
        | _ => Err EUnmodelled
        end
      | TOctets sz => match v with VBytes b => enc_octets sz b | _ => Err EUnmodelled end
      | TStr SkUTF8 _ _ => match v with VStr c => enc_utf8 c | _ => Err EUnmodelled end
      | TStr k sz alpha => match v with VStr c => enc_kmstring k sz alpha c | _ => Err EUnmodelled end
      | TOid => match v with VOid a => enc_oid a | _ => Err EUnmodelled end
      | TSeq _ root ext => enc_seq (enc f) (resolve f) root ext v
      | TSeqOf _ elem sz => enc_seqof (enc f) elem sz v
      | TChoice root ext => enc_choice (enc f) root ext v
      | TRef n => match lookup n e with Some t' => enc f t' v | None => Err EUnmodelled end
      | TTag _ t' => enc f t' v
      end
    end.

  Fixpoint dec (fuel : nat) (t : ty) {struct fuel} : reader value :=
    match fuel with
    | O => rfail EFuel
    | S f =>
      match t with
      | TBool => do* b <- read_bit; rret (VBool b)
      | TNull => rret VNone
      | TInt c => do* z <- read_int c; rret (VInt z)
      | TEnum root ext => read_enum numeric root ext
      | TBits _ sz => read_bitstring sz
      | TOctets sz => read_octets sz
      | TStr SkUTF8 _ _ => read_utf8
      | TStr k sz alpha => read_kmstring k sz alpha
      | TOid => read_oid
      | TSeq _ root ext => dec_seq (dec f) root ext
      | TSeqOf _ elem sz => dec_seqof (dec f) elem sz
      | TChoice root ext => dec_choice (dec f) root ext
      | TRef n => match lookup n e with Some t' => dec f t' | None => rfail EUnmodelled end
      | TTag _ t' => dec f t'
      end
    end.
End Composite.

(** uper.CompiledType.encode / decode: whole octets out, whole octets in;
    an encoding of zero bits is the empty byte string. *)
Definition uper_encode (numeric : bool) (fuel : nat) (e : env) (t : ty) (v : value)
  : result (list Z) :=
  let* bs := enc numeric e fuel t v in Ok (bits_to_bytes bs).

Definition uper_decode (numeric : bool) (fuel : nat) (e : env) (t : ty) (data : list Z)
  : result (value * nat) :=
  let input := bytes_to_bits data in
  match dec numeric e fuel t input with
  | Ok (v, rest) => Ok (v, (length input - length rest)%nat)
  | Err x => Err x
  end.
