(** Constraints written in place on a type reference (X.680 49-51, "x Id (SIZE (4))").

    The shared universe [Syntax/Asn1.v] has plain references only.  What a
    constrained reference MEANS is fixed here, independently of the library's
    compile layer: the component

        x Id (SIZE (4))

    is the component  x Id'  of the module extended by the derived definition
    Id' ::= Id (SIZE (4)), i.e. the type behind [Id] (through aliases and tags)
    carrying that constraint.  A surface module is an environment together with
    a list of derived definitions (derived name, referenced name, overlay);
    [elab_env] computes the environment the X.691 specification models
    ([Per/X691.v], [Per/X691Aligned.v]) work on.

    Theorems (the property the library's per-(module, type, component name)
    cache of compiled types must respect):

      elab_env_preserves   a derived definition never changes the meaning of
                           a name that was already defined;
      elab_env_derived     the derived name means the referenced type with
                           the constraint;
      x691_site_inline /   the X.691 field list of a constrained site is the
      x691a_site_inline    one of the referenced type carrying the constraint;
      x691_plain_site_unchanged / x691a_plain_site_unchanged
                           the field list of an unconstrained reference to the
                           same name is the one of the definition as written,
                           whatever constraints other sites apply to it.

    The overlay applies only to a type that carries no constraint of that
    kind itself (serial application of constraints is an intersection in X.680
    and is not written by the generator). *)
From Asn1V Require Import Base.Prelude Base.Bits Syntax.Asn1 Per.X691 Per.X691Aligned.

Inductive over : Type :=
| OvSize (s : size)
| OvRange (c : intc).

(** derived name, (referenced name, overlay) *)
Definition derived : Type := (string * (string * over))%type.

(** the type behind references and tags with the overlay put on it; tags on the
    way are kept (they are not PER-visible, but they are part of the type) *)
Fixpoint apply_over (e : env) (fuel : nat) (o : over) (t : ty) {struct fuel} : option ty :=
  match fuel with
  | O => None
  | S f =>
    match t, o with
    | TOctets SzNone, OvSize s => Some (TOctets s)
    | TBits named SzNone, OvSize s => Some (TBits named s)
    | TStr k SzNone alpha, OvSize s => Some (TStr k s alpha)
    | TSeqOf isset elem SzNone, OvSize s => Some (TSeqOf isset elem s)
    | TInt IcNone, OvRange c => Some (TInt c)
    | TTag tg t', _ => match apply_over e f o t' with Some r => Some (TTag tg r) | None => None end
    | TRef n, _ => match lookup n e with Some t' => apply_over e f o t' | None => None end
    | _, _ => None
    end
  end.

Definition over_fuel : nat := 20%nat.

Fixpoint elab_derived (e : env) (ds : list derived) : option env :=
  match ds with
  | [] => Some []
  | (d, (b, o)) :: r =>
    match lookup b e with
    | Some t =>
      match apply_over e over_fuel o t, elab_derived e r with
      | Some t', Some r' => Some ((d, t') :: r')
      | _, _ => None
      end
    | None => None
    end
  end.

(** the environment of the module: the definitions as written, then the derived ones *)
Definition elab_env (e : env) (ds : list derived) : option env :=
  match elab_derived e ds with Some r => Some (e ++ r) | None => None end.

(** total variant for the generated case files: an ill-formed surface module gives the empty environment
    (every reference then fails with [EUnmodelled], which the check reports, never a silent match) *)
Definition elab_env_or_empty (e : env) (ds : list derived) : env :=
  match elab_env e ds with Some r => r | None => [] end.

(** * Lookup in an extended environment *)

Lemma lookup_app_some {A} n (l x : list (string * A)) a :
  lookup n l = Some a -> lookup n (l ++ x) = Some a.
Proof.
  induction l as [|[k b] l IH]; cbn [lookup app]; [discriminate|].
  destruct (String.eqb n k); auto.
Qed.

Lemma lookup_app_none {A} n (l x : list (string * A)) :
  lookup n l = None -> lookup n (l ++ x) = lookup n x.
Proof.
  induction l as [|[k b] l IH]; cbn [lookup app]; [reflexivity|].
  destruct (String.eqb n k); [discriminate|auto].
Qed.

(** a derived definition never changes the meaning of an existing name *)
Theorem elab_env_preserves e ds e' n t :
  elab_env e ds = Some e' -> lookup n e = Some t -> lookup n e' = Some t.
Proof.
  unfold elab_env. destruct (elab_derived e ds); [|discriminate].
  intros [= <-] H. apply lookup_app_some. exact H.
Qed.

Lemma elab_derived_lookup e ds r d b o :
  elab_derived e ds = Some r -> lookup d ds = Some (b, o) ->
  exists t t', lookup b e = Some t /\ apply_over e over_fuel o t = Some t' /\ lookup d r = Some t'.
Proof.
  revert r. induction ds as [|[d0 [b0 o0]] ds IH]; cbn [elab_derived lookup]; [discriminate|].
  intros r. destruct (lookup b0 e) as [t0|] eqn:Eb; [|discriminate].
  destruct (apply_over e over_fuel o0 t0) as [t0'|] eqn:Ea; [|discriminate].
  destruct (elab_derived e ds) as [r0|] eqn:Er; [|discriminate].
  intros [= <-]. cbn [lookup]. destruct (String.eqb d d0) eqn:Ed.
  - intros [= <- <-]. exists t0, t0'. auto.
  - intros H. apply (IH r0 eq_refl H).
Qed.

(** the derived name (fresh with respect to the definitions as written) means the referenced type with the
    constraint *)
Theorem elab_env_derived e ds e' d b o :
  elab_env e ds = Some e' -> lookup d e = None -> lookup d ds = Some (b, o) ->
  exists t t', lookup b e = Some t /\ apply_over e over_fuel o t = Some t' /\ lookup d e' = Some t'.
Proof.
  unfold elab_env. destruct (elab_derived e ds) as [r|] eqn:Er; [|discriminate].
  intros [= <-] Hf Hd. destruct (elab_derived_lookup e ds r d b o Er Hd) as (t & t' & H1 & H2 & H3).
  exists t, t'. rewrite (lookup_app_none d e r Hf). auto.
Qed.

(** * The X.691 field lists of reference sites *)

(** a constrained site is encoded as the referenced type carrying the constraint *)
Theorem x691_site_inline numeric e ds e' d b o :
  elab_env e ds = Some e' -> lookup d e = None -> lookup d ds = Some (b, o) ->
  exists t t', lookup b e = Some t /\ apply_over e over_fuel o t = Some t' /\
    forall f v, x691_fields numeric e' (S f) (TRef d) v = x691_fields numeric e' f t' v.
Proof.
  intros He Hf Hd. destruct (elab_env_derived e ds e' d b o He Hf Hd) as (t & t' & H1 & H2 & H3).
  exists t, t'. split; [exact H1|]. split; [exact H2|]. intros f v. cbn [x691_fields]. rewrite H3. reflexivity.
Qed.

Theorem x691a_site_inline numeric e ds e' d b o :
  elab_env e ds = Some e' -> lookup d e = None -> lookup d ds = Some (b, o) ->
  exists t t', lookup b e = Some t /\ apply_over e over_fuel o t = Some t' /\
    forall f v, x691a_fields numeric e' (S f) (TRef d) v = x691a_fields numeric e' f t' v.
Proof.
  intros He Hf Hd. destruct (elab_env_derived e ds e' d b o He Hf Hd) as (t & t' & H1 & H2 & H3).
  exists t, t'. split; [exact H1|]. split; [exact H2|]. intros f v. cbn [x691a_fields]. rewrite H3. reflexivity.
Qed.

(** an unconstrained reference to the same name keeps the meaning of the definition as written, whatever
    constraints other sites put on their references to it *)
Theorem x691_plain_site_unchanged numeric e ds e' b t :
  elab_env e ds = Some e' -> lookup b e = Some t ->
  forall f v, x691_fields numeric e' (S f) (TRef b) v = x691_fields numeric e' f t v.
Proof.
  intros He Hb f v. cbn [x691_fields]. rewrite (elab_env_preserves e ds e' b t He Hb). reflexivity.
Qed.

Theorem x691a_plain_site_unchanged numeric e ds e' b t :
  elab_env e ds = Some e' -> lookup b e = Some t ->
  forall f v, x691a_fields numeric e' (S f) (TRef b) v = x691a_fields numeric e' f t v.
Proof.
  intros He Hb f v. cbn [x691a_fields]. rewrite (elab_env_preserves e ds e' b t He Hb). reflexivity.
Qed.

(** * The hypotheses are satisfiable: two sites of the same name, one constrained *)

Local Open Scope string_scope.
Definition ex_env : env :=
  [("Id", TOctets SzNone);
   ("Short", TSeq false [(("id", TRef "Id.1"), Mandatory)] None);
   ("Long", TSeq false [(("id", TRef "Id"), Mandatory)] None)].
Definition ex_derived : list derived := [("Id.1", ("Id", OvSize (SzRange 4 (Some 4) false)))].

Example ex_elab :
  exists e', elab_env ex_env ex_derived = Some e' /\
    x691_encode_octets false e' 10 (TRef "Long") (VSeq [("id", VBytes [97; 98])]) = Ok [2; 97; 98] /\
    x691_encode_octets false e' 10 (TRef "Short") (VSeq [("id", VBytes [97; 98; 99; 100])]) = Ok [97; 98; 99; 100].
Proof. eexists. split; [reflexivity|]. split; vm_compute; reflexivity. Qed.

Print Assumptions elab_env_preserves.
Print Assumptions elab_env_derived.
Print Assumptions x691_site_inline.
Print Assumptions x691a_site_inline.
Print Assumptions x691_plain_site_unchanged.
Print Assumptions x691a_plain_site_unchanged.
