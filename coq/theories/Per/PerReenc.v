(** C01, third clause, for the ALIGNED PER model: re-encoding the decoded
    value reproduces the identical bits, at the level of the encoder state
    transformer: [penc_ty t v st = Ok st' -> penc_ty t (pnorm t v) st = Ok st']
    for every state [st] (so alignment padding is reproduced at any position),
    under the decidable side condition [preenc_ok].

    [preenc_ok] has exactly the clauses of [UperReenc.reenc_ok] (unique
    component names, DEFAULT stability, named bits with an extensible unbound
    SIZE, no mandatory component in an addition group encoded as absent); it
    cannot literally BE [reenc_ok] because that predicate mentions the UPER
    encoder and [norm] (which additions count as present, which group is
    encoded as absent, is decided by the aligned encoders). *)
From Asn1V Require Import Base.Prelude Base.Sweep Base.Bits Base.BitsProofs Base.Utf8
     Syntax.Asn1 Per.UperImpl Per.UperPrim Per.UperPB Per.UperRT Per.UperReenc
     Per.PerImpl Per.PerPrim Per.PerPB Per.PerRT.

Ltac Zify.zify_post_hook ::= Z.div_mod_to_equations.

(** [m2] reproduces every successful run of [m1] *)
Definition psame (m1 m2 : penc) : Prop := forall st st', m1 st = Ok st' -> m2 st = Ok st'.

Lemma psame_refl m : psame m m.
Proof. intros st st' H. exact H. Qed.

Lemma psame_fail e m : psame (pfail e) m.
Proof. intros st st' H. discriminate H. Qed.

Lemma psame_bind m1 m1' m2 m2' : psame m1 m1' -> psame m2 m2' -> psame (m1 ;; m2) (m1' ;; m2').
Proof.
  intros H1 H2 st st' H. unfold pbind in *. destruct (m1 st) as [st1|] eqn:E; cbn [bind] in H; [|discriminate].
  rewrite (H1 _ _ E). cbn [bind]. apply H2. exact H.
Qed.

Lemma psame_bind_r m1 m2 m2' : psame m2 m2' -> psame (m1 ;; m2) (m1 ;; m2').
Proof. intros H. apply psame_bind; [apply psame_refl | exact H]. Qed.

Lemma prun_psame m m' bs : psame m m' -> prun m = Ok bs -> prun m' = Ok bs.
Proof.
  intros H. unfold prun. destruct (m pst0) as [st|] eqn:E; cbn [bind]; [|discriminate].
  rewrite (H _ _ E). auto.
Qed.

(** ** Item lists *)

Lemma p_all_map_eq {A B} (g : A -> B) (enc1 : B -> penc) (enc2 : A -> penc) l :
  (forall x, enc1 (g x) = enc2 x) -> p_all enc1 (map g l) = p_all enc2 l.
Proof. intros H. induction l as [|x l IH]; cbn [p_all map]; [reflexivity|]. rewrite H, IH. reflexivity. Qed.

Lemma p_frag_map_eq {A B} (g : A -> B) (enc1 : B -> penc) (enc2 : A -> penc) fuel :
  (forall x, enc1 (g x) = enc2 x) -> forall l, p_frag fuel enc1 (map g l) = p_frag fuel enc2 l.
Proof.
  intros H. induction fuel as [|f IH]; intros l; cbn [p_frag]; rewrite map_length, (p_all_map_eq g enc1 enc2 l H); [reflexivity|].
  rewrite firstn_map, skipn_map, (p_all_map_eq g enc1 enc2 _ H), IH. reflexivity.
Qed.

Section PItems.
  Context {A : Type} (enc1 : A -> penc) (nm : A -> A) (ok : A -> bool).
  Hypothesis H1 : forall x, ok x = true -> psame (enc1 x) (enc1 (nm x)).

  Lemma p_all_reenc l : forallb ok l = true -> psame (p_all enc1 l) (p_all enc1 (map nm l)).
  Proof.
    induction l as [|x l IH]; intros Hok; cbn [p_all map]; [apply psame_refl|].
    cbn [forallb] in Hok. apply andb_prop in Hok. destruct Hok as [Hx Hl].
    apply psame_bind; [apply H1; exact Hx | apply IH; exact Hl].
  Qed.

  Lemma p_frag_reenc fuel : forall l, forallb ok l = true -> psame (p_frag fuel enc1 l) (p_frag fuel enc1 (map nm l)).
  Proof.
    induction fuel as [|f IH]; intros l Hok; cbn [p_frag]; rewrite map_length.
    - destruct (Z.of_nat (length l) <? 16384); [|apply psame_refl].
      apply psame_bind_r. apply p_all_reenc. exact Hok.
    - destruct (Z.of_nat (length l) <? 16384).
      + apply psame_bind_r. apply p_all_reenc. exact Hok.
      + rewrite firstn_map, skipn_map. apply psame_bind_r. apply psame_bind.
        * apply p_all_reenc. apply forallb_firstn. exact Hok.
        * apply IH. apply forallb_skipn. exact Hok.
  Qed.
End PItems.

(** ** OCTET STRING, BIT STRING, OBJECT IDENTIFIER *)

Lemma p_octets_norm sz b : p_octets sz (norm_bytes b) = p_octets sz b.
Proof.
  unfold p_octets. rewrite bytes_to_bits_norm. unfold norm_bytes. rewrite map_length, frag_fuel_map.
  rewrite (p_frag_map_eq (fun x => x mod 256) (fun b0 => pemit (to_bits 8 b0)) (fun b0 => pemit (to_bits 8 b0)))
    by (intros x; rewrite to_bits_mod256; reflexivity).
  reflexivity.
Qed.

Lemma p_bitstring_reenc named sz b n :
  bits_ok named sz b n = true ->
  match norm_bitstring named sz b n with
  | VBits b' n' => psame (p_bitstring named sz b n) (p_bitstring named sz b' n')
  | _ => False
  end.
Proof.
  unfold bits_ok, norm_bitstring, bits_value. intros Hnamed st st'.
  set (data := if named then named_bits_of sz b else bitvalue_bits b n).
  unfold p_bitstring. rewrite bits_guard.
  destruct (Z.of_nat (length b) * 8 <? n) eqn:Eg; [discriminate|]. cbv zeta.
  assert (Hdata : (if named then named_bits_of sz (bits_to_bytes data)
                   else bitvalue_bits (bits_to_bytes data) (Z.of_nat (length data))) = data).
  { unfold data. destruct named; [apply named_bits_of_canon | apply bitvalue_bits_canon]. }
  rewrite Hdata. fold data.
  destruct (size_ext sz) eqn:Eext; [|auto].
  destruct (size_in_root sz n) eqn:Ein; [|discriminate].
  intros H.
  assert (Hr : size_in_root sz (Z.of_nat (length data)) = true).
  { unfold pbind, pemit in H. cbn [bind] in H. revert H. generalize (pst_app st [false]). intros s1.
    destruct named.
    - cbn [andb] in Hnamed. destruct (size_unbound sz); [intros _; exact Hnamed|].
      destruct (negb (size_lo sz =? size_hi sz)) eqn:Ev.
      + destruct (size_in_root sz (Z.of_nat (length data))); [reflexivity|discriminate].
      + destruct (Z.of_nat (length data) =? size_lo sz) eqn:En; [|discriminate]. intros _.
        unfold size_in_root in *. lia.
    - assert (Hlen : Z.of_nat (length data) = Z.max 0 n).
      { unfold data, bitvalue_bits. rewrite firstn_length, bytes_to_bits_length. lia. }
      rewrite Hlen. destruct (Z.leb_spec 0 n) as [Hn|Hn].
      + intros _. replace (Z.max 0 n) with n by lia. exact Ein.
      + replace (Z.max 0 n) with 0 by lia.
        destruct (size_unbound sz) eqn:Eu.
        * intros _. unfold size_in_root, size_unbound, size_lo, size_hi in *.
          destruct sz as [|lo [hi|] x]; lia.
        * destruct (negb (size_lo sz =? size_hi sz)) eqn:Ev.
          -- destruct (size_in_root sz 0); [reflexivity|discriminate].
          -- destruct (0 =? size_lo sz) eqn:En; [|discriminate]. intros _. unfold size_in_root in *. lia. }
  rewrite Hr in H |- *. exact H.
Qed.

Lemma p_oid_norm arcs : psame (p_oid arcs) (p_oid (norm_oid arcs)).
Proof.
  intros st st' H. unfold p_oid, pbind, plift, palign_e in *. cbn [bind] in *.
  destruct (enc_oid_bytes arcs) as [bytes|] eqn:Eb; cbn [bind] in H; [|discriminate].
  rewrite (enc_oid_bytes_norm _ _ Eb). exact H.
Qed.

(** ** SEQUENCE / SET, SEQUENCE OF, CHOICE given the re-encoding property of
    the nested codec (at the smaller fuel) *)
Section PCompositeReenc.
  Variable encT : ty -> value -> penc.
  Variable normT : ty -> value -> value.
  Variable res : ty -> ty.
  Variable okT : ty -> value -> bool.
  Hypothesis HR : forall t v, okT t v = true -> psame (encT t v) (encT t (normT t v)).

  Lemma p_member_reenc m data data' :
    lookup (m_name m) data' = norm_lookup normT res m data ->
    member_ok normT res okT true data m = true ->
    psame (p_member encT res m data false) (p_member encT res m data' false) /\
    presence_bit res m data' = presence_bit res m data.
  Proof.
    unfold p_member, presence_bit, norm_lookup, member_ok, default_stable. intros Hl.
    rewrite Hl. clear Hl.
    destruct (lookup (m_name m) data) as [v|]; destruct (m_opt m) as [| |d]; cbn [negb orb andb];
      try (intros Hok; apply andb_prop in Hok; destruct Hok as [Hv Hs]).
    - split; [apply HR; assumption|reflexivity].
    - split; [apply HR; assumption|reflexivity].
    - destruct (is_default_value (res (m_ty m)) v d) eqn:Ed; cbn [negb orb] in *.
      + rewrite is_default_refl. cbn [negb]. split; [apply psame_refl|reflexivity].
      + destruct (is_default_value (res (m_ty m)) (normT (m_ty m) v) d); [discriminate|]. cbn [negb].
        split; [apply HR; assumption|reflexivity].
    - intros _. split; [apply psame_fail|reflexivity].
    - intros _. split; [apply psame_refl|reflexivity].
    - intros _. rewrite is_default_refl. cbn [negb orb]. split; [apply psame_refl|reflexivity].
  Qed.

  Lemma p_members_reenc ms data data' :
    (forall m, In m ms -> lookup (m_name m) data' = norm_lookup normT res m data) ->
    forallb (member_ok normT res okT true data) ms = true ->
    psame (p_all (fun m => p_member encT res m data false) ms) (p_all (fun m => p_member encT res m data' false) ms) /\
    map (fun m => presence_bit res m data') (filter has_presence_bit ms)
    = map (fun m => presence_bit res m data) (filter has_presence_bit ms).
  Proof.
    induction ms as [|m ms IH]; intros Hl Hok; cbn [p_all filter map]; [split; [apply psame_refl|reflexivity]|].
    cbn [forallb] in Hok. apply andb_prop in Hok. destruct Hok as [Hm Hms].
    destruct (p_member_reenc m data data' (Hl m (or_introl eq_refl)) Hm) as [E1 E2].
    destruct (IH (fun m' Hm' => Hl m' (or_intror Hm')) Hms) as [E3 E4].
    split; [apply psame_bind; assumption|].
    destruct (has_presence_bit m); cbn [map]; rewrite ?E2, E4; reflexivity.
  Qed.

  Lemma p_root_reenc ms data data' :
    (forall m, In m ms -> lookup (m_name m) data' = norm_lookup normT res m data) ->
    forallb (member_ok normT res okT true data) ms = true ->
    psame (p_root encT res ms data) (p_root encT res ms data').
  Proof.
    intros Hl Hok. unfold p_root. destruct (p_members_reenc ms data data' Hl Hok) as [E1 E2].
    rewrite E2. apply psame_bind_r. exact E1.
  Qed.

  (** which group counts as missing *)
  Lemma pgmf_all_none ms data acc :
    (forall m, In m ms -> lookup (m_name m) data = None) ->
    p_group_missing_first encT res ms data acc = negb (forallb has_presence_bit ms).
  Proof.
    induction ms as [|m ms IH]; intros Hl; cbn [p_group_missing_first forallb]; [reflexivity|].
    rewrite (Hl m (or_introl eq_refl)). unfold has_presence_bit at 1.
    destruct (m_opt m); cbn [andb negb]; try reflexivity; apply IH; intros m' Hm'; apply Hl; right; exact Hm'.
  Qed.

  Lemma pgmf_true_mandatory ms data : forall acc,
    p_group_missing_first encT res ms data acc = true -> forallb has_presence_bit ms = false.
  Proof.
    induction ms as [|m ms IH]; intros acc; cbn [p_group_missing_first forallb]; [discriminate|].
    unfold has_presence_bit at 1.
    destruct (lookup (m_name m) data) as [v|].
    - destruct (p_member encT res m data false acc) as [acc'|]; [|discriminate].
      intros H. rewrite (IH _ H). apply Bool.andb_false_r.
    - destruct (m_opt m); [reflexivity| |]; intros H; rewrite (IH _ H); apply Bool.andb_false_r.
  Qed.

  Lemma pgmf_of_p_all ms data : forall acc st',
    p_all (fun m => p_member encT res m data false) ms acc = Ok st' ->
    p_group_missing_first encT res ms data acc = false.
  Proof.
    induction ms as [|m ms IH]; intros acc st'; cbn [p_all p_group_missing_first]; [reflexivity|].
    unfold pbind. destruct (p_member encT res m data false acc) as [acc1|] eqn:Ea; cbn [bind]; [|discriminate].
    intros H. destruct (lookup (m_name m) data) as [v|] eqn:El.
    - apply (IH _ _ H).
    - unfold p_member in Ea. rewrite El in Ea.
      destruct (m_opt m); [discriminate| |]; unfold pemit in Ea; rewrite pst_app_nil in Ea;
        assert (acc1 = acc) by congruence; subst acc1; apply (IH _ _ H).
  Qed.

  Lemma p_all_none ms data :
    (forall m, In m ms -> lookup (m_name m) data = None) ->
    forallb has_presence_bit ms = true ->
    forall st, p_all (fun m => p_member encT res m data false) ms st = Ok st.
  Proof.
    induction ms as [|m ms IH]; intros Hl Hp st; cbn [p_all]; [reflexivity|].
    cbn [forallb] in Hp. apply andb_prop in Hp. destruct Hp as [Hp1 Hp2].
    unfold pbind, p_member. rewrite (Hl m (or_introl eq_refl)). unfold has_presence_bit in Hp1.
    destruct (m_opt m); [discriminate| |]; unfold pemit; cbn [bind]; rewrite pst_app_nil;
      apply (IH (fun m' Hm' => Hl m' (or_intror Hm')) Hp2).
  Qed.

  Lemma p_group_all_none ms data :
    (forall m, In m ms -> lookup (m_name m) data = None) ->
    forallb has_presence_bit ms = true ->
    p_group encT res ms data = Ok [].
  Proof.
    intros Hl Hp.
    assert (Hpre : map (fun m => presence_bit res m data) (filter has_presence_bit ms)
                   = repeat false (length (filter has_presence_bit ms))).
    { clear Hp. induction ms as [|m ms IH]; cbn [filter map]; [reflexivity|].
      specialize (IH (fun m' Hm' => Hl m' (or_intror Hm'))).
      destruct (has_presence_bit m); [|exact IH]. cbn [map length repeat]. rewrite IH. f_equal.
      unfold presence_bit. rewrite (Hl m (or_introl eq_refl)). destruct (m_opt m); reflexivity. }
    unfold p_group, prun, p_root, pbind, pemit. cbn [bind]. rewrite (p_all_none ms data Hl Hp). cbn [bind].
    rewrite pst_bits_fresh, Hpre.
    assert (Haf : forall k, all_false (repeat false k) = true) by (induction k; cbn; auto).
    rewrite Haf, repeat_length, Nat.eqb_refl. reflexivity.
  Qed.

  (** the PER analogue of [UperReenc.add_ok]: an addition group that the
      ALIGNED encoder encodes as "absent" (no bits) has no mandatory component *)
  Definition padd_ok (data : list (string * value)) (a : addition_of ty) : bool :=
    if fst a then
      forallb (member_ok normT res okT true data) (snd a) &&
      match p_group encT res (snd a) data with
      | Ok [] => forallb has_presence_bit (snd a)
      | _ => true
      end
    else forallb (member_ok normT res okT false data) (snd a).

  Lemma keys_pnorm_adds adds data n :
    In n (keys (pnorm_adds encT normT res adds data)) -> In n (add_names adds).
  Proof.
    induction adds as [|[isgroup ms] adds IH]; cbn [pnorm_adds add_names flat_map snd]; [auto|].
    intros H. apply in_or_app.
    destruct isgroup.
    - destruct (p_group_missing_first encT res ms data _); [contradiction|].
      destruct (p_group encT res ms data) as [bs|]; [|contradiction].
      unfold keys in H. rewrite map_app in H. apply in_app_or in H. destruct H as [H|H]; [|right; apply IH; exact H].
      left. destruct (0 <? length bs)%nat; [|contradiction]. eapply keys_norm_members. exact H.
    - destruct ms as [|m [|m' ms']]; try contradiction.
      assert (Hc : forall found : option value,
                 In n (keys (match prun (p_member encT res m data true) with
                             | Ok _ => (match found with Some v => [(m_name m, normT (m_ty m) v)] | None => [] end)
                                       ++ pnorm_adds encT normT res adds data
                             | Err _ => []
                             end)) ->
                 In n (map m_name [m]) \/ In n (add_names adds)).
      { intros found. destruct (prun (p_member encT res m data true)); [|contradiction].
        unfold keys. rewrite map_app. intros Hi. apply in_app_or in Hi. destruct Hi as [Hi|Hi]; [|right; apply IH; exact Hi].
        left. destruct found; [|contradiction]. exact Hi. }
      destruct (lookup (m_name m) data) as [v|]; destruct (m_opt m); try contradiction;
        first [exact (Hc (Some v) H) | exact (Hc None H)].
  Qed.

  Lemma p_adds_reenc adds data : forall P processed,
    NoDup (add_names adds) ->
    (forall n, In n (keys P) -> ~ In n (add_names adds)) ->
    forallb (padd_ok data) adds = true ->
    p_adds encT res adds data = Ok processed ->
    p_adds encT res adds (P ++ pnorm_adds encT normT res adds data) = Ok processed.
  Proof.
    induction adds as [|[isgroup ms] adds IH]; intros P processed Hnd HP Hok; [auto|].
    cbn [add_names flat_map snd] in Hnd, HP.
    cbn [forallb] in Hok. apply andb_prop in Hok. destruct Hok as [Ha Hok].
    pose proof (NoDup_app_l _ _ Hnd) as Hnd_ms. pose proof (NoDup_app_r _ _ Hnd) as Hnd_r.
    assert (HPnone : forall m, In m ms -> lookup (m_name m) P = None).
    { intros m Hm. apply lookup_notin. intros Hk. apply (HP _ Hk). apply in_or_app. left. apply in_map. exact Hm. }
    assert (HNnone : forall m, In m ms -> lookup (m_name m) (pnorm_adds encT normT res adds data) = None).
    { intros m Hm. apply lookup_notin. intros Hk. apply keys_pnorm_adds in Hk.
      exact (NoDup_app_disj _ _ _ Hnd (in_map m_name _ _ Hm) Hk). }
    cbn [p_adds pnorm_adds]. unfold padd_ok in Ha. cbn [fst snd] in Ha.
    destruct isgroup.
    - (* addition group *)
      apply andb_prop in Ha. destruct Ha as [Hms Hempty].
      destruct (p_group_missing_first encT res ms data
                  (pst_app pst0 (map (fun m => presence_bit res m data) (filter has_presence_bit ms)))) eqn:Eg.
      + intros H. rewrite app_nil_r.
        rewrite pgmf_all_none by exact HPnone. rewrite (pgmf_true_mandatory _ _ _ Eg). exact H.
      + destruct (p_group encT res ms data) as [bs|] eqn:Egr; cbn [bind]; [|discriminate].
        destruct (p_adds encT res adds data) as [rest_p|] eqn:Er; [|discriminate]. cbn [bind]. intros H.
        destruct (0 <? length bs)%nat eqn:Epos.
        * (* present *)
          set (data' := P ++ norm_members normT res ms data ++ pnorm_adds encT normT res adds data).
          assert (Hl : forall m, In m ms -> lookup (m_name m) data' = norm_lookup normT res m data).
          { intros m Hm. unfold data'. rewrite lookup_app, (HPnone m Hm).
            rewrite (lookup_norm_members normT res ms data _ Hnd_ms m Hm), (HNnone m Hm).
            destruct (norm_lookup normT res m data); reflexivity. }
          pose proof (p_group_present _ _ _ _ _ Egr ltac:(apply Nat.ltb_lt; exact Epos)) as Hroot.
          assert (Hroot' : prun (p_root encT res ms data') = Ok bs)
            by (apply (prun_psame _ _ _ (p_root_reenc ms data data' Hl Hms) Hroot)).
          assert (Hg' : p_group_missing_first encT res ms data'
                          (pst_app pst0 (map (fun m => presence_bit res m data') (filter has_presence_bit ms))) = false).
          { unfold prun, p_root, pbind, pemit in Hroot'. cbn [bind] in Hroot'.
            destruct (p_all (fun m => p_member encT res m data' false) ms
                            (pst_app pst0 (map (fun m => presence_bit res m data') (filter has_presence_bit ms))))
              as [s1|] eqn:Eb; [|discriminate].
            eapply pgmf_of_p_all. exact Eb. }
          assert (Hgr' : p_group encT res ms data' = Ok bs).
          { clear -Egr Hroot Hroot'. unfold p_group in Egr |- *. rewrite Hroot'. rewrite Hroot in Egr. exact Egr. }
          rewrite Hg', Hgr'. cbn [bind].
          unfold data'. rewrite app_assoc.
          rewrite (IH (P ++ norm_members normT res ms data) rest_p Hnd_r); [cbn [bind]; rewrite Epos; exact H| |exact Hok|reflexivity].
          intros n Hk. unfold keys in Hk. rewrite map_app in Hk. apply in_app_or in Hk. destruct Hk as [Hk|Hk].
          -- intros Hn. apply (HP _ Hk). apply in_or_app. right. exact Hn.
          -- apply keys_norm_members in Hk. exact (NoDup_app_disj _ _ _ Hnd Hk).
        * (* encoded as absent: no bits *)
          assert (bs = []) by (destruct bs; [reflexivity|cbn in Epos; discriminate]). subst bs.
          cbn [app].
          set (data' := P ++ pnorm_adds encT normT res adds data).
          assert (Hl : forall m, In m ms -> lookup (m_name m) data' = None).
          { intros m Hm. unfold data'. rewrite lookup_app, (HPnone m Hm). exact (HNnone m Hm). }
          rewrite pgmf_all_none by exact Hl. rewrite Hempty. cbn [negb].
          rewrite (p_group_all_none ms data' Hl Hempty). cbn [bind].
          unfold data'. rewrite (IH P rest_p Hnd_r); [cbn [bind]; exact H| |exact Hok|reflexivity].
          intros n Hk Hn. apply (HP _ Hk). apply in_or_app. right. exact Hn.
    - (* single addition *)
      destruct ms as [|m [|m' ms']]; [discriminate| |discriminate].
      cbn [forallb] in Ha. rewrite Bool.andb_true_r in Ha. unfold member_ok in Ha.
      pose proof (HPnone m (or_introl eq_refl)) as HPm. pose proof (HNnone m (or_introl eq_refl)) as HNm.
      destruct (lookup (m_name m) data) as [v|] eqn:Elk.
      + (* present *)
        rewrite Bool.andb_true_r in Ha.
        assert (Henc : p_member encT res m data true = encT (m_ty m) v).
        { unfold p_member. rewrite Elk. destruct (m_opt m); try reflexivity. rewrite Bool.orb_true_r. reflexivity. }
        assert (Hgoal :
          (let* bs := prun (p_member encT res m data true) in
           let* rest0 := p_adds encT res adds data in
           Ok ((if (0 <? length bs)%nat || true then Some bs else None) :: rest0)) = Ok processed ->
          p_adds encT res ((false, [m]) :: adds)
            (P ++ match prun (p_member encT res m data true) with
                  | Ok _ => [(m_name m, normT (m_ty m) v)] ++ pnorm_adds encT normT res adds data
                  | Err _ => []
                  end) = Ok processed).
        { rewrite Henc. destruct (prun (encT (m_ty m) v)) as [bs|] eqn:Eb; cbn [bind]; [|discriminate].
          destruct (p_adds encT res adds data) as [rest_p|] eqn:Er; [|discriminate]. cbn [bind]. intros H.
          cbn [p_adds].
          assert (Hl : lookup (m_name m) (P ++ [(m_name m, normT (m_ty m) v)] ++ pnorm_adds encT normT res adds data)
                       = Some (normT (m_ty m) v)).
          { rewrite lookup_app, HPm. cbn [app lookup]. rewrite String.eqb_refl. reflexivity. }
          rewrite Hl.
          assert (Henc' : prun (p_member encT res m (P ++ [(m_name m, normT (m_ty m) v)] ++ pnorm_adds encT normT res adds data) true)
                          = Ok bs).
          { assert (Hm' : p_member encT res m (P ++ [(m_name m, normT (m_ty m) v)] ++ pnorm_adds encT normT res adds data) true
                          = encT (m_ty m) (normT (m_ty m) v)).
            { unfold p_member. rewrite Hl. destruct (m_opt m); try reflexivity. rewrite Bool.orb_true_r. reflexivity. }
            rewrite Hm'. apply (prun_psame _ _ _ (HR _ _ Ha) Eb). }
          rewrite app_assoc.
          assert (HIH : p_adds encT res adds ((P ++ [(m_name m, normT (m_ty m) v)]) ++ pnorm_adds encT normT res adds data)
                        = Ok rest_p).
          { apply (IH _ _ Hnd_r); [|exact Hok|reflexivity].
            intros n Hk. unfold keys in Hk. rewrite map_app in Hk. apply in_app_or in Hk. destruct Hk as [Hk|Hk].
            - intros Hn. apply (HP _ Hk). apply in_or_app. right. exact Hn.
            - cbn [map fst In] in Hk. destruct Hk as [<-|[]].
              exact (NoDup_app_disj _ _ _ Hnd (or_introl eq_refl)). }
          rewrite <- app_assoc in HIH |- *.
          rewrite Henc'; cbn [bind]; rewrite HIH; cbn [bind]; exact H. }
        cbn [p_adds] in Hgoal. destruct (m_opt m); exact Hgoal.
      + (* absent *)
        destruct (m_opt m) eqn:Eo.
        * intros H. rewrite app_nil_r, HPm. exact H.
        * assert (Henc : forall d, lookup (m_name m) d = None -> prun (p_member encT res m d true) = Ok [])
            by (intros d Hd; unfold p_member; rewrite Hd, Eo; reflexivity).
          rewrite (Henc data Elk). cbn [bind app].
          destruct (p_adds encT res adds data) as [rest_p|] eqn:Er; [|discriminate]. cbn [bind]. intros H.
          assert (Hl : lookup (m_name m) (P ++ pnorm_adds encT normT res adds data) = None)
            by (rewrite lookup_app, HPm; exact HNm).
          rewrite Hl, (Henc _ Hl). cbn [bind].
          rewrite (IH P rest_p Hnd_r); [cbn [bind]; exact H| |exact Hok|reflexivity].
          intros n Hk Hn. apply (HP _ Hk). apply in_or_app. right. exact Hn.
        * assert (Henc : forall d, lookup (m_name m) d = None -> prun (p_member encT res m d true) = Ok [])
            by (intros d Hd; unfold p_member; rewrite Hd, Eo; reflexivity).
          rewrite (Henc data Elk). cbn [bind app].
          destruct (p_adds encT res adds data) as [rest_p|] eqn:Er; [|discriminate]. cbn [bind]. intros H.
          assert (Hl : lookup (m_name m) (P ++ pnorm_adds encT normT res adds data) = None)
            by (rewrite lookup_app, HPm; exact HNm).
          rewrite Hl, (Henc _ Hl). cbn [bind].
          rewrite (IH P rest_p Hnd_r); [cbn [bind]; exact H| |exact Hok|reflexivity].
          intros n Hk Hn. apply (HP _ Hk). apply in_or_app. right. exact Hn.
  Qed.

  (** SEQUENCE / SET: component names are unique (root and additions
      together), and every present component is fine *)
  Definition pseq_ok (root : list (member_of ty)) (ext : option (list (addition_of ty)))
             (data : list (string * value)) : bool :=
    nodupb (map m_name root ++ match ext with Some adds => add_names adds | None => [] end) &&
    forallb (member_ok normT res okT true data) root &&
    match ext with Some adds => forallb (padd_ok data) adds | None => true end.

  Lemma p_seq_reenc root ext data :
    pseq_ok root ext data = true ->
    psame (p_seq encT res root ext (VSeq data)) (p_seq encT res root ext (pnorm_seq encT normT res root ext data)).
  Proof.
    unfold pseq_ok, pnorm_seq. intros Hok. apply andb_prop in Hok. destruct Hok as [Hok Hadds].
    apply andb_prop in Hok. destruct Hok as [Hnd Hroot]. apply nodupb_NoDup in Hnd.
    set (X := match ext with Some adds => pnorm_adds encT normT res adds data | None => [] end).
    assert (HX : forall n, In n (keys X) -> In n (match ext with Some adds => add_names adds | None => [] end)).
    { unfold X. destruct ext as [adds|]; [apply keys_pnorm_adds|contradiction]. }
    assert (Hl : forall m, In m root ->
                 lookup (m_name m) (norm_members normT res root data ++ X) = norm_lookup normT res m data).
    { intros m Hm. rewrite (lookup_norm_members normT res root data X (NoDup_app_l _ _ Hnd) m Hm).
      destruct (norm_lookup normT res m data); [reflexivity|]. apply lookup_notin. intros Hk.
      exact (NoDup_app_disj _ _ _ Hnd (in_map m_name _ _ Hm) (HX _ Hk)). }
    pose proof (p_root_reenc root data _ Hl Hroot) as Hrt.
    unfold p_seq. destruct ext as [adds|]; [|exact Hrt].
    intros st st' H.
    assert (Hp : forall d, (match adds with [] => Ok [] | _ :: _ => p_adds encT res adds d end) = p_adds encT res adds d)
      by (intros d; destruct adds; reflexivity).
    rewrite Hp in H |- *.
    destruct (p_adds encT res adds data) as [processed|] eqn:Ep; cbn [bind] in H; [|discriminate].
    unfold X. rewrite (p_adds_reenc adds data _ processed (NoDup_app_r _ _ Hnd)); [| |exact Hadds|exact Ep].
    - cbn [bind]. revert st st' H. fold (psame).
      destruct (negb (existsb is_some processed)).
      + apply psame_bind_r. exact Hrt.
      + apply psame_bind_r. apply psame_bind; [exact Hrt | apply psame_refl].
    - intros n Hk Hn. apply keys_norm_members in Hk. exact (NoDup_app_disj _ _ _ Hnd Hk Hn).
  Qed.

  (** SEQUENCE OF / SET OF *)
  Lemma p_seqof_reenc elem sz vs :
    forallb (okT elem) vs = true ->
    psame (p_seqof encT elem sz (VList vs)) (p_seqof encT elem sz (VList (map (normT elem) vs))).
  Proof.
    intros Hok. unfold p_seqof. rewrite map_length, frag_fuel_map. cbv zeta. set (n := Z.of_nat (length vs)).
    assert (H1 : forall x, okT elem x = true -> psame (encT elem x) (encT elem (normT elem x))) by (intros x; apply HR).
    pose proof (p_all_reenc _ _ _ H1 vs Hok) as Hall.
    pose proof (p_frag_reenc _ _ _ H1 (frag_fuel vs) vs Hok) as Hfrag.
    match goal with |- psame (if _ then if _ then _ ;; ?r else _ else _) (if _ then if _ then _ ;; ?r' else _ else _) =>
      assert (Hroot : psame r r') end.
    { destruct (size_unbound sz); [apply psame_bind_r; exact Hfrag|].
      destruct (negb (size_lo sz =? size_hi sz)).
      - destruct (size_in_root sz n); [apply psame_bind_r; exact Hall | apply psame_refl].
      - destruct (n =? size_lo sz); [exact Hall | apply psame_refl]. }
    destruct (size_ext sz); [|exact Hroot].
    destruct (size_in_root sz n).
    - apply psame_bind_r. exact Hroot.
    - repeat apply psame_bind_r. exact Hfrag.
  Qed.

  (** CHOICE *)
  Lemma p_choice_reenc root ext name x m :
    (match find_alt name root 0 with
     | Some (_, m') => m' = m
     | None => match ext with
               | Some adds => match find_alt name adds 0 with Some (_, m') => m' = m | None => False end
               | None => False
               end
     end) ->
    okT (m_ty m) x = true ->
    psame (p_choice encT root ext (VChoice name x)) (p_choice encT root ext (VChoice name (normT (m_ty m) x))).
  Proof.
    unfold p_choice, p_choice_root. intros Hm Hok.
    destruct (find_alt name root 0) as [[i m']|] eqn:Ef.
    - subst m'. destruct ext; [apply psame_bind_r|]; apply psame_bind_r; apply HR; exact Hok.
    - destruct ext as [adds|]; [|contradiction].
      destruct (find_alt name adds 0) as [[i m']|] eqn:Ea; [|contradiction]. subst m'.
      intros st st' H. destruct (prun (encT (m_ty m) x)) as [body|] eqn:Eb; cbn [bind] in H; [|discriminate].
      rewrite (prun_psame _ _ _ (HR _ _ Hok) Eb). exact H.
  Qed.
End PCompositeReenc.

(** ** The type-directed statement *)
Section PReencMain.
  Variable numeric : bool.
  Variable e : env.

  (** the side condition: clause for clause [UperReenc.reenc_ok], with the
      aligned encoder and [pnorm] in the places where the UPER predicate
      mentions [enc] and [norm] *)
  Fixpoint preenc_ok (fuel : nat) (t : ty) (v : value) {struct fuel} : bool :=
    match fuel with
    | O => true
    | S f =>
      match t with
      | TBits named sz =>
        match v with
        | VBits b n => bits_ok (match named with Some _ => true | None => false end) sz b n
        | _ => true
        end
      | TSeq _ root ext =>
        match v with
        | VSeq data => pseq_ok (penc_ty numeric e f) (pnorm numeric e f) (resolve e f) (preenc_ok f) root ext data
        | _ => true
        end
      | TSeqOf _ elem _ => match v with VList vs => forallb (preenc_ok f elem) vs | _ => true end
      | TChoice root ext =>
        match v with
        | VChoice name x =>
          match find_alt name root 0 with
          | Some (_, m) => preenc_ok f (m_ty m) x
          | None =>
            match ext with
            | Some adds =>
              match find_alt name adds 0 with
              | Some (_, m) => preenc_ok f (m_ty m) x
              | None => true
              end
            | None => true
            end
          end
        | _ => true
        end
      | TRef n => match lookup n e with Some t' => preenc_ok f t' v | None => true end
      | TTag _ t' => preenc_ok f t' v
      | _ => true
      end
    end.

  Theorem penc_reenc : forall fuel t v,
    preenc_ok fuel t v = true ->
    psame (penc_ty numeric e fuel t v) (penc_ty numeric e fuel t (pnorm numeric e fuel t v)).
  Proof.
    induction fuel as [|f IH]; intros t v Hok; [apply psame_refl|].
    destruct t; cbn [penc_ty pnorm preenc_ok] in *; try apply psame_refl.
    - (* BIT STRING *)
      destruct v; try apply psame_refl.
      pose proof (p_bitstring_reenc _ _ _ _ Hok) as Hr.
      unfold norm_bitstring, bits_value in *. exact Hr.
    - (* OCTET STRING *)
      destruct v; try apply psame_refl. rewrite p_octets_norm. apply psame_refl.
    - (* OBJECT IDENTIFIER *)
      destruct v; try apply psame_refl. apply p_oid_norm.
    - (* SEQUENCE / SET *)
      destruct v; try apply psame_refl.
      apply (p_seq_reenc (penc_ty numeric e f) (pnorm numeric e f) (resolve e f) (preenc_ok f) IH). exact Hok.
    - (* SEQUENCE OF / SET OF *)
      destruct v; try apply psame_refl.
      apply (p_seqof_reenc (penc_ty numeric e f) (pnorm numeric e f) (preenc_ok f) IH). exact Hok.
    - (* CHOICE *)
      destruct v; try apply psame_refl.
      destruct (find_alt alt root 0) as [[i m]|] eqn:Ef.
      + apply (p_choice_reenc (penc_ty numeric e f) (pnorm numeric e f) (preenc_ok f) IH root ext alt v m);
          [rewrite Ef; reflexivity | exact Hok].
      + destruct ext as [adds|]; [|apply psame_refl].
        destruct (find_alt alt adds 0) as [[i m]|] eqn:Ea; [|apply psame_refl].
        apply (p_choice_reenc (penc_ty numeric e f) (pnorm numeric e f) (preenc_ok f) IH root (Some adds) alt v m);
          [rewrite Ef, Ea; reflexivity | exact Hok].
    - (* reference *)
      destruct (lookup name e) as [t'|]; [apply IH; exact Hok | apply psame_refl].
    - (* tagged *)
      apply IH. exact Hok.
  Qed.
End PReencMain.

(** ** Statements for re-export *)

(** state-transformer level: at ANY encoder position *)
Theorem per_reencode_state numeric e fuel t v st st' :
  preenc_ok numeric e fuel t v = true ->
  penc_ty numeric e fuel t v st = Ok st' ->
  penc_ty numeric e fuel t (pnorm numeric e fuel t v) st = Ok st'.
Proof. intros Hok. apply (penc_reenc numeric e fuel t v Hok). Qed.

(** C01, third clause, at the octet level *)
Theorem per_reencode numeric fuel e t v data :
  preenc_ok numeric e fuel t v = true ->
  per_encode numeric fuel e t v = Ok data ->
  per_encode numeric fuel e t (pnorm numeric e fuel t v) = Ok data.
Proof.
  unfold per_encode. intros Hok.
  destruct (prun (penc_ty numeric e fuel t v)) as [bs|] eqn:E; [|discriminate].
  rewrite (prun_psame _ _ _ (penc_reenc numeric e fuel t v Hok) E). auto.
Qed.

Theorem per_decode_reencode numeric fuel e t v data :
  preenc_ok numeric e fuel t v = true ->
  per_encode numeric fuel e t v = Ok data ->
  exists v' n, per_decode numeric fuel e t data = Ok (v', n) /\
               per_encode numeric fuel e t v' = Ok data.
Proof.
  intros Hok H. destruct (per_roundtrip _ _ _ _ _ _ H []) as (n & Hd & _).
  rewrite app_nil_r in Hd. exists (pnorm numeric e fuel t v), n. split; [exact Hd|].
  apply per_reencode; assumption.
Qed.

(** a sufficient condition for the DEFAULT clause, as for UPER: for a
    component whose resolved type has no components, value well-formedness *)
Lemma pdefault_stable_leaf numeric e : forall f t v d,
  leaf_value_ok (resolve e f t) v = true ->
  is_default_value (resolve e f t) (pnorm numeric e f t v) d = is_default_value (resolve e f t) v d.
Proof.
  induction f as [|f IH]; intros t v d; [reflexivity|].
  destruct t; cbn [resolve pnorm leaf_value_ok]; try reflexivity; try discriminate.
  - intros H. destruct v; try discriminate. reflexivity.
  - intros H. destruct v; try reflexivity. unfold norm_bitstring, bits_value.
    destruct d; try reflexivity. cbn [is_default_value].
    rewrite bitvalue_bits_canon. destruct named as [l|]; [|reflexivity].
    rewrite strip_named.
    change (bitvalue_bits bytes nbits) with (firstn (Z.to_nat nbits) (bytes_to_bits bytes)).
    rewrite (strip_firstn (bytes_to_bits bytes) (Z.to_nat nbits)) by lia. reflexivity.
  - intros H. destruct v; try reflexivity. rewrite (norm_bytes_id _ H). reflexivity.
  - intros H. destruct v; try reflexivity. rewrite (norm_oid_id _ H). reflexivity.
  - destruct (lookup name e) as [t'|]; [apply IH|reflexivity].
  - apply IH.
Qed.

Lemma pdefault_stable_of_leaf numeric e f m v :
  leaf_value_ok (resolve e f (m_ty m)) v = true ->
  default_stable (pnorm numeric e f) (resolve e f) m v = true.
Proof.
  intros Hl. unfold default_stable. destruct (m_opt m) as [| |d]; try reflexivity.
  rewrite (pdefault_stable_leaf numeric e f (m_ty m) v d Hl).
  destruct (is_default_value (resolve e f (m_ty m)) v d); reflexivity.
Qed.

Print Assumptions penc_reenc.
Print Assumptions per_reencode.
Print Assumptions per_decode_reencode.
Print Assumptions pdefault_stable_of_leaf.
