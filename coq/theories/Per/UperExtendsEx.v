(** A worked instance of UperExtends.v: version 2 extends version 1 at FOUR
    nodes at once, at different depths and through type references:

      Color ::= ENUMERATED { red, green, ... }          v2: ..., blue
      Item  ::= SEQUENCE { id INTEGER (0..255), c Color DEFAULT red, ... }
                                                        v2: ..., note OCTET STRING OPTIONAL
      Top   ::= SEQUENCE { items SEQUENCE OF Item,
                           u CHOICE { a BOOLEAN, ... }, v2: ..., b Item
                           ..., x INTEGER }             v2: ..., [[ g1 BOOLEAN OPTIONAL, g2 INTEGER DEFAULT 7 ]] *)
From Asn1V Require Import Base.Prelude Base.Bits Syntax.Asn1 Per.UperImpl Per.UperRT
     Per.UperReenc Per.UperCompat2 Per.UperExtends.
Open Scope string_scope.

Definition color1 : ty := TEnum [("red", 0); ("green", 1)] (Some []).
Definition color2 : ty := TEnum [("red", 0); ("green", 1)] (Some [("blue", 2)]).
Definition item_root : list (member_of ty) :=
  [("id", TInt (IcRange (Some 0) (Some 255) false), Mandatory); ("c", TRef "Color", Default (VEnum "red"))].
Definition item1 : ty := TSeq false item_root (Some []).
Definition item2 : ty := TSeq false item_root (Some [(false, [("note", TOctets SzNone, Optional)])]).
Definition env1 : env := [("Color", color1); ("Item", item1)].
Definition env2 : env := [("Color", color2); ("Item", item2)].
Definition top1 : ty :=
  TSeq false
       [("items", TSeqOf false (TRef "Item") SzNone, Mandatory);
        ("u", TChoice [("a", TBool, Mandatory)] (Some []), Mandatory)]
       (Some [(false, [("x", TInt IcNone, Mandatory)])]).
Definition top2 : ty :=
  TSeq false
       [("items", TSeqOf false (TRef "Item") SzNone, Mandatory);
        ("u", TChoice [("a", TBool, Mandatory)] (Some [("b", TRef "Item", Mandatory)]), Mandatory)]
       (Some [(false, [("x", TInt IcNone, Mandatory)]);
              (true, [("g1", TBool, Optional); ("g2", TInt IcNone, Default (VInt 7))])]).

Ltac ext_step :=
  match goal with
  | |- True => exact I
  | |- _ /\ _ => split
  | |- Forall2 _ [] [] => constructor
  | |- Forall2 _ (_ :: _) (_ :: _) => constructor
  | |- mrel _ _ _ _ _ => unfold mrel; cbn [m_name m_ty m_opt fst snd]
  | |- arel _ _ _ _ _ => unfold arel; cbn [fst snd]
  | |- exists c2 new, _ = (c2 ++ new)%list /\ Forall2 _ _ c2 => apply ex_split; cbn [firstn length]
  | |- exists new, _ = (_ ++ new)%list => eexists; reflexivity
  | |- NoDup _ => apply nodupb_NoDup; vm_compute; reflexivity
  | |- forall _, _ => intro
  | H : Default _ = Default _ |- _ = _ => injection H as <-; vm_compute; reflexivity
  | H : Mandatory = Default _ |- _ => discriminate H
  | H : Optional = Default _ |- _ => discriminate H
  | |- ext_gen _ _ _ _ (S _) (TSeq _ _ _) (TSeq _ _ _) => rewrite ext_seq; cbv beta iota
  | |- ext_gen _ _ _ _ (S _) (TSeqOf _ _ _) (TSeqOf _ _ _) => rewrite ext_seqof
  | |- ext_gen _ _ _ _ (S _) (TChoice _ _) (TChoice _ _) => rewrite ext_choice; cbv beta iota
  | |- ext_gen _ _ _ _ (S _) (TEnum _ _) (TEnum _ _) => rewrite ext_enum; cbv beta iota
  | |- ext_gen _ _ _ _ (S _) (TTag _ _) (TTag _ _) => rewrite ext_tag
  | |- ext_gen _ _ _ _ (S _) (TRef _) (TRef _) =>
    rewrite ext_ref; cbn [lookup env1 env2 String.eqb Ascii.eqb Bool.eqb];
    cbv beta iota delta [color1 color2 item1 item2 item_root]
  | |- ext_gen _ _ _ _ (S _) _ _ => rewrite ext_leaf by reflexivity
  | |- _ = _ => reflexivity
  end.

Example top2_extends_top1 : extends_strict false env1 env2 8 top1 top2.
Proof. unfold extends_strict, top1, top2. repeat ext_step. Qed.

(** a version-2 value using every new construct *)
Definition val2 : value :=
  VSeq [("items", VList [VSeq [("id", VInt 1); ("c", VEnum "blue"); ("note", VBytes [1; 2])];
                         VSeq [("id", VInt 2)]]);
        ("u", VChoice "b" (VSeq [("id", VInt 3); ("c", VEnum "green")]));
        ("x", VInt 9); ("g1", VBool true)].

(** what version 1 sees (computed by the version-1 decoder on the version-2
    octets, and equal to the projection as [uper_forward_octets] says) *)
Definition val2_seen_by_1 : value :=
  VSeq [("items", VList [VSeq [("id", VInt 1); ("c", VNone)];
                         VSeq [("id", VInt 2); ("c", VEnum "red")]]);
        ("u", VUnknownChoice);
        ("x", VInt 9)].

Example forward_instance :
  match uper_encode false 8 env2 top2 val2 with
  | Ok data =>
    match uper_decode false 8 env1 top1 data with Ok (w, _) => w = val2_seen_by_1 | Err _ => False end /\
    proj false env1 env2 8 top1 top2 (norm false env2 8 top2 val2) = val2_seen_by_1
  | Err _ => False
  end.
Proof. vm_compute. split; reflexivity. Qed.

(** a version-1 value decoded by version 2: identical to what version 1
    decodes; the DEFAULT addition g2 of version 2 is absent from the result *)
Definition val1 : value :=
  VSeq [("items", VList [VSeq [("id", VInt 1); ("c", VEnum "green")]]); ("u", VChoice "a" (VBool true)); ("x", VInt 9)].

Example backward_instance :
  match uper_encode false 8 env1 top1 val1 with
  | Ok data =>
    exists n, uper_decode false 8 env2 top2 data = Ok (norm false env1 8 top1 val1, n) /\
              uper_decode false 8 env1 top1 data = Ok (norm false env1 8 top1 val1, n) /\
              match norm false env1 8 top1 val1 with VSeq fs => lookup "g2" fs = None | _ => False end
  | Err _ => False
  end.
Proof. vm_compute. eexists. repeat split. Qed.
