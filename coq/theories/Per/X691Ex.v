(** Non-vacuity of [uper_refines_x691] and test vectors for the X.691
    specification model [Per/X691.v]: hand-derived clause examples and the
    three worked examples of X.691 Annex A (unaligned variants A.1.3, A.2.3,
    A.3.3), all checked by [vm_compute]. *)
From Asn1V Require Import Base.Prelude Base.Bits Syntax.Asn1 Per.UperImpl Per.X691 Per.X691Refine
     Per.UperExtendsEx Props.C01.
Local Open Scope string_scope.

(** * The scope is inhabited by nested extensible values *)

(** [ex_ty]/[ex_val] of Props/C01.v: a CHOICE addition holding a recursive
    type, a named-bit string with trailing zeros and a DEFAULT, an ENUMERATED
    addition, an addition group with an OCTET STRING outside the root of its
    extensible SIZE. *)
Example ex_in_scope : x691_scope false ex_env 12 ex_ty ex_val = true.
Proof. vm_compute. reflexivity. Qed.

Example ex_refines :
  enc false ex_env 12 ex_ty ex_val = x691_encode false ex_env 12 ex_ty ex_val /\
  x691_encode_octets false ex_env 12 ex_ty ex_val = Ok (hex "f000707640009300020fc1404080c10140").
Proof. split; [apply uper_refines_x691; exact ex_in_scope | vm_compute; reflexivity]. Qed.

(** the field-list reads like the Recommendation *)
Example ex_fields :
  x691_fields false ex_env 12 ex_ty ex_val =
  Ok [FBit true;                                  (* 19.1 extension bit: additions present *)
      FBit true; FBit true;                       (* 19.2 preamble: b and c present *)
      FBit true; FNsnnwn 0;                       (* 23.8 CHOICE: extension alternative 0 *)
      FOpen [FBit true; FCwn 0 255 7; FBit false; FCwn 0 255 200];
      FCounted 0 None [[FBit true]; [FBit false]; [FBit false]; [FBit true]];  (* 16: '1001'B *)
      FBit true; FNsnnwn 0;                       (* 14.3 ENUMERATED addition 0 *)
      FSmallCounted [[FBit true]];                (* 19.7/19.8 one addition, present *)
      FOpen [FBit true;                           (* 19.9 the group as a SEQUENCE: h present *)
             FBit true;                           (* g *)
             FBit true;                           (* 17.3 size outside the root *)
             FCounted 0 None [octet 1; octet 2; octet 3; octet 4; octet 5]]].
Proof. vm_compute. reflexivity. Qed.

(** [top2]/[val2] of Per/UperExtendsEx.v: extensions at four nodes, through
    type references *)
Example top2_in_scope : x691_scope false env2 8 top2 val2 = true.
Proof. vm_compute. reflexivity. Qed.

Example top2_refines : enc false env2 8 top2 val2 = x691_encode false env2 8 top2 val2.
Proof. apply uper_refines_x691. exact top2_in_scope. Qed.

(** * Clause test vectors (bit level) *)

Fixpoint bstr (s : string) : bits :=
  match s with
  | EmptyString => []
  | String a r => if Ascii.eqb a "1"%char then true :: bstr r
                  else if Ascii.eqb a "0"%char then false :: bstr r else bstr r
  end.

Definition x (t : ty) (v : value) : result bits := x691_encode false [] 4 t v.
Definition int_ (lo hi : Z) : ty := TInt (IcRange (Some lo) (Some hi) false).

(** 11.5: INTEGER (0..7) 5; INTEGER (3..6) 3 and 6; range 255 and 256 use 8 bits; a single value uses none *)
Example v_cwn :
  x (int_ 0 7) (VInt 5) = Ok (bstr "101") /\
  x (int_ 3 6) (VInt 3) = Ok (bstr "00") /\ x (int_ 3 6) (VInt 6) = Ok (bstr "11") /\
  x (int_ 4000 4254) (VInt 4002) = Ok (bstr "00000010") /\
  x (int_ 4000 4255) (VInt 4006) = Ok (bstr "00000110") /\
  x (int_ 0 256) (VInt 256) = Ok (bstr "100000000") /\
  x (int_ 9 9) (VInt 9) = Ok [].
Proof. repeat split; vm_compute; reflexivity. Qed.

(** 11.8 / 13.2.4: unconstrained INTEGER: 4096, -1, 127, 128, -128, -129 *)
Example v_unconstrained :
  x (TInt IcNone) (VInt 4096) = Ok (bytes_to_bits (hex "021000")) /\
  x (TInt IcNone) (VInt (-1)) = Ok (bytes_to_bits (hex "01ff")) /\
  x (TInt IcNone) (VInt 127) = Ok (bytes_to_bits (hex "017f")) /\
  x (TInt IcNone) (VInt 128) = Ok (bytes_to_bits (hex "020080")) /\
  x (TInt IcNone) (VInt (-128)) = Ok (bytes_to_bits (hex "0180")) /\
  x (TInt IcNone) (VInt (-129)) = Ok (bytes_to_bits (hex "02ff7f")).
Proof. repeat split; vm_compute; reflexivity. Qed.

(** 11.7 / 13.2.3: semi-constrained: INTEGER (1..MAX) 127, 128, 256, 257; INTEGER (-1..MAX) 127 *)
Example v_semi :
  let t lb := TInt (IcRange (Some lb) None false) in
  x (t 1) (VInt 127) = Ok (bytes_to_bits (hex "017e")) /\
  x (t 1) (VInt 128) = Ok (bytes_to_bits (hex "017f")) /\
  x (t 1) (VInt 256) = Ok (bytes_to_bits (hex "01ff")) /\
  x (t 1) (VInt 257) = Ok (bytes_to_bits (hex "020100")) /\
  x (t (-1)) (VInt 127) = Ok (bytes_to_bits (hex "0180")).
Proof. cbv zeta. repeat split; vm_compute; reflexivity. Qed.

(** 13.1: extensible INTEGER (0..7, ...): 5 in the root, 8 outside *)
Example v_int_ext :
  x (TInt (IcRange (Some 0) (Some 7) true)) (VInt 5) = Ok (bstr "0 101") /\
  x (TInt (IcRange (Some 0) (Some 7) true)) (VInt 8) = Ok (bstr "1 00000001 00001000").
Proof. split; vm_compute; reflexivity. Qed.

(** 11.9: length determinants: 5, 127, 128, 16383 octets; 16384 octets are one
    16K fragment and an empty final fragment; 32768 + 5 *)
Definition octs (n : Z) : value := VBytes (repeat 0 (Z.to_nat n)).
Definition starts (r : result bits) (pre : string) (total : Z) : bool :=
  match r with
  | Ok bs => bits_eqb (firstn (length (bstr pre)) bs) (bstr pre) && Z.eqb (Z.of_nat (length bs)) total
  | Err _ => false
  end.
Example v_length :
  starts (x (TOctets SzNone) (octs 5)) "00000101" (8 + 40) = true /\
  starts (x (TOctets SzNone) (octs 127)) "01111111" (8 + 8 * 127) = true /\
  starts (x (TOctets SzNone) (octs 128)) "10000000 10000000" (16 + 8 * 128) = true /\
  starts (x (TOctets SzNone) (octs 16383)) "10111111 11111111" (16 + 8 * 16383) = true /\
  starts (x (TOctets SzNone) (octs 16384)) "11000001" (8 + 8 * 16384 + 8) = true /\
  starts (x (TOctets SzNone) (octs 32773)) "11000010" (8 + 8 * 32768 + 8 + 40) = true /\
  starts (x (TOctets SzNone) (octs 81920)) "11000100" (8 + 8 * 65536 + 8 + 8 * 16384 + 8) = true.
Proof. repeat split; vm_compute; reflexivity. Qed.

(** the final fragment of 16384 octets is the single octet 00 *)
Example v_length_16k_tail :
  match x (TOctets SzNone) (octs 16384) with
  | Ok bs => bits_eqb (skipn (Z.to_nat (8 + 8 * 16384)) bs) (bstr "00000000") = true
  | Err _ => False
  end.
Proof. vm_compute. reflexivity. Qed.

(** 19: SEQUENCE { a INTEGER (0..255) OPTIONAL, b BOOLEAN, c INTEGER (0..3) DEFAULT 2 } *)
Definition seq1 : ty :=
  TSeq false [("a", int_ 0 255, Optional); ("b", TBool, Mandatory); ("c", int_ 0 3, Default (VInt 2))] None.
Example v_sequence :
  x seq1 (VSeq [("b", VBool true)]) = Ok (bstr "00 1") /\
  x seq1 (VSeq [("a", VInt 3); ("b", VBool true)]) = Ok (bstr "10 00000011 1") /\
  x seq1 (VSeq [("b", VBool false); ("c", VInt 2)]) = Ok (bstr "00 0") /\      (* 19.5: default value not encoded *)
  x seq1 (VSeq [("b", VBool false); ("c", VInt 3)]) = Ok (bstr "01 0 11") /\
  x seq1 (VSeq [("a", VInt 3)]) = Err EEncode.
Proof. repeat split; vm_compute; reflexivity. Qed.

(** 19.7 - 19.9: SEQUENCE { a BOOLEAN, ..., b INTEGER (0..255) OPTIONAL, [[ c BOOLEAN, d BOOLEAN OPTIONAL ]] } *)
Definition seq2 : ty :=
  TSeq false [("a", TBool, Mandatory)]
       (Some [(false, [("b", int_ 0 255, Optional)]); (true, [("c", TBool, Mandatory); ("d", TBool, Optional)])]).
Example v_additions :
  x seq2 (VSeq [("a", VBool true)]) = Ok (bstr "0 1") /\
  x seq2 (VSeq [("a", VBool true); ("b", VInt 5)])
  = Ok (bstr "1 1  0 000001  10  00000001 00000101") /\
  x seq2 (VSeq [("a", VBool true); ("c", VBool true)])
  = Ok (bstr "1 1  0 000001  01  00000001 01 000000") /\
  x seq2 (VSeq [("a", VBool true); ("b", VInt 5); ("c", VBool true); ("d", VBool false)])
  = Ok (bstr "1 1  0 000001  11  00000001 00000101  00000001 110 00000").
Proof. repeat split; vm_compute; reflexivity. Qed.

(** 14: ENUMERATED { red(0), green(1), blue(2) } and { red, green, ..., blue };
    the index follows the values, not the order of definition *)
Example v_enumerated :
  x (TEnum [("red", 0); ("green", 1); ("blue", 2)] None) (VEnum "blue") = Ok (bstr "10") /\
  x (TEnum [("red", 0); ("green", 1)] (Some [("blue", 2)])) (VEnum "green") = Ok (bstr "0 1") /\
  x (TEnum [("red", 0); ("green", 1)] (Some [("blue", 2)])) (VEnum "blue") = Ok (bstr "1 0 000000") /\
  x (TEnum [("c", 7); ("a", 1); ("b", 3)] None) (VEnum "c") = Ok (bstr "10") /\
  x (TEnum [("c", 7); ("a", 1); ("b", 3)] None) (VEnum "a") = Ok (bstr "00").
Proof. repeat split; vm_compute; reflexivity. Qed.

(** 23: CHOICE { a BOOLEAN, b NULL, c INTEGER (0..3), ..., d BOOLEAN } *)
Definition ch1 : ty :=
  TChoice [("a", TBool, Mandatory); ("b", TNull, Mandatory); ("c", int_ 0 3, Mandatory)] (Some [("d", TBool, Mandatory)]).
Example v_choice :
  x ch1 (VChoice "a" (VBool true)) = Ok (bstr "0 00 1") /\
  x ch1 (VChoice "b" VNone) = Ok (bstr "0 01") /\
  x ch1 (VChoice "c" (VInt 2)) = Ok (bstr "0 10 10") /\
  x ch1 (VChoice "d" (VBool true)) = Ok (bstr "1 0 000000 00000001 10000000") /\
  x (TChoice [("only", TBool, Mandatory)] None) (VChoice "only" (VBool true)) = Ok (bstr "1").
Proof. repeat split; vm_compute; reflexivity. Qed.

(** 30.5: NumericString "12" (4 bits, re-indexed: space = 0, digits 1..10),
    IA5String (SIZE(3)) "ABC" (7 bits, values as they are), a two-character
    alphabet (1 bit), VisibleString (FROM ("0".."z")) (75 characters, 7 bits,
    122 <= 127: values as they are, 30.5.4 a) *)
Example v_strings :
  x (TStr SkNumeric SzNone None) (VStr [49; 50]) = Ok (bstr "00000010 0010 0011") /\
  x (TStr SkIA5 (SzRange 3 (Some 3) false) None) (VStr [65; 66; 67]) = Ok (bstr "1000001 1000010 1000011") /\
  x (TStr SkIA5 (SzRange 0 (Some 7) false) (Some [65; 84])) (VStr [84; 65; 84]) = Ok (bstr "011 1 0 1") /\
  x (TStr SkVisible (SzRange 1 (Some 1) false) (Some (zrange_list 48 122))) (VStr [48]) = Ok (bstr "0110000") /\
  x (TStr SkUTF8 SzNone None) (VStr [8364]) = Ok (bytes_to_bits (hex "03e282ac")).
Proof. repeat split; vm_compute; reflexivity. Qed.

(** 16: BIT STRING (SIZE(0..7)) '101'B; BIT STRING { a(0), b(2) } (SIZE(2..8))
    '10100000'B: trailing zeros removed (3 bits left); '00000000'B: padded up to 2 bits *)
Example v_bitstring :
  x (TBits None (SzRange 0 (Some 7) false)) (VBits [160] 3) = Ok (bstr "011 101") /\
  x (TBits (Some [("a", 0); ("b", 2)]) (SzRange 2 (Some 8) false)) (VBits [160] 8) = Ok (bstr "001 101") /\
  x (TBits (Some [("a", 0); ("b", 2)]) (SzRange 2 (Some 8) false)) (VBits [0] 8) = Ok (bstr "000 00").
Proof. repeat split; vm_compute; reflexivity. Qed.

(** 24: OBJECT IDENTIFIER { 1 2 840 113549 }: 06 octets 2a 86 48 86 f7 0d *)
Example v_oid : x TOid (VOid [1; 2; 840; 113549]) = Ok (bytes_to_bits (hex "062a864886f70d")).
Proof. vm_compute. reflexivity. Qed.

(** 11.1.3: the complete encoding of NULL is one zero octet *)
Example v_null : x691_encode_octets false [] 2 TNull VNone = Ok [0].
Proof. vm_compute. reflexivity. Qed.

(** * X.691 Annex A: the personnel record *)

Fixpoint cps (s : string) : list Z :=
  match s with EmptyString => [] | String a r => Z.of_nat (nat_of_ascii a) :: cps r end.
Definition str (s : string) : value := VStr (cps s).
Definition name (g i f : string) : value := VSeq [("givenName", str g); ("initial", str i); ("familyName", str f)].

(** the value of A.1.1 / A.2.1 (components of the SETs already in canonical
    tag order: APPLICATION before context-specific) *)
Definition record (second_child_extra : list (string * value)) : value :=
  VSeq [("name", name "John" "P" "Smith"); ("number", VInt 51); ("title", str "Director");
        ("dateOfHire", str "19710917"); ("nameOfSpouse", name "Mary" "T" "Smith");
        ("children",
         VList [VSeq [("name", name "Ralph" "T" "Smith"); ("dateOfBirth", str "19571111")];
                VSeq ([("name", name "Susan" "B" "Jones"); ("dateOfBirth", str "19590717")] ++ second_child_extra)])].

(** A.1: no subtype constraints *)
Definition vis : ty := TStr SkVisible SzNone None.
Definition a1_env : env :=
  [("Name", TSeq false [("givenName", vis, Mandatory); ("initial", vis, Mandatory); ("familyName", vis, Mandatory)] None);
   ("Date", vis);
   ("EmployeeNumber", TInt IcNone);
   ("ChildInformation", TSeq true [("name", TRef "Name", Mandatory); ("dateOfBirth", TRef "Date", Mandatory)] None)].
Definition a1_ty : ty :=
  TSeq true [("name", TRef "Name", Mandatory); ("number", TRef "EmployeeNumber", Mandatory);
             ("title", vis, Mandatory); ("dateOfHire", TRef "Date", Mandatory);
             ("nameOfSpouse", TRef "Name", Mandatory);
             ("children", TSeqOf false (TRef "ChildInformation") SzNone, Default (VList []))] None.

(** A.1.3 (unaligned PER): 84 octets *)
Example annex_a1 :
  x691_encode_octets false a1_env 8 a1_ty (record []) =
  Ok (hex ("824adfa3700d005a7b74f4d0026611134f2cb8fa6fe410c5cb762c1cb16e09370f2f20350169edd3d340"
           ++ "102d2c3b386801a80b4f6e9e9a0218b96add8b162c4169f5e787700c20595bf765e610c5cb572c1bb16e")).
Proof. vm_compute. reflexivity. Qed.

(** A.2: with subtype constraints (permitted alphabets and sizes) *)
Definition name_alpha : list Z := [45; 46] ++ zrange_list 65 90 ++ zrange_list 97 122.
Definition a2_env : env :=
  let namestring := TStr SkVisible (SzRange 1 (Some 64) false) (Some name_alpha) in
  [("Name", TSeq false [("givenName", namestring, Mandatory);
                        ("initial", TStr SkVisible (SzRange 1 (Some 1) false) (Some name_alpha), Mandatory);
                        ("familyName", namestring, Mandatory)] None);
   ("Date", TStr SkVisible (SzRange 8 (Some 8) false) (Some (zrange_list 48 57)));
   ("EmployeeNumber", TInt IcNone);
   ("ChildInformation", TSeq true [("name", TRef "Name", Mandatory); ("dateOfBirth", TRef "Date", Mandatory)] None)].

(** A.2.3 (unaligned PER): 61 octets *)
Example annex_a2 :
  x691_encode_octets false a2_env 8 a1_ty (record []) =
  Ok (hex ("865d51d2888a5125f1809984" ++ "44d3cb2e3e9bf90cb8848b867396e8a88a5125f181089b93d71aa229"
           ++ "4497c632ae222222985ce521885d54c170cac838b8")).
Proof. vm_compute. reflexivity. Qed.

(** A.3: with extension markers; the second child has the extension addition sex = female *)
Definition a3_env : env :=
  let namestring := TStr SkVisible (SzRange 1 (Some 64) true) (Some name_alpha) in
  [("Name", TSeq false [("givenName", namestring, Mandatory);
                        ("initial", TStr SkVisible (SzRange 1 (Some 1) false) (Some name_alpha), Mandatory);
                        ("familyName", namestring, Mandatory)] (Some []));
   ("Date", TStr SkVisible (SzRange 8 (Some 8) true) (Some (zrange_list 48 57)));
   ("EmployeeNumber", TInt (IcRange (Some 0) (Some 9999) true));
   ("ChildInformation",
    TSeq true [("name", TRef "Name", Mandatory); ("dateOfBirth", TRef "Date", Mandatory)]
         (Some [(false, [("sex", TEnum [("male", 1); ("female", 2); ("unknown", 3)] None, Optional)])]))].
Definition a3_ty : ty :=
  TSeq true [("name", TRef "Name", Mandatory); ("number", TRef "EmployeeNumber", Mandatory);
             ("title", vis, Mandatory); ("dateOfHire", TRef "Date", Mandatory);
             ("nameOfSpouse", TRef "Name", Mandatory);
             ("children", TSeqOf false (TRef "ChildInformation") (SzRange 2 (Some 2) true), Optional)] (Some []).

(** A.3.3 (unaligned PER): 65 octets *)
Example annex_a3 :
  x691_encode_octets false a3_env 8 a3_ty (record [("sex", VEnum "female")]) =
  Ok (hex ("40cbaa3a5108a5125f180330889a7965c7d37f20cb8848b819ce5ba2a114a24be3011372"
           ++ "7ae3542294497c619571111822985ce521842eaa60b832b20e2e020280")).
Proof. vm_compute. reflexivity. Qed.

(** the three records are in scope: the library emits exactly these octets *)
Example annex_in_scope :
  x691_scope false a1_env 8 a1_ty (record []) = true /\
  x691_scope false a2_env 8 a1_ty (record []) = true /\
  x691_scope false a3_env 8 a3_ty (record [("sex", VEnum "female")]) = true.
Proof. repeat split; vm_compute; reflexivity. Qed.

Example annex_library_octets :
  uper_encode false 8 a1_env a1_ty (record []) = x691_encode_octets false a1_env 8 a1_ty (record []) /\
  uper_encode false 8 a2_env a1_ty (record []) = x691_encode_octets false a2_env 8 a1_ty (record []) /\
  uper_encode false 8 a3_env a3_ty (record [("sex", VEnum "female")])
  = x691_encode_octets false a3_env 8 a3_ty (record [("sex", VEnum "female")]).
Proof.
  destruct annex_in_scope as (H1 & H2 & H3).
  repeat split; apply uper_encode_refines_x691; try assumption; vm_compute; discriminate.
Qed.

Print Assumptions ex_refines.
Print Assumptions annex_a3.
