(** C08, work bound for the ALIGNED PER decoder model: a cost-instrumented
    copy of the decoder of [Per/PerImpl.v] ([pdec_ty], [per_decode]), with the
    step discipline of [Per/UperCost.v]: one step per primitive read of the
    decoder object - [Decoder.align_always] ([r_align]) is one such step -, one
    per loop iteration, one per [decode] call.  The readers aligned PER shares
    with UPER ([read_len], [read_n], [read_frag_auto], [read_unconstrained],
    [read_enum], [read_utf8], [read_oid], [dec_root], the addition loop) are
    the instrumented readers of [Per/UperCost.v]. *)
From Asn1V Require Import Base.Prelude Base.Bits Base.Utf8 Syntax.Asn1 Per.UperImpl Per.PerImpl Per.UperCost.

Definition c_r_align : creader unit := prim r_align.

(** read_constrained_whole_number: an alignment (for ranges above 255) and one read *)
Definition c_r_cwn (lo hi : Z) (nbits : nat) : creader Z :=
  let range := hi - lo + 1 in
  dc* x <- (if range <=? 255 then c_read_uint nbits
            else if range =? 256 then dc* _ <- c_r_align; c_read_uint 8
            else if range <=? 65536 then dc* _ <- c_r_align; c_read_uint 16
            else dc* _ <- c_r_align; c_read_uint nbits);
  cret (x + lo).

Definition c_r_int_root (c : intc) : creader Z :=
  match int_bounds c with
  | None => dc* _ <- c_r_align; c_read_unconstrained
  | Some (lo, hi) =>
    match p_int_indef lo hi with
    | None => c_r_cwn lo hi (p_int_nbits lo hi)
    | Some ib =>
      dc* nb <- c_r_cwn 0 (2 ^ Z.of_nat ib) ib;
      dc* _ <- c_r_align;
      c_r_cwn lo hi (Z.to_nat (8 * (nb + 1)))
    end
  end.

Definition c_r_int (c : intc) : creader Z :=
  if int_ext c then
    dc* b <- c_read_bit;
    if b then dc* _ <- c_r_align; c_read_unconstrained else c_r_int_root c
  else c_r_int_root c.

Definition c_r_bitstring (sz : size) : creader value :=
  let mk (bs : bits) := VBits (bits_to_bytes bs) (Z.of_nat (length bs)) in
  dc* _ <- (if size_ext sz then
              dc* b <- c_read_bit; if b then cfail (EForeign "NotImplementedError") else cret tt
            else cret tt);
  if size_unbound sz then
    dc* _ <- c_r_align; dc* bs <- c_read_frag_auto c_read_bit; cret (mk bs)
  else if negb (size_lo sz =? size_hi sz) then
    dc* n <- c_r_cwn (size_lo sz) (size_hi sz) (size_nbits sz);
    dc* _ <- c_r_align;
    dc* bs <- c_read_raw (Z.to_nat n); cret (mk bs)
  else
    dc* _ <- (if size_lo sz >? 16 then c_r_align else cret tt);
    dc* bs <- c_read_raw (Z.to_nat (size_lo sz)); cret (mk bs).

Definition c_r_octets (sz : size) : creader value :=
  let normal :=
      if size_unbound sz then
        dc* _ <- c_r_align; dc* bs <- c_read_frag_auto c_read_byte; cret (VBytes bs)
      else if negb (size_lo sz =? size_hi sz) then
        dc* n <- c_r_cwn (size_lo sz) (size_hi sz) (size_nbits sz);
        dc* _ <- c_r_align;
        dc* bs <- c_read_n (Z.to_nat n) c_read_byte; cret (VBytes bs)
      else
        dc* _ <- (if size_hi sz <=? 2 then cret tt else c_r_align);
        dc* bs <- c_read_n (Z.to_nat (size_lo sz)) c_read_byte; cret (VBytes bs) in
  if size_ext sz then
    dc* b <- c_read_bit;
    if b then dc* _ <- c_r_align; dc* bs <- c_read_frag_auto c_read_byte; cret (VBytes bs)
    else normal
  else normal.

Definition c_r_km_char (a : list Z) (ident : bool) (bpc : nat) : creader Z :=
  dc* v <- c_read_uint bpc;
  if ident then (if mem_z v a then cret v else cfail EDecode)
  else match nth_z a v with
       | Some c => cret c
       | None => cfail EDecode
       end.

Definition c_r_kmstring (k : strkind) (sz : size) (alpha : option (list Z)) : creader value :=
  match p_km_params k alpha with
  | None => cfail EUnmodelled
  | Some (a, ident, bpc) =>
    dc* _ <- (if size_ext sz then
                dc* b <- c_read_bit; if b then cfail (EForeign "NotImplementedError") else cret tt
              else cret tt);
    if size_unbound sz then
      dc* _ <- c_r_align; dc* cs <- c_read_frag_auto (c_r_km_char a ident bpc); cret (VStr cs)
    else if negb (size_lo sz =? size_hi sz) then
      dc* n <- c_r_cwn (size_lo sz) (size_hi sz) (size_nbits sz);
      dc* _ <- (if (size_hi sz >? 1) && (n >? 0) then c_r_align else cret tt);
      dc* cs <- c_read_n (Z.to_nat n) (c_r_km_char a ident bpc); cret (VStr cs)
    else
      dc* _ <- (if size_hi sz * Z.of_nat bpc >? 16 then c_r_align else cret tt);
      dc* cs <- c_read_n (Z.to_nat (size_lo sz)) (c_r_km_char a ident bpc); cret (VStr cs)
  end.

Definition c_r_utf8 : creader value := dc* _ <- c_r_align; c_read_utf8.
Definition c_r_oid : creader value := dc* _ <- c_r_align; c_read_oid.

Section PCompositeCost.
  Variable numeric : bool.
  Variable e : env.

  Section PMembersCost.
    Variable decT : ty -> creader value.

    Definition c_pd_seq (root : list (member_of ty)) (ext : option (list (addition_of ty))) : creader value :=
      match ext with
      | None => dc* fs <- c_dec_root decT root; cret (VSeq fs)
      | Some adds =>
        dc* b <- c_read_bit;
        dc* fs <- c_dec_root decT root;
        if b then
          dc* n <- c_read_small_len;
          dc* pres <- c_read_raw (Z.to_nat n);
          dc* _ <- c_r_align;
          dc* more <- c_dec_adds decT pres adds; cret (VSeq (fs ++ more))
        else cret (VSeq fs)
      end.

    Definition c_pd_seqof (elem : ty) (sz : size) : creader value :=
      let normal :=
          if size_unbound sz then
            dc* _ <- c_r_align; dc* vs <- c_read_frag_auto (decT elem); cret (VList vs)
          else if negb (size_lo sz =? size_hi sz) then
            dc* n <- c_r_cwn (size_lo sz) (size_hi sz) (size_nbits sz);
            dc* vs <- c_read_n (Z.to_nat n) (decT elem); cret (VList vs)
          else dc* vs <- c_read_n (Z.to_nat (size_lo sz)) (decT elem); cret (VList vs) in
      if size_ext sz then
        dc* b <- c_read_bit;
        if b then dc* _ <- c_r_align; dc* vs <- c_read_frag_auto (decT elem); cret (VList vs)
        else normal
      else normal.

    Definition c_pd_choice_root (root : list (member_of ty)) : creader value :=
      dc* i <- (if (1 <? length root)%nat
                then c_r_cwn 0 (Z.of_nat (length root) - 1) (choice_root_bits root) else cret 0);
      match nth_z root i with
      | None => cfail EDecode
      | Some m => dc* v <- decT (m_ty m); cret (VChoice (m_name m) v)
      end.

    Definition c_pd_choice (root : list (member_of ty)) (ext : option (list (member_of ty))) : creader value :=
      match ext with
      | None => c_pd_choice_root root
      | Some adds =>
        dc* b <- c_read_bit;
        if negb b then c_pd_choice_root root
        else
          dc* i <- c_read_small_nonneg;
          dc* _ <- c_r_align;
          dc* len <- c_read_len;
          let nbits := Z.to_nat (8 * len) in
          match nth_z adds i with
          | None => dc* _ <- c_skip_bits nbits; cret VUnknownChoice
          | Some m =>
            dc* (v, consumed) <- c_with_consumed (decT (m_ty m));
            if (nbits <? consumed)%nat then cfail EUnmodelled
            else dc* _ <- c_skip_bits (nbits - consumed); cret (VChoice (m_name m) v)
          end
      end.
  End PMembersCost.

  Fixpoint pdec_cost (fuel : nat) (t : ty) {struct fuel} : creader value :=
    match fuel with
    | O => tick 1 (cfail EFuel)
    | S f =>
      tick 1 (
      match t with
      | TBool => dc* b <- c_read_bit; cret (VBool b)
      | TNull => cret VNone
      | TInt c => dc* z <- c_r_int c; cret (VInt z)
      | TEnum root ext => c_read_enum numeric root ext
      | TBits _ sz => c_r_bitstring sz
      | TOctets sz => c_r_octets sz
      | TStr SkUTF8 _ _ => c_r_utf8
      | TStr k sz alpha => c_r_kmstring k sz alpha
      | TOid => c_r_oid
      | TSeq _ root ext => c_pd_seq (pdec_cost f) root ext
      | TSeqOf _ elem sz => c_pd_seqof (pdec_cost f) elem sz
      | TChoice root ext => c_pd_choice (pdec_cost f) root ext
      | TRef n => match lookup n e with Some t' => pdec_cost f t' | None => cfail EUnmodelled end
      | TTag _ t' => pdec_cost f t'
      end)
    end.
End PCompositeCost.

Definition per_decode_cost (numeric : bool) (fuel : nat) (e : env) (t : ty) (data : list Z)
  : result (value * nat) * N :=
  let input := bytes_to_bits data in
  match pdec_cost numeric e fuel t input with
  | (Ok (v, rest), c) => (Ok (v, (length input - length rest)%nat), c)
  | (Err x, c) => (Err x, c)
  end.
