(** Round-trip of the UPER model: decode (encode v ++ rest) = (norm v, rest). *)
From Asn1V Require Import Base.Prelude Base.Sweep Base.Bits Base.BitsProofs Base.Utf8
     Syntax.Asn1 Per.UperImpl Per.UperPrim Per.UperPB.

Ltac Zify.zify_post_hook ::= Z.div_mod_to_equations.

(** ** Unconstrained whole numbers (two's complement, minimal octets) *)

Lemma bit_length_pos v : 0 < v -> 2 ^ (bit_length v - 1) <= v < 2 ^ bit_length v.
Proof.
  intros H. unfold bit_length. destruct (v =? 0) eqn:E; [lia|].
  rewrite Z.abs_eq by lia. replace (Z.log2 v + 1 - 1) with (Z.log2 v) by lia.
  pose proof (Z.log2_spec v H). replace (Z.log2 v + 1) with (Z.succ (Z.log2 v)) by lia. lia.
Qed.

Lemma bit_length_nonneg v : 0 <= bit_length v.
Proof. unfold bit_length. destruct (v =? 0); [lia|]. pose proof (Z.log2_nonneg (Z.abs v)). lia. Qed.

Lemma pow2_le_mono a b : 0 <= a <= b -> 2 ^ a <= 2 ^ b.
Proof. intros H. apply Z.pow_le_mono_r; lia. Qed.

(** the number of octets chosen by append_unconstrained_whole_number *)
Definition unc_nbytes (v : Z) : Z :=
  let nb := bit_length v in
  if v <? 0 then
    let n0 := (nb + 7) / 8 in
    let value := 2 ^ (8 * n0) + v in
    if negb (Z.testbit value (8 * n0 - 1)) then n0 + 1 else n0
  else if v >? 0 then
    let n0 := (nb + 7) / 8 in
    if nb =? 8 * n0 then n0 + 1 else n0
  else 1.

Lemma testbit_top value k :
  0 < k -> 0 <= value < 2 ^ k -> Z.testbit value (k - 1) = (2 ^ (k - 1) <=? value).
Proof.
  intros Hk Hv. rewrite Z.testbit_eqb by lia.
  assert (Hp : 0 < 2 ^ (k - 1)) by (apply pow2_pos; lia).
  assert (H2 : 2 ^ k = 2 * 2 ^ (k - 1)).
  { replace k with (k - 1 + 1) at 1 by lia. rewrite Z.pow_add_r by lia. change (2 ^ 1) with 2. lia. }
  destruct (2 ^ (k - 1) <=? value) eqn:E.
  - assert (value / 2 ^ (k - 1) = 1) by nia. rewrite H. reflexivity.
  - assert (value / 2 ^ (k - 1) = 0) by (apply Z.div_small; lia). rewrite H. reflexivity.
Qed.

(** the chosen width holds the value in two's complement *)
Lemma unc_nbytes_fits v :
  let n := unc_nbytes v in 1 <= n /\ - 2 ^ (8 * n - 1) <= v < 2 ^ (8 * n - 1).
Proof.
  unfold unc_nbytes. cbv zeta.
  pose proof (bit_length_nonneg v) as Hnb.
  destruct (v <? 0) eqn:Eneg.
  - (* negative *)
    assert (Hb : 2 ^ (bit_length (- v) - 1) <= - v < 2 ^ bit_length (- v)) by (apply bit_length_pos; lia).
    assert (Hbl : bit_length v = bit_length (- v)).
    { unfold bit_length. rewrite Z.abs_opp. destruct (v =? 0) eqn:E0; destruct (- v =? 0) eqn:E1; lia. }
    rewrite <- Hbl in Hb.
    set (nb := bit_length v) in *. set (n0 := (nb + 7) / 8).
    assert (Hn0 : nb <= 8 * n0 /\ 8 * n0 < nb + 8 /\ 1 <= nb) by (unfold n0; split; [|split]; try lia;
      destruct (Z.eq_dec nb 0) as [E|E]; [rewrite E in Hb; simpl in Hb; lia | lia]).
    assert (Hle : 2 ^ nb <= 2 ^ (8 * n0)) by (apply pow2_le_mono; lia).
    assert (Hval : 0 <= 2 ^ (8 * n0) + v < 2 ^ (8 * n0)) by lia.
    rewrite (testbit_top (2 ^ (8 * n0) + v) (8 * n0)) by lia.
    assert (H2 : 2 ^ (8 * n0) = 2 * 2 ^ (8 * n0 - 1)).
    { replace (8 * n0) with (8 * n0 - 1 + 1) at 1 by lia. rewrite Z.pow_add_r by lia. change (2 ^ 1) with 2. lia. }
    destruct (2 ^ (8 * n0 - 1) <=? 2 ^ (8 * n0) + v) eqn:E; cbn [negb].
    + split; [lia|]. assert (0 < 2 ^ (8 * n0 - 1)) by (apply pow2_pos; lia). lia.
    + split; [lia|]. replace (8 * (n0 + 1) - 1) with (8 * n0 + 7) by lia.
      assert (2 ^ (8 * n0) <= 2 ^ (8 * n0 + 7)) by (apply pow2_le_mono; lia).
      assert (0 < 2 ^ (8 * n0 + 7)) by (apply pow2_pos; lia). lia.
  - destruct (v >? 0) eqn:Epos.
    + assert (Hb : 2 ^ (bit_length v - 1) <= v < 2 ^ bit_length v) by (apply bit_length_pos; lia).
      set (nb := bit_length v) in *. set (n0 := (nb + 7) / 8).
      assert (Hnb1 : 1 <= nb).
      { destruct (Z.eq_dec nb 0) as [E|E]; [rewrite E in Hb; simpl in Hb; lia | lia]. }
      assert (Hn0 : nb <= 8 * n0 /\ 8 * n0 < nb + 8) by (unfold n0; lia).
      destruct (nb =? 8 * n0) eqn:E.
      * split; [lia|]. replace (8 * (n0 + 1) - 1) with (8 * n0 + 7) by lia.
        assert (2 ^ nb <= 2 ^ (8 * n0 + 7)) by (apply pow2_le_mono; lia).
        assert (0 < 2 ^ (8 * n0 + 7)) by (apply pow2_pos; lia). lia.
      * split; [lia|]. assert (2 ^ nb <= 2 ^ (8 * n0 - 1)) by (apply pow2_le_mono; lia).
        assert (0 < 2 ^ (8 * n0 - 1)) by (apply pow2_pos; lia). lia.
    + assert (v = 0) by lia. subst. split; [lia|]. simpl. lia.
Qed.

Lemma enc_unconstrained_eq v :
  enc_unconstrained v =
  (let* l := enc_len_single (unc_nbytes v) in Ok (l ++ to_bits (Z.to_nat (8 * unc_nbytes v)) v)).
Proof. reflexivity. Qed.

Lemma read_unconstrained_rt v bs rest :
  enc_unconstrained v = Ok bs -> read_unconstrained (bs ++ rest) = Ok (v, rest).
Proof.
  rewrite enc_unconstrained_eq. pose proof (unc_nbytes_fits v) as Hf. cbv zeta in Hf.
  set (n := unc_nbytes v) in *. destruct Hf as [Hn Hv].
  unfold enc_len_single. destruct (n <? 16384) eqn:E; [|discriminate]. cbn [bind].
  intros H. assert (Hbs : bs = enc_len_short n ++ to_bits (Z.to_nat (8 * n)) v) by congruence.
  subst bs. clear H.
  unfold read_unconstrained, rbind. rewrite <- app_assoc.
  rewrite read_len_short by lia.
  assert (Hp : 0 < 2 ^ (8 * n - 1)) by (apply pow2_pos; lia).
  assert (H2 : 2 ^ (8 * n) = 2 * 2 ^ (8 * n - 1)).
  { replace (8 * n) with (8 * n - 1 + 1) at 1 by lia. rewrite Z.pow_add_r by lia. change (2 ^ 1) with 2. lia. }
  assert (Hmod : 0 <= v mod 2 ^ (8 * n) < 2 ^ (8 * n)) by (apply Z.mod_pos_bound; lia).
  (* the field holds v mod 2^(8n) *)
  assert (Hrd : read_uint (Z.to_nat (8 * n)) (to_bits (Z.to_nat (8 * n)) v ++ rest)
                = Ok (v mod 2 ^ (8 * n), rest)).
  { unfold read_uint. rewrite app_length, to_bits_length.
    destruct (Z.to_nat (8 * n) + length rest <? Z.to_nat (8 * n))%nat eqn:E2; [lia|].
    rewrite firstn_app, to_bits_length, Nat.sub_diag. cbn [firstn]. rewrite app_nil_r.
    rewrite firstn_all2 by (rewrite to_bits_length; lia).
    rewrite skipn_app, to_bits_length, Nat.sub_diag. cbn [skipn].
    rewrite skipn_all2 by (rewrite to_bits_length; lia).
    rewrite of_bits_to_bits_mod. rewrite Z2Nat.id by lia. reflexivity. }
  rewrite Hrd. destruct (n =? 0) eqn:E0; [lia|].
  rewrite (testbit_top (v mod 2 ^ (8 * n)) (8 * n)) by lia.
  unfold rret. destruct (v <? 0) eqn:Eneg.
  - assert (Hm : v mod 2 ^ (8 * n) = v + 2 ^ (8 * n)).
    { symmetry. apply Z.mod_unique with (q := -1); lia. }
    rewrite Hm. destruct (2 ^ (8 * n - 1) <=? v + 2 ^ (8 * n)) eqn:E3; [|lia]. f_equal. f_equal. lia.
  - assert (Hm : v mod 2 ^ (8 * n) = v) by (apply Z.mod_small; lia).
    rewrite Hm. destruct (2 ^ (8 * n - 1) <=? v) eqn:E3; [lia|]. reflexivity.
Qed.

(** ** INTEGER *)

Lemma fits_bit_length x w : 0 <= x <= w -> 0 <= x < 2 ^ Z.of_nat (Z.to_nat (bit_length w)).
Proof.
  intros H. pose proof (bit_length_nonneg w). rewrite Z2Nat.id by lia.
  destruct (Z.eq_dec w 0) as [->|Hw].
  - assert (x = 0) by lia. subst. cbn. lia.
  - pose proof (bit_length_pos w ltac:(lia)). lia.
Qed.

Lemma read_int_root_rt c v bs rest :
  enc_int_root c v = Ok bs -> read_int_root c (bs ++ rest) = Ok (v, rest).
Proof.
  unfold enc_int_root, read_int_root. destruct (int_bounds c) as [[lo hi]|].
  - destruct ((lo <=? v) && (v <=? hi)) eqn:E; [|discriminate]. intros H.
    assert (bs = to_bits (Z.to_nat (bit_length (hi - lo))) (v - lo)) by congruence. subst bs.
    unfold rbind. rewrite read_uint_app by (apply fits_bit_length; lia).
    unfold rret. f_equal. f_equal. lia.
  - apply read_unconstrained_rt.
Qed.

Lemma read_int_rt c v bs rest :
  enc_int c v = Ok bs -> read_int c (bs ++ rest) = Ok (v, rest).
Proof.
  unfold enc_int, read_int. destruct (int_ext c); [|apply read_int_root_rt].
  destruct (int_bounds c) as [[lo hi]|] eqn:Eb; [|discriminate].
  destruct ((lo <=? v) && (v <=? hi)) eqn:E.
  - destruct (enc_int_root c v) as [r|] eqn:Er; [|discriminate]. cbn [bind]. intros H.
    assert (bs = false :: r) by congruence. subst bs. cbn [app]. unfold rbind. cbn [read_bit].
    apply read_int_root_rt. exact Er.
  - destruct (enc_unconstrained v) as [r|] eqn:Er; [|discriminate]. cbn [bind]. intros H.
    assert (bs = true :: r) by congruence. subst bs. cbn [app]. unfold rbind. cbn [read_bit].
    apply read_unconstrained_rt. exact Er.
Qed.

(** ** Normally small numbers *)

Lemma to_bits_7_small j : 0 <= j < 64 -> to_bits 7 j = false :: to_bits 6 j.
Proof.
  intros H. cbn [to_bits]. f_equal.
  apply (sweep (fun j => negb (Z.testbit j 6)) 0 64) in H; [|vm_compute; reflexivity].
  change (Z.of_nat 6) with 6. destruct (Z.testbit j 6); [discriminate|reflexivity].
Qed.

Lemma read_small_nonneg_rt j bs rest :
  0 <= j -> enc_small_nonneg j = Ok bs -> read_small_nonneg (bs ++ rest) = Ok (j, rest).
Proof.
  intros Hj. unfold enc_small_nonneg, read_small_nonneg.
  destruct (j <? 64) eqn:E.
  - intros H. assert (bs = to_bits 7 j) by congruence. subst bs.
    rewrite to_bits_7_small by lia. cbn [app]. unfold rbind. cbn [read_bit negb].
    apply read_uint_app. change (2 ^ Z.of_nat 6) with 64. lia.
  - set (len := (bit_length j + 7) / 8).
    unfold enc_len_single. destruct (len <? 16384) eqn:El; [|discriminate]. cbn [bind]. intros H.
    assert (bs = true :: enc_len_short len ++ to_bits (Z.to_nat (8 * len)) j) by congruence. subst bs.
    cbn [app]. unfold rbind. cbn [read_bit negb].
    pose proof (bit_length_pos j ltac:(lia)) as Hb. pose proof (bit_length_nonneg j).
    assert (Hlen : bit_length j <= 8 * len /\ 0 <= len) by (unfold len; lia).
    rewrite <- app_assoc. rewrite read_len_short by lia.
    apply read_uint_app. rewrite Z2Nat.id by lia.
    assert (2 ^ bit_length j <= 2 ^ (8 * len)) by (apply pow2_le_mono; lia). lia.
Qed.

(** ** ENUMERATED *)

Lemma insert_by_value_length x l : length (insert_by_value x l) = S (length l).
Proof. induction l as [|y l IH]; cbn [insert_by_value]; [reflexivity|]. destruct (snd x <? snd y); cbn [length]; lia. Qed.

Lemma sort_by_value_length l : length (sort_by_value l) = length l.
Proof.
  unfold sort_by_value.
  assert (H : forall acc, length (fold_left (fun acc x => insert_by_value x acc) l acc) = (length l + length acc)%nat).
  { induction l as [|x l IH]; intros acc; cbn [fold_left length]; [lia|]. rewrite IH, insert_by_value_length. lia. }
  rewrite H. cbn. lia.
Qed.

Lemma enum_datum_eqb numeric it d : value_eqb (enum_datum numeric it) d = true -> enum_datum numeric it = d.
Proof.
  unfold enum_datum. destruct numeric; destruct d; cbn [value_eqb]; try discriminate; intros H.
  - apply Z.eqb_eq in H. congruence.
  - apply String.eqb_eq in H. congruence.
Qed.

Lemma index_of_last_spec numeric d items : forall i j,
  index_of_last numeric d items i = Some j ->
  i <= j < i + Z.of_nat (length items) /\
  exists it, nth_error items (Z.to_nat (j - i)) = Some it /\ enum_datum numeric it = d.
Proof.
  induction items as [|it items IH]; intros i j; cbn [index_of_last]; [discriminate|].
  destruct (index_of_last numeric d items (i + 1)) as [j'|] eqn:E.
  - intros H. assert (j' = j) by congruence. subst j'. destruct (IH _ _ E) as (Hr & it' & Hn & Hd).
    split; [cbn [length]; lia|]. exists it'. split; [|exact Hd].
    replace (Z.to_nat (j - i)) with (S (Z.to_nat (j - (i + 1)))) by lia. exact Hn.
  - destruct (value_eqb (enum_datum numeric it) d) eqn:Ev; [|discriminate]. intros H.
    assert (i = j) by congruence. subst j. split; [cbn [length]; lia|].
    exists it. replace (i - i) with 0 by lia. split; [reflexivity|]. apply enum_datum_eqb. exact Ev.
Qed.

Lemma nth_z_of_index {A} (l : list A) j it :
  0 <= j < Z.of_nat (length l) -> nth_error l (Z.to_nat j) = Some it -> nth_z l j = Some it.
Proof.
  intros H Hn. unfold nth_z. destruct ((j <? 0) || (Z.of_nat (length l) <=? j)) eqn:E; [lia|]. exact Hn.
Qed.

Lemma read_enum_root_rt numeric root d i rest :
  index_of_last numeric d (sort_by_value root) 0 = Some i ->
  read_enum_root numeric root (to_bits (enum_root_bits root) i ++ rest) = Ok (d, rest).
Proof.
  intros H. destruct (index_of_last_spec _ _ _ _ _ H) as (Hr & it & Hn & Hd).
  rewrite sort_by_value_length in Hr. replace (i - 0) with i in Hn by lia.
  unfold read_enum_root, rbind, enum_root_bits.
  rewrite read_uint_app by (apply fits_bit_length; lia).
  rewrite (nth_z_of_index _ i it) by (rewrite ?sort_by_value_length; auto; lia).
  rewrite Hd. reflexivity.
Qed.

Lemma read_enum_rt numeric root ext d bs rest :
  enc_enum numeric root ext d = Ok bs -> read_enum numeric root ext (bs ++ rest) = Ok (d, rest).
Proof.
  unfold enc_enum, read_enum. destruct ext as [adds|].
  - destruct (index_of_last numeric d (sort_by_value root) 0) as [i|] eqn:Er.
    + intros H. assert (bs = false :: to_bits (enum_root_bits root) i) by congruence. subst bs.
      cbn [app]. unfold rbind at 1. cbn [read_bit negb]. apply read_enum_root_rt. exact Er.
    + destruct (index_of_last numeric d adds 0) as [j|] eqn:Ea; [|discriminate].
      destruct (enc_small_nonneg j) as [r|] eqn:Es; [|discriminate]. cbn [bind]. intros H.
      assert (bs = true :: r) by congruence. subst bs. cbn [app]. unfold rbind at 1. cbn [read_bit negb].
      destruct (index_of_last_spec _ _ _ _ _ Ea) as (Hr & it & Hn & Hd). replace (j - 0) with j in Hn by lia.
      unfold rbind. rewrite (read_small_nonneg_rt j r rest) by (auto; lia).
      rewrite (nth_z_of_index _ j it) by (auto; lia). rewrite Hd. reflexivity.
  - destruct (index_of_last numeric d (sort_by_value root) 0) as [i|] eqn:Er; [|discriminate].
    intros H. assert (bs = to_bits (enum_root_bits root) i) by congruence. subst bs.
    apply read_enum_root_rt. exact Er.
Qed.

(** ** Lists of items: fixed count and 16K fragmentation *)

Lemma read_n_rt {A B} (enc1 : A -> result bits) (rd : reader B) (nm : A -> B) :
  RT enc1 rd nm ->
  forall l bs rest, enc_all enc1 l = Ok bs -> read_n (length l) rd (bs ++ rest) = Ok (map nm l, rest).
Proof.
  intros Hrt. induction l as [|x l IH]; intros bs rest; cbn [enc_all read_n length map].
  - intros H. assert (bs = []) by congruence. subst. reflexivity.
  - destruct (enc1 x) as [a|] eqn:Ex; [|discriminate]. cbn [bind].
    destruct (enc_all enc1 l) as [b|] eqn:El; [|discriminate]. cbn [bind]. intros H.
    assert (bs = a ++ b) by congruence. subst bs. rewrite <- app_assoc.
    unfold rbind. rewrite (Hrt _ _ Ex). rewrite (IH _ _ eq_refl). reflexivity.
Qed.

Lemma frag_marker m rest :
  1 <= m <= 4 -> read_len (to_bits 8 (192 + m) ++ rest) = Ok (16384 * m, rest).
Proof.
  intros H. assert (m = 1 \/ m = 2 \/ m = 3 \/ m = 4) as [->|[->|[->| ->]]] by lia; reflexivity.
Qed.

Lemma read_frag_rt {A B} (enc1 : A -> result bits) (rd : reader B) (nm : A -> B) :
  RT enc1 rd nm ->
  forall fuel l bs, enc_frag fuel enc1 l = Ok bs ->
  forall f' rest, (length bs / 8 < f')%nat -> read_frag f' rd (bs ++ rest) = Ok (map nm l, rest).
Proof.
  intros Hrt. induction fuel as [|f IH]; intros l bs; cbn [enc_frag].
  - destruct (Z.of_nat (length l) <? 16384) eqn:E; [|discriminate].
    destruct (enc_all enc1 l) as [body|] eqn:Eb; [|discriminate]. cbn [bind]. intros H.
    assert (bs = enc_len_short (Z.of_nat (length l)) ++ body) by congruence. subst bs.
    intros f' rest Hf. destruct f' as [|f']; [lia|]. cbn [read_frag]. unfold rbind.
    rewrite <- app_assoc, read_len_short by lia. rewrite Nat2Z.id.
    rewrite (read_n_rt _ _ _ Hrt _ _ _ Eb). rewrite E. reflexivity.
  - destruct (Z.of_nat (length l) <? 16384) eqn:E.
    + destruct (enc_all enc1 l) as [body|] eqn:Eb; [|discriminate]. cbn [bind]. intros H.
      assert (bs = enc_len_short (Z.of_nat (length l)) ++ body) by congruence. subst bs.
      intros f' rest Hf. destruct f' as [|f']; [lia|]. cbn [read_frag]. unfold rbind.
      rewrite <- app_assoc, read_len_short by lia. rewrite Nat2Z.id.
      rewrite (read_n_rt _ _ _ Hrt _ _ _ Eb). rewrite E. reflexivity.
    + set (n := Z.of_nat (length l)) in *.
      set (m := if n <? 32768 then 1 else if n <? 49152 then 2 else if n <? 65536 then 3 else 4).
      assert (Hm : 1 <= m <= 4 /\ 16384 * m <= n).
      { unfold m. destruct (n <? 32768) eqn:E1; [lia|]. destruct (n <? 49152) eqn:E2; [lia|].
        destruct (n <? 65536) eqn:E3; lia. }
      set (k := Z.to_nat (16384 * m)).
      destruct (enc_all enc1 (firstn k l)) as [body|] eqn:Eb; [|discriminate]. cbn [bind].
      destruct (enc_frag f enc1 (skipn k l)) as [more|] eqn:Em; [|discriminate]. cbn [bind]. intros H.
      assert (bs = to_bits 8 (192 + m) ++ body ++ more) by congruence. subst bs.
      intros f' rest Hf. destruct f' as [|f']; [lia|]. cbn [read_frag]. unfold rbind.
      rewrite <- !app_assoc. rewrite frag_marker by lia.
      assert (Hk : length (firstn k l) = k) by (rewrite firstn_length; unfold k, n in *; lia).
      fold k. rewrite <- Hk at 1.
      rewrite (read_n_rt _ _ _ Hrt _ _ _ Eb).
      destruct (16384 * m <? 16384) eqn:E4; [lia|].
      rewrite (IH _ _ Em).
      * unfold rret. rewrite <- map_app, firstn_skipn. reflexivity.
      * rewrite !app_length, to_bits_length in Hf. lia.
Qed.

Lemma read_frag_auto_rt {A B} (enc1 : A -> result bits) (rd : reader B) (nm : A -> B) :
  RT enc1 rd nm ->
  forall fuel l bs rest, enc_frag fuel enc1 l = Ok bs ->
  read_frag_auto rd (bs ++ rest) = Ok (map nm l, rest).
Proof.
  intros Hrt fuel l bs rest H. unfold read_frag_auto.
  apply (read_frag_rt _ _ _ Hrt _ _ _ H). rewrite app_length. lia.
Qed.

(** ** Octets and bits as items *)

Lemma RT_byte : RT (fun b => Ok (to_bits 8 b)) read_byte (fun b => b mod 256).
Proof.
  intros b bs H rest. assert (bs = to_bits 8 b) by congruence. subst bs.
  unfold read_byte. rewrite read_uint_app_mod. reflexivity.
Qed.

Lemma RT_bit : RT (fun b : bool => Ok [b]) read_bit (fun b => b).
Proof. intros b bs H rest. assert (bs = [b]) by congruence. subst bs. reflexivity. Qed.

Lemma enc_all_bytes bytes : enc_all (fun b => Ok (to_bits 8 b)) bytes = Ok (bytes_to_bits bytes).
Proof.
  induction bytes as [|b bs IH]; cbn [enc_all]; [reflexivity|]. cbn [bind]. rewrite IH. reflexivity.
Qed.

Lemma enc_all_bits (data : bits) : enc_all (fun b : bool => Ok [b]) data = Ok data.
Proof. induction data as [|b bs IH]; cbn [enc_all]; [reflexivity|]. cbn [bind]. rewrite IH. reflexivity. Qed.

Lemma map_id_bits (data : bits) : map (fun b : bool => b) data = data.
Proof. apply map_id. Qed.

Lemma read_raw_app (data rest : bits) : read_raw (length data) (data ++ rest) = Ok (data, rest).
Proof.
  unfold read_raw. rewrite app_length. destruct (length data + length rest <? length data)%nat eqn:E; [lia|].
  rewrite firstn_app, Nat.sub_diag. cbn [firstn]. rewrite app_nil_r, firstn_all.
  rewrite skipn_app, Nat.sub_diag. cbn [skipn]. rewrite skipn_all. reflexivity.
Qed.

(** ** Sizes *)
Lemma size_offset_fits sz n :
  size_in_root sz n = true -> 0 <= n - size_lo sz < 2 ^ Z.of_nat (size_nbits sz).
Proof.
  unfold size_in_root, size_nbits. intros H. apply fits_bit_length. lia.
Qed.

Ltac inv_ok H x := let E := fresh "E" in assert (E : x) by congruence; try subst.

(** ** OCTET STRING *)
Definition norm_bytes (bytes : list Z) : list Z := map (fun b => b mod 256) bytes.

Lemma read_bytes_rt bytes rest :
  read_n (length bytes) read_byte (bytes_to_bits bytes ++ rest) = Ok (norm_bytes bytes, rest).
Proof. apply (read_n_rt _ _ _ RT_byte). apply enc_all_bytes. Qed.

Lemma read_octets_rt sz bytes bs rest :
  enc_octets sz bytes = Ok bs -> read_octets sz (bs ++ rest) = Ok (VBytes (norm_bytes bytes), rest).
Proof.
  unfold enc_octets, read_octets. set (n := Z.of_nat (length bytes)).
  assert (Hroot : forall r,
    (if size_unbound sz then enc_frag (frag_fuel bytes) (fun b => Ok (to_bits 8 b)) bytes
     else if negb (size_lo sz =? size_hi sz) then
       if size_in_root sz n then Ok (to_bits (size_nbits sz) (n - size_lo sz) ++ bytes_to_bits bytes)
       else Err EUnmodelled
     else if n =? size_lo sz then Ok (bytes_to_bits bytes) else Err EUnmodelled) = Ok r ->
    (if size_unbound sz then do* bs0 <- read_frag_auto read_byte; rret (VBytes bs0)
     else do* extra <- (if negb (size_lo sz =? size_hi sz) then read_uint (size_nbits sz) else rret 0);
          do* bs0 <- read_n (Z.to_nat (size_lo sz + extra)) read_byte; rret (VBytes bs0)) (r ++ rest)
    = Ok (VBytes (norm_bytes bytes), rest)).
  { intros r. destruct (size_unbound sz).
    - intros H. unfold rbind. rewrite (read_frag_auto_rt _ _ _ RT_byte _ _ _ _ H). reflexivity.
    - destruct (negb (size_lo sz =? size_hi sz)) eqn:Ev.
      + destruct (size_in_root sz n) eqn:Ein; [|discriminate]. intros H.
        assert (r = to_bits (size_nbits sz) (n - size_lo sz) ++ bytes_to_bits bytes) by congruence. subst r.
        unfold rbind. rewrite <- app_assoc. rewrite read_uint_app by (apply size_offset_fits; exact Ein).
        replace (Z.to_nat (size_lo sz + (n - size_lo sz))) with (length bytes) by (unfold n; lia).
        rewrite read_bytes_rt. reflexivity.
      + destruct (n =? size_lo sz) eqn:En; [|discriminate]. intros H.
        assert (r = bytes_to_bits bytes) by congruence. subst r. unfold rbind, rret at 1.
        replace (Z.to_nat (size_lo sz + 0)) with (length bytes) by (unfold n in *; lia).
        rewrite read_bytes_rt. reflexivity. }
  destruct (size_ext sz).
  - destruct (size_in_root sz n) eqn:Ein.
    + match goal with |- (let* r := ?root in _) = _ -> _ => destruct root as [r|] eqn:Er; [|discriminate] end.
      cbn [bind]. intros H. assert (bs = false :: r) by congruence. subst bs.
      cbn [app]. unfold rbind at 1. cbn [read_bit]. apply Hroot. reflexivity.
    + destruct (enc_frag (frag_fuel bytes) (fun b => Ok (to_bits 8 b)) bytes) as [r|] eqn:Ef; [|discriminate].
      cbn [bind]. intros H. assert (bs = true :: r) by congruence. subst bs.
      cbn [app]. unfold rbind at 1. cbn [read_bit]. unfold rbind.
      rewrite (read_frag_auto_rt _ _ _ RT_byte _ _ _ _ Ef). reflexivity.
  - intros H. apply Hroot. exact H.
Qed.

(** ** BIT STRING *)
Definition bits_value (data : bits) : value := VBits (bits_to_bytes data) (Z.of_nat (length data)).

Definition norm_bitstring (named : bool) (sz : size) (bytes : list Z) (nbits : Z) : value :=
  bits_value (if named then named_bits_of sz bytes else bitvalue_bits bytes nbits).

Lemma read_bitstring_rt named sz bytes nbits bs rest :
  enc_bitstring named sz bytes nbits = Ok bs ->
  read_bitstring sz (bs ++ rest) = Ok (norm_bitstring named sz bytes nbits, rest).
Proof.
  unfold enc_bitstring, read_bitstring, norm_bitstring.
  destruct (Z.of_nat (length bytes) * 8 <? nbits) eqn:Eg; [discriminate|].
  set (data := if named then named_bits_of sz bytes else bitvalue_bits bytes nbits).
  set (n := Z.of_nat (length data)).
  destruct (size_ext sz) eqn:Eext.
  - destruct (size_in_root sz nbits); [|discriminate]. cbn [bind].
    destruct (size_unbound sz).
    + destruct (enc_frag (frag_fuel data) (fun b : bool => Ok [b]) data) as [body|] eqn:Ef; [|discriminate].
      cbn [bind]. intros H. assert (bs = [false] ++ body) by congruence. subst bs. cbn [app].
      unfold rbind. cbn [read_bit]. unfold rret at 1.
      rewrite (read_frag_auto_rt _ _ _ RT_bit _ _ _ _ Ef). rewrite map_id. reflexivity.
    + destruct (negb (size_lo sz =? size_hi sz)) eqn:Ev.
      * destruct (size_in_root sz n) eqn:Ein; [|discriminate]. intros H.
        assert (bs = [false] ++ to_bits (size_nbits sz) (n - size_lo sz) ++ data) by congruence. subst bs.
        cbn [app]. unfold rbind. cbn [read_bit]. unfold rret at 1.
        rewrite <- app_assoc. rewrite read_uint_app by (apply size_offset_fits; exact Ein).
        replace (Z.to_nat (size_lo sz + (n - size_lo sz))) with (length data) by (unfold n; lia).
        rewrite read_raw_app. reflexivity.
      * destruct (n =? size_lo sz) eqn:En; [|discriminate]. intros H.
        assert (bs = [false] ++ data) by congruence. subst bs. cbn [app]. unfold rbind. cbn [read_bit].
        unfold rret at 1 2. replace (Z.to_nat (size_lo sz + 0)) with (length data) by (unfold n in *; lia).
        rewrite read_raw_app. reflexivity.
  - cbn [bind]. destruct (size_unbound sz).
    + destruct (enc_frag (frag_fuel data) (fun b : bool => Ok [b]) data) as [body|] eqn:Ef; [|discriminate].
      cbn [bind]. intros H. assert (bs = [] ++ body) by congruence. subst bs. cbn [app].
      unfold rbind. unfold rret at 1.
      rewrite (read_frag_auto_rt _ _ _ RT_bit _ _ _ _ Ef). rewrite map_id. reflexivity.
    + destruct (negb (size_lo sz =? size_hi sz)) eqn:Ev.
      * destruct (size_in_root sz n) eqn:Ein; [|discriminate]. intros H.
        assert (bs = [] ++ to_bits (size_nbits sz) (n - size_lo sz) ++ data) by congruence. subst bs.
        cbn [app]. unfold rbind. unfold rret at 1. rewrite <- app_assoc.
        rewrite read_uint_app by (apply size_offset_fits; exact Ein).
        replace (Z.to_nat (size_lo sz + (n - size_lo sz))) with (length data) by (unfold n; lia).
        rewrite read_raw_app. reflexivity.
      * destruct (n =? size_lo sz) eqn:En; [|discriminate]. intros H.
        assert (bs = [] ++ data) by congruence. subst bs. cbn [app]. unfold rbind.
        unfold rret at 1 2. replace (Z.to_nat (size_lo sz + 0)) with (length data) by (unfold n in *; lia).
        rewrite read_raw_app. reflexivity.
Qed.

(** ** Known-multiplier character strings *)

Lemma index_in_spec c l : forall i j, index_in c l i = Some j ->
  i <= j < i + Z.of_nat (length l) /\ nth_error l (Z.to_nat (j - i)) = Some c.
Proof.
  induction l as [|x l IH]; intros i j; cbn [index_in]; [discriminate|].
  destruct (x =? c) eqn:E.
  - intros H. assert (i = j) by congruence. subst j. split; [cbn [length]; lia|].
    replace (i - i) with 0 by lia. cbn. f_equal. lia.
  - intros H. destruct (IH _ _ H) as (Hr & Hn). split; [cbn [length]; lia|].
    replace (Z.to_nat (j - i)) with (S (Z.to_nat (j - (i + 1)))) by lia. exact Hn.
Qed.

Definition ident_ok (a : list Z) : bool :=
  forallb (fun c => (0 <=? c) && (c <? 2 ^ Z.of_nat (km_bits a))) a.

Lemma mem_z_in c a : mem_z c a = true -> In c a.
Proof.
  unfold mem_z. destruct (index_in c a 0) as [j|] eqn:E; [|discriminate]. intros _.
  destruct (index_in_spec _ _ _ _ E) as (_ & Hn). eapply nth_error_In. exact Hn.
Qed.

Lemma km_alphabet_ident_ok k alpha a : km_alphabet k alpha = Some (a, true) -> ident_ok a = true.
Proof.
  unfold km_alphabet. destruct alpha as [al|].
  - destruct k; intros H; try discriminate; inversion H.
  - destruct k; intros H; try discriminate; inversion H; subst; vm_compute; reflexivity.
Qed.

Lemma RT_km_char a ident :
  (ident = true -> ident_ok a = true) ->
  RT (km_enc_char a ident) (km_read_char a ident) (fun c => c).
Proof.
  intros Hok c bs H rest. unfold km_enc_char in H. unfold km_read_char, rbind.
  destruct ident.
  - destruct (mem_z c a) eqn:Em; [|discriminate].
    assert (bs = to_bits (km_bits a) c) by congruence. subst bs.
    specialize (Hok eq_refl). unfold ident_ok in Hok. rewrite forallb_forall in Hok.
    specialize (Hok c (mem_z_in _ _ Em)).
    rewrite read_uint_app by lia. rewrite Em. reflexivity.
  - destruct (index_in c a 0) as [i|] eqn:Ei; [|discriminate].
    assert (bs = to_bits (km_bits a) i) by congruence. subst bs.
    destruct (index_in_spec _ _ _ _ Ei) as (Hr & Hn). replace (i - 0) with i in Hn by lia.
    rewrite read_uint_app by (unfold km_bits; apply fits_bit_length; lia).
    rewrite (nth_z_of_index _ i c) by (auto; lia). reflexivity.
Qed.

Lemma read_kmstring_rt k sz alpha cps bs rest :
  enc_kmstring k sz alpha cps = Ok bs -> read_kmstring k sz alpha (bs ++ rest) = Ok (VStr cps, rest).
Proof.
  unfold enc_kmstring, read_kmstring. destruct (km_alphabet k alpha) as [[a ident]|] eqn:Ea; [|discriminate].
  assert (Hc : RT (km_enc_char a ident) (km_read_char a ident) (fun c => c)).
  { apply RT_km_char. intros ->. eapply km_alphabet_ident_ok. exact Ea. }
  set (n := Z.of_nat (length cps)).
  destruct (size_ext sz) eqn:Eext.
  - destruct (size_in_root sz n) eqn:Ein0; cbn [negb andb]; [|discriminate].
    destruct (size_unbound sz).
    + destruct (enc_frag (frag_fuel cps) (km_enc_char a ident) cps) as [body|] eqn:Ef; [|discriminate].
      cbn [bind]. intros H. assert (bs = [false] ++ body) by congruence. subst bs. cbn [app].
      unfold rbind. cbn [read_bit]. unfold rret at 1.
      rewrite (read_frag_auto_rt _ _ _ Hc _ _ _ _ Ef). rewrite map_id. reflexivity.
    + destruct (enc_all (km_enc_char a ident) cps) as [chars|] eqn:Ec; [|discriminate]. cbn [bind].
      destruct (negb (size_lo sz =? size_hi sz)) eqn:Ev.
      * intros H.
        assert (bs = [false] ++ to_bits (size_nbits sz) (n - size_lo sz) ++ chars) by congruence. subst bs.
        cbn [app]. unfold rbind. cbn [read_bit]. unfold rret at 1. rewrite <- app_assoc.
        rewrite read_uint_app by (apply size_offset_fits; exact Ein0).
        replace (Z.to_nat (size_lo sz + (n - size_lo sz))) with (length cps) by (unfold n; lia).
        rewrite (read_n_rt _ _ _ Hc _ _ _ Ec). rewrite map_id. reflexivity.
      * destruct (n =? size_lo sz) eqn:En; [|discriminate]. intros H.
        assert (bs = [false] ++ chars) by congruence. subst bs. cbn [app]. unfold rbind. cbn [read_bit].
        unfold rret at 1 2. replace (Z.to_nat (size_lo sz + 0)) with (length cps) by (unfold n in *; lia).
        rewrite (read_n_rt _ _ _ Hc _ _ _ Ec). rewrite map_id. reflexivity.
  - cbn [andb]. destruct (size_unbound sz).
    + destruct (enc_frag (frag_fuel cps) (km_enc_char a ident) cps) as [body|] eqn:Ef; [|discriminate].
      cbn [bind]. intros H. assert (bs = [] ++ body) by congruence. subst bs. cbn [app].
      unfold rbind. unfold rret at 1.
      rewrite (read_frag_auto_rt _ _ _ Hc _ _ _ _ Ef). rewrite map_id. reflexivity.
    + destruct (enc_all (km_enc_char a ident) cps) as [chars|] eqn:Ec; [|discriminate]. cbn [bind].
      destruct (negb (size_lo sz =? size_hi sz)) eqn:Ev.
      * destruct (size_in_root sz n) eqn:Ein; [|discriminate]. intros H.
        assert (bs = [] ++ to_bits (size_nbits sz) (n - size_lo sz) ++ chars) by congruence. subst bs.
        cbn [app]. unfold rbind. unfold rret at 1. rewrite <- app_assoc.
        rewrite read_uint_app by (apply size_offset_fits; exact Ein).
        replace (Z.to_nat (size_lo sz + (n - size_lo sz))) with (length cps) by (unfold n; lia).
        rewrite (read_n_rt _ _ _ Hc _ _ _ Ec). rewrite map_id. reflexivity.
      * destruct (n =? size_lo sz) eqn:En; [|discriminate]. intros H.
        assert (bs = [] ++ chars) by congruence. subst bs. cbn [app]. unfold rbind.
        unfold rret at 1 2. replace (Z.to_nat (size_lo sz + 0)) with (length cps) by (unfold n in *; lia).
        rewrite (read_n_rt _ _ _ Hc _ _ _ Ec). rewrite map_id. reflexivity.
Qed.

(** ** UTF8String *)
From Asn1V Require Import Base.Utf8Proofs.

Lemma read_utf8_rt cps bs rest : enc_utf8 cps = Ok bs -> read_utf8 (bs ++ rest) = Ok (VStr cps, rest).
Proof.
  unfold enc_utf8, read_utf8. destruct (utf8_encode cps) as [bytes|] eqn:Eu; [|discriminate]. intros H.
  unfold rbind. rewrite (read_frag_auto_rt _ _ _ RT_byte _ _ _ _ H).
  assert (Hb : map (fun b => b mod 256) bytes = bytes).
  { pose proof (utf8_encode_bytes _ _ Eu) as Hall.
    clear -Hall. induction Hall as [|b l Hb Hl IH]; [reflexivity|]. cbn [map]. rewrite IH. f_equal.
    apply Z.mod_small. exact Hb. }
  rewrite Hb. rewrite (utf8_roundtrip _ _ Eu). reflexivity.
Qed.

(** ** OBJECT IDENTIFIER *)

Lemma lor_128_high x : 0 <= x < 128 -> Z.land (Z.lor 128 x) 128 <> 0 /\ Z.land (Z.lor 128 x) 127 = x.
Proof.
  intros H.
  assert (Hs : ((negb (Z.land (Z.lor 128 x) 128 =? 0)) && (Z.land (Z.lor 128 x) 127 =? x)) = true).
  { apply (sweep (fun x => (negb (Z.land (Z.lor 128 x) 128 =? 0)) && (Z.land (Z.lor 128 x) 127 =? x)) 0 128);
      [vm_compute; reflexivity | lia]. }
  apply andb_prop in Hs. destruct Hs as [H1 H2]. split; lia.
Qed.

Lemma shiftr7 m : Z.shiftr m 7 = m / 128.
Proof. rewrite Z.shiftr_div_pow2 by lia. reflexivity. Qed.
Lemma land127 m : Z.land m 127 = m mod 128.
Proof. change 127 with (Z.ones 7). rewrite Z.land_ones by lia. reflexivity. Qed.
Lemma shiftl7 y : Z.shiftl y 7 = y * 128.
Proof. rewrite Z.shiftl_mul_pow2 by lia. reflexivity. Qed.

Lemma dec_digits f : forall m tl, 0 <= m < 128 ^ Z.of_nat f ->
  exists K, forall A, dec_subid A (base128_digits f m ++ tl) = dec_subid (A * K + m * 128) tl.
Proof.
  induction f as [|f IH]; intros m tl Hm.
  - change (128 ^ Z.of_nat 0) with 1 in Hm. assert (m = 0) by lia. subst m. exists 1. intros A.
    cbn [base128_digits app]. f_equal. lia.
  - cbn [base128_digits]. destruct (m >? 0) eqn:E.
    + rewrite shiftr7, land127.
      assert (Hq : 0 <= m / 128 < 128 ^ Z.of_nat f).
      { replace (Z.of_nat (S f)) with (Z.of_nat f + 1) in Hm by lia. rewrite Z.pow_add_r in Hm by lia.
        change (128 ^ 1) with 128 in Hm. assert (0 < 128 ^ Z.of_nat f) by (apply Z.pow_pos_nonneg; lia). lia. }
      destruct (IH (m / 128) ([Z.lor 128 (m mod 128)] ++ tl) Hq) as (K' & HK).
      exists (K' * 128). intros A. rewrite <- app_assoc. rewrite HK. cbn [app dec_subid].
      destruct (lor_128_high (m mod 128) ltac:(lia)) as (Hh & Hl).
      destruct (Z.land (Z.lor 128 (m mod 128)) 128 =? 0) eqn:E0; [lia|].
      rewrite Hl, shiftl7. f_equal. lia.
    + assert (m = 0) by lia. subst m. exists 1. intros A. cbn [app]. f_equal. lia.
Qed.

Lemma pow128_gt n : 0 <= n -> n < 128 ^ Z.of_nat (S (Z.to_nat (Z.log2 n))).
Proof.
  intros H. destruct (Z.eq_dec n 0) as [->|Hn]; [cbn; lia|].
  pose proof (Z.log2_spec n ltac:(lia)) as Hl. pose proof (Z.log2_nonneg n).
  replace (Z.of_nat (S (Z.to_nat (Z.log2 n)))) with (Z.succ (Z.log2 n)) by lia.
  assert (2 ^ Z.succ (Z.log2 n) <= 128 ^ Z.succ (Z.log2 n)) by (apply Z.pow_le_mono_l; lia). lia.
Qed.

Lemma dec_subid_rt n tl : 0 <= n -> dec_subid 0 (enc_subid n ++ tl) = Ok (n, tl).
Proof.
  intros Hn. unfold enc_subid. rewrite shiftr7, land127, <- app_assoc.
  assert (Hq : 0 <= n / 128 < 128 ^ Z.of_nat (S (Z.to_nat (Z.log2 n)))).
  { pose proof (pow128_gt n Hn). lia. }
  destruct (dec_digits _ (n / 128) ([n mod 128] ++ tl) Hq) as (K & HK). rewrite HK.
  cbn [app dec_subid]. rewrite land_128_small by lia. cbn [Z.eqb]. f_equal. f_equal. lia.
Qed.

Lemma enc_subid_nonempty n : (1 <= length (enc_subid n))%nat.
Proof. unfold enc_subid. rewrite app_length. cbn. lia. Qed.

Lemma dec_subids_step f bs :
  bs <> [] ->
  dec_subids (S f) bs = (let* (v, r) := dec_subid 0 bs in let* vs := dec_subids f r in Ok (v :: vs)).
Proof. destruct bs; [congruence|reflexivity]. Qed.

Lemma dec_subids_rt l : forall f tl_len,
  Forall (fun a => 0 <= a) l -> (length (flat_map enc_subid l) <= f)%nat -> tl_len = 0%nat ->
  dec_subids f (flat_map enc_subid l) = Ok l.
Proof.
  induction l as [|a l IH]; intros f z Hall Hf _.
  - cbn. destruct f; reflexivity.
  - cbn [flat_map] in *. inversion Hall as [|? ? Ha Hl]; subst. rewrite app_length in Hf.
    pose proof (enc_subid_nonempty a). destruct f as [|f]; [lia|].
    rewrite dec_subids_step.
    + rewrite dec_subid_rt by exact Ha. cbn [bind].
      rewrite (IH f 0%nat Hl) by (auto; lia). reflexivity.
    + intros E. apply (f_equal (@length Z)) in E. rewrite app_length in E. cbn [length] in E. lia.
Qed.

Definition norm_oid (arcs : list Z) : list Z :=
  match arcs with
  | a0 :: a1 :: rest =>
    let s := 40 * a0 + a1 in (if s <? 80 then [s / 40; s mod 40] else [2; s - 80]) ++ rest
  | _ => arcs
  end.

Lemma dec_oid_bytes_rt arcs bytes :
  enc_oid_bytes arcs = Ok bytes -> dec_oid_bytes bytes = Ok (norm_oid arcs).
Proof.
  unfold enc_oid_bytes. destruct (forallb (fun a => 0 <=? a) arcs) eqn:Ef; cbn [negb]; [|discriminate].
  rewrite forallb_forall in Ef.
  destruct arcs as [|a0 [|a1 rest]]; try discriminate. intros H.
  assert (bytes = enc_subid (40 * a0 + a1) ++ flat_map enc_subid rest) by congruence. subst bytes.
  assert (H0 : 0 <= a0) by (specialize (Ef a0 ltac:(cbn; auto)); lia).
  assert (H1 : 0 <= a1) by (specialize (Ef a1 ltac:(cbn; auto)); lia).
  unfold dec_oid_bytes. rewrite dec_subid_rt by lia. cbn [bind].
  rewrite (dec_subids_rt rest _ 0%nat); [reflexivity | | lia | reflexivity].
  apply Forall_forall. intros x Hx. specialize (Ef x ltac:(cbn; auto)). lia.
Qed.

Lemma enc_subid_bytes n : 0 <= n -> Forall (fun b => 0 <= b < 256) (enc_subid n).
Proof.
  intros Hn. unfold enc_subid. apply Forall_app. split.
  - generalize (S (Z.to_nat (Z.log2 n))) (Z.shiftr n 7). intros f. induction f as [|f IH]; intros m; cbn [base128_digits].
    + constructor.
    + destruct (m >? 0); [|constructor]. apply Forall_app. split; [apply IH|].
      constructor; [|constructor]. rewrite land127. rewrite lor_128_small by lia. lia.
  - constructor; [|constructor]. rewrite land127. lia.
Qed.

Lemma read_oid_rt arcs bs rest : enc_oid arcs = Ok bs -> read_oid (bs ++ rest) = Ok (VOid (norm_oid arcs), rest).
Proof.
  unfold enc_oid, read_oid. destruct (enc_oid_bytes arcs) as [bytes|] eqn:Eb; [|discriminate]. cbn [bind].
  unfold enc_len_single. destruct (Z.of_nat (length bytes) <? 16384) eqn:El; [|discriminate]. cbn [bind].
  intros H. assert (bs = enc_len_short (Z.of_nat (length bytes)) ++ bytes_to_bits bytes) by congruence. subst bs.
  unfold rbind. rewrite <- app_assoc, read_len_short by lia. rewrite Nat2Z.id, read_bytes_rt.
  assert (Hn : norm_bytes bytes = bytes).
  { unfold enc_oid_bytes in Eb. destruct (forallb (fun a => 0 <=? a) arcs) eqn:Ef; cbn [negb] in Eb; [|discriminate].
    rewrite forallb_forall in Ef. destruct arcs as [|a0 [|a1 r]]; try discriminate.
    assert (bytes = enc_subid (40 * a0 + a1) ++ flat_map enc_subid r) by congruence. subst bytes.
    assert (Hall : Forall (fun b => 0 <= b < 256) (enc_subid (40 * a0 + a1) ++ flat_map enc_subid r)).
    { apply Forall_app. split.
      - apply enc_subid_bytes. pose proof (Ef a0 ltac:(cbn; auto)). pose proof (Ef a1 ltac:(cbn; auto)). lia.
      - apply Forall_flat_map. apply Forall_forall. intros x Hx. apply enc_subid_bytes.
        specialize (Ef x ltac:(cbn; auto)). lia. }
    unfold norm_bytes. clear -Hall. induction Hall as [|b l Hb Hl IH]; [reflexivity|]. cbn [map]. rewrite IH.
    f_equal. apply Z.mod_small. exact Hb. }
  rewrite Hn. rewrite (dec_oid_bytes_rt _ _ Eb). reflexivity.
Qed.

Lemma bits_eqb_eq a : forall b, bits_eqb a b = true -> a = b.
Proof.
  induction a as [|x a IH]; intros [|y b]; cbn [bits_eqb]; try discriminate; [reflexivity|].
  intros H. apply andb_prop in H. destruct H as [Hxy Hl]. f_equal; [|apply IH; exact Hl].
  destruct x, y; cbn in Hxy; congruence.
Qed.

(** ** Composite types: SEQUENCE/SET, SEQUENCE OF, CHOICE, given the round
    trip of the nested codec (at the smaller fuel). *)
Section CompositeRT.
  Variable encT : ty -> value -> result bits.
  Variable decT : ty -> reader value.
  Variable normT : ty -> value -> value.
  Variable res : ty -> ty.
  Hypothesis HT : forall t v bs, encT t v = Ok bs -> forall rest, decT t (bs ++ rest) = Ok (normT t v, rest).

  (** what decode_root returns for the root members of an encoded value *)
  Fixpoint norm_members (ms : list (member_of ty)) (data : list (string * value)) : list (string * value) :=
    match ms with
    | [] => []
    | m :: r =>
      match lookup (m_name m) data, m_opt m with
      | Some v, Default d =>
        if is_default_value (res (m_ty m)) v d then (m_name m, d) :: norm_members r data
        else (m_name m, normT (m_ty m) v) :: norm_members r data
      | Some v, _ => (m_name m, normT (m_ty m) v) :: norm_members r data
      | None, Default d => (m_name m, d) :: norm_members r data
      | None, _ => norm_members r data
      end
    end.

  Lemma dec_members_rt ms data : forall body rest,
    enc_members encT res ms data = Ok body ->
    dec_members decT ms (map (fun m => presence_bit res m data) (filter has_presence_bit ms)) (body ++ rest)
    = Ok (norm_members ms data, rest).
  Proof.
    induction ms as [|m ms IH]; intros body rest; cbn [enc_members dec_members norm_members filter map].
    - intros H. assert (body = []) by congruence. subst. reflexivity.
    - destruct (enc_member encT res m data false) as [a|] eqn:Ea; [|discriminate]. cbn [bind].
      destruct (enc_members encT res ms data) as [b|] eqn:Eb; [|discriminate]. cbn [bind]. intros H.
      assert (body = a ++ b) by congruence. subst body. rewrite <- app_assoc.
      unfold enc_member in Ea.
      destruct (m_opt m) as [| |d] eqn:Eo.
      + (* mandatory *)
        assert (Hh : has_presence_bit m = false) by (unfold has_presence_bit; rewrite Eo; reflexivity).
        rewrite Hh. destruct (lookup (m_name m) data) as [v|] eqn:El; [|discriminate].
        unfold rbind. rewrite (HT _ _ _ Ea). rewrite (IH _ _ eq_refl). reflexivity.
      + (* optional *)
        assert (Hh : has_presence_bit m = true) by (unfold has_presence_bit; rewrite Eo; reflexivity).
        rewrite Hh. cbn [map]. unfold presence_bit at 1. rewrite Eo.
        destruct (lookup (m_name m) data) as [v|] eqn:El.
        * unfold rbind. rewrite (HT _ _ _ Ea). rewrite (IH _ _ eq_refl). reflexivity.
        * assert (a = []) by congruence. subst a. cbn [app]. apply (IH _ _ eq_refl).
      + (* default *)
        assert (Hh : has_presence_bit m = true) by (unfold has_presence_bit; rewrite Eo; reflexivity).
        rewrite Hh. cbn [map]. unfold presence_bit at 1. rewrite Eo.
        destruct (lookup (m_name m) data) as [v|] eqn:El.
        * destruct (is_default_value (res (m_ty m)) v d) eqn:Ed; cbn [negb orb] in *.
          -- assert (a = []) by congruence. subst a. cbn [app].
             unfold rbind. rewrite (IH _ _ eq_refl). reflexivity.
          -- unfold rbind. rewrite (HT _ _ _ Ea). rewrite (IH _ _ eq_refl). reflexivity.
        * assert (a = []) by congruence. subst a. cbn [app].
          unfold rbind. rewrite (IH _ _ eq_refl). reflexivity.
  Qed.

  Lemma read_n_bits (pre rest : bits) : read_n (length pre) read_bit (pre ++ rest) = Ok (pre, rest).
  Proof.
    rewrite (read_n_rt _ _ _ RT_bit pre pre rest (enc_all_bits pre)). rewrite map_id. reflexivity.
  Qed.

  Lemma dec_root_rt ms data bs rest :
    enc_root encT res ms data = Ok bs -> dec_root decT ms (bs ++ rest) = Ok (norm_members ms data, rest).
  Proof.
    unfold enc_root, dec_root. destruct (enc_members encT res ms data) as [body|] eqn:Eb; [|discriminate].
    cbn [bind]. intros H.
    assert (bs = map (fun m => presence_bit res m data) (filter has_presence_bit ms) ++ body) by congruence.
    subst bs. unfold rbind. rewrite <- app_assoc.
    rewrite <- (map_length (fun m => presence_bit res m data) (filter has_presence_bit ms)).
    rewrite read_n_bits. apply dec_members_rt. exact Eb.
  Qed.

  (** SEQUENCE OF / SET OF *)
  Lemma RT_elem elem : RT (encT elem) (decT elem) (normT elem).
  Proof. intros v bs H rest. apply HT. exact H. Qed.

  Lemma dec_seqof_rt elem sz vs bs rest :
    enc_seqof encT elem sz (VList vs) = Ok bs ->
    dec_seqof decT elem sz (bs ++ rest) = Ok (VList (map (normT elem) vs), rest).
  Proof.
    unfold enc_seqof, dec_seqof. set (n := Z.of_nat (length vs)).
    assert (Hroot : forall r,
      (if size_unbound sz then enc_frag (frag_fuel vs) (encT elem) vs
       else let* body := enc_all (encT elem) vs in
            if negb (size_lo sz =? size_hi sz) then
              if size_in_root sz n then Ok (to_bits (size_nbits sz) (n - size_lo sz) ++ body) else Err EUnmodelled
            else if n =? size_lo sz then Ok body else Err EUnmodelled) = Ok r ->
      (if size_unbound sz then do* vs0 <- read_frag_auto (decT elem); rret (VList vs0)
       else do* extra <- (if negb (size_lo sz =? size_hi sz) then read_uint (size_nbits sz) else rret 0);
            do* vs0 <- read_n (Z.to_nat (size_lo sz + extra)) (decT elem); rret (VList vs0)) (r ++ rest)
      = Ok (VList (map (normT elem) vs), rest)).
    { intros r. destruct (size_unbound sz).
      - intros H. unfold rbind. rewrite (read_frag_auto_rt _ _ _ (RT_elem elem) _ _ _ _ H). reflexivity.
      - destruct (enc_all (encT elem) vs) as [body|] eqn:Eb; [|discriminate]. cbn [bind].
        destruct (negb (size_lo sz =? size_hi sz)) eqn:Ev.
        + destruct (size_in_root sz n) eqn:Ein; [|discriminate]. intros H.
          assert (r = to_bits (size_nbits sz) (n - size_lo sz) ++ body) by congruence. subst r.
          unfold rbind. rewrite <- app_assoc. rewrite read_uint_app by (apply size_offset_fits; exact Ein).
          replace (Z.to_nat (size_lo sz + (n - size_lo sz))) with (length vs) by (unfold n; lia).
          rewrite (read_n_rt _ _ _ (RT_elem elem) _ _ _ Eb). reflexivity.
        + destruct (n =? size_lo sz) eqn:En; [|discriminate]. intros H.
          assert (r = body) by congruence. subst r. unfold rbind, rret at 1.
          replace (Z.to_nat (size_lo sz + 0)) with (length vs) by (unfold n in *; lia).
          rewrite (read_n_rt _ _ _ (RT_elem elem) _ _ _ Eb). reflexivity. }
    destruct (size_ext sz).
    - destruct (size_in_root sz n) eqn:Ein.
      + match goal with |- (let* r := ?root in _) = _ -> _ => destruct root as [r|] eqn:Er; [|discriminate] end.
        cbn [bind]. intros H. assert (bs = false :: r) by congruence. subst bs.
        cbn [app]. unfold rbind at 1. cbn [read_bit]. apply Hroot. reflexivity.
      + destruct (enc_frag (frag_fuel vs) (encT elem) vs) as [r|] eqn:Ef; [|discriminate].
        cbn [bind]. intros H. assert (bs = true :: r) by congruence. subst bs.
        cbn [app]. unfold rbind at 1. cbn [read_bit]. unfold rbind.
        rewrite (read_frag_auto_rt _ _ _ (RT_elem elem) _ _ _ _ Ef). reflexivity.
    - intros H. apply Hroot. exact H.
  Qed.

  (** CHOICE *)
  Lemma find_alt_spec name alts : forall i j m,
    find_alt name alts i = Some (j, m) ->
    i <= j < i + Z.of_nat (length alts) /\ nth_error alts (Z.to_nat (j - i)) = Some m /\ m_name m = name.
  Proof.
    induction alts as [|x alts IH]; intros i j m; cbn [find_alt]; [discriminate|].
    destruct (String.eqb (m_name x) name) eqn:E.
    - intros H. assert (i = j /\ x = m) as (-> & ->) by (split; congruence).
      split; [cbn [length]; lia|]. replace (j - j) with 0 by lia. split; [reflexivity|].
      apply String.eqb_eq. exact E.
    - intros H. destruct (IH _ _ _ H) as (Hr & Hn & Hm). split; [cbn [length]; lia|]. split; [|exact Hm].
      replace (Z.to_nat (j - i)) with (S (Z.to_nat (j - (i + 1)))) by lia. exact Hn.
  Qed.

  Lemma dec_choice_root_rt root name x bs rest i m :
    find_alt name root 0 = Some (i, m) ->
    enc_choice_root encT root name x = Ok bs ->
    dec_choice_root decT root (bs ++ rest) = Ok (VChoice name (normT (m_ty m) x), rest).
  Proof.
    intros Hf. unfold enc_choice_root, dec_choice_root. rewrite Hf.
    destruct (encT (m_ty m) x) as [body|] eqn:Eb; [|discriminate]. cbn [bind]. intros H.
    destruct (find_alt_spec _ _ _ _ _ Hf) as (Hr & Hn & Hm). replace (i - 0) with i in Hn by lia.
    destruct (1 <? length root)%nat eqn:E1.
    - assert (bs = to_bits (choice_root_bits root) i ++ body) by congruence. subst bs.
      unfold rbind. rewrite <- app_assoc.
      rewrite read_uint_app by (unfold choice_root_bits; apply fits_bit_length; lia).
      rewrite (nth_z_of_index _ i m) by (auto; lia). rewrite (HT _ _ _ Eb). rewrite Hm. reflexivity.
    - assert (bs = [] ++ body) by congruence. subst bs. cbn [app]. unfold rbind, rret at 1.
      assert (i = 0) by lia. subst i.
      rewrite (nth_z_of_index _ 0 m) by (auto; lia). rewrite (HT _ _ _ Eb). rewrite Hm. reflexivity.
  Qed.

  Lemma pad8_length bs : exists k, length (pad8 bs) = (8 * k)%nat /\ (length bs <= 8 * k)%nat /\
                                  (length (pad8 bs) / 8)%nat = k.
  Proof.
    unfold pad8. rewrite app_length, repeat_length.
    exists ((length bs + (8 - length bs mod 8) mod 8) / 8)%nat.
    assert (H : ((length bs + (8 - length bs mod 8) mod 8) mod 8 = 0)%nat).
    { pose proof (Nat.mod_upper_bound (length bs) 8 ltac:(lia)).
      pose proof (Nat.div_mod (length bs) 8 ltac:(lia)).
      destruct (Nat.eq_dec (length bs mod 8) 0) as [E|E].
      - rewrite E. replace ((8 - 0) mod 8)%nat with 0%nat by reflexivity. rewrite Nat.add_0_r. exact E.
      - rewrite (Nat.mod_small (8 - length bs mod 8) 8) by lia.
        replace (length bs + (8 - length bs mod 8))%nat with (8 + 8 * (length bs / 8))%nat by lia.
        rewrite Nat.add_mod by lia. rewrite Nat.mul_comm, Nat.mod_mul by lia. reflexivity. }
    pose proof (Nat.div_mod (length bs + (8 - length bs mod 8) mod 8) 8 ltac:(lia)) as Hd.
    rewrite H in Hd. split; [lia|]. split; [lia|reflexivity].
  Qed.

  Lemma dec_choice_rt root ext name x bs rest m :
    (match find_alt name root 0 with
     | Some (_, m') => m' = m
     | None => match ext with
               | Some adds => match find_alt name adds 0 with Some (_, m') => m' = m | None => False end
               | None => False
               end
     end) ->
    enc_choice encT root ext (VChoice name x) = Ok bs ->
    dec_choice decT root ext (bs ++ rest) = Ok (VChoice name (normT (m_ty m) x), rest).
  Proof.
    unfold enc_choice, dec_choice. intros Hm. destruct ext as [adds|].
    - destruct (find_alt name root 0) as [[i m']|] eqn:Ef.
      + subst m'. destruct (enc_choice_root encT root name x) as [r|] eqn:Er; [|discriminate]. cbn [bind].
        intros H. assert (bs = false :: r) by congruence. subst bs. cbn [app]. unfold rbind at 1.
        cbn [read_bit negb]. eapply dec_choice_root_rt; eauto.
      + destruct (find_alt name adds 0) as [[i m']|] eqn:Ea; [|contradiction]. subst m'.
        destruct (encT (m_ty m) x) as [body|] eqn:Eb; [|discriminate]. cbn [bind].
        destruct (enc_small_nonneg i) as [idx|] eqn:Ei; [|discriminate]. cbn [bind].
        unfold enc_len_single.
        destruct (Z.of_nat (length (pad8 body) / 8) <? 16384) eqn:El; [|discriminate]. cbn [bind]. intros H.
        assert (bs = true :: idx ++ enc_len_short (Z.of_nat (length (pad8 body) / 8)) ++ pad8 body) by congruence.
        subst bs. cbn [app]. unfold rbind at 1. cbn [read_bit negb].
        destruct (find_alt_spec _ _ _ _ _ Ea) as (Hr & Hn & Hnm). replace (i - 0) with i in Hn by lia.
        unfold rbind at 1. rewrite <- app_assoc. rewrite (read_small_nonneg_rt i idx _ ltac:(lia) Ei).
        unfold rbind at 1. rewrite <- app_assoc. rewrite read_len_short by lia.
        rewrite (nth_z_of_index _ i m) by (auto; lia).
        destruct (pad8_length body) as (k & Hk & Hle & Hdiv).
        unfold pad8. rewrite <- app_assoc. unfold rbind at 1. unfold with_consumed.
        rewrite (HT _ _ _ Eb).
        rewrite !app_length. rewrite repeat_length.
        set (padn := ((8 - length body mod 8) mod 8)%nat) in *.
        replace (length body + (padn + length rest) - (padn + length rest))%nat with (length body) by lia.
        assert (Hnb : Z.to_nat (8 * Z.of_nat ((length body + padn) / 8)) = (length body + padn)%nat).
        { unfold pad8 in Hk, Hdiv. rewrite app_length, repeat_length in Hk, Hdiv. fold padn in Hk, Hdiv.
          rewrite Hdiv. lia. }
        rewrite Hnb.
        destruct (length body + padn <? length body)%nat eqn:Elt; [lia|].
        replace (length body + padn - length body)%nat with padn by lia.
        unfold rbind. unfold skip_bits. rewrite app_length, repeat_length.
        destruct (padn + length rest <? padn)%nat eqn:E2; [lia|].
        rewrite skipn_app, repeat_length, Nat.sub_diag. cbn [skipn].
        rewrite skipn_all2 by (rewrite repeat_length; lia). cbn [app]. rewrite Hnm. reflexivity.
    - destruct (find_alt name root 0) as [[i m']|] eqn:Ef; [|contradiction]. subst m'.
      intros H. eapply dec_choice_root_rt; eauto.
  Qed.

  (** Extension additions of SEQUENCE/SET *)
  Fixpoint norm_adds (adds : list (addition_of ty)) (data : list (string * value)) : list (string * value) :=
    match adds with
    | [] => []
    | (isgroup, ms) :: r =>
      if isgroup then
        if group_missing_first encT res ms data then []
        else
          match enc_group encT res ms data with
          | Ok bs => (if (0 <? length bs)%nat then norm_members ms data else []) ++ norm_adds r data
          | Err _ => []
          end
      else
        match ms with
        | [m] =>
          match lookup (m_name m) data, m_opt m with
          | None, Mandatory => []
          | found, _ =>
            match enc_member encT res m data true with
            | Ok _ =>
              (match found with
               | Some v => [(m_name m, normT (m_ty m) v)]
               | None => []
               end) ++ norm_adds r data
            | Err _ => []
            end
          end
        | _ => []
        end
    end.

  Lemma dec_adds_all_false k adds rest : dec_adds decT (repeat false k) adds rest = Ok ([], rest).
  Proof. revert adds. induction k as [|k IH]; intros adds; cbn [repeat dec_adds negb]; [reflexivity|apply IH]. Qed.

  Lemma skip_pad n tail :
    (let al := (n mod 8)%nat in if (al =? 0)%nat then rret tt else skip_bits (8 - al))
      (repeat false ((8 - n mod 8) mod 8) ++ tail) = Ok (tt, tail).
  Proof.
    cbv zeta. pose proof (Nat.mod_upper_bound n 8 ltac:(lia)).
    destruct (n mod 8 =? 0)%nat eqn:E.
    - apply Nat.eqb_eq in E. rewrite E. reflexivity.
    - apply Nat.eqb_neq in E. rewrite (Nat.mod_small (8 - n mod 8) 8) by lia.
      unfold skip_bits. rewrite app_length, repeat_length.
      destruct (8 - n mod 8 + length tail <? 8 - n mod 8)%nat eqn:E2; [lia|].
      rewrite skipn_app, repeat_length, Nat.sub_diag. cbn [skipn].
      rewrite skipn_all2 by (rewrite repeat_length; lia). reflexivity.
  Qed.

  Lemma enc_group_present ms data bs :
    enc_group encT res ms data = Ok bs -> (0 < length bs)%nat -> enc_root encT res ms data = Ok bs.
  Proof.
    unfold enc_group. destruct (enc_root encT res ms data) as [b|] eqn:E; [|discriminate]. cbn [bind].
    destruct (all_false b && (length b =? length (filter has_presence_bit ms))%nat).
    - intros H Hl. assert (bs = []) by congruence. subst. cbn in Hl. lia.
    - intros H _. congruence.
  Qed.

  Lemma open_type_rt (bs : bits) (fields : list (string * value)) adds tail :
    (forall rest, dec_one_addition decT adds (Z.of_nat (length (pad8 bs) / 8)) (bs ++ rest) = Ok (fields, rest)) ->
    (Z.of_nat (length (pad8 bs) / 8) <? 16384) = true ->
    forall (k : list (string * value) -> reader (list (string * value))),
    (do* open_len <- read_len;
     do* (fs, consumed) <- with_consumed (dec_one_addition decT adds open_len);
     do* _ <- (let al := (consumed mod 8)%nat in if (al =? 0)%nat then rret tt else skip_bits (8 - al));
     k fs) (enc_len_short (Z.of_nat (length (pad8 bs) / 8)) ++ pad8 bs ++ tail) = k fields tail.
  Proof.
    intros Hd Hl k. unfold rbind at 1. rewrite read_len_short by lia.
    unfold rbind at 1. unfold with_consumed, pad8. rewrite <- app_assoc. rewrite Hd.
    rewrite !app_length, repeat_length.
    replace (length bs + ((8 - length bs mod 8) mod 8 + length tail) - ((8 - length bs mod 8) mod 8 + length tail))%nat
      with (length bs) by lia.
    unfold rbind at 1. rewrite skip_pad. reflexivity.
  Qed.

  (** an open type of an addition the decoder does not know is skipped by its length *)
  Lemma open_type_skip (bs : bits) tail :
    (Z.of_nat (length (pad8 bs) / 8) <? 16384) = true ->
    forall (k : list (string * value) -> reader (list (string * value))),
    (do* open_len <- read_len;
     do* (fs, consumed) <- with_consumed (dec_one_addition decT [] open_len);
     do* _ <- (let al := (consumed mod 8)%nat in if (al =? 0)%nat then rret tt else skip_bits (8 - al));
     k fs) (enc_len_short (Z.of_nat (length (pad8 bs) / 8)) ++ pad8 bs ++ tail) = k [] tail.
  Proof.
    intros Hl k. unfold rbind at 1. rewrite read_len_short by lia.
    destruct (pad8_length bs) as (q & Hq & Hle & Hdiv).
    unfold rbind at 1. unfold with_consumed. cbn [dec_one_addition]. unfold rbind at 1.
    assert (Hs : skip_bits (Z.to_nat (8 * Z.of_nat (length (pad8 bs) / 8))) (pad8 bs ++ tail) = Ok (tt, tail)).
    { unfold skip_bits. rewrite Hdiv. replace (Z.to_nat (8 * Z.of_nat q)) with (length (pad8 bs)) by lia.
      rewrite app_length. destruct (length (pad8 bs) + length tail <? length (pad8 bs))%nat eqn:E; [lia|].
      rewrite skipn_app, Nat.sub_diag. cbn [skipn]. rewrite skipn_all. reflexivity. }
    rewrite Hs. unfold rret at 1. rewrite app_length.
    replace (length (pad8 bs) + length tail - length tail)%nat with (length (pad8 bs)) by lia.
    unfold rbind at 1. rewrite Hq. replace ((8 * q) mod 8)%nat with 0%nat by (rewrite Nat.mul_comm, Nat.mod_mul; lia).
    cbn [Nat.eqb]. reflexivity.
  Qed.

  Lemma dec_adds_skip_all processed : forall body k rest,
    enc_open_types processed = Ok body ->
    dec_adds decT (map is_some processed ++ repeat false k) [] (body ++ rest) = Ok ([], rest).
  Proof.
    induction processed as [|[bs|] processed IH]; intros body k rest; cbn [enc_open_types map app is_some].
    - intros H. assert (body = []) by congruence. subst. apply dec_adds_all_false.
    - unfold enc_len_single. destruct (Z.of_nat (length (pad8 bs) / 8) <? 16384) eqn:El; [|discriminate]. cbn [bind].
      destruct (enc_open_types processed) as [more|] eqn:Em; [|discriminate]. cbn [bind]. intros H.
      assert (body = enc_len_short (Z.of_nat (length (pad8 bs) / 8)) ++ pad8 bs ++ more) by congruence. subst body.
      cbn [dec_adds negb tl]. rewrite <- !app_assoc. rewrite (open_type_skip bs _ El).
      unfold rbind. rewrite (IH _ _ _ eq_refl). reflexivity.
    - intros H. cbn [dec_adds negb tl]. apply (IH _ _ _ H).
  Qed.

  (** One present addition: its open type is read back and the decoder resynchronises. *)
  Lemma dec_adds_present (bs : bits) (fields : list (string * value)) rest_p adds_dec more k rest
        (tailres : list (string * value)) :
    (forall r, dec_one_addition decT adds_dec (Z.of_nat (length (pad8 bs) / 8)) (bs ++ r) = Ok (fields, r)) ->
    enc_open_types (Some bs :: rest_p) = Ok more ->
    (forall body', enc_open_types rest_p = Ok body' ->
       dec_adds decT (map is_some rest_p ++ repeat false k) (tl adds_dec) (body' ++ rest) = Ok (tailres, rest)) ->
    dec_adds decT (map is_some (Some bs :: rest_p) ++ repeat false k) adds_dec (more ++ rest)
    = Ok (fields ++ tailres, rest).
  Proof.
    intros Hone Hm Htail. cbn [enc_open_types] in Hm. unfold enc_len_single in Hm.
    destruct (Z.of_nat (length (pad8 bs) / 8) <? 16384) eqn:El; [|discriminate]. cbn [bind] in Hm.
    destruct (enc_open_types rest_p) as [body'|] eqn:Em; [|discriminate]. cbn [bind] in Hm.
    assert (more = enc_len_short (Z.of_nat (length (pad8 bs) / 8)) ++ pad8 bs ++ body') by congruence. subst more.
    cbn [map app is_some dec_adds negb]. rewrite <- !app_assoc.
    rewrite (open_type_rt bs fields adds_dec _ Hone El).
    unfold rbind. rewrite (Htail _ eq_refl). reflexivity.
  Qed.

  (** Encoder knows [common ++ extra_enc], decoder knows [common ++ extra_dec],
      one of the two extras is empty: the decoder returns exactly the additions
      of [common] that are present, and resynchronises after the open types. *)
  Lemma dec_adds_compat common data : forall extra_enc extra_dec processed body k rest,
    extra_enc = [] \/ extra_dec = [] ->
    enc_adds encT res (common ++ extra_enc) data = Ok processed ->
    enc_open_types processed = Ok body ->
    dec_adds decT (map is_some processed ++ repeat false k) (common ++ extra_dec) (body ++ rest)
    = Ok (norm_adds common data, rest).
  Proof.
    induction common as [|[isgroup ms] common IH]; intros extra_enc extra_dec processed body k rest Hx.
    - cbn [app norm_adds]. destruct Hx as [-> | ->].
      + cbn [enc_adds]. intros H Hb. assert (processed = []) by congruence. subst. cbn in Hb.
        assert (body = []) by congruence. subst. cbn [map app]. apply dec_adds_all_false.
      + intros _ Hb. apply dec_adds_skip_all. exact Hb.
    - cbn [app enc_adds norm_adds]. destruct isgroup.
      + (* addition group *)
        destruct (group_missing_first encT res ms data).
        { intros H Hb. assert (processed = []) by congruence. subst. cbn in Hb.
          assert (body = []) by congruence. subst. cbn [map app]. apply dec_adds_all_false. }
        destruct (enc_group encT res ms data) as [bs|x] eqn:Eg; cbn [bind]; [|discriminate].
        destruct (enc_adds encT res (common ++ extra_enc) data) as [rest_p|] eqn:Er; [|discriminate]. cbn [bind].
        intros H. destruct (0 <? length bs)%nat eqn:Epos.
        * assert (processed = Some bs :: rest_p) by congruence. subst processed. intros Hb.
          apply (dec_adds_present bs (norm_members ms data) rest_p _ body k rest (norm_adds common data)); [|exact Hb|].
          -- intros r. cbn [dec_one_addition]. apply dec_root_rt. apply enc_group_present; [exact Eg|].
             apply Nat.ltb_lt. exact Epos.
          -- intros body' Hb'. cbn [tl]. apply (IH _ _ _ _ _ _ Hx Er Hb').
        * assert (processed = None :: rest_p) by congruence. subst processed. cbn [enc_open_types].
          intros Hb. cbn [map app is_some dec_adds negb tl]. cbn [app]. apply (IH _ _ _ _ _ _ Hx Er Hb).
      + (* single addition *)
        destruct ms as [|m [|m' ms']]; [discriminate| |discriminate].
        destruct (lookup (m_name m) data) as [v|] eqn:Elk.
        * (* present *)
          assert (Henc : enc_member encT res m data true = encT (m_ty m) v).
          { unfold enc_member. rewrite Elk. destruct (m_opt m); try reflexivity. rewrite Bool.orb_true_r. reflexivity. }
          assert (Hgoal : (let* bs := enc_member encT res m data true in
                           let* rest0 := enc_adds encT res (common ++ extra_enc) data in
                           Ok ((if (0 <? length bs)%nat || true then Some bs else None) :: rest0)) = Ok processed ->
                          enc_open_types processed = Ok body ->
                          dec_adds decT (map is_some processed ++ repeat false k) ((false, [m]) :: common ++ extra_dec) (body ++ rest) =
                          Ok (match enc_member encT res m data true with
                              | Ok _ => [(m_name m, normT (m_ty m) v)] ++ norm_adds common data
                              | Err _ => []
                              end, rest)).
          { rewrite Henc. destruct (encT (m_ty m) v) as [bs|x] eqn:Eb; cbn [bind]; [|discriminate].
            destruct (enc_adds encT res (common ++ extra_enc) data) as [rest_p|] eqn:Er; [|discriminate]. cbn [bind].
            intros H. rewrite Bool.orb_true_r in H.
            assert (processed = Some bs :: rest_p) by congruence. subst processed. intros Hb.
            apply (dec_adds_present bs [(m_name m, normT (m_ty m) v)] rest_p _ body k rest (norm_adds common data)); [|exact Hb|].
            - intros r. cbn [dec_one_addition]. unfold rbind. rewrite (HT _ _ _ Eb). reflexivity.
            - intros body' Hb'. cbn [tl]. apply (IH _ _ _ _ _ _ Hx Er Hb'). }
          destruct (m_opt m); exact Hgoal.
        * (* absent *)
          destruct (m_opt m) eqn:Eo.
          -- intros H Hb. assert (processed = []) by congruence. subst. cbn in Hb.
             assert (body = []) by congruence. subst. cbn [map app]. apply dec_adds_all_false.
          -- assert (Henc : enc_member encT res m data true = Ok []) by (unfold enc_member; rewrite Elk, Eo; reflexivity).
             rewrite Henc. cbn [bind].
             destruct (enc_adds encT res (common ++ extra_enc) data) as [rest_p|] eqn:Er; [|discriminate]. cbn [bind].
             intros H. cbn [length Nat.ltb Nat.leb orb] in H.
             assert (processed = None :: rest_p) by congruence. subst processed. cbn [enc_open_types].
             intros Hb. cbn [map app is_some dec_adds negb tl]. apply (IH _ _ _ _ _ _ Hx Er Hb).
          -- assert (Henc : enc_member encT res m data true = Ok []) by (unfold enc_member; rewrite Elk, Eo; reflexivity).
             rewrite Henc. cbn [bind].
             destruct (enc_adds encT res (common ++ extra_enc) data) as [rest_p|] eqn:Er; [|discriminate]. cbn [bind].
             intros H. cbn [length Nat.ltb Nat.leb orb] in H.
             assert (processed = None :: rest_p) by congruence. subst processed. cbn [enc_open_types].
             intros Hb. cbn [map app is_some dec_adds negb tl]. apply (IH _ _ _ _ _ _ Hx Er Hb).
  Qed.

  Lemma enc_adds_length adds data : forall processed,
    enc_adds encT res adds data = Ok processed -> (length processed <= length adds)%nat.
  Proof.
    induction adds as [|[isgroup ms] adds IH]; intros processed; cbn [enc_adds].
    - intros H. assert (processed = []) by congruence. subst. cbn. lia.
    - assert (Hstop : Ok [] = Ok processed -> (length processed <= length ((isgroup, ms) :: adds))%nat).
      { intros H. assert (processed = []) by congruence. subst. cbn. lia. }
      assert (Hcons : forall (bs : bits) (c : bool),
                 (let* bs0 := Ok bs in let* rest0 := enc_adds encT res adds data in
                  Ok ((if c then Some bs0 else None) :: rest0)) = Ok processed ->
                 (length processed <= length ((isgroup, ms) :: adds))%nat).
      { intros bs c. cbn [bind]. destruct (enc_adds encT res adds data) as [rest_p|]; [|discriminate]. cbn [bind].
        intros H. assert (processed = (if c then Some bs else None) :: rest_p) by congruence. subst.
        specialize (IH _ eq_refl). simpl length. clear Hstop H. apply le_n_S. exact IH. }
      destruct isgroup.
      + destruct (group_missing_first encT res ms data); [exact Hstop|].
        destruct (enc_group encT res ms data) as [bs|x]; [|discriminate]. apply Hcons.
      + destruct ms as [|m [|m' ms']]; try discriminate.
        destruct (lookup (m_name m) data) as [v|]; destruct (m_opt m);
          try exact Hstop;
          (destruct (enc_member encT res m data true) as [bs|x]; [|discriminate]; apply Hcons).
  Qed.

  Lemma to_bits_9_len n : 65 <= n <= 127 -> to_bits 9 (Z.lor 256 n) = true :: false :: to_bits 7 n.
  Proof.
    intros H.
    assert (Hs : bits_eqb (to_bits 9 (Z.lor 256 n)) (true :: false :: to_bits 7 n) = true).
    { apply (sweep (fun n => bits_eqb (to_bits 9 (Z.lor 256 n)) (true :: false :: to_bits 7 n)) 65 63);
        [vm_compute; reflexivity | lia]. }
    apply bits_eqb_eq. exact Hs.
  Qed.

  Lemma read_small_len_rt n l rest :
    1 <= n -> enc_small_len n = Ok l -> read_small_len (l ++ rest) = Ok (n, rest).
  Proof.
    intros Hn. unfold enc_small_len, read_small_len.
    destruct (n <=? 64) eqn:E1.
    - intros H. assert (l = to_bits 7 (n - 1)) by congruence. subst l.
      rewrite to_bits_7_small by lia. cbn [app]. unfold rbind. cbn [read_bit negb].
      rewrite read_uint_app by (change (2 ^ Z.of_nat 6) with 64; lia). unfold rret. f_equal. f_equal. lia.
    - destruct (n <=? 127) eqn:E2; [|discriminate]. intros H.
      assert (l = to_bits 9 (Z.lor 256 n)) by congruence. subst l.
      rewrite to_bits_9_len by lia. cbn [app]. unfold rbind. cbn [read_bit negb].
      apply read_uint_app. change (2 ^ Z.of_nat 7) with 128. lia.
  Qed.

  Lemma norm_adds_none_gen common data : forall extra processed,
    enc_adds encT res (common ++ extra) data = Ok processed -> existsb is_some processed = false ->
    norm_adds common data = [].
  Proof.
    induction common as [|[isgroup ms] common IH]; intros extra processed; cbn [app enc_adds norm_adds]; [reflexivity|].
    destruct isgroup.
    - destruct (group_missing_first encT res ms data); [reflexivity|].
      destruct (enc_group encT res ms data) as [bs|x]; cbn [bind]; [|reflexivity].
      destruct (enc_adds encT res (common ++ extra) data) as [rest_p|] eqn:Er; [|discriminate]. cbn [bind]. intros H.
      destruct (0 <? length bs)%nat.
      + assert (processed = Some bs :: rest_p) by congruence. subst. cbn. discriminate.
      + assert (processed = None :: rest_p) by congruence. subst. cbn [existsb is_some orb]. intros He.
        cbn [app]. apply (IH _ _ Er He).
    - destruct ms as [|m [|m' ms']]; try reflexivity.
      assert (Hmain : forall found,
                 (found = lookup (m_name m) data) ->
                 (let* bs := enc_member encT res m data true in
                  let* rest0 := enc_adds encT res (common ++ extra) data in
                  Ok ((if (0 <? length bs)%nat || match found with Some _ => true | None => false end
                       then Some bs else None) :: rest0)) = Ok processed ->
                 existsb is_some processed = false ->
                 match enc_member encT res m data true with
                 | Ok _ => (match found with Some v => [(m_name m, normT (m_ty m) v)] | None => [] end) ++ norm_adds common data
                 | Err _ => []
                 end = []).
      { intros found Hf. destruct (enc_member encT res m data true) as [bs|x]; cbn [bind]; [|reflexivity].
        destruct (enc_adds encT res (common ++ extra) data) as [rest_p|] eqn:Er; [|discriminate]. cbn [bind]. intros H.
        destruct found as [v|].
        - rewrite Bool.orb_true_r in H. assert (processed = Some bs :: rest_p) by congruence. subst. cbn. discriminate.
        - rewrite Bool.orb_false_r in H. destruct (0 <? length bs)%nat.
          + assert (processed = Some bs :: rest_p) by congruence. subst. cbn. discriminate.
          + assert (processed = None :: rest_p) by congruence. subst. cbn [existsb is_some orb]. intros He.
            cbn [app]. apply (IH _ _ Er He). }
      destruct (lookup (m_name m) data) as [v|] eqn:Elk; destruct (m_opt m); try reflexivity;
        try (apply (Hmain (Some v)); reflexivity); apply (Hmain None); reflexivity.
  Qed.

  Lemma dec_additions_compat common extra_enc extra_dec data abits rest :
    extra_enc = [] \/ extra_dec = [] ->
    (1 <= length (common ++ extra_enc))%nat ->
    enc_additions encT res (common ++ extra_enc) data = Ok (Some abits) ->
    dec_additions decT (common ++ extra_dec) (abits ++ rest) = Ok (norm_adds common data, rest).
  Proof.
    intros Hx Hne. unfold enc_additions, dec_additions.
    destruct (enc_adds encT res (common ++ extra_enc) data) as [processed|] eqn:Ep; [|discriminate]. cbn [bind].
    destruct (negb (existsb is_some processed)); [discriminate|].
    destruct (enc_small_len (Z.of_nat (length (common ++ extra_enc)))) as [l|] eqn:El; [|discriminate]. cbn [bind].
    destruct (enc_open_types processed) as [body|] eqn:Eb; [|discriminate]. cbn [bind]. intros H.
    pose proof (enc_adds_length _ _ _ Ep) as Hlen.
    set (pres := map is_some processed ++ repeat false (length (common ++ extra_enc) - length processed)) in *.
    assert (abits = l ++ pres ++ body) by congruence. subst abits.
    assert (Hn1 : 1 <= Z.of_nat (length (common ++ extra_enc))) by lia.
    unfold rbind at 1. rewrite <- app_assoc. rewrite (read_small_len_rt _ _ _ Hn1 El).
    assert (Hpl : length pres = length (common ++ extra_enc)).
    { unfold pres. rewrite app_length, map_length, repeat_length. lia. }
    unfold rbind at 1. rewrite Nat2Z.id. rewrite <- Hpl at 1. rewrite <- app_assoc. rewrite read_raw_app.
    unfold pres. apply (dec_adds_compat _ _ _ _ _ _ _ _ Hx Ep Eb).
  Qed.

  Definition norm_seq (root : list (member_of ty)) (ext : option (list (addition_of ty)))
             (data : list (string * value)) : value :=
    VSeq (norm_members root data ++ match ext with Some adds => norm_adds adds data | None => [] end).

  (** SEQUENCE/SET: encoder knows [common ++ extra_enc], decoder [common ++ extra_dec] *)
  Lemma dec_seq_compat root common extra_enc extra_dec data bs rest :
    extra_enc = [] \/ extra_dec = [] ->
    enc_seq encT res root (Some (common ++ extra_enc)) (VSeq data) = Ok bs ->
    dec_seq decT root (Some (common ++ extra_dec)) (bs ++ rest)
    = Ok (VSeq (norm_members root data ++ norm_adds common data), rest).
  Proof.
    intros Hx. unfold enc_seq, dec_seq.
    destruct (enc_root encT res root data) as [r|] eqn:Er; [|discriminate]. cbn [bind].
    assert (Hfalse : forall processed,
               enc_adds encT res (common ++ extra_enc) data = Ok processed -> existsb is_some processed = false ->
               (do* b <- read_bit; do* fs <- dec_root decT root;
                if b then do* more <- dec_additions decT (common ++ extra_dec); rret (VSeq (fs ++ more))
                else rret (VSeq fs)) ((false :: r) ++ rest)
               = Ok (VSeq (norm_members root data ++ norm_adds common data), rest)).
    { intros processed Hp He. cbn [app]. unfold rbind at 1. cbn [read_bit]. unfold rbind.
      rewrite (dec_root_rt _ _ _ _ Er).
      rewrite (norm_adds_none_gen _ _ _ _ Hp He), app_nil_r. reflexivity. }
    destruct (common ++ extra_enc) as [|a l] eqn:Eadds.
    - intros H. assert (bs = false :: r) by congruence. subst bs.
      apply (Hfalse []); reflexivity.
    - destruct (enc_additions encT res (a :: l) data) as [[abits|]|] eqn:Ea; [| |discriminate]; cbn [bind].
      + intros H. assert (bs = true :: r ++ abits) by congruence. subst bs. cbn [app]. unfold rbind at 1. cbn [read_bit].
        unfold rbind. rewrite <- app_assoc. rewrite (dec_root_rt _ _ _ _ Er).
        rewrite <- Eadds in Ea.
        assert (Hne : (1 <= length (common ++ extra_enc))%nat) by (rewrite Eadds; cbn [length]; lia).
        rewrite (dec_additions_compat _ _ _ _ _ _ Hx Hne Ea). reflexivity.
      + intros H. assert (bs = false :: r) by congruence. subst bs.
        unfold enc_additions in Ea.
        destruct (enc_adds encT res (a :: l) data) as [processed|] eqn:Ep; [|discriminate]. cbn [bind] in Ea.
        destruct (existsb is_some processed) eqn:Ee; cbn [negb] in Ea.
        * destruct (enc_small_len (Z.of_nat (length (a :: l)))); [|discriminate]. cbn [bind] in Ea.
          destruct (enc_open_types processed); discriminate.
        * apply (Hfalse processed); auto.
  Qed.

  Lemma dec_seq_rt root ext data bs rest :
    enc_seq encT res root ext (VSeq data) = Ok bs ->
    dec_seq decT root ext (bs ++ rest) = Ok (norm_seq root ext data, rest).
  Proof.
    unfold norm_seq. destruct ext as [adds|].
    - intros H. rewrite <- (app_nil_r adds) in H. rewrite <- (app_nil_r adds) at 1.
      apply (dec_seq_compat root adds [] [] data bs rest (or_introl eq_refl) H).
    - unfold enc_seq, dec_seq. intros H. unfold rbind. rewrite (dec_root_rt _ _ _ _ H). rewrite app_nil_r. reflexivity.
  Qed.
End CompositeRT.

(** ** The type-directed codec *)
Section Main.
  Variable numeric : bool.
  Variable e : env.

  (** The value a decoder returns for an encoded value: DEFAULT components
      filled in (root and groups), named-bit strings stripped, bit/octet
      strings reduced to the bits that are on the wire, OID arcs in the
      canonical split; absent extension additions stay absent. *)
  Fixpoint norm (fuel : nat) (t : ty) (v : value) {struct fuel} : value :=
    match fuel with
    | O => v
    | S f =>
      match t with
      | TNull => VNone
      | TBits named sz =>
        match v with
        | VBits b n => norm_bitstring (match named with Some _ => true | None => false end) sz b n
        | _ => v
        end
      | TOctets _ => match v with VBytes b => VBytes (norm_bytes b) | _ => v end
      | TOid => match v with VOid a => VOid (norm_oid a) | _ => v end
      | TSeq _ root ext =>
        match v with
        | VSeq data => norm_seq (enc numeric e f) (norm f) (resolve e f) root ext data
        | _ => v
        end
      | TSeqOf _ elem _ => match v with VList vs => VList (map (norm f elem) vs) | _ => v end
      | TChoice root ext =>
        match v with
        | VChoice name x =>
          match find_alt name root 0 with
          | Some (_, m) => VChoice name (norm f (m_ty m) x)
          | None =>
            match ext with
            | Some adds =>
              match find_alt name adds 0 with
              | Some (_, m) => VChoice name (norm f (m_ty m) x)
              | None => v
              end
            | None => v
            end
          end
        | _ => v
        end
      | TRef n => match lookup n e with Some t' => norm f t' v | None => v end
      | TTag _ t' => norm f t' v
      | _ => v
      end
    end.

  Theorem enc_dec_rt : forall fuel t v bs,
    enc numeric e fuel t v = Ok bs ->
    forall rest, dec numeric e fuel t (bs ++ rest) = Ok (norm fuel t v, rest).
  Proof.
    induction fuel as [|f IH]; intros t v bs; [discriminate|].
    destruct t; cbn [enc dec norm].
    - (* BOOLEAN *)
      destruct v; cbn [as_bool bind]; try discriminate. intros H rest.
      assert (bs = [b]) by congruence. subst. reflexivity.
    - (* NULL *)
      intros H rest. assert (bs = []) by congruence. subst. reflexivity.
    - (* INTEGER *)
      destruct v; try discriminate. intros H rest. unfold rbind. rewrite (read_int_rt _ _ _ _ H). reflexivity.
    - (* ENUMERATED *)
      intros H rest. apply read_enum_rt. exact H.
    - (* BIT STRING *)
      destruct v; try discriminate. intros H rest. apply read_bitstring_rt. exact H.
    - (* OCTET STRING *)
      destruct v; try discriminate. intros H rest. apply read_octets_rt. exact H.
    - (* character strings *)
      destruct k; destruct v; try discriminate; intros H rest;
        first [apply read_utf8_rt; exact H | apply read_kmstring_rt; exact H].
    - (* OBJECT IDENTIFIER *)
      destruct v; try discriminate. intros H rest. apply read_oid_rt. exact H.
    - (* SEQUENCE / SET *)
      destruct v; try discriminate. intros H rest.
      apply (dec_seq_rt (enc numeric e f) (dec numeric e f) (norm f) (resolve e f) IH). exact H.
    - (* SEQUENCE OF / SET OF *)
      destruct v; try discriminate. intros H rest.
      apply (dec_seqof_rt (enc numeric e f) (dec numeric e f) (norm f) (resolve e f) IH). exact H.
    - (* CHOICE *)
      destruct v; try discriminate. intros H rest.
      destruct (find_alt alt root 0) as [[i m]|] eqn:Ef.
      + apply (dec_choice_rt (enc numeric e f) (dec numeric e f) (norm f) IH root ext alt v bs rest m); [|exact H].
        rewrite Ef. reflexivity.
      + destruct ext as [adds|].
        * destruct (find_alt alt adds 0) as [[i m]|] eqn:Ea.
          -- apply (dec_choice_rt (enc numeric e f) (dec numeric e f) (norm f) IH root (Some adds) alt v bs rest m); [|exact H].
             rewrite Ef, Ea. reflexivity.
          -- unfold enc_choice in H. rewrite Ef, Ea in H. discriminate.
        * unfold enc_choice, enc_choice_root in H. rewrite Ef in H. discriminate.
    - (* reference *)
      destruct (lookup name e) as [t'|]; [|discriminate]. intros H rest. apply IH. exact H.
    - (* tagged *)
      intros H rest. apply IH. exact H.
  Qed.
End Main.

(** ** Octet level: uper.CompiledType.encode / decode *)
Theorem uper_roundtrip numeric fuel e t v data :
  uper_encode numeric fuel e t v = Ok data ->
  forall tail, exists n,
    uper_decode numeric fuel e t (data ++ tail) = Ok (norm numeric e fuel t v, n) /\
    (n <= 8 * length data)%nat /\ (8 * length data < n + 8)%nat.
Proof.
  unfold uper_encode, uper_decode. destruct (enc numeric e fuel t v) as [bs|] eqn:E; [|discriminate].
  cbn [bind]. intros H tail. assert (data = bits_to_bytes bs) by congruence. subst data.
  rewrite bytes_to_bits_app, bytes_bits_roundtrip, <- app_assoc.
  rewrite (enc_dec_rt numeric e fuel t v bs E).
  exists (length bs). split.
  - f_equal. f_equal. rewrite !app_length. lia.
  - pose proof (bits_to_bytes_length bs) as Hl.
    pose proof (Nat.mod_upper_bound (8 - length bs mod 8) 8 ltac:(lia)). lia.
Qed.

(** C16 for encoder outputs: every strict octet prefix of an encoding is a decode error. *)
Theorem uper_truncation numeric fuel e t v data :
  uper_encode numeric fuel e t v = Ok data ->
  forall k, (k < length data)%nat ->
    exists x, uper_decode numeric fuel e t (firstn k data) = Err x /\ is_decode_error x = true.
Proof.
  intros H k Hk. destruct (uper_roundtrip _ _ _ _ _ _ H []) as (n & Hd & Hle & Hgt).
  rewrite app_nil_r in Hd.
  apply (uper_decode_truncation _ _ _ _ _ _ _ Hd); [lia | exact Hk].
Qed.

(** ** X.691 characterisations of the model's width computations (C05) *)

(** 10.5.6/10.5.7.1: a constrained whole number of range [hi - lo + 1] uses
    the SMALLEST field that can hold [hi - lo]. *)
Theorem constrained_width_minimal lo hi :
  lo <= hi ->
  let n := bit_length (hi - lo) in
  hi - lo < 2 ^ n /\ forall m, 0 <= m < n -> 2 ^ m <= hi - lo.
Proof.
  intros H n. unfold n. destruct (Z.eq_dec (hi - lo) 0) as [E|E].
  - rewrite E. cbn. split; [lia|]. intros m Hm. lia.
  - pose proof (bit_length_pos (hi - lo) ltac:(lia)) as Hb. split; [lia|].
    intros m Hm. assert (2 ^ m <= 2 ^ (bit_length (hi - lo) - 1)) by (apply pow2_le_mono; lia). lia.
Qed.

(** 10.8 / 12.2.6: an unconstrained whole number is a 2's-complement binary
    integer in the MINIMUM number of octets. *)
Theorem unconstrained_octets_minimal v :
  let n := unc_nbytes v in
  (- 2 ^ (8 * n - 1) <= v < 2 ^ (8 * n - 1)) /\
  (1 < n -> ~ (- 2 ^ (8 * (n - 1) - 1) <= v < 2 ^ (8 * (n - 1) - 1))).
Proof.
  cbv zeta. split; [apply unc_nbytes_fits|].
  unfold unc_nbytes. pose proof (bit_length_nonneg v) as Hnb.
  destruct (v <? 0) eqn:Eneg.
  - assert (Hb : 2 ^ (bit_length (- v) - 1) <= - v < 2 ^ bit_length (- v)) by (apply bit_length_pos; lia).
    assert (Hbl : bit_length v = bit_length (- v)).
    { unfold bit_length. rewrite Z.abs_opp. destruct (v =? 0) eqn:E0; destruct (- v =? 0) eqn:E1; lia. }
    rewrite <- Hbl in Hb. set (nb := bit_length v) in *. set (n0 := (nb + 7) / 8).
    assert (Hnb1 : 1 <= nb).
    { destruct (Z.eq_dec nb 0) as [E|E]; [rewrite E in Hb; simpl in Hb; lia | lia]. }
    assert (Hn0 : nb <= 8 * n0 /\ 8 * n0 < nb + 8) by (unfold n0; lia).
    assert (Hle : 2 ^ nb <= 2 ^ (8 * n0)) by (apply pow2_le_mono; lia).
    rewrite (testbit_top (2 ^ (8 * n0) + v) (8 * n0)) by lia.
    assert (H2 : 2 ^ (8 * n0) = 2 * 2 ^ (8 * n0 - 1)).
    { replace (8 * n0) with (8 * n0 - 1 + 1) at 1 by lia. rewrite Z.pow_add_r by lia. change (2 ^ 1) with 2. lia. }
    destruct (2 ^ (8 * n0 - 1) <=? 2 ^ (8 * n0) + v) eqn:E; cbn [negb].
    + (* n = n0: v does not fit in n0 - 1 octets because -v >= 2^(nb-1) and nb - 1 >= 8 (n0 - 1) - 1 ... *)
      intros Hn [Hlo _]. assert (8 * (n0 - 1) - 1 <= nb - 1 - 1 \/ 8 * (n0 - 1) - 1 = nb - 1) as [Hc|Hc] by lia.
      * assert (2 ^ (8 * (n0 - 1) - 1) <= 2 ^ (nb - 1 - 1)) by (apply pow2_le_mono; lia).
        assert (2 ^ (nb - 1) = 2 * 2 ^ (nb - 1 - 1)).
        { replace (nb - 1) with (nb - 1 - 1 + 1) at 1 by lia. rewrite Z.pow_add_r by lia. change (2 ^ 1) with 2. lia. }
        assert (0 < 2 ^ (nb - 1 - 1)) by (apply pow2_pos; lia). lia.
      * (* nb = 8 (n0 - 1): then 8 n0 = nb + 8 contradicts 8 n0 < nb + 8 *) lia.
    + intros Hn [Hlo _]. replace (n0 + 1 - 1) with n0 in Hlo by lia. lia.
  - destruct (v >? 0) eqn:Epos.
    + assert (Hb : 2 ^ (bit_length v - 1) <= v < 2 ^ bit_length v) by (apply bit_length_pos; lia).
      set (nb := bit_length v) in *. set (n0 := (nb + 7) / 8).
      assert (Hnb1 : 1 <= nb).
      { destruct (Z.eq_dec nb 0) as [E|E]; [rewrite E in Hb; simpl in Hb; lia | lia]. }
      assert (Hn0 : nb <= 8 * n0 /\ 8 * n0 < nb + 8) by (unfold n0; lia).
      destruct (nb =? 8 * n0) eqn:E.
      * intros Hn [_ Hhi]. replace (n0 + 1 - 1) with n0 in Hhi by lia.
        assert (nb - 1 = 8 * n0 - 1) by lia. rewrite <- H in Hhi. lia.
      * intros Hn [_ Hhi].
        assert (2 ^ (8 * (n0 - 1) - 1) <= 2 ^ (nb - 1)) by (apply pow2_le_mono; lia). lia.
    + intros Hn. lia.
Qed.
