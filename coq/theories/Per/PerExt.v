(** Extension additions in the ALIGNED PER model (the C07 analogue of
    Per/UperExt.v): SEQUENCE/SET additions and CHOICE alternatives appended
    after the existing ones keep two versions interoperable, positionally
    (relation [ERT]); plus totality facts (the C08 analogue). *)
From Asn1V Require Import Base.Prelude Base.Sweep Base.Bits Base.BitsProofs
     Syntax.Asn1 Per.UperImpl Per.UperPrim Per.UperPB Per.UperRT Per.UperExt Per.UperTotal
     Per.PerImpl Per.PerPrim Per.PerPB Per.PerRT.

Ltac Zify.zify_post_hook ::= Z.div_mod_to_equations.

Section PExtMain.
  Variable numeric : bool.
  Variable e : env.

  (** forward: a version-2 encoding (additions [common ++ new]) decoded by
      version 1 (additions [common]) gives the version-1 view of the value. *)
  Theorem per_seq_forward f isset root common new data :
    ERT (penc_ty numeric e (S f) (TSeq isset root (Some (common ++ new))) (VSeq data))
        (pdec_ty numeric e (S f) (TSeq isset root (Some common)))
        (VSeq (norm_members (pnorm numeric e f) (resolve e f) root data ++
               pnorm_adds (penc_ty numeric e f) (pnorm numeric e f) (resolve e f) common data)).
  Proof.
    cbn [penc_ty pdec_ty].
    pose proof (ERT_seq_compat (penc_ty numeric e f) (pdec_ty numeric e f) (pnorm numeric e f) (resolve e f)
                               (penc_pdec_rt numeric e f) root common new [] data (or_intror eq_refl)) as Hc.
    rewrite app_nil_r in Hc. exact Hc.
  Qed.

  (** backward: a version-1 encoding decoded by version 2 gives the same value *)
  Theorem per_seq_backward f isset root common new data :
    ERT (penc_ty numeric e (S f) (TSeq isset root (Some common)) (VSeq data))
        (pdec_ty numeric e (S f) (TSeq isset root (Some (common ++ new))))
        (pnorm numeric e (S f) (TSeq isset root (Some common)) (VSeq data)).
  Proof.
    cbn [penc_ty pdec_ty pnorm]. unfold pnorm_seq.
    pose proof (ERT_seq_compat (penc_ty numeric e f) (pdec_ty numeric e f) (pnorm numeric e f) (resolve e f)
                               (penc_pdec_rt numeric e f) root common [] new data (or_introl eq_refl)) as Hc.
    rewrite app_nil_r in Hc. exact Hc.
  Qed.

  (** CHOICE: an alternative both versions know is encoded identically by both *)
  Lemma p_choice_known f root common new name x :
    (find_alt name root 0 <> None \/ find_alt name common 0 <> None) ->
    p_choice (penc_ty numeric e f) root (Some (common ++ new)) (VChoice name x)
    = p_choice (penc_ty numeric e f) root (Some common) (VChoice name x).
  Proof.
    intros H. unfold p_choice. destruct (find_alt name root 0) as [[i m]|]; [reflexivity|].
    rewrite find_alt_app. destruct (find_alt name common 0) as [[j m]|]; [reflexivity|].
    destruct H as [H|H]; congruence.
  Qed.

  Theorem per_choice_known_alternative f root common new name x :
    (find_alt name root 0 <> None \/ find_alt name common 0 <> None) ->
    ERT (penc_ty numeric e (S f) (TChoice root (Some (common ++ new))) (VChoice name x))
        (pdec_ty numeric e (S f) (TChoice root (Some common)))
        (pnorm numeric e (S f) (TChoice root (Some common)) (VChoice name x)) /\
    ERT (penc_ty numeric e (S f) (TChoice root (Some common)) (VChoice name x))
        (pdec_ty numeric e (S f) (TChoice root (Some (common ++ new))))
        (pnorm numeric e (S f) (TChoice root (Some (common ++ new))) (VChoice name x)).
  Proof.
    intros H. split.
    - intros st st' E. cbn [penc_ty] in E. rewrite (p_choice_known f root common new name x H) in E.
      apply (penc_pdec_rt numeric e (S f) (TChoice root (Some common)) (VChoice name x)). exact E.
    - intros st st' E. cbn [penc_ty] in E. rewrite <- (p_choice_known f root common new name x H) in E.
      apply (penc_pdec_rt numeric e (S f) (TChoice root (Some (common ++ new))) (VChoice name x)). exact E.
  Qed.
End PExtMain.

(** ** Totality (C08 analogue): the only loop not bounded by a decoded count,
    the 16K-fragment loop, never exhausts its input-derived fuel. *)
Lemma PBA_read_frag_not_fuel {A} (rd : reader A) :
  PBA rd -> never_fuel rd -> forall f bs, (length bs / 8 < f)%nat -> read_frag f rd bs <> Err EFuel.
Proof.
  intros Hpb Hnf. induction f as [|f IH]; intros bs Hf; [lia|]. cbn [read_frag]. unfold rbind.
  destruct (read_len bs) as [[n r1]|x] eqn:E1.
  - pose proof (read_len_consumes _ _ _ E1) as H8.
    destruct (read_n (Z.to_nat n) rd r1) as [[items r2]|x] eqn:E2.
    + destruct (n <? 16384); [discriminate|].
      pose proof (PBA_length _ _ _ _ (PBA_read_n (Z.to_nat n) rd Hpb) E2) as Hle.
      destruct (read_frag f rd r2) as [[more r3]|x] eqn:E3; [discriminate|].
      intros H. apply (IH r2); [lia|congruence].
    + intros H. apply (read_n_not_fuel (Z.to_nat n) rd Hnf r1). congruence.
  - intros H. apply (read_len_not_fuel bs). congruence.
Qed.

Theorem PBA_read_frag_auto_not_fuel {A} (rd : reader A) : PBA rd -> never_fuel rd -> never_fuel (read_frag_auto rd).
Proof. intros Hpb Hnf bs. unfold read_frag_auto. apply PBA_read_frag_not_fuel; auto; lia. Qed.

Print Assumptions per_seq_forward.
Print Assumptions per_seq_backward.
Print Assumptions per_choice_known_alternative.
