(** C08, work bound for the UPER decoder model: non-vacuity and tightness.

    - the constant [K] computed for two realistic types (the nested extensible
      recursive type of Props/C01.v, and a type with fixed-size arrays);
    - the measured step count of the instrumented decoder on hostile inputs
      next to the bound;
    - the constant's dominant factor is real: under [SEQUENCE OF NULL] every
      input octet 0xC4 makes the decoder run 65536 iterations (and build
      65536 list cells), for every number of octets. *)
From Asn1V Require Import Base.Prelude Base.Bits Base.BitsProofs Syntax.Asn1.
From Asn1V Require Import Per.UperImpl Per.UperCost Per.UperCostProofs.
From Coq Require Import NArith.
Local Open Scope string_scope.

(** ** 1. The example type of Props/C01.v (copied: [ex_env], [ex_ty], [ex_val]) *)

Definition ex_env : env :=
  [("R", TSeq false [("v", TInt (IcRange (Some 0) (Some 255) false), Mandatory);
                     ("next", TRef "R", Optional)] None)].
Definition ex_ty : ty :=
  TSeq false
       [("a", TChoice [("i", TInt IcNone, Mandatory); ("s", TStr SkIA5 (SzRange 1 (Some 4) false) None, Mandatory)]
                      (Some [("r", TRef "R", Mandatory)]), Mandatory);
        ("b", TBits (Some [("x", 0); ("y", 3)]) SzNone, Default (VBits [128] 1));
        ("c", TEnum [("e0", 5); ("e1", 1)] (Some [("e2", 9)]), Optional)]
       (Some [(true, [("g", TBool, Mandatory); ("h", TOctets (SzRange 0 (Some 3) true), Optional)])]).
Definition ex_val : value :=
  VSeq [("a", VChoice "r" (VSeq [("v", VInt 7); ("next", VSeq [("v", VInt 200)])]));
        ("b", VBits [144; 0] 9); ("c", VEnum "e2"); ("g", VBool true); ("h", VBytes [1; 2; 3; 4; 5])].

(** the valid encoding of [ex_val] (17 octets) *)
Definition ex_data : list Z := [240; 0; 112; 118; 64; 0; 147; 0; 2; 15; 193; 64; 64; 128; 193; 1; 64].
Example ex_data_is_encoding : uper_encode false 12 ex_env ex_ty ex_val = Ok ex_data.
Proof. vm_compute. reflexivity. Qed.

(** [ex_ty] reaches the recursive type R, so its constant depends on the
    fuel (= the recursion limit): 214 steps + 15 steps per input bit at fuel
    12, 32 more additive steps for 8 more levels. *)
Example K_ex_ty_12 :
  Kabw ex_env 12 ex_ty = ABW 214 15 true /\ K ex_env 12 ex_ty = 229%N /\ K ex_env 20 ex_ty = 261%N.
Proof. vm_compute. repeat split; reflexivity. Qed.

(** measured on the valid encoding, on a truncation of it, and on its first
    four octets followed by 35 octets 0xFF: steps, and the bound
    [K * (8 * octets + 1)] *)
Example ex_ty_measured :
  snd (uper_decode_cost false 12 ex_env ex_ty ex_data) = 72%N /\
  (72 <=? K ex_env 12 ex_ty * (8 * 17 + 1))%N = true /\
  uper_decode_cost false 12 ex_env ex_ty (firstn 9 ex_data) = (Err EOutOfData, 51%N) /\
  (51 <=? K ex_env 12 ex_ty * (8 * 9 + 1))%N = true /\
  uper_decode_cost false 12 ex_env ex_ty (firstn 4 ex_data ++ repeat 255 35)%list = (Err EDecode, 33%N) /\
  (33 <=? K ex_env 12 ex_ty * (8 * 39 + 1))%N = true.
Proof. vm_compute. repeat split; reflexivity. Qed.

(** ** 2. A type with fixed-size arrays, acyclic of depth 4 *)

Definition arr_ty : ty :=
  TSeq false
    [("m", TSeqOf false (TSeqOf false TBool (SzRange 8 (Some 8) false)) (SzRange 4 (Some 4) false), Mandatory);
     ("n", TSeqOf false TNull (SzRange 100 (Some 100) false), Mandatory);
     ("o", TOctets (SzRange 16 (Some 16) false), Mandatory);
     ("z", TSeqOf false TNull SzNone, Optional)] None.

(** 221 additive steps (200 of them: the 100 iterations over NULL, which no
    input bit pays for) and 16385 steps per input bit (member z: 65536
    zero-width elements per 8-bit fragment determinant) *)
Example K_arr_ty :
  fits [] 3 arr_ty = false /\ fits [] 4 arr_ty = true /\
  Kabw [] 4 arr_ty = ABW 221 16385 true /\ K [] 4 arr_ty = 16606%N.
Proof. vm_compute. repeat split; reflexivity. Qed.

(** ... whatever fuel the decoder runs with *)
Example K_arr_ty_any_fuel fuel : (4 <= fuel)%nat -> K [] fuel arr_ty = 16606%N.
Proof. intros H. rewrite (K_fuel_stable [] 4 arr_ty fuel); [reflexivity | reflexivity | exact H]. Qed.

Example arr_ty_bound numeric fuel inp :
  (4 <= fuel)%nat ->
  (snd (dec_cost numeric [] fuel arr_ty inp) <= 16606 * (N.of_nat (length inp) + 1))%N.
Proof. intros H. apply (dec_cost_bound_acyclic numeric [] 4 arr_ty fuel inp); [reflexivity|exact H]. Qed.

(** three hostile bit strings: (a) presence bit set, 32 + 128 one bits for m
    and o, then two 16K-fragments of NULLs and the final determinant 0:
    succeeds with 65889 steps on 185 bits; (b) the same with a third fragment
    marker instead of the end: runs out of data after 98659 steps; (c) 161
    zero bits: 346 steps. *)
Example arr_ty_measured :
  let a := (repeat true 161 ++ bytes_to_bits [193; 193; 0])%list in
  let b := (repeat true 161 ++ bytes_to_bits [193; 193; 193])%list in
  let c := repeat false 161 in
  (length a = 185%nat /\ snd (dec_cost false [] 5 arr_ty a) = 65889%N /\
   (65889 <=? 16606 * (185 + 1))%N = true) /\
  (match fst (dec_cost false [] 5 arr_ty b) with Err EOutOfData => True | _ => False end /\
   snd (dec_cost false [] 5 arr_ty b) = 98659%N /\ (98659 <=? 16606 * (185 + 1))%N = true) /\
  (snd (dec_cost false [] 5 arr_ty c) = 346%N /\ (346 <=? 16606 * (161 + 1))%N = true).
Proof. vm_compute. repeat split; reflexivity. Qed.

(** ** 3. The factor 8192 per bit (65536 per fragment octet) is reached *)

Local Close Scope string_scope.
Local Open Scope N_scope.

Lemma c_read_n_null numeric e f n bs :
  c_read_n n (dec_cost numeric e (S f) TNull) bs = (Ok (repeat VNone n, bs), 2 * N.of_nat n).
Proof.
  assert (Hrd : forall bs, dec_cost numeric e (S f) TNull bs = (Ok (VNone, bs), 1)) by reflexivity.
  set (rd := dec_cost numeric e (S f) TNull) in *.
  induction n as [|n IH]; [reflexivity|].
  cbn [c_read_n repeat]. unfold tick, cbind at 1. rewrite Hrd.
  unfold cbind. rewrite IH. unfold cret. f_equal. lia.
Qed.

Lemma c_read_len_const v rest :
  (v = 196 \/ v = 0)%Z ->
  c_read_len (to_bits 8 v ++ rest) = (Ok (if (v =? 0)%Z then 0%Z else 65536%Z, rest), 1).
Proof.
  intros Hv. unfold c_read_len, cbind, c_read_uint, prim.
  rewrite read_uint_app by (change (2 ^ Z.of_nat 8)%Z with 256%Z; lia).
  destruct Hv as [-> | ->]; reflexivity.
Qed.

Lemma c_read_frag_null numeric e f k : forall fuel rest,
  (k <= fuel)%nat ->
  c_read_frag (S fuel) (dec_cost numeric e (S f) TNull) (bytes_to_bits (repeat 196%Z k ++ [0%Z]) ++ rest)
  = (Ok (repeat VNone (k * Z.to_nat 65536), rest), 131074 * N.of_nat k + 2).
Proof.
  induction k as [|k IH]; intros fuel rest Hle.
  - cbn [repeat app bytes_to_bits flat_map c_read_frag]. rewrite app_nil_r.
    unfold tick, cbind at 1. rewrite c_read_len_const by lia. cbn [Z.eqb].
    change (Z.to_nat 0) with 0%nat. cbn [c_read_n]. unfold cbind, cret. cbn [Z.ltb Z.compare].
    reflexivity.
  - destruct fuel as [|fuel]; [lia|].
    cbn [repeat app bytes_to_bits flat_map]. rewrite <- app_assoc.
    change (flat_map (to_bits 8) (repeat 196%Z k ++ [0%Z])) with (bytes_to_bits (repeat 196%Z k ++ [0%Z])).
    remember (S fuel) as fuel' eqn:Ef. cbn [c_read_frag]. subst fuel'.
    unfold tick, cbind at 1. rewrite c_read_len_const by lia.
    change (196 =? 0)%Z with false. cbv iota.
    unfold cbind at 1. rewrite c_read_n_null.
    change (65536 <? 16384)%Z with false. cbv iota.
    unfold cbind at 1. rewrite (IH fuel rest ltac:(lia)). unfold cret.
    f_equal; try lia; rewrite <- repeat_app; do 3 f_equal; lia.
Qed.

(** [k] octets 0xC4 and a final 0x00 decode, under SEQUENCE OF NULL, to a list
    of [65536 * k] elements in [131074 * k + 3] steps: 16384 steps (and 8192
    list cells) per input bit, for every [k].  The bound of [dec_cost_bound]
    for this type is 16385 steps per bit plus 4. *)
Theorem uper_seqof_null_amplification numeric e f isset k :
  uper_decode_cost numeric (S (S f)) e (TSeqOf isset TNull SzNone) (repeat 196%Z k ++ [0%Z])
  = (Ok (VList (repeat VNone (k * Z.to_nat 65536)), (8 * (k + 1))%nat), 131074 * N.of_nat k + 3).
Proof.
  unfold uper_decode_cost.
  change (dec_cost numeric e (S (S f)) (TSeqOf isset TNull SzNone))
    with (tick 1 (c_dec_seqof (dec_cost numeric e (S f)) TNull SzNone)).
  unfold tick, c_dec_seqof. cbn [size_ext size_unbound].
  unfold cbind, c_read_frag_auto.
  set (inp := bytes_to_bits (repeat 196%Z k ++ [0%Z])).
  assert (Hl : length inp = (8 * (k + 1))%nat).
  { unfold inp. rewrite bytes_to_bits_len, app_length, repeat_length. cbn [length]. lia. }
  assert (Hf : (k <= length inp / 8)%nat).
  { apply Nat.div_le_lower_bound; lia. }
  pose proof (c_read_frag_null numeric e f k (length inp / 8)%nat [] Hf) as H.
  rewrite app_nil_r in H. fold inp in H. rewrite H. unfold cret. rewrite Hl. cbn [length].
  f_equal; [|lia]. do 2 f_equal. lia.
Qed.

(** in particular no constant below 16384 steps per input bit works for this
    type: the witness family makes at least [16384 * (input bits - 8)] steps *)
Corollary uper_seqof_null_steps_per_bit numeric e f isset k :
  16384 * (N.of_nat (8 * (k + 1)) - 8)
  <= snd (uper_decode_cost numeric (S (S f)) e (TSeqOf isset TNull SzNone) (repeat 196%Z k ++ [0%Z])).
Proof. rewrite uper_seqof_null_amplification. cbn [snd]. lia. Qed.

Example K_seqof_null : Kabw [] 2 (TSeqOf false TNull SzNone) = ABW 4 16385 true.
Proof. vm_compute. reflexivity. Qed.

(** ** 4. Recursive types: bounds that hold for every fuel *)

Local Close Scope N_scope.
Local Open Scope string_scope.

(** the linked list R of [ex_env]: with the rate B = 4 steps per bit the body
    of R stays within the assumed debt (0 on success, 8 on an error) at every
    fuel, so decoding R, at ANY fuel and however deep the value recurses, makes
    at most [9 + 4 * bits] steps (9 = the call through the reference plus the
    error debt); [ex_ty] (nesting depth 5 up to the cut at R) makes at most
    [132 + 4 * bits] steps.  Compare [K_ex_ty_12]: 214 + 15 per bit at fuel 12,
    growing with the fuel. *)
Definition ex_rho : list (string * dk) := [("R", DK 0 8 true)].

Example ex_rho_ok : rho_ok 4 1000 ex_rho ex_env 3 = true.
Proof. vm_compute. reflexivity. Qed.

Example R_bound_any_fuel numeric fuel inp :
  (2 <= fuel)%nat ->
  Z.of_N (snd (dec_cost numeric ex_env fuel (TRef "R") inp)) <= 9 + 4 * Z.of_nat (length inp).
Proof.
  intros H.
  apply (dec_cost_bound_rec_stable numeric 4 1000 ex_rho ex_env 3 2 fuel (TRef "R") inp);
    [lia | exact ex_rho_ok | reflexivity | exact H | reflexivity].
Qed.

Example ex_ty_bound_any_fuel numeric fuel inp :
  (5 <= fuel)%nat ->
  Z.of_N (snd (dec_cost numeric ex_env fuel ex_ty inp)) <= 132 + 4 * Z.of_nat (length inp).
Proof.
  intros H.
  apply (dec_cost_bound_rec_stable numeric 4 1000 ex_rho ex_env 3 5 fuel ex_ty inp);
    [lia | exact ex_rho_ok | reflexivity | exact H | reflexivity].
Qed.

(** a list of 40 links (41 * 9 bits) decoded with fuel 100: 328 steps, within
    9 + 4 * 369; the same input cut after 300 bits: an error after 271 steps *)
Definition R_bits (k : nat) : bits :=
  (flat_map (fun _ => true :: to_bits 8 7) (seq 0 k) ++ false :: to_bits 8 200)%list.

Example R_measured :
  length (R_bits 40) = 369%nat /\
  snd (dec_cost false ex_env 100 (TRef "R") (R_bits 40)) = 328%N /\
  (match fst (dec_cost false ex_env 100 (TRef "R") (R_bits 40)) with Ok (_, []) => True | _ => False end) /\
  dec_cost false ex_env 100 (TRef "R") (firstn 300 (R_bits 40)) = (Err EOutOfData, 271%N).
Proof. vm_compute. repeat split; reflexivity. Qed.

(** a tree type that recurses through a CHOICE, twice through a SEQUENCE, and
    through an unbounded SEQUENCE OF: with B = 5 every decode of T leaves a
    credit of 2 steps, which pays for the iteration of the SEQUENCE OF loop;
    at most [11 + 5 * bits] steps at any fuel *)
Definition tree_env : env :=
  [("T", TChoice [("leaf", TNull, Mandatory);
                  ("node", TSeq false [("l", TRef "T", Mandatory); ("r", TRef "T", Mandatory)] None, Mandatory);
                  ("list", TSeqOf false (TRef "T") SzNone, Mandatory)] None)].
Definition tree_rho : list (string * dk) := [("T", DK (-2) 10 true)].

Example tree_rho_ok : rho_ok 5 1000 tree_rho tree_env 4 = true.
Proof. vm_compute. reflexivity. Qed.

Example tree_bound_any_fuel numeric fuel inp :
  (2 <= fuel)%nat ->
  Z.of_N (snd (dec_cost numeric tree_env fuel (TRef "T") inp)) <= 11 + 5 * Z.of_nat (length inp).
Proof.
  intros H.
  apply (dec_cost_bound_rec_stable numeric 5 1000 tree_rho tree_env 4 2 fuel (TRef "T") inp);
    [lia | exact tree_rho_ok | reflexivity | exact H | reflexivity].
Qed.

(** an UNGUARDED recursion consumes nothing per level, so only the fuel (in
    Python: the interpreter's recursion limit, RecursionError) stops it: the
    step count is proportional to the fuel, whatever the input - no constant
    independent of the fuel exists for such a specification. *)
Definition loop_env : env := [("L", TSeq false [("a", TRef "L", Mandatory)] None)].

Fixpoint loop_cost (f : nat) : N :=
  match f with
  | O => 1
  | S O => 2
  | S (S f') => 3 + loop_cost f'
  end.

Lemma loop_step numeric f inp c :
  dec_cost numeric loop_env f (TRef "L") inp = (Err EFuel, c) ->
  dec_cost numeric loop_env (S (S f)) (TRef "L") inp = (Err EFuel, (3 + c)%N).
Proof.
  intros H.
  change (dec_cost numeric loop_env (S (S f)) (TRef "L"))
    with (tick 1 (tick 1 (c_dec_seq (dec_cost numeric loop_env f) [("a", TRef "L", Mandatory)] None))).
  unfold tick, c_dec_seq, c_dec_root. cbn [filter has_presence_bit m_opt snd length c_read_n].
  unfold cbind at 1. unfold cbind at 1. unfold cret at 1.
  cbn [c_dec_members has_presence_bit m_opt m_ty snd fst]. unfold tick, cbind at 1. rewrite H.
  f_equal. lia.
Qed.

Theorem unguarded_recursion_costs_the_fuel numeric f inp :
  dec_cost numeric loop_env f (TRef "L") inp = (Err EFuel, loop_cost f) /\ (N.of_nat f <= loop_cost f)%N.
Proof.
  assert (H : forall f, (dec_cost numeric loop_env f (TRef "L") inp = (Err EFuel, loop_cost f)
                         /\ (N.of_nat f <= loop_cost f)%N) /\
                        (dec_cost numeric loop_env (S f) (TRef "L") inp = (Err EFuel, loop_cost (S f))
                         /\ (N.of_nat (S f) <= loop_cost (S f))%N)).
  { induction f0 as [|f0 [[IH1 IH1'] [IH2 IH2']]].
    - split; split; try reflexivity; cbn; lia.
    - split; [split; assumption|]. split.
      + cbn [loop_cost]. apply loop_step, IH1.
      + cbn [loop_cost]. lia. }
  apply H.
Qed.

Print Assumptions uper_seqof_null_amplification.
Print Assumptions unguarded_recursion_costs_the_fuel.
