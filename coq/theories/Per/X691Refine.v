(** The implementation model of the unaligned PER encoder ([Per/UperImpl.v],
    compared bit for bit with asn1tools/codecs/uper.py on every run) computes
    exactly the X.691 specification model ([Per/X691.v]) on a stated scope:

      uper_refines_x691 :
        x691_scope numeric e fuel t v = true ->
        enc numeric e fuel t v = x691_encode numeric e fuel t v

    (equality of [result bits]: errors agree as well).  [x691_scope] is a
    boolean predicate on the type and the value, defined with the
    specification model only; it excludes the regions where the library is
    known to deviate from X.691 or where the implementation model says
    [EUnmodelled] / [EForeign].  Every excluded region that is a deviation has
    an [Example ..._deviates] at the end of this file.

    Organisation: one lemma per clause ([..._refines]), then induction on the
    fuel with the nested codec as a section variable (as in [UperRT.v]). *)
From Asn1V Require Import Base.Prelude Base.Sweep Base.Bits Base.BitsProofs Base.Utf8 Syntax.Asn1
     Per.UperImpl Per.UperPrim Per.UperPB Per.UperRT Per.X691.
From Coq Require Import Permutation Sorted.

Ltac Zify.zify_post_hook ::= Z.div_mod_to_equations.
(** * Clause 11 primitives *)

Lemma width_bit_length d : 0 <= d -> width (d + 1) = Z.to_nat (bit_length d).
Proof.
  intros H. unfold width, bit_length. destruct (d =? 0) eqn:E.
  - assert (d = 0) by lia. subst. reflexivity.
  - f_equal. rewrite Z.log2_up_eqn by lia. rewrite Z.abs_eq by lia.
    replace (Z.pred (d + 1)) with d by lia. lia.
Qed.

Lemma to_bits_app a b v :
  to_bits (a + b) v = to_bits a (Z.shiftr v (Z.of_nat b)) ++ to_bits b v.
Proof.
  induction a as [|a IH]; [reflexivity|].
  cbn [Nat.add to_bits app]. rewrite IH. f_equal.
  rewrite Z.shiftr_spec by lia. f_equal. lia.
Qed.

Lemma be_octets_length k v : length (be_octets k v) = k.
Proof. induction k as [|k IH]; cbn [be_octets length]; congruence. Qed.

Lemma be_octets_concat k v : concat (be_octets k v) = to_bits (8 * k) v.
Proof.
  induction k as [|k IH]; [reflexivity|].
  cbn [be_octets concat]. rewrite IH.
  replace (8 * S k)%nat with (8 + 8 * k)%nat by lia.
  rewrite (to_bits_app 8 (8 * k) v). do 2 f_equal. f_equal. lia.
Qed.

Definition len_short_ok (n : Z) : bool := bits_eqb (len_short n) (enc_len_short n).

Lemma len_short_eq n : 0 <= n < 16384 -> len_short n = enc_len_short n.
Proof.
  intros H. apply bits_eqb_eq.
  apply (sweep len_short_ok 0 (Z.to_nat 16384)); [vm_compute; reflexivity | lia].
Qed.

Lemma enc_len_single_eq n :
  0 <= n -> enc_len_single n = if n <? 16384 then Ok (len_short n) else Err EUnmodelled.
Proof.
  intros H. unfold enc_len_single. destruct (n <? 16384) eqn:E; [|reflexivity].
  rewrite len_short_eq by lia. reflexivity.
Qed.

Lemma frag_small fuel (items : list bits) :
  Z.of_nat (length items) < 16384 ->
  frag fuel items = len_short (Z.of_nat (length items)) ++ concat items.
Proof.
  intros H. destruct fuel; cbn [frag]; destruct (Z.of_nat (length items) <? 16384) eqn:E; try lia; reflexivity.
Qed.

Lemma unbounded_small (items : list bits) :
  Z.of_nat (length items) < 16384 ->
  unbounded_count items = len_short (Z.of_nat (length items)) ++ concat items.
Proof. apply frag_small. Qed.

(** map_result *)
Lemma map_result_app {A B} (f : A -> result B) a b :
  map_result f (a ++ b) = (let* x := map_result f a in let* y := map_result f b in Ok (x ++ y)).
Proof.
  induction a as [|x a IH]; cbn [map_result app bind].
  - destruct (map_result f b); reflexivity.
  - destruct (f x); cbn [bind]; [|reflexivity]. rewrite IH.
    destruct (map_result f a); cbn [bind]; [|reflexivity].
    destruct (map_result f b); reflexivity.
Qed.

Lemma map_result_length {A B} (f : A -> result B) l r : map_result f l = Ok r -> length r = length l.
Proof.
  revert r. induction l as [|x l IH]; intros r; cbn [map_result].
  - intros H. injection H as <-. reflexivity.
  - destruct (f x); cbn [bind]; [|discriminate]. destruct (map_result f l); cbn [bind]; [|discriminate].
    intros H. injection H as <-. cbn [length]. f_equal. apply IH. reflexivity.
Qed.

Lemma map_result_ext {A B} (f g : A -> result B) l :
  (forall x, In x l -> f x = g x) -> map_result f l = map_result g l.
Proof.
  induction l as [|x l IH]; intros H; [reflexivity|]. cbn [map_result].
  rewrite (H x) by (left; reflexivity). rewrite IH by (intros; apply H; right; assumption). reflexivity.
Qed.

Lemma map_result_ok {A B} (f : A -> B) l : map_result (fun x => Ok (f x)) l = Ok (map f l).
Proof. induction l as [|x l IH]; [reflexivity|]. cbn [map_result map bind]. rewrite IH. reflexivity. Qed.

Lemma enc_all_concat {A} (enc1 : A -> result bits) l :
  enc_all enc1 l = (let* bs := map_result enc1 l in Ok (concat bs)).
Proof.
  induction l as [|x l IH]; [reflexivity|]. cbn [enc_all map_result].
  destruct (enc1 x); cbn [bind]; [|reflexivity]. rewrite IH.
  destruct (map_result enc1 l); reflexivity.
Qed.

Lemma frag_marker_bits m : 1 <= m <= 4 -> to_bits 8 (192 + m) = true :: true :: to_bits 6 m.
Proof.
  intros H. assert (m = 1 \/ m = 2 \/ m = 3 \/ m = 4) as [->|[->|[->| ->]]] by lia; reflexivity.
Qed.

(** the fragmentation procedure of the implementation, on items that are
    already bit strings, is 11.9.3.8 *)
Lemma enc_frag_pure {A} (enc1 : A -> result bits) : forall fuel l,
  Z.of_nat (length l) / 16384 < Z.of_nat fuel ->
  enc_frag fuel enc1 l = (let* bs := map_result enc1 l in Ok (frag fuel bs)).
Proof.
  induction fuel as [|f IH]; intros l Hf; [lia|].
  cbn [enc_frag frag].
  destruct (Z.of_nat (length l) <? 16384) eqn:E.
  - rewrite enc_all_concat. destruct (map_result enc1 l) as [bs|] eqn:Eb; cbn [bind]; [|reflexivity].
    rewrite (map_result_length _ _ _ Eb), E. rewrite len_short_eq by lia. reflexivity.
  - set (n := Z.of_nat (length l)) in *.
    set (m := if n <? 32768 then 1 else if n <? 49152 then 2 else if n <? 65536 then 3 else 4).
    assert (Hm : m = Z.min 4 (n / 16384)).
    { unfold m. destruct (n <? 32768) eqn:E1; [lia|]. destruct (n <? 49152) eqn:E2; [lia|].
      destruct (n <? 65536) eqn:E3; lia. }
    assert (Hm1 : 1 <= m <= 4) by lia.
    set (k := Z.to_nat (16384 * m)).
    assert (Hk : (k <= length l)%nat) by (unfold k; lia).
    replace (map_result enc1 l) with (map_result enc1 (firstn k l ++ skipn k l)) by (rewrite firstn_skipn; reflexivity).
    rewrite map_result_app.
    rewrite enc_all_concat.
    destruct (map_result enc1 (firstn k l)) as [x|] eqn:Ex; cbn [bind]; [|reflexivity].
    assert (Hlx : length x = k) by (rewrite (map_result_length _ _ _ Ex), firstn_length; lia).
    rewrite IH by (rewrite skipn_length; unfold k; lia).
    destruct (map_result enc1 (skipn k l)) as [y|] eqn:Ey; cbn [bind]; [|reflexivity].
    assert (Hly : length y = (length l - k)%nat) by (rewrite (map_result_length _ _ _ Ey), skipn_length; lia).
    rewrite app_length, Hlx, Hly.
    replace (Z.of_nat (k + (length l - k))) with n by (unfold n; lia).
    rewrite E. rewrite <- Hm. replace (Z.to_nat (m * 16384)) with k by (unfold k; lia).
    rewrite frag_marker_bits by lia.
    rewrite firstn_app, Hlx, Nat.sub_diag, <- Hlx, firstn_all. cbn [firstn]. rewrite app_nil_r.
    rewrite skipn_app, Hlx, Nat.sub_diag, <- Hlx, skipn_all. cbn [skipn app].
    reflexivity.
Qed.

Lemma frag_fuel_irrel : forall f1 f2 (items : list bits),
  Z.of_nat (length items) / 16384 < Z.of_nat f1 ->
  Z.of_nat (length items) / 16384 < Z.of_nat f2 ->
  frag f1 items = frag f2 items.
Proof.
  induction f1 as [|f1 IH]; intros f2 items H1 H2; [lia|].
  destruct f2 as [|f2]; [lia|]. cbn [frag].
  destruct (Z.of_nat (length items) <? 16384) eqn:E; [reflexivity|].
  do 4 f_equal. apply IH; rewrite skipn_length; lia.
Qed.

Lemma enc_frag_refines {A} (enc1 : A -> result bits) l :
  enc_frag (frag_fuel l) enc1 l = (let* bs := map_result enc1 l in Ok (unbounded_count bs)).
Proof.
  rewrite enc_frag_pure by (unfold frag_fuel; lia).
  destruct (map_result enc1 l) as [bs|] eqn:E; cbn [bind]; [|reflexivity].
  unfold unbounded_count. f_equal. pose proof (map_result_length _ _ _ E).
  apply frag_fuel_irrel; unfold frag_fuel; lia.
Qed.

(** ** 11.8 unconstrained whole numbers *)

Definition fits (k v : Z) : Prop := - 2 ^ (8 * k - 1) <= v < 2 ^ (8 * k - 1).

Lemma fits_mono k k' v : 1 <= k <= k' -> fits k v -> fits k' v.
Proof.
  unfold fits. intros Hk H. assert (2 ^ (8 * k - 1) <= 2 ^ (8 * k' - 1)) by (apply pow2_le_mono; lia). lia.
Qed.

Lemma twos_octets_spec v :
  let k := twos_octets v in 1 <= k /\ fits k v /\ (1 < k -> ~ fits (k - 1) v).
Proof.
  unfold twos_octets, fits. cbv zeta.
  set (w := if v <? 0 then - v - 1 else v).
  assert (Hw : 0 <= w) by (unfold w; destruct (v <? 0) eqn:E; lia).
  assert (Hfit : forall k, 1 <= k -> (- 2 ^ (8 * k - 1) <= v < 2 ^ (8 * k - 1)) <-> w < 2 ^ (8 * k - 1)).
  { intros k Hk. assert (0 < 2 ^ (8 * k - 1)) by (apply pow2_pos; lia).
    unfold w. destruct (v <? 0) eqn:E; lia. }
  destruct (w =? 0) eqn:E0.
  - split; [lia|]. split; [|lia]. apply Hfit; [lia|]. change (2 ^ (8 * 1 - 1)) with 128. lia.
  - pose proof (Z.log2_spec w ltac:(lia)) as HL. pose proof (Z.log2_nonneg w) as HL0.
    set (L := Z.log2 w) in *. set (k := (L + 1) / 8 + 1).
    assert (Hk : 1 <= k) by (unfold k; lia).
    split; [exact Hk|]. split.
    + apply Hfit; [exact Hk|].
      assert (2 ^ Z.succ L <= 2 ^ (8 * k - 1)) by (apply pow2_le_mono; unfold k; lia). lia.
    + intros Hk1 Hf. apply Hfit in Hf; [|lia].
      assert (2 ^ (8 * (k - 1) - 1) <= 2 ^ L) by (apply pow2_le_mono; unfold k in *; lia). lia.
Qed.

Lemma twos_octets_unc v : twos_octets v = unc_nbytes v.
Proof.
  destruct (twos_octets_spec v) as (H1 & H2 & H3).
  destruct (unconstrained_octets_minimal v) as (G2 & G3).
  destruct (unc_nbytes_fits v) as (G1 & _). cbv zeta in *.
  fold (fits (unc_nbytes v) v) in G2. 
  destruct (Z.lt_trichotomy (twos_octets v) (unc_nbytes v)) as [Hlt|[Heq|Hgt]]; [|exact Heq|].
  - exfalso. apply G3; [lia|]. apply (fits_mono (twos_octets v)); [lia|exact H2].
  - exfalso. apply H3; [lia|]. apply (fits_mono (unc_nbytes v)); [lia|exact G2].
Qed.

Lemma uncon_refines v :
  enc_unconstrained v = if twos_octets v <? 16384 then Ok (ser (FUncon v)) else Err EUnmodelled.
Proof.
  rewrite enc_unconstrained_eq, <- twos_octets_unc.
  destruct (twos_octets_spec v) as (H1 & _). cbv zeta in H1.
  rewrite enc_len_single_eq by lia. destruct (twos_octets v <? 16384) eqn:E; [|reflexivity].
  cbn [bind ser]. rewrite unbounded_small by (rewrite be_octets_length; lia).
  rewrite be_octets_length, be_octets_concat, Z2Nat.id by lia.
  do 3 f_equal. lia.
Qed.

(** ** 11.7 / 11.6 *)
Lemma nnbi_octets_eq j : 0 < j -> (bit_length j + 7) / 8 = nnbi_octets j.
Proof.
  intros H. unfold bit_length, nnbi_octets. destruct (j =? 0) eqn:E; [lia|].
  rewrite Z.abs_eq by lia. pose proof (Z.log2_nonneg j). lia.
Qed.

Lemma nnbi_octets_pos j : 1 <= nnbi_octets j.
Proof. unfold nnbi_octets. destruct (j =? 0); [lia|]. pose proof (Z.log2_nonneg j). lia. Qed.

Lemma nnbi_octets_mono a b : 0 <= a <= b -> nnbi_octets a <= nnbi_octets b.
Proof.
  intros H. unfold nnbi_octets. pose proof (Z.log2_nonneg b).
  destruct (a =? 0) eqn:Ea; destruct (b =? 0) eqn:Eb; try lia.
  pose proof (Z.log2_le_mono a b ltac:(lia)). lia.
Qed.

Lemma semi_small lb v :
  nnbi_octets (v - lb) < 16384 ->
  semi_bits lb v = len_short (nnbi_octets (v - lb)) ++ to_bits (Z.to_nat (8 * nnbi_octets (v - lb))) (v - lb).
Proof.
  intros H. pose proof (nnbi_octets_pos (v - lb)). unfold semi_bits.
  rewrite unbounded_small by (rewrite be_octets_length; lia).
  rewrite be_octets_length, be_octets_concat, Z2Nat.id by lia. do 2 f_equal. lia.
Qed.

Lemma nsnnwn_refines j :
  0 <= j ->
  enc_small_nonneg j = if nnbi_octets j <? 16384 then Ok (ser (FNsnnwn j)) else Err EUnmodelled.
Proof.
  intros Hj. unfold enc_small_nonneg. cbn [ser].
  destruct (j <? 64) eqn:E.
  - assert (nnbi_octets j <? 16384 = true) as ->.
    { pose proof (nnbi_octets_mono j 63 ltac:(lia)). change (nnbi_octets 63) with 1 in H.
      pose proof (nnbi_octets_pos j). lia. }
    destruct (j <=? 63) eqn:E2; [|lia]. rewrite to_bits_7_small by lia. reflexivity.
  - destruct (j <=? 63) eqn:E2; [lia|]. rewrite nnbi_octets_eq by lia.
    pose proof (nnbi_octets_pos j). rewrite enc_len_single_eq by lia.
    destruct (nnbi_octets j <? 16384) eqn:E3; [|reflexivity]. cbn [bind].
    rewrite semi_small by (rewrite Z.sub_0_r; lia). rewrite Z.sub_0_r. reflexivity.
Qed.

(** ** 11.9.3.4 normally small length *)
Definition small_len_ok (n : Z) : bool :=
  match enc_small_len n with
  | Ok bs => bits_eqb bs (if n <=? 64 then false :: to_bits 6 (n - 1) else true :: len_short n)
  | Err _ => false
  end.

Lemma small_len_eq n :
  1 <= n <= 127 ->
  enc_small_len n = Ok (if n <=? 64 then false :: to_bits 6 (n - 1) else true :: len_short n).
Proof.
  intros H. assert (Hs : small_len_ok n = true).
  { apply (sweep small_len_ok 1 127); [vm_compute; reflexivity | lia]. }
  unfold small_len_ok in Hs. destruct (enc_small_len n) as [bs|]; [|discriminate].
  apply bits_eqb_eq in Hs. rewrite Hs. reflexivity.
Qed.

(** ** 13 INTEGER *)

Definition uncon_ok (v : Z) : bool := twos_octets v <? 16384.
Definition small_ok (j : Z) : bool := nnbi_octets j <? 16384.

Definition int_scope (c : intc) (v : Z) : bool :=
  match c with
  | IcNone => uncon_ok v
  | IcRange (Some l) (Some u) x => if (l <=? v) && (v <=? u) then true else x && uncon_ok v
  | IcRange None ub false => opt_le_hi v ub && uncon_ok v
  | IcRange (Some l) None false =>
    (* semi-constrained: the library encodes it as unconstrained; the two
       encodings coincide exactly when the lower bound is 0 and the
       non-negative and the 2's-complement forms have the same length *)
    (l =? 0) && (0 <=? v) && (nnbi_octets v =? twos_octets v) && uncon_ok v
  | IcRange (Some _) None true => false
  | IcRange None _ true => false
  end.

Lemma cwn_refines lo hi v :
  lo <= v <= hi -> to_bits (Z.to_nat (bit_length (hi - lo))) (v - lo) = ser (FCwn lo hi v).
Proof.
  intros H. cbn [ser]. unfold cwn_bits. replace (hi - lo + 1) with ((hi - lo) + 1) by lia.
  rewrite width_bit_length by lia. reflexivity.
Qed.

Lemma int_refines c v :
  int_scope c v = true ->
  enc_int c v = (let* fs := int_fields c v in Ok (serialise fs)).
Proof.
  unfold int_scope, enc_int, enc_int_root, int_fields, int_root_fields, uncon_ok, serialise.
  destruct c as [|[l|] [u|] x]; cbn [int_ext int_bounds opt_le_lo opt_le_hi].
  - intros H. rewrite uncon_refines, H. cbn [bind flat_map]. rewrite app_nil_r. reflexivity.
  - destruct ((l <=? v) && (v <=? u)) eqn:E.
    + intros _. destruct x; cbn [negb bind flat_map app]; rewrite cwn_refines by lia;
        rewrite ?app_nil_r; reflexivity.
    + intros H. apply andb_prop in H. destruct H as [-> H]. rewrite uncon_refines, H.
      cbn [bind flat_map ser app]. rewrite app_nil_r. reflexivity.
  - destruct x; [discriminate|]. intros H.
    apply andb_prop in H. destruct H as [H H4]. apply andb_prop in H. destruct H as [H H3].
    apply andb_prop in H. destruct H as [H1 H2]. assert (l = 0) by lia. subst l.
    rewrite uncon_refines, H4. replace (0 <=? v) with true by lia. cbn [andb negb bind flat_map ser].
    unfold semi_bits. rewrite Z.sub_0_r, app_nil_r. replace (nnbi_octets v) with (twos_octets v) by lia. reflexivity.
  - destruct x; [discriminate|]. intros H. apply andb_prop in H. destruct H as [H1 H2].
    rewrite uncon_refines, H2. rewrite H1. cbn [andb negb bind flat_map]. rewrite app_nil_r. reflexivity.
  - destruct x; [discriminate|]. intros H. cbn [andb] in H. rewrite uncon_refines, H.
    cbn [andb negb bind flat_map]. rewrite app_nil_r. reflexivity.
Qed.

(** ** 14 ENUMERATED *)

Fixpoint distinctb {A} (eqb : A -> A -> bool) (l : list A) : bool :=
  match l with
  | [] => true
  | x :: r => negb (existsb (eqb x) r) && distinctb eqb r
  end.

Lemma distinctb_NoDup {A} (eqb : A -> A -> bool) (l : list A) :
  (forall x y, eqb x y = true <-> x = y) -> distinctb eqb l = true -> NoDup l.
Proof.
  intros Heq. induction l as [|x l IH]; cbn [distinctb]; intros H; constructor.
  - apply andb_prop in H. destruct H as [H _]. intros Hin.
    apply negb_true_iff in H. assert (existsb (eqb x) l = true); [|congruence].
    apply existsb_exists. exists x. split; [exact Hin|]. apply Heq. reflexivity.
  - apply IH. apply andb_prop in H. apply H.
Qed.

Definition enum_scope (root : list (string * Z)) (ext : option (list (string * Z))) : bool :=
  let adds := match ext with Some a => a | None => [] end in
  distinctb String.eqb (map fst (root ++ adds)) && distinctb Z.eqb (map snd (root ++ adds))
  && small_ok (Z.of_nat (length adds)).

Lemma denotes_eq numeric it d : value_eqb (enum_datum numeric it) d = denotes numeric d it.
Proof.
  unfold enum_datum, denotes. destruct numeric, d; cbn [value_eqb negb andb]; try reflexivity.
  - apply Z.eqb_sym.
  - apply String.eqb_sym.
Qed.

Lemma NoDup_map_eq {A B} (f : A -> B) l a b :
  NoDup (map f l) -> In a l -> In b l -> f a = f b -> a = b.
Proof.
  induction l as [|x l IH]; intros Hn Ha Hb Hf; [destruct Ha|].
  cbn [map] in Hn. inversion Hn as [|? ? Hx Hl]; subst.
  destruct Ha as [->|Ha]; destruct Hb as [->|Hb]; try reflexivity.
  - exfalso. apply Hx. rewrite Hf. apply in_map. exact Hb.
  - exfalso. apply Hx. rewrite <- Hf. apply in_map. exact Ha.
  - apply IH; assumption.
Qed.

Lemma denotes_unique numeric d l a b :
  NoDup (map fst l) -> NoDup (map snd l) -> In a l -> In b l ->
  denotes numeric d a = true -> denotes numeric d b = true -> a = b.
Proof.
  intros H1 H2 Ha Hb Da Db. unfold denotes in *. destruct d; try discriminate.
  - apply andb_prop in Da, Db. destruct Da as [_ Da], Db as [_ Db].
    apply (NoDup_map_eq snd l); try assumption. lia.
  - apply andb_prop in Da, Db. destruct Da as [_ Da], Db as [_ Db].
    apply String.eqb_eq in Da, Db. apply (NoDup_map_eq fst l); try assumption. congruence.
Qed.

Lemma find_item_none numeric d l :
  find_item numeric d l = None -> forall x, In x l -> denotes numeric d x = false.
Proof.
  induction l as [|y l IH]; cbn [find_item]; intros H x Hx; [destruct Hx|].
  destruct (denotes numeric d y) eqn:E; [discriminate|].
  destruct (find_item numeric d l) as [[i z]|] eqn:Ef; [discriminate|].
  destruct Hx as [->|Hx]; [exact E | apply IH; [reflexivity | exact Hx]].
Qed.

Lemma find_item_split numeric d l k it :
  find_item numeric d l = Some (k, it) ->
  exists l1 l2, l = l1 ++ it :: l2 /\ length l1 = k /\ denotes numeric d it = true.
Proof.
  revert k. induction l as [|y l IH]; cbn [find_item]; intros k H; [discriminate|].
  destruct (denotes numeric d y) eqn:E.
  - injection H as <- <-. exists [], l. repeat split. exact E.
  - destruct (find_item numeric d l) as [[i z]|] eqn:Ef; [|discriminate].
    injection H as <- <-. destruct (IH i eq_refl) as (l1 & l2 & -> & Hl & Hd).
    exists (y :: l1), l2. repeat split; [cbn [length]; congruence | exact Hd].
Qed.

Lemma find_item_all_false numeric d l :
  (forall x, In x l -> denotes numeric d x = false) -> find_item numeric d l = None.
Proof.
  induction l as [|y l IH]; intros H; [reflexivity|]. cbn [find_item].
  rewrite (H y) by (left; reflexivity). rewrite IH by (intros; apply H; right; assumption). reflexivity.
Qed.

(** with at most one matching item, "last index wins" is "first index" *)
Lemma iol_find numeric d l : forall i,
  (forall a b, In a l -> In b l -> denotes numeric d a = true -> denotes numeric d b = true -> a = b) ->
  NoDup l ->
  index_of_last numeric d l i =
  match find_item numeric d l with Some (k, _) => Some (i + Z.of_nat k) | None => None end.
Proof.
  induction l as [|y l IH]; intros i Hu Hn; [reflexivity|].
  cbn [index_of_last find_item]. inversion Hn as [|? ? Hy Hl]; subst.
  rewrite (IH (i + 1)); [|intros; apply Hu; try (right; assumption); assumption | exact Hl].
  rewrite denotes_eq. destruct (denotes numeric d y) eqn:E.
  - destruct (find_item numeric d l) as [[k z]|] eqn:Ef.
    + exfalso. destruct (find_item_split _ _ _ _ _ Ef) as (l1 & l2 & -> & _ & Hd).
      assert (y = z) by (apply Hu; [left; reflexivity | right; apply in_elt | exact E | exact Hd]).
      subst z. apply Hy. apply in_elt.
    + f_equal. lia.
  - destruct (find_item numeric d l) as [[k z]|]; [|reflexivity]. f_equal. lia.
Qed.

(** insertion sort by value *)
Definition le_v (a b : string * Z) : Prop := snd a <= snd b.

Lemma insert_perm x l : Permutation (insert_by_value x l) (x :: l).
Proof.
  induction l as [|y l IH]; cbn [insert_by_value]; [reflexivity|].
  destruct (snd x <? snd y); [reflexivity|].
  rewrite IH. apply perm_swap.
Qed.

Lemma sort_fold_perm l : forall acc,
  Permutation (fold_left (fun acc x => insert_by_value x acc) l acc) (l ++ acc).
Proof.
  induction l as [|x l IH]; intros acc; cbn [fold_left app]; [reflexivity|].
  rewrite IH. rewrite insert_perm. symmetry. apply Permutation_middle.
Qed.

Lemma sort_perm l : Permutation (sort_by_value l) l.
Proof. unfold sort_by_value. rewrite sort_fold_perm. rewrite app_nil_r. reflexivity. Qed.

Lemma insert_sorted x l : StronglySorted le_v l -> StronglySorted le_v (insert_by_value x l).
Proof.
  induction l as [|y l IH]; intros H; cbn [insert_by_value].
  - constructor; constructor.
  - inversion H as [|? ? Hs Hf]; subst. destruct (snd x <? snd y) eqn:E.
    + constructor; [exact H|]. constructor; [unfold le_v; lia|].
      eapply Forall_impl; [|exact Hf]. intros z Hz. unfold le_v in *. lia.
    + constructor; [apply IH; exact Hs|].
      apply (@Permutation_Forall _ (le_v y) (x :: l) (insert_by_value x l) (Permutation_sym (insert_perm x l))).
      constructor; [unfold le_v; lia | exact Hf].
Qed.

Lemma sort_sorted l : StronglySorted le_v (sort_by_value l).
Proof.
  unfold sort_by_value.
  assert (H : forall acc, StronglySorted le_v acc ->
                          StronglySorted le_v (fold_left (fun acc x => insert_by_value x acc) l acc)).
  { induction l as [|x l IH]; intros acc Ha; cbn [fold_left]; [exact Ha|].
    apply IH. apply insert_sorted. exact Ha. }
  apply H. constructor.
Qed.

Lemma sorted_split l1 it l2 :
  StronglySorted le_v (l1 ++ it :: l2) -> Forall (fun y => le_v y it) l1 /\ Forall (le_v it) l2.
Proof.
  induction l1 as [|y l1 IH]; cbn [app]; intros H; inversion H as [|? ? Hs Hf]; subst.
  - split; [constructor | exact Hf].
  - destruct (IH Hs) as [H1 H2]. split; [|exact H2]. constructor; [|exact H1].
    rewrite Forall_forall in Hf. apply Hf. apply in_elt.
Qed.

Lemma filter_all {A} (p : A -> bool) l : (forall x, In x l -> p x = true) -> filter p l = l.
Proof.
  induction l as [|x l IH]; intros H; [reflexivity|]. cbn [filter].
  rewrite (H x) by (left; reflexivity). f_equal. apply IH. intros; apply H; right; assumption.
Qed.

Lemma filter_none {A} (p : A -> bool) l : (forall x, In x l -> p x = false) -> filter p l = [].
Proof.
  induction l as [|x l IH]; intros H; [reflexivity|]. cbn [filter].
  rewrite (H x) by (left; reflexivity). apply IH. intros; apply H; right; assumption.
Qed.

Lemma rank_sorted l1 (it : string * Z) l2 :
  StronglySorted le_v (l1 ++ it :: l2) -> NoDup (map snd (l1 ++ it :: l2)) ->
  length (filter (fun x => snd x <? snd it) (l1 ++ it :: l2)) = length l1.
Proof.
  intros Hs Hn. destruct (sorted_split _ _ _ Hs) as [H1 H2].
  rewrite filter_app. cbn [filter]. rewrite Z.ltb_irrefl.
  rewrite (filter_none _ l2).
  2:{ intros x Hx. rewrite Forall_forall in H2. specialize (H2 x Hx). unfold le_v in H2. lia. }
  rewrite app_nil_r. rewrite filter_all; [reflexivity|].
  intros x Hx. rewrite Forall_forall in H1. specialize (H1 x Hx). unfold le_v in H1.
  assert (snd x <> snd it); [|lia]. intros Heq.
  assert (x = it).
  { apply (NoDup_map_eq snd (l1 ++ it :: l2)); [exact Hn | apply in_or_app; left; exact Hx | apply in_elt | exact Heq]. }
  subst x. rewrite map_app in Hn. cbn [map] in Hn. apply NoDup_remove_2 in Hn. apply Hn.
  apply in_or_app. left. apply in_map. exact Hx.
Qed.

Lemma perm_filter_length {A} (p : A -> bool) l l' :
  Permutation l l' -> length (filter p l) = length (filter p l').
Proof.
  induction 1; cbn [filter]; try reflexivity.
  - destruct (p x); cbn [length]; congruence.
  - destruct (p x), (p y); reflexivity.
  - congruence.
Qed.

Lemma find_item_in numeric d l k it : find_item numeric d l = Some (k, it) -> In it l /\ denotes numeric d it = true.
Proof.
  intros H. destruct (find_item_split _ _ _ _ _ H) as (l1 & l2 & -> & _ & Hd). split; [apply in_elt | exact Hd].
Qed.

Lemma enum_root_index numeric d root :
  NoDup (map fst root) -> NoDup (map snd root) ->
  index_of_last numeric d (sort_by_value root) 0 =
  match find_item numeric d root with Some (_, it) => Some (enum_index root it) | None => None end.
Proof.
  intros Hf Hs. set (S := sort_by_value root).
  assert (HP : Permutation S root) by apply sort_perm.
  assert (HfS : NoDup (map fst S)) by (apply (Permutation_NoDup (l := map fst root)); [symmetry; apply Permutation_map; exact HP | exact Hf]).
  assert (HsS : NoDup (map snd S)) by (apply (Permutation_NoDup (l := map snd root)); [symmetry; apply Permutation_map; exact HP | exact Hs]).
  rewrite iol_find; [| intros a b; apply denotes_unique; assumption | apply (NoDup_map_inv fst); exact HfS].
  destruct (find_item numeric d root) as [[k0 it]|] eqn:Er.
  - destruct (find_item_in _ _ _ _ _ Er) as [Hin Hd].
    destruct (find_item numeric d S) as [[k it']|] eqn:ES.
    + destruct (find_item_split _ _ _ _ _ ES) as (l1 & l2 & HSeq & Hl & Hd').
      assert (it' = it).
      { apply (denotes_unique numeric d root); try assumption.
        apply (Permutation_in (l := S)); [exact HP|]. rewrite HSeq. apply in_elt. }
      subst it'. f_equal. unfold enum_index.
      rewrite <- (perm_filter_length _ _ _ HP). rewrite HSeq.
      rewrite rank_sorted; [lia | rewrite <- HSeq; apply sort_sorted | rewrite <- HSeq; exact HsS].
    + exfalso. pose proof (find_item_none _ _ _ ES it) as Hn.
      rewrite Hn in Hd; [discriminate|]. apply (Permutation_in (l := root)); [symmetry; exact HP | exact Hin].
  - rewrite find_item_all_false; [reflexivity|].
    intros x Hx. apply (find_item_none _ _ _ Er). apply (Permutation_in (l := S)); assumption.
Qed.

Lemma enum_adds_index numeric d adds :
  NoDup (map fst adds) -> NoDup (map snd adds) ->
  index_of_last numeric d adds 0 =
  match find_item numeric d adds with Some (k, _) => Some (Z.of_nat k) | None => None end.
Proof.
  intros Hf Hs. rewrite iol_find; [| intros a b; apply denotes_unique; assumption | apply (NoDup_map_inv fst); exact Hf].
  destruct (find_item numeric d adds) as [[k z]|]; reflexivity.
Qed.

Lemma find_item_bound numeric d l k it : find_item numeric d l = Some (k, it) -> (k < length l)%nat.
Proof.
  intros H. destruct (find_item_split _ _ _ _ _ H) as (l1 & l2 & -> & Hl & _).
  rewrite app_length. cbn [length]. lia.
Qed.

Lemma filter_len_le {A} (p : A -> bool) l : (length (filter p l) <= length l)%nat.
Proof. induction l as [|x l IH]; cbn [filter length]; [lia|]. destruct (p x); cbn [length]; lia. Qed.

Lemma NoDup_app_l {A} (a b : list A) : NoDup (a ++ b) -> NoDup a.
Proof.
  induction a as [|x a IH]; cbn [app]; intros H; [constructor|].
  inversion H as [|? ? Hx Hl]; subst. constructor; [|apply IH; exact Hl].
  intros Hin. apply Hx. apply in_or_app. left. exact Hin.
Qed.
Lemma NoDup_app_r {A} (a b : list A) : NoDup (a ++ b) -> NoDup b.
Proof.
  induction a as [|x a IH]; cbn [app]; intros H; [exact H|].
  inversion H; subst. apply IH. assumption.
Qed.

Lemma enum_refines numeric root ext d :
  enum_scope root ext = true ->
  enc_enum numeric root ext d = (let* fs := enum_fields numeric root ext d in Ok (serialise fs)).
Proof.
  unfold enum_scope. intros H. apply andb_prop in H. destruct H as [H Hsm].
  apply andb_prop in H. destruct H as [Hf Hs].
  apply (distinctb_NoDup _ _ String.eqb_eq) in Hf. apply (distinctb_NoDup _ _ Z.eqb_eq) in Hs.
  rewrite map_app in Hf, Hs.
  pose proof (NoDup_app_l _ _ Hf) as Hfr. pose proof (NoDup_app_l _ _ Hs) as Hsr.
  pose proof (NoDup_app_r _ _ Hf) as Hfa. pose proof (NoDup_app_r _ _ Hs) as Hsa.
  unfold enc_enum, enum_fields. rewrite enum_root_index by assumption.
  destruct (find_item numeric d root) as [[k0 it]|] eqn:Er.
  - assert (Hlen : (0 < length root)%nat) by (pose proof (find_item_bound _ _ _ _ _ Er); lia).
    assert (Hidx : 0 <= enum_index root it <= Z.of_nat (length root) - 1).
    { unfold enum_index. destruct (find_item_in _ _ _ _ _ Er) as [Hin _].
      apply in_split in Hin. destruct Hin as (l1 & l2 & ->).
      rewrite filter_app, !app_length. cbn [filter length]. rewrite Z.ltb_irrefl.
      pose proof (filter_len_le (fun x => snd x <? snd it) l1).
      pose proof (filter_len_le (fun x => snd x <? snd it) l2). lia. }
    unfold enum_root_bits.
    pose proof (cwn_refines 0 (Z.of_nat (length root) - 1) (enum_index root it) ltac:(lia)) as Hc.
    rewrite !Z.sub_0_r in Hc. rewrite Hc.
    destruct ext as [adds|]; cbn [bind serialise flat_map app ser]; rewrite app_nil_r; reflexivity.
  - destruct ext as [adds|]; [|reflexivity].
    rewrite enum_adds_index by assumption.
    destruct (find_item numeric d adds) as [[j z]|] eqn:Ea; [|reflexivity].
    rewrite nsnnwn_refines by lia.
    assert (nnbi_octets (Z.of_nat j) <? 16384 = true) as ->.
    { pose proof (find_item_bound _ _ _ _ _ Ea). unfold small_ok in Hsm.
      pose proof (nnbi_octets_mono (Z.of_nat j) (Z.of_nat (length adds)) ltac:(lia)). lia. }
    cbn [bind serialise flat_map app ser]. rewrite app_nil_r. reflexivity.
Qed.

(** ** Counted items under a SIZE constraint *)

Definition sz_open_ext (s : size) : bool :=
  sz_ext s && match sz_ub s with None => true | Some _ => false end.
(** the count is in the root; an extensible SIZE without upper bound is
    excluded (the library raises TypeError on it) *)
Definition size_root_scope (s : size) (n : Z) : bool := sz_in_root s n && negb (sz_open_ext s).
(** ... or outside the root of an extensible SIZE (any count: the repaired
    library fragments there as 11.9.3.8 prescribes) *)
Definition size_scope_x (s : size) (n : Z) : bool :=
  size_root_scope s n || (sz_ext s && negb (sz_open_ext s) && negb (sz_in_root s n)).

(** the shape shared by the four sized encoders of the implementation *)
Definition im_sized {A} (sz : size) (enc1 : A -> result bits) (l : list A) : result bits :=
  let n := Z.of_nat (length l) in
  if size_unbound sz then enc_frag (frag_fuel l) enc1 l
  else
    let* body := enc_all enc1 l in
    if negb (size_lo sz =? size_hi sz) then
      if size_in_root sz n then Ok (to_bits (size_nbits sz) (n - size_lo sz) ++ body) else Err EUnmodelled
    else if n =? size_lo sz then Ok body else Err EUnmodelled.

Lemma map_result_compose {A} (g : A -> result (list field)) l :
  map_result (fun x => let* fs := g x in Ok (serialise fs)) l =
  (let* items := map_result g l in Ok (map serialise items)).
Proof.
  induction l as [|x l IH]; [reflexivity|]. cbn [map_result]. rewrite IH.
  destruct (g x); cbn [bind]; [|reflexivity]. destruct (map_result g l); reflexivity.
Qed.

Section Sized.
  Context {A : Type}.
  Variable enc1 : A -> result bits.
  Variable g : A -> result (list field).
  Variable l : list A.
  Hypothesis Hg : forall x, In x l -> enc1 x = (let* fs := g x in Ok (serialise fs)).

  Lemma items_bits : map_result enc1 l = (let* items := map_result g l in Ok (map serialise items)).
  Proof. rewrite (map_result_ext _ _ _ Hg). apply map_result_compose. Qed.

  Lemma sized_root_refines sz :
    size_root_scope sz (Z.of_nat (length l)) = true ->
    im_sized sz enc1 l =
    (let* items := map_result g l in Ok (ser (FCounted (sz_lb sz) (sz_ub sz) items))).
  Proof.
    unfold size_root_scope, sz_open_ext, sz_in_root, im_sized. intros H.
    apply andb_prop in H. destruct H as [Hin Hop].
    assert (Hunb : enc_frag (frag_fuel l) enc1 l =
                   (let* items := map_result g l in Ok (unbounded_count (map serialise items)))).
    { rewrite enc_frag_refines, items_bits. destruct (map_result g l); reflexivity. }
    destruct sz as [|lo [hi|] x]; cbn [size_unbound sz_lb sz_ub sz_ext size_lo size_hi] in *.
    - rewrite Hunb. reflexivity.
    - destruct (hi >? 65535) eqn:Eu.
      + rewrite Hunb. destruct (map_result g l) as [items|] eqn:Ei; cbn [bind ser]; [|reflexivity].
        destruct (hi <? 65536) eqn:E2; [lia|]. reflexivity.
      + rewrite enc_all_concat, items_bits.
        destruct (map_result g l) as [items|] eqn:Ei; cbn [bind ser]; [|reflexivity].
        rewrite (map_result_length _ _ _ Ei).
        destruct (hi <? 65536) eqn:E2; [|lia].
        apply andb_prop in Hin. destruct Hin as [H1 H2].
        unfold size_in_root, size_nbits, cwn_bits. cbn [size_lo size_hi].
        destruct (lo =? hi) eqn:Elh; cbn [negb].
        * assert (lo = hi) by lia. subst hi.
          destruct (Z.of_nat (length l) =? lo) eqn:E3; [|lia].
          replace (lo - lo + 1) with 1 by lia. reflexivity.
        * rewrite H1, H2. cbn [andb].
          replace (hi - lo + 1) with ((hi - lo) + 1) by lia.
          rewrite width_bit_length by lia. reflexivity.
    - rewrite Hunb. reflexivity.
  Qed.

  (** strings and bit strings: an optional 0 bit, then the root encoding *)
  Lemma sized_p2_refines sz :
    size_root_scope sz (Z.of_nat (length l)) = true ->
    (let* r := im_sized sz enc1 l in Ok ((if size_ext sz then [false] else []) ++ r)) =
    (let* items := map_result g l in let* fs := sized sz items in Ok (serialise fs)).
  Proof.
    intros H. rewrite (sized_root_refines sz H).
    destruct (map_result g l) as [items|] eqn:Ei; cbn [bind]; [|reflexivity].
    unfold sized. rewrite (map_result_length _ _ _ Ei).
    unfold size_root_scope in H. apply andb_prop in H. destruct H as [-> _]. cbn [bind].
    unfold serialise. rewrite flat_map_app. cbn [flat_map]. rewrite app_nil_r.
    replace (sz_ext sz) with (size_ext sz) by (destruct sz; reflexivity).
    destruct (size_ext sz); reflexivity.
  Qed.

  Lemma size_in_root_eq sz n :
    negb (sz_open_ext sz) = true -> size_ext sz = true -> size_in_root sz n = sz_in_root sz n.
  Proof.
    unfold sz_open_ext, size_in_root, sz_in_root. destruct sz as [|lo [hi|] x]; cbn; try reflexivity.
    - discriminate.
    - intros H1 H2. subst x. discriminate.
  Qed.

  (** octet strings and SEQUENCE OF: also outside the root *)
  Lemma sized_p1_refines sz :
    size_scope_x sz (Z.of_nat (length l)) = true ->
    (let root := im_sized sz enc1 l in
     let n := Z.of_nat (length l) in
     if size_ext sz then
       if size_in_root sz n then let* r := root in Ok (false :: r)
       else let* r := enc_frag (frag_fuel l) enc1 l in Ok (true :: r)
     else root) =
    (let* items := map_result g l in let* fs := sized sz items in Ok (serialise fs)).
  Proof.
    unfold size_scope_x. intros H. cbv zeta.
    destruct (size_root_scope sz (Z.of_nat (length l))) eqn:Er.
    - rewrite <- (sized_p2_refines sz Er).
      destruct (size_ext sz) eqn:Ex.
      + unfold size_root_scope in Er. apply andb_prop in Er. destruct Er as [Ein Eop].
        rewrite size_in_root_eq by assumption. rewrite Ein.
        destruct (im_sized sz enc1 l); reflexivity.
      + destruct (im_sized sz enc1 l); reflexivity.
    - cbn [orb] in H.
      apply andb_prop in H. destruct H as [H Hout]. apply andb_prop in H. destruct H as [Hx Hop].
      replace (size_ext sz) with (sz_ext sz) by (destruct sz; reflexivity). rewrite Hx.
      rewrite size_in_root_eq by (try assumption; destruct sz; exact Hx).
      apply negb_true_iff in Hout. rewrite Hout.
      rewrite enc_frag_refines, items_bits.
      destruct (map_result g l) as [items|] eqn:Ei; cbn [bind]; [|reflexivity].
      unfold sized. rewrite (map_result_length _ _ _ Ei), Hout, Hx. cbn [bind serialise flat_map ser app].
      rewrite app_nil_r. reflexivity.
  Qed.
End Sized.

(** ** 17 OCTET STRING *)

Lemma octet_bits b : serialise (octet b) = to_bits 8 b.
Proof. unfold serialise, octet. cbn [flat_map ser]. apply app_nil_r. Qed.

Lemma octets_refines sz bytes :
  size_scope_x sz (Z.of_nat (length bytes)) = true ->
  enc_octets sz bytes = (let* fs := octets_fields sz bytes in Ok (serialise fs)).
Proof.
  intros H. unfold octets_fields.
  pose proof (sized_p1_refines (fun b => Ok (to_bits 8 b)) (fun b => Ok (octet b)) bytes
                               ltac:(intros; cbn [bind]; rewrite octet_bits; reflexivity) sz H) as Hp.
  rewrite map_result_ok in Hp. cbn [bind] in Hp. rewrite <- Hp. clear Hp.
  unfold enc_octets, im_sized. cbv zeta. rewrite enc_all_bytes. cbn [bind]. reflexivity.
Qed.

(** ** 30.6 UTF8String *)
Definition utf8_scope (cps : list Z) : bool := match utf8_encode cps with Some _ => true | None => false end.

Lemma utf8_refines cps :
  utf8_scope cps = true -> enc_utf8 cps = (let* fs := utf8_fields cps in Ok (serialise fs)).
Proof.
  unfold utf8_scope, enc_utf8, utf8_fields. destruct (utf8_encode cps) as [bytes|]; [|discriminate].
  intros _. cbn [bind].
  pose proof (sized_root_refines (fun b => Ok (to_bits 8 b)) (fun b => Ok (octet b)) bytes
                ltac:(intros; cbn [bind]; rewrite octet_bits; reflexivity) SzNone) as Hp.
  unfold im_sized in Hp. cbn [size_unbound sz_lb sz_ub] in Hp. rewrite Hp.
  - rewrite map_result_ok. cbn [bind serialise flat_map]. rewrite app_nil_r. reflexivity.
  - unfold size_root_scope, sz_in_root, sz_open_ext. cbn. lia.
Qed.

(** ** 16 BIT STRING *)

Lemma dlz_snoc l b :
  drop_leading_zeros (l ++ [b]) =
  match drop_leading_zeros l with [] => if b then [true] else [] | l' => l' ++ [b] end.
Proof.
  induction l as [|x l IH]; cbn [app drop_leading_zeros].
  - destruct b; reflexivity.
  - destruct x; [reflexivity | exact IH].
Qed.

Lemma strip_drop bs : strip_trailing_false bs = drop_trailing_zeros bs.
Proof.
  unfold drop_trailing_zeros. induction bs as [|b r IH]; [reflexivity|].
  cbn [strip_trailing_false rev]. rewrite dlz_snoc, IH.
  destruct (drop_leading_zeros (rev r)) as [|y d] eqn:Ed.
  - cbn [rev]. destruct b; reflexivity.
  - rewrite rev_unit. destruct (rev (y :: d)) eqn:Er; [|reflexivity].
    apply (f_equal (@length bool)) in Er. rewrite rev_length in Er. discriminate.
Qed.

Definition all_zero (bs : bits) : bool := forallb negb bs.

Lemma strip_zeros z : all_zero z = true -> strip_trailing_false z = [].
Proof.
  induction z as [|b z IH]; [reflexivity|]. cbn [all_zero forallb]. intros H.
  apply andb_prop in H. destruct H as [Hb Hz]. cbn [strip_trailing_false].
  rewrite (IH Hz). destruct b; [discriminate|reflexivity].
Qed.

Lemma strip_app_zeros a z : all_zero z = true -> strip_trailing_false (a ++ z) = strip_trailing_false a.
Proof.
  intros Hz. induction a as [|x a IH]; cbn [app strip_trailing_false]; [apply strip_zeros; exact Hz|].
  rewrite IH. reflexivity.
Qed.

Definition bits_scope (named : bool) (sz : size) (bytes : list Z) (nbits : Z) : bool :=
  (0 <=? nbits) && (nbits <=? 8 * Z.of_nat (length bytes))
  && (negb named || all_zero (skipn (Z.to_nat nbits) (bytes_to_bits bytes)))
  && (negb (sz_ext sz) || sz_in_root sz nbits)
  && size_root_scope sz (Z.of_nat (length (bitstring_bits named sz bytes nbits))).

Lemma bitstring_data named sz bytes nbits :
  (negb named || all_zero (skipn (Z.to_nat nbits) (bytes_to_bits bytes))) = true ->
  (if named then named_bits_of sz bytes else bitvalue_bits bytes nbits) = bitstring_bits named sz bytes nbits.
Proof.
  unfold bitstring_bits, bitvalue_bits. destruct named; cbn [negb orb]; [|reflexivity].
  intros Hz.
  assert (Hs : strip_trailing_false (bytes_to_bits bytes)
               = drop_trailing_zeros (firstn (Z.to_nat nbits) (bytes_to_bits bytes))).
  { rewrite <- (firstn_skipn (Z.to_nat nbits) (bytes_to_bits bytes)) at 1.
    rewrite strip_app_zeros by exact Hz. apply strip_drop. }
  unfold named_bits_of. rewrite Hs. cbv zeta.
  set (s := drop_trailing_zeros (firstn (Z.to_nat nbits) (bytes_to_bits bytes))).
  destruct sz as [|lo hi x]; cbn [sz_lb].
  - cbn. rewrite app_nil_r. reflexivity.
  - destruct (Z.of_nat (length s) <? lo) eqn:E; [reflexivity|].
    replace (Z.to_nat lo - length s)%nat with 0%nat by lia. cbn [repeat]. rewrite app_nil_r. reflexivity.
Qed.

Lemma bitstring_refines named sz bytes nbits :
  bits_scope named sz bytes nbits = true ->
  enc_bitstring named sz bytes nbits = (let* fs := bitstring_fields named sz bytes nbits in Ok (serialise fs)).
Proof.
  unfold bits_scope. intros H.
  apply andb_prop in H. destruct H as [H Hsz]. apply andb_prop in H. destruct H as [H Hext].
  apply andb_prop in H. destruct H as [H Hz]. apply andb_prop in H. destruct H as [H0 H8].
  unfold enc_bitstring, bitstring_fields.
  destruct (Z.of_nat (length bytes) * 8 <? nbits) eqn:E1; [lia|].
  destruct ((nbits <? 0) || (8 * Z.of_nat (length bytes) <? nbits)) eqn:E2; [lia|].
  rewrite (bitstring_data named sz bytes nbits Hz).
  set (data := bitstring_bits named sz bytes nbits) in *.
  assert (Hpre : (if size_ext sz
                  then if size_in_root sz nbits then Ok [false] else Err (EForeign "NotImplementedError")
                  else Ok []) = Ok (if size_ext sz then [false] else [])).
  { destruct (size_ext sz) eqn:Ex; [|reflexivity].
    unfold size_root_scope in Hsz. apply andb_prop in Hsz. destruct Hsz as [_ Hop].
    rewrite size_in_root_eq by assumption.
    replace (sz_ext sz) with (size_ext sz) in Hext by (destruct sz; reflexivity). rewrite Ex in Hext.
    cbn [negb orb] in Hext. rewrite Hext. reflexivity. }
  rewrite Hpre. cbn [bind].
  pose proof (sized_p2_refines (fun b : bool => Ok [b]) (fun b => Ok [FBit b]) data
                ltac:(intros; reflexivity) sz Hsz) as Hp.
  rewrite map_result_ok in Hp. cbn [bind] in Hp. rewrite <- Hp. clear Hp.
  unfold im_sized. rewrite enc_all_bits. cbn [bind].
  destruct (size_unbound sz); [reflexivity|].
  destruct (negb (size_lo sz =? size_hi sz)).
  - destruct (size_in_root sz (Z.of_nat (length data))); reflexivity.
  - destruct (Z.of_nat (length data) =? size_lo sz); reflexivity.
Qed.

(** ** 30 known-multiplier character strings *)

Fixpoint ascending (l : list Z) : bool :=
  match l with
  | x :: r => match r with y :: _ => (x <? y) && ascending r | [] => true end
  | [] => true
  end.

(** 30.5.4 b) applies: the largest character value does not fit in b bits *)
Definition reindexed (a : list Z) : bool :=
  2 ^ Z.of_nat (width (Z.of_nat (length a))) - 1 <? fold_right Z.max 0 a.

Lemma ascending_head x r : ascending (x :: r) = true -> forall y, In y r -> x < y.
Proof.
  revert x. induction r as [|z r IH]; intros x H y Hy; [destruct Hy|].
  cbn [ascending] in H. apply andb_prop in H. destruct H as [Hxz Hr].
  destruct Hy as [->|Hy]; [lia|]. specialize (IH z Hr y Hy). lia.
Qed.

Lemma ascending_tail x r : ascending (x :: r) = true -> ascending r = true.
Proof. cbn [ascending]. destruct r; [reflexivity|]. intros H. apply andb_prop in H. apply H. Qed.

Lemma memb_in c l : memb c l = true <-> In c l.
Proof.
  induction l as [|x l IH]; cbn [memb In]; [split; [discriminate|tauto]|].
  rewrite orb_true_iff, IH. split; intros [H|H]; auto; left; lia.
Qed.

Lemma index_in_rank a : ascending a = true -> forall c i,
  index_in c a i = if memb c a then Some (i + Z.of_nat (length (filter (fun x => x <? c) a))) else None.
Proof.
  induction a as [|x r IH]; intros Ha c i; [reflexivity|].
  pose proof (ascending_head x r Ha) as Hh. specialize (IH (ascending_tail x r Ha)).
  cbn [index_in memb filter]. destruct (x =? c) eqn:E.
  - assert (x = c) by lia. subst x. replace (c =? c) with true by lia. cbn [orb].
    rewrite Z.ltb_irrefl. rewrite filter_none; [f_equal; cbn [length]; lia|].
    intros y Hy. specialize (Hh y Hy). lia.
  - replace (c =? x) with false by lia. cbn [orb]. rewrite IH.
    destruct (memb c r) eqn:Em; [|reflexivity].
    apply memb_in in Em. specialize (Hh c Em). replace (x <? c) with true by lia.
    cbn [length]. f_equal. lia.
Qed.

Lemma mem_z_memb c l : mem_z c l = memb c l.
Proof.
  unfold mem_z. assert (H : forall i, match index_in c l i with Some _ => true | None => false end = memb c l).
  { induction l as [|x l IH]; intros i; [reflexivity|]. cbn [index_in memb].
    destruct (x =? c) eqn:E.
    - replace (c =? x) with true by lia. reflexivity.
    - replace (c =? x) with false by lia. apply IH. }
  apply H.
Qed.

Lemma km_bits_width a : (0 < length a)%nat -> km_bits a = width (Z.of_nat (length a)).
Proof.
  intros H. unfold km_bits. rewrite <- width_bit_length by lia. f_equal. lia.
Qed.

Lemma memb_nonempty c a : memb c a = true -> (0 < length a)%nat.
Proof. destruct a; [discriminate|]. cbn [length]. lia. Qed.

(** an explicitly listed (or the NumericString) alphabet: index coding *)
Lemma km_char_index a c :
  ascending a = true -> reindexed a = true ->
  km_enc_char a false c = (let* fs := char_fields a c in Ok (serialise fs)).
Proof.
  intros Ha Hr. unfold km_enc_char, char_fields. rewrite (index_in_rank a Ha).
  destruct (memb c a) eqn:Em; [|reflexivity]. cbn [bind serialise flat_map ser].
  rewrite app_nil_r, km_bits_width by (apply (memb_nonempty c); exact Em).
  unfold char_value. unfold reindexed in Hr.
  destruct (fold_right Z.max 0 a <=? 2 ^ Z.of_nat (width (Z.of_nat (length a))) - 1) eqn:E; [lia|].
  reflexivity.
Qed.

Lemma memb_incl a b c : forallb (fun x => memb x b) a = true -> memb c a = true -> memb c b = true.
Proof.
  intros H Hc. rewrite forallb_forall in H. apply H. apply memb_in. exact Hc.
Qed.

(** a class alphabet whose values fit: identity coding *)
Lemma km_char_ident a cls c :
  forallb (fun x => memb x cls) a = true -> forallb (fun x => memb x a) cls = true ->
  length a = length cls ->
  (fold_right Z.max 0 cls <=? 2 ^ Z.of_nat (width (Z.of_nat (length cls))) - 1) = true ->
  km_enc_char a true c = (let* fs := char_fields cls c in Ok (serialise fs)).
Proof.
  intros H1 H2 Hl Hub. unfold km_enc_char, char_fields. rewrite mem_z_memb.
  assert (Hm : memb c a = memb c cls).
  { destruct (memb c a) eqn:Ea; destruct (memb c cls) eqn:Ec; try reflexivity.
    - rewrite (memb_incl _ _ _ H1 Ea) in Ec. discriminate.
    - rewrite (memb_incl _ _ _ H2 Ec) in Ea. discriminate. }
  rewrite Hm. destruct (memb c cls) eqn:Em; [|reflexivity].
  cbn [bind serialise flat_map ser]. rewrite app_nil_r.
  rewrite km_bits_width by (rewrite Hl; apply (memb_nonempty c); exact Em). rewrite Hl.
  unfold char_value. rewrite Hub. reflexivity.
Qed.

Definition alpha_scope (alpha : option (list Z)) : bool :=
  match alpha with Some a => ascending a && reindexed a | None => true end.

Lemma km_char_refines k alpha a ident cls :
  km_alphabet k alpha = Some (a, ident) -> class_alphabet k = Some cls -> alpha_scope alpha = true ->
  forall c, km_enc_char a ident c =
            (let* fs := char_fields (match alpha with Some a' => a' | None => cls end) c in Ok (serialise fs)).
Proof.
  intros Hk Hc Ha c. destruct alpha as [a'|].
  - cbn [alpha_scope] in Ha. apply andb_prop in Ha. destruct Ha as [Ha1 Ha2].
    assert (a = a' /\ ident = false) as [-> ->].
    { destruct k; cbn [km_alphabet] in Hk; try discriminate; injection Hk as <- <-; split; reflexivity. }
    apply km_char_index; assumption.
  - destruct k; cbn [km_alphabet class_alphabet] in Hk, Hc; try discriminate;
      injection Hk as <- <-; injection Hc as <-.
    + apply km_char_ident; vm_compute; reflexivity.
    + apply km_char_ident; vm_compute; reflexivity.
    + change numeric_alphabet with (32 :: chars 48 57). apply km_char_index; vm_compute; reflexivity.
    + apply km_char_ident; vm_compute; reflexivity.
Qed.

Definition km_scope (k : strkind) (sz : size) (alpha : option (list Z)) (cps : list Z) : bool :=
  match class_alphabet k with
  | Some _ => alpha_scope alpha && size_root_scope sz (Z.of_nat (length cps))
  | None => false
  end.

Lemma km_alphabet_class k alpha cls :
  class_alphabet k = Some cls -> exists a ident, km_alphabet k alpha = Some (a, ident).
Proof.
  destruct k; cbn [class_alphabet]; try discriminate; intros _; destruct alpha; cbn [km_alphabet]; eauto.
Qed.

Lemma kmstring_refines k sz alpha cps :
  km_scope k sz alpha cps = true ->
  enc_kmstring k sz alpha cps = (let* fs := kmstring_fields k sz alpha cps in Ok (serialise fs)).
Proof.
  unfold km_scope, enc_kmstring, kmstring_fields.
  destruct (class_alphabet k) as [cls|] eqn:Ec; [|discriminate]. intros H.
  apply andb_prop in H. destruct H as [Ha Hsz].
  destruct (km_alphabet_class k alpha cls Ec) as (a & ident & Hk). rewrite Hk.
  pose proof (km_char_refines k alpha a ident cls Hk Ec Ha) as Hch.
  set (a' := match alpha with Some a' => a' | None => cls end) in *.
  pose proof (sized_p2_refines (km_enc_char a ident) (char_fields a') cps
                ltac:(intros; apply Hch) sz Hsz) as Hp.
  pose proof Hsz as Hsz'. unfold size_root_scope in Hsz'. apply andb_prop in Hsz'. destruct Hsz' as [Hin Hop].
  assert (Hroot : size_ext sz = true -> size_in_root sz (Z.of_nat (length cps)) = true).
  { intros Ex. rewrite size_in_root_eq by assumption. exact Hin. }
  cbv zeta.
  replace (let* fs := (let* items := map_result (char_fields a') cps in sized sz items) in Ok (serialise fs))
    with (let* items := map_result (char_fields a') cps in let* fs := sized sz items in Ok (serialise fs))
    by (destruct (map_result (char_fields a') cps); reflexivity).
  rewrite <- Hp. clear Hp Hch. unfold im_sized.
  destruct (size_ext sz) eqn:Ex; [rewrite (Hroot eq_refl)|]; cbn [negb andb];
    (destruct (size_unbound sz);
     [destruct (enc_frag (frag_fuel cps) (km_enc_char a ident) cps); reflexivity|];
     destruct (enc_all (km_enc_char a ident) cps); cbn [bind]; [|reflexivity];
     destruct (negb (size_lo sz =? size_hi sz));
     [try destruct (size_in_root sz (Z.of_nat (length cps))); reflexivity
     |destruct (Z.of_nat (length cps) =? size_lo sz); reflexivity]).
Qed.

(** ** 24 OBJECT IDENTIFIER *)

(** number of base-128 digits of m (none for 0) *)
Definition ndig (m : Z) : nat := if m =? 0 then O else Z.to_nat (Z.log2 m / 7 + 1).

(** [k] groups of m, most significant first, all with bit 8 set *)
Fixpoint hi_groups (k : nat) (m : Z) : list Z :=
  match k with
  | O => []
  | S j => (Z.shiftr m (7 * Z.of_nat j)) mod 128 + 128 :: hi_groups j m
  end.

Lemma hi_groups_snoc j m :
  0 <= m -> hi_groups (S j) m = hi_groups j (Z.shiftr m 7) ++ [m mod 128 + 128].
Proof.
  intros Hm. induction j as [|j IH].
  - cbn [hi_groups app]. rewrite Z.mul_0_r, Z.shiftr_0_r. reflexivity.
  - change (hi_groups (S (S j)) m) with ((Z.shiftr m (7 * Z.of_nat (S j))) mod 128 + 128 :: hi_groups (S j) m).
    rewrite IH. cbn [hi_groups app]. f_equal. rewrite Z.shiftr_shiftr by lia. do 2 f_equal. f_equal. lia.
Qed.

Lemma subid_groups_snoc j n :
  0 <= n -> subid_groups (S j) n = hi_groups j (Z.shiftr n 7) ++ [n mod 128].
Proof.
  intros Hn. induction j as [|j IH].
  - cbn [subid_groups hi_groups app]. rewrite Z.mul_0_r, Z.shiftr_0_r, Z.add_0_r. reflexivity.
  - change (subid_groups (S (S j)) n) with ((Z.shiftr n (7 * Z.of_nat (S j))) mod 128 + 128 :: subid_groups (S j) n).
    rewrite IH. cbn [hi_groups app]. f_equal. rewrite Z.shiftr_shiftr by lia. do 2 f_equal. f_equal. lia.
Qed.

Lemma ndig_step m : 0 < m -> ndig m = S (ndig (Z.shiftr m 7)).
Proof.
  intros Hm. unfold ndig. destruct (m =? 0) eqn:E; [lia|].
  rewrite shiftr7. destruct (m / 128 =? 0) eqn:E2.
  - assert (m < 128) by lia. assert (Z.log2 m < 7) by (apply Z.log2_lt_pow2; lia).
    pose proof (Z.log2_nonneg m). replace (Z.log2 m / 7) with 0 by lia. reflexivity.
  - assert (128 <= m) by lia.
    assert (Hl : Z.log2 (m / 128) = Z.log2 m - 7).
    { rewrite <- shiftr7. rewrite Z.log2_shiftr by lia.
      assert (7 <= Z.log2 m) by (apply Z.log2_le_pow2; lia). lia. }
    rewrite Hl. assert (7 <= Z.log2 m) by (apply Z.log2_le_pow2; lia). lia.
Qed.

Lemma base128_groups f : forall m, 0 <= m -> (ndig m <= f)%nat -> base128_digits f m = hi_groups (ndig m) m.
Proof.
  induction f as [|f IH]; intros m Hm Hf.
  - assert (ndig m = O) by lia. rewrite H. reflexivity.
  - cbn [base128_digits]. destruct (m >? 0) eqn:E.
    + rewrite (ndig_step m) in * by lia. rewrite hi_groups_snoc by lia.
      rewrite IH; [|rewrite shiftr7; lia | lia].
      f_equal. f_equal. rewrite land127. rewrite lor_128_small by lia. lia.
    + assert (m = 0) by lia. subst m. reflexivity.
Qed.

Lemma ndig_le m : 0 <= m -> (ndig (Z.shiftr m 7) <= S (Z.to_nat (Z.log2 m)))%nat.
Proof.
  intros Hm. destruct (Z.eq_dec m 0) as [->|Hn]; [cbn; lia|].
  pose proof (ndig_step m ltac:(lia)) as Hs.
  assert (ndig m <= S (Z.to_nat (Z.log2 m)))%nat; [|lia].
  unfold ndig. destruct (m =? 0); [lia|]. pose proof (Z.log2_nonneg m). lia.
Qed.

Lemma subid_eq n : 0 <= n -> enc_subid n = subid n.
Proof.
  intros Hn. unfold enc_subid, subid.
  rewrite base128_groups; [|rewrite shiftr7; lia | apply ndig_le; exact Hn].
  assert (Hl : subid_len n = S (ndig (Z.shiftr n 7))).
  { unfold subid_len. destruct (n =? 0) eqn:E.
    - assert (n = 0) by lia. subst n. reflexivity.
    - rewrite <- ndig_step by lia. unfold ndig. rewrite E. reflexivity. }
  rewrite Hl, subid_groups_snoc by lia. rewrite land127. reflexivity.
Qed.

Definition oid_bytes_sm (arcs : list Z) : list Z :=
  match arcs with
  | a0 :: a1 :: rest => subid (40 * a0 + a1) ++ flat_map subid rest
  | _ => []
  end.

Definition oid_scope (arcs : list Z) : bool :=
  forallb (fun a => 0 <=? a) arcs
  && match arcs with
     | a0 :: a1 :: _ => (a0 <=? 2) && ((a0 =? 2) || (a1 <? 40))
     | _ => false
     end
  && (Z.of_nat (length (oid_bytes_sm arcs)) <? 16384).

Lemma flat_map_subid l : forallb (fun a => 0 <=? a) l = true -> flat_map enc_subid l = flat_map subid l.
Proof.
  induction l as [|x l IH]; [reflexivity|]. cbn [forallb flat_map]. intros H.
  apply andb_prop in H. destruct H as [Hx Hl]. rewrite subid_eq by lia. rewrite IH by exact Hl. reflexivity.
Qed.

Lemma oid_refines arcs :
  oid_scope arcs = true -> enc_oid arcs = (let* fs := oid_fields arcs in Ok (serialise fs)).
Proof.
  unfold oid_scope. intros H. apply andb_prop in H. destruct H as [H Hlen].
  apply andb_prop in H. destruct H as [Hnn Hfirst].
  unfold enc_oid, enc_oid_bytes, oid_fields. rewrite Hnn. cbn [negb].
  destruct arcs as [|a0 [|a1 rest]]; try discriminate.
  apply andb_prop in Hfirst. destruct Hfirst as [Hf1 Hf2]. rewrite Hf1, Hf2. cbn [andb bind].
  cbn [oid_bytes_sm] in Hlen. cbn [forallb] in Hnn.
  apply andb_prop in Hnn. destruct Hnn as [H0 Hnn]. apply andb_prop in Hnn. destruct Hnn as [H1 Hnn].
  rewrite subid_eq by lia. rewrite flat_map_subid by exact Hnn.
  set (bytes := subid (40 * a0 + a1) ++ flat_map subid rest) in *.
  rewrite enc_len_single_eq by lia. rewrite Hlen. cbn [bind serialise flat_map ser].
  rewrite app_nil_r, map_map.
  rewrite (map_ext (fun x => flat_map ser (octet x)) (to_bits 8)) by (intros; apply octet_bits).
  rewrite unbounded_small by (rewrite map_length; lia). rewrite map_length.
  f_equal. f_equal. unfold bytes_to_bits. rewrite flat_map_concat_map. reflexivity.
Qed.

(** ** Constructed types *)

Lemma deref_resolve e f : forall t, deref e f t = resolve e f t.
Proof. intros t. reflexivity. Qed.

Lemma same_bits_eq a : forall b, same_bits a b = bits_eqb a b.
Proof. intros b. reflexivity. Qed.

Lemma same_value_eq t v d : same_value t v d = is_default_value t v d.
Proof.
  unfold same_value, is_default_value. destruct t; try reflexivity.
  destruct v; try reflexivity. destruct d; try reflexivity.
  rewrite same_bits_eq. unfold bitvalue_bits. destruct named; [|reflexivity].
  rewrite !strip_drop. reflexivity.
Qed.

Lemma all_false_zero bs : all_false bs = all_zero bs.
Proof. induction bs as [|b bs IH]; [reflexivity|]. cbn [all_false all_zero forallb]. rewrite IH. reflexivity. Qed.

Lemma serialise_app a b : serialise (a ++ b) = serialise a ++ serialise b.
Proof. apply flat_map_app. Qed.

Lemma serialise_bits {A} (p : A -> bool) l : serialise (map (fun x => FBit (p x)) l) = map p l.
Proof. induction l as [|x l IH]; [reflexivity|]. cbn [map serialise flat_map ser app]. f_equal. exact IH. Qed.

Lemma concat_singletons {A} (p : A -> bool) l : concat (map (fun x => [p x]) l) = map p l.
Proof. induction l as [|x l IH]; [reflexivity|]. cbn [map concat app]. f_equal. exact IH. Qed.

Lemma existsb_false_map {A} (p : A -> bool) l : existsb p l = false -> map p l = repeat false (length l).
Proof.
  induction l as [|x l IH]; [reflexivity|]. cbn [existsb map length repeat]. intros H.
  apply orb_false_iff in H. destruct H as [-> H]. f_equal. apply IH. exact H.
Qed.

Definition open_ok (bs : bits) : bool :=
  (0 <? length bs)%nat && (Z.of_nat (length (bits_to_bytes bs)) <? 16384).

Lemma pad8_bytes bs : pad8 bs = bytes_to_bits (bits_to_bytes bs).
Proof. unfold pad8. rewrite bytes_bits_roundtrip. reflexivity. Qed.

(** 11.2: the open type wrapper of the implementation, for a non-empty
    encoding of fewer than 16K octets *)
Lemma open_refines fs :
  open_ok (serialise fs) = true ->
  (let p := pad8 (serialise fs) in
   let* len := enc_len_single (Z.of_nat (length p / 8)) in Ok (len ++ p)) = Ok (ser (FOpen fs)).
Proof.
  unfold open_ok. intros H. apply andb_prop in H. destruct H as [Hne Hlen]. cbv zeta.
  fold (serialise fs). set (bs := serialise fs) in *. cbn [ser]. fold (serialise fs). fold bs.
  assert (Hc : complete_octets bs = bits_to_bytes bs) by (destruct bs; [cbn in Hne; lia | reflexivity]).
  rewrite Hc. rewrite pad8_bytes, bytes_to_bits_length.
  replace (8 * length (bits_to_bytes bs) / 8)%nat with (length (bits_to_bytes bs))
    by (rewrite Nat.mul_comm, Nat.div_mul; lia).
  rewrite enc_len_single_eq by lia. rewrite Hlen. cbn [bind].
  rewrite unbounded_small by (rewrite map_length; lia). rewrite map_length.
  unfold bytes_to_bits. rewrite flat_map_concat_map. reflexivity.
Qed.

Section CompositeRefine.
  Variable encT : ty -> value -> result bits.
  Variable recF : ty -> value -> result (list field).
  Variable scopeT : ty -> value -> bool.
  Variable res : ty -> ty.
  Hypothesis HT : forall t v, scopeT t v = true -> encT t v = (let* fs := recF t v in Ok (serialise fs)).

  (** *** 19 SEQUENCE: root *)

  Definition comp_scope (m : member_of ty) (data : list (string * value)) : bool :=
    match lookup (m_name m) data with
    | Some v => negb (comp_present res m data) || scopeT (m_ty m) v
    | None => true
    end.
  Definition root_scope (ms : list (member_of ty)) (data : list (string * value)) : bool :=
    forallb (fun m => comp_scope m data) ms.

  Lemma presence_eq m data :
    has_presence_bit m = true -> presence_bit res m data = comp_present res m data.
  Proof.
    unfold has_presence_bit, presence_bit, comp_present.
    destruct (m_opt m); [discriminate| |]; intros _; destruct (lookup (m_name m) data); try reflexivity.
    rewrite same_value_eq. reflexivity.
  Qed.

  Lemma member_refines m data :
    comp_scope m data = true ->
    enc_member encT res m data false = (let* fs := comp_fields recF res m data in Ok (serialise fs)).
  Proof.
    unfold comp_scope, enc_member, comp_fields, comp_present.
    destruct (lookup (m_name m) data) as [v|].
    - destruct (m_opt m) as [| |d]; cbn [negb orb].
      + intros H. apply HT. exact H.
      + intros H. apply HT. exact H.
      + rewrite same_value_eq. destruct (is_default_value (res (m_ty m)) v d); cbn [negb orb].
        * intros _. reflexivity.
        * intros H. apply HT. exact H.
    - intros _. destruct (m_opt m); reflexivity.
  Qed.

  Lemma members_refines ms data :
    root_scope ms data = true ->
    enc_members encT res ms data = (let* fs := comps_fields recF res ms data in Ok (serialise fs)).
  Proof.
    induction ms as [|m ms IH]; [reflexivity|]. cbn [root_scope forallb enc_members comps_fields].
    intros H. apply andb_prop in H. destruct H as [Hm Hms].
    rewrite (member_refines m data Hm). rewrite (IH Hms).
    destruct (comp_fields recF res m data); cbn [bind]; [|reflexivity].
    destruct (comps_fields recF res ms data); cbn [bind]; [|reflexivity].
    rewrite serialise_app. reflexivity.
  Qed.

  Lemma preamble_eq ms data :
    map (fun m => presence_bit res m data) (filter has_presence_bit ms) =
    serialise (map (fun m => FBit (comp_present res m data)) (filter optional_or_default ms)).
  Proof.
    rewrite serialise_bits. change (@optional_or_default ty) with (@has_presence_bit ty).
    apply map_ext_in. intros m Hm. apply filter_In in Hm. apply presence_eq. apply Hm.
  Qed.

  Lemma root_refines ms data :
    root_scope ms data = true ->
    enc_root encT res ms data = (let* fs := seq_root_fields recF res ms data in Ok (serialise fs)).
  Proof.
    intros H. unfold enc_root, seq_root_fields. rewrite (members_refines ms data H).
    destruct (comps_fields recF res ms data); cbn [bind]; [|reflexivity].
    rewrite serialise_app, preamble_eq. reflexivity.
  Qed.

  (** *** 19 SEQUENCE: extension additions *)

  Definition is_mandatory (m : member_of ty) : bool :=
    match m_opt m with Mandatory => true | _ => false end.
  Definition mandatory_present (ms : list (member_of ty)) (data : list (string * value)) : bool :=
    forallb (fun m => negb (is_mandatory m)
                      || match lookup (m_name m) data with Some _ => true | None => false end) ms.
  (** the encoding of a present group is more than a preamble of zeros *)
  Definition group_visible (ms : list (member_of ty)) (bs : bits) : bool :=
    negb (all_zero bs && (length bs =? length (filter optional_or_default ms))%nat).

  Definition addition_scope (a : addition_of ty) (data : list (string * value)) : bool :=
    match a with
    | (true, ms) =>
      if addition_present res a data then
        mandatory_present ms data && root_scope ms data &&
        match seq_root_fields recF res ms data with
        | Ok fs => group_visible ms (serialise fs) && open_ok (serialise fs)
        | Err _ => true
        end
      else true
    | (false, [m]) =>
      match lookup (m_name m) data with
      | None => true
      | Some v =>
        comp_present res m data && scopeT (m_ty m) v &&
        match recF (m_ty m) v with Ok fs => open_ok (serialise fs) | Err _ => true end
      end
    | (false, _) => false
    end.

  (** the value stops here: this addition is absent and has a mandatory component *)
  Definition stops (a : addition_of ty) (data : list (string * value)) : bool :=
    negb (addition_present res a data) && existsb is_mandatory (snd a).

  Fixpoint adds_scope (adds : list (addition_of ty)) (data : list (string * value)) : bool :=
    match adds with
    | [] => true
    | a :: r =>
      addition_scope a data &&
      (if stops a data then negb (existsb (fun a' => addition_present res a' data) r)
       else adds_scope r data)
    end.

  Lemma all_absent_open r data :
    existsb (fun a => addition_present res a data) r = false -> additions_open recF res r data = Ok [].
  Proof.
    induction r as [|a r IH]; [reflexivity|]. cbn [existsb additions_open]. intros H.
    apply orb_false_iff in H. destruct H as [-> H]. apply IH. exact H.
  Qed.

  Lemma gmf_present ms data :
    mandatory_present ms data = true -> group_missing_first encT res ms data = false.
  Proof.
    induction ms as [|m ms IH]; [reflexivity|]. cbn [mandatory_present forallb group_missing_first].
    intros H. apply andb_prop in H. destruct H as [Hm Hms]. specialize (IH Hms).
    unfold is_mandatory in Hm. destruct (lookup (m_name m) data) as [v|].
    - destruct (enc_member encT res m data false); [exact IH | reflexivity].
    - destruct (m_opt m); [discriminate | exact IH | exact IH].
  Qed.

  Definition all_absent (ms : list (member_of ty)) (data : list (string * value)) : Prop :=
    forall m, In m ms -> comp_present res m data = false.

  Lemma all_absent_cons m ms data : all_absent (m :: ms) data -> comp_present res m data = false /\ all_absent ms data.
  Proof. intros H. split; [apply H; left; reflexivity | intros x Hx; apply H; right; exact Hx]. Qed.

  Lemma existsb_absent ms data : existsb (fun m => comp_present res m data) ms = false -> all_absent ms data.
  Proof.
    intros H m Hm. destruct (comp_present res m data) eqn:E; [|reflexivity].
    assert (existsb (fun m => comp_present res m data) ms = true); [|congruence].
    apply existsb_exists. exists m. split; assumption.
  Qed.

  (** an absent component contributes nothing and raises nothing, except
      that a mandatory one is reported missing *)
  Lemma absent_member m data :
    comp_present res m data = false ->
    (lookup (m_name m) data = None /\ is_mandatory m = true) \/
    (is_mandatory m = false /\ enc_member encT res m data false = Ok [] /\
     comp_fields recF res m data = Ok []).
  Proof.
    unfold comp_present, is_mandatory, enc_member, comp_fields, comp_present.
    destruct (lookup (m_name m) data) as [v|].
    - destruct (m_opt m) as [| |d]; try discriminate. intros H. right.
      rewrite H. apply negb_false_iff in H. rewrite same_value_eq in H. rewrite H. repeat split.
    - intros _. destruct (m_opt m); [left; split; reflexivity | right; repeat split | right; repeat split].
  Qed.

  Lemma gmf_absent ms data :
    all_absent ms data -> group_missing_first encT res ms data = existsb is_mandatory ms.
  Proof.
    induction ms as [|m ms IH]; [reflexivity|]. intros H. apply all_absent_cons in H. destruct H as [Hm Hms].
    cbn [group_missing_first existsb]. specialize (IH Hms).
    destruct (absent_member m data Hm) as [[Hl Hman]|[Hman [He _]]].
    - rewrite Hl, Hman. unfold is_mandatory in Hman. destruct (m_opt m); try discriminate. reflexivity.
    - rewrite Hman, He. cbn [orb]. unfold is_mandatory in Hman.
      destruct (lookup (m_name m) data); [exact IH|]. destruct (m_opt m); [discriminate | exact IH | exact IH].
  Qed.

  Lemma absent_members ms data :
    all_absent ms data -> existsb is_mandatory ms = false ->
    enc_members encT res ms data = Ok [] /\ comps_fields recF res ms data = Ok [].
  Proof.
    induction ms as [|m ms IH]; [split; reflexivity|]. intros H Hman. apply all_absent_cons in H.
    destruct H as [Hm Hms]. cbn [existsb] in Hman. apply orb_false_iff in Hman. destruct Hman as [Hman1 Hman2].
    destruct (IH Hms Hman2) as [IH1 IH2]. cbn [enc_members comps_fields].
    destruct (absent_member m data Hm) as [[_ Hc]|[_ [He Hf]]]; [congruence|].
    rewrite He, Hf, IH1, IH2. split; reflexivity.
  Qed.

  Lemma absent_preamble ms data :
    all_absent ms data ->
    map (fun m => presence_bit res m data) (filter has_presence_bit ms)
    = repeat false (length (filter has_presence_bit ms)).
  Proof.
    intros H. apply existsb_false_map.
    destruct (existsb (fun m => presence_bit res m data) (filter has_presence_bit ms)) eqn:E; [|reflexivity].
    apply existsb_exists in E. destruct E as (m & Hm & Hp). apply filter_In in Hm. destruct Hm as [Hm Hh].
    rewrite presence_eq in Hp by exact Hh. rewrite (H m Hm) in Hp. discriminate.
  Qed.

  Lemma all_false_repeat n : all_false (repeat false n) = true.
  Proof. induction n; [reflexivity|]. cbn [repeat all_false negb andb]. exact IHn. Qed.

  Lemma absent_group ms data :
    all_absent ms data -> existsb is_mandatory ms = false -> enc_group encT res ms data = Ok [].
  Proof.
    intros H Hman. unfold enc_group, enc_root. destruct (absent_members ms data H Hman) as [-> _].
    cbn [bind]. rewrite app_nil_r, absent_preamble by exact H.
    rewrite all_false_repeat, repeat_length, Nat.eqb_refl. reflexivity.
  Qed.

  Lemma adds_refine adds data :
    adds_scope adds data = true ->
    match additions_open recF res adds data with
    | Err e => enc_adds encT res adds data = Err e
    | Ok opens =>
      exists processed,
        enc_adds encT res adds data = Ok processed /\
        (length processed <= length adds)%nat /\
        map (@is_some bits) processed ++ repeat false (length adds - length processed)
        = map (fun a => addition_present res a data) adds /\
        enc_open_types processed = Ok (serialise opens)
    end.
  Proof.
    induction adds as [|[isg ms] r IH]; cbn [adds_scope].
    - intros _. exists []. repeat split; reflexivity || (cbn; lia).
    - intros H. apply andb_prop in H. destruct H as [Hs Hrest].
      (* the two ways of going on *)
      assert (Hstop : stops (isg, ms) data = true ->
                      addition_present res (isg, ms) data = false /\
                      additions_open recF res r data = Ok [] /\
                      map (fun a => addition_present res a data) r = repeat false (length r)).
      { intros Hst. rewrite Hst in Hrest. unfold stops in Hst. apply andb_prop in Hst.
        destruct Hst as [Hst _]. apply negb_true_iff in Hst. apply negb_true_iff in Hrest.
        split; [exact Hst|]. split; [apply all_absent_open; exact Hrest | apply existsb_false_map; exact Hrest]. }
      assert (Hcont : forall o : option bits, forall fso : list field,
                 stops (isg, ms) data = false ->
                 addition_present res (isg, ms) data = is_some o ->
                 (match o with Some bs => exists fs, fso = [FOpen fs] /\ bs = serialise fs /\ open_ok bs = true
                          | None => fso = [] end) ->
                 match (let* rest := additions_open recF res r data in Ok (fso ++ rest)) with
                 | Err e => (let* rest := enc_adds encT res r data in Ok (o :: rest)) = Err e
                 | Ok opens =>
                   exists processed,
                     (let* rest := enc_adds encT res r data in Ok (o :: rest)) = Ok processed /\
                     (length processed <= length ((isg, ms) :: r))%nat /\
                     map (@is_some bits) processed ++ repeat false (length ((isg, ms) :: r) - length processed)
                     = map (fun a => addition_present res a data) ((isg, ms) :: r) /\
                     enc_open_types processed = Ok (serialise opens)
                 end).
      { intros o fso Hst Hp Ho. rewrite Hst in Hrest. specialize (IH Hrest).
        destruct (additions_open recF res r data) as [opens|e]; cbn [bind].
        - destruct IH as (pr & Hpr & Hlen & Hmap & Hopen). rewrite Hpr. cbn [bind].
          exists (o :: pr). split; [reflexivity|]. split; [cbn [length]; first [apply le_n_S; assumption | apply Nat.le_0_l]|]. split.
          + cbn [map length app Nat.sub]. rewrite Hp. f_equal. exact Hmap.
          + destruct o as [bs|].
            * destruct Ho as (fs & -> & -> & Hok). cbn [enc_open_types app].
              pose proof (open_refines fs Hok) as Hor. cbv zeta in Hor.
              destruct (enc_len_single (Z.of_nat (length (pad8 (serialise fs)) / 8))) as [len|]; [|discriminate].
              cbn [bind] in *. rewrite Hopen. cbn [bind].
              assert (Hor' : len ++ pad8 (serialise fs) = ser (FOpen fs)) by congruence.
              change (serialise (FOpen fs :: opens)) with (ser (FOpen fs) ++ serialise opens).
              rewrite <- Hor', <- app_assoc. reflexivity.
            * subst fso. cbn [enc_open_types app]. exact Hopen.
        - rewrite IH. reflexivity. }
      destruct isg.
      + (* an addition group *)
        cbn [enc_adds additions_open]. cbn [addition_scope] in Hs.
        destruct (addition_present res (true, ms) data) eqn:Ep.
        * (* present *)
          apply andb_prop in Hs. destruct Hs as [Hs Hfs]. apply andb_prop in Hs. destruct Hs as [Hman Hroot].
          rewrite (gmf_present ms data Hman). unfold enc_group. rewrite (root_refines ms data Hroot).
          cbn [addition_fields].
          destruct (seq_root_fields recF res ms data) as [fs|e]; cbn [bind]; [|reflexivity].
          apply andb_prop in Hfs. destruct Hfs as [Hvis Hok].
          unfold group_visible in Hvis. apply negb_true_iff in Hvis.
          rewrite all_false_zero. change (@has_presence_bit ty) with (@optional_or_default ty). rewrite Hvis.
          cbn [bind].
          assert (Hne : (0 <? length (serialise fs))%nat = true) by (unfold open_ok in Hok; apply andb_prop in Hok; apply Hok).
          rewrite Hne.
          pose proof (Hcont (Some (serialise fs)) [FOpen fs]) as Hc. cbn [app] in Hc. 
          destruct (additions_open recF res r data) as [opens|e]; cbn [bind] in *; apply Hc;
            try (unfold stops; rewrite Ep; reflexivity); try reflexivity; exists fs; repeat split; exact Hok.
        * (* absent *)
          assert (Habs : all_absent ms data) by (apply existsb_absent; exact Ep).
          rewrite (gmf_absent ms data Habs).
          destruct (existsb is_mandatory ms) eqn:Em.
          -- destruct Hstop as (_ & Hopen & Hmap); [unfold stops; rewrite Ep; cbn [snd]; rewrite Em; reflexivity|].
             rewrite Hopen. exists []. split; [reflexivity|]. split; [cbn [length]; first [apply le_n_S; assumption | apply Nat.le_0_l]|]. split; [|reflexivity].
             cbn [map app length Nat.sub repeat]. rewrite Ep, Hmap. reflexivity.
          -- rewrite (absent_group ms data Habs Em). cbn [bind length]. change (0 <? 0)%nat with false.
             pose proof (Hcont None []) as Hc. cbn [app] in Hc.
             destruct (additions_open recF res r data) as [opens|e]; cbn [bind] in *; apply Hc;
               try (unfold stops; rewrite Ep; cbn [snd]; rewrite Em; reflexivity); reflexivity.
      + (* a single component *)
        destruct ms as [|m [|m2 ms']]; cbn [addition_scope] in Hs; try discriminate.
        cbn [enc_adds additions_open].
        assert (Hpres : addition_present res (false, [m]) data = comp_present res m data)
          by (unfold addition_present; cbn [snd existsb]; apply orb_false_r).
        rewrite Hpres.
        destruct (lookup (m_name m) data) as [v|] eqn:El.
        * apply andb_prop in Hs. destruct Hs as [Hs Hok]. apply andb_prop in Hs. destruct Hs as [Hcp Hsc].
          rewrite Hcp. cbn [addition_fields]. unfold comp_fields. rewrite El, Hcp.
          assert (Hem : enc_member encT res m data true = encT (m_ty m) v).
          { unfold enc_member. rewrite El. destruct (m_opt m); try reflexivity. rewrite orb_true_r. reflexivity. }
          rewrite Hem, (HT _ _ Hsc).
          destruct (recF (m_ty m) v) as [fs|e]; cbn [bind]; [|reflexivity].
          rewrite orb_true_r.
          pose proof (Hcont (Some (serialise fs)) [FOpen fs]) as Hc. cbn [app] in Hc.
          destruct (additions_open recF res r data) as [opens|e]; cbn [bind] in *; apply Hc;
            try (unfold stops; rewrite Hpres, Hcp; reflexivity); try (rewrite Hpres, Hcp; reflexivity);
            exists fs; repeat split; exact Hok.
        * assert (Hcp : comp_present res m data = false) by (unfold comp_present; rewrite El; reflexivity).
          rewrite Hcp. destruct (m_opt m) eqn:Eo.
          -- destruct Hstop as (_ & Hopen & Hmap).
             { unfold stops. rewrite Hpres, Hcp. cbn [snd existsb negb andb]. unfold is_mandatory. rewrite Eo. reflexivity. }
             rewrite Hopen. exists []. split; [reflexivity|]. split; [cbn [length]; first [apply le_n_S; assumption | apply Nat.le_0_l]|]. split; [|reflexivity].
             cbn [map app length Nat.sub repeat]. rewrite Hpres, Hcp, Hmap. reflexivity.
          -- assert (Hem : enc_member encT res m data true = Ok []) by (unfold enc_member; rewrite El, Eo; reflexivity).
             rewrite Hem. cbn [bind length]. change (0 <? 0)%nat with false. cbn [orb].
             pose proof (Hcont None []) as Hc. cbn [app] in Hc.
             destruct (additions_open recF res r data) as [opens|e]; cbn [bind] in *; apply Hc;
               try (unfold stops; rewrite Hpres, Hcp; cbn [snd existsb negb andb]; unfold is_mandatory; rewrite Eo; reflexivity);
               try (rewrite Hpres, Hcp; reflexivity); reflexivity.
          -- assert (Hem : enc_member encT res m data true = Ok []) by (unfold enc_member; rewrite El, Eo; reflexivity).
             rewrite Hem. cbn [bind length]. change (0 <? 0)%nat with false. cbn [orb].
             pose proof (Hcont None []) as Hc. cbn [app] in Hc.
             destruct (additions_open recF res r data) as [opens|e]; cbn [bind] in *; apply Hc;
               try (unfold stops; rewrite Hpres, Hcp; cbn [snd existsb negb andb]; unfold is_mandatory; rewrite Eo; reflexivity);
               try (rewrite Hpres, Hcp; reflexivity); reflexivity.
  Qed.
End CompositeRefine.

Lemma existsb_map_id {A} (p : A -> bool) l : existsb (fun b : bool => b) (map p l) = existsb p l.
Proof. induction l as [|x l IH]; [reflexivity|]. cbn [map existsb]. rewrite IH. reflexivity. Qed.

Lemma existsb_app_false (a : list bool) n :
  existsb (fun b : bool => b) (a ++ repeat false n) = existsb (fun b : bool => b) a.
Proof.
  rewrite existsb_app. induction n as [|n IH]; cbn [repeat existsb]; [apply orb_false_r | exact IH].
Qed.

Section CompositeRefine2.
  Variable encT : ty -> value -> result bits.
  Variable recF : ty -> value -> result (list field).
  Variable scopeT : ty -> value -> bool.
  Variable res : ty -> ty.
  Hypothesis HT : forall t v, scopeT t v = true -> encT t v = (let* fs := recF t v in Ok (serialise fs)).

  Definition seq_scope (root : list (member_of ty)) (ext : option (list (addition_of ty))) (v : value) : bool :=
    match v with
    | VSeq data =>
      root_scope scopeT res root data &&
      match ext with
      | None => true
      | Some adds => (Z.of_nat (length adds) <=? 127) && adds_scope recF scopeT res adds data
      end
    | _ => false
    end.

  Lemma seq_refines root ext v :
    seq_scope root ext v = true ->
    enc_seq encT res root ext v = (let* fs := seq_fields recF res root ext v in Ok (serialise fs)).
  Proof.
    unfold seq_scope, enc_seq, seq_fields. destruct v; try discriminate. rename fields into data.
    intros H. apply andb_prop in H. destruct H as [Hroot Hext].
    rewrite (root_refines encT recF scopeT res HT root data Hroot).
    destruct (seq_root_fields recF res root data) as [r|e]; cbn [bind]; [|destruct ext; reflexivity].
    destruct ext as [adds|]; [|reflexivity].
    apply andb_prop in Hext. destruct Hext as [Hn Hadds].
    pose proof (adds_refine encT recF scopeT res HT adds data Hadds) as Hr.
    destruct adds as [|a0 adds'] eqn:Eadds; [reflexivity|]. rewrite <- Eadds in *.
    unfold enc_additions.
    destruct (existsb (fun a => addition_present res a data) adds) eqn:Eex.
    - destruct (additions_open recF res adds data) as [opens|e]; cbn [bind].
      + destruct Hr as (pr & Hpr & Hlen & Hmap & Hopen). rewrite Hpr. cbn [bind].
        assert (Hex : existsb (@is_some bits) pr = true).
        { rewrite <- existsb_map_id, <- (existsb_app_false _ (length adds - length pr)), Hmap, existsb_map_id. exact Eex. }
        rewrite Hex. cbn [negb]. rewrite Hmap.
        rewrite small_len_eq by (rewrite Eadds in *; cbn [length] in *; lia).
        cbn [bind]. rewrite Hopen. cbn [bind].
        change (serialise (FBit true :: r ++ FSmallCounted (map (fun a => [FBit (addition_present res a data)]) adds) :: opens))
          with (true :: serialise (r ++ FSmallCounted (map (fun a => [FBit (addition_present res a data)]) adds) :: opens)).
        rewrite serialise_app.
        change (serialise (FSmallCounted (map (fun a => [FBit (addition_present res a data)]) adds) :: opens))
          with (ser (FSmallCounted (map (fun a => [FBit (addition_present res a data)]) adds)) ++ serialise opens).
        do 3 f_equal. cbn [ser]. rewrite map_length, map_map.
        rewrite (map_ext (fun x => flat_map ser [FBit (addition_present res x data)])
                         (fun x => [addition_present res x data])) by reflexivity.
        rewrite concat_singletons.
        destruct (Z.of_nat (length adds) <=? 64) eqn:E64.
        * cbn [app]. rewrite <- app_assoc. reflexivity.
        * rewrite unbounded_small by (rewrite map_length; lia). rewrite map_length, concat_singletons.
          cbn [app]. rewrite <- app_assoc. reflexivity.
      + rewrite Hr. reflexivity.
    - rewrite (all_absent_open recF res adds data Eex) in Hr.
      destruct Hr as (pr & Hpr & Hlen & Hmap & Hopen). rewrite Hpr. cbn [bind].
      assert (Hex : existsb (@is_some bits) pr = false).
      { rewrite <- existsb_map_id, <- (existsb_app_false _ (length adds - length pr)), Hmap, existsb_map_id. exact Eex. }
      rewrite Hex. reflexivity.
  Qed.

  (** *** 20 SEQUENCE OF *)
  Definition seqof_scope (elem : ty) (sz : size) (v : value) : bool :=
    match v with
    | VList vs => forallb (scopeT elem) vs && size_scope_x sz (Z.of_nat (length vs))
    | _ => false
    end.

  Lemma seqof_refines elem sz v :
    seqof_scope elem sz v = true ->
    enc_seqof encT elem sz v = (let* fs := seqof_fields recF elem sz v in Ok (serialise fs)).
  Proof.
    unfold seqof_scope, enc_seqof, seqof_fields. destruct v; try discriminate.
    intros H. apply andb_prop in H. destruct H as [Hel Hsz].
    assert (Hg : forall x, In x vs -> encT elem x = (let* fs := recF elem x in Ok (serialise fs))).
    { intros x Hx. apply HT. rewrite forallb_forall in Hel. apply Hel. exact Hx. }
    pose proof (sized_p1_refines (encT elem) (recF elem) vs Hg sz Hsz) as Hp. cbv zeta in Hp.
    replace (let* fs := (let* items := map_result (recF elem) vs in sized sz items) in Ok (serialise fs))
      with (let* items := map_result (recF elem) vs in let* fs := sized sz items in Ok (serialise fs))
      by (destruct (map_result (recF elem) vs); reflexivity).
    rewrite <- Hp. reflexivity.
  Qed.

  (** *** 23 CHOICE *)
  Lemma find_alt_lookup name alts : forall i0,
    match alt_lookup name alts with
    | None => find_alt name alts i0 = None
    | Some (k, t) => exists m, find_alt name alts i0 = Some (i0 + Z.of_nat k, m) /\ m_ty m = t /\ (k < length alts)%nat
    end.
  Proof.
    induction alts as [|m alts IH]; intros i0; [reflexivity|]. cbn [alt_lookup find_alt].
    destruct (String.eqb (m_name m) name).
    - exists m. repeat split; [f_equal; f_equal; lia | cbn [length]; lia].
    - specialize (IH (i0 + 1)). destruct (alt_lookup name alts) as [[k t]|].
      + destruct IH as (m' & Hf & Ht & Hk). exists m'. repeat split; [rewrite Hf; f_equal; f_equal; lia | exact Ht | cbn [length]; lia].
      + exact IH.
  Qed.

  Definition choice_scope (root : list (member_of ty)) (ext : option (list (member_of ty))) (v : value) : bool :=
    match v with
    | VChoice name x =>
      match alt_lookup name root with
      | Some (_, t) => scopeT t x
      | None =>
        match ext with
        | None => true
        | Some adds =>
          match alt_lookup name adds with
          | Some (_, t) =>
            scopeT t x && small_ok (Z.of_nat (length adds))
            && match recF t x with Ok fs => open_ok (serialise fs) | Err _ => true end
          | None => true
          end
        end
      end
    | _ => false
    end.

  Lemma choice_index root i :
    0 <= i <= Z.of_nat (length root) - 1 ->
    (if (1 <? length root)%nat then to_bits (choice_root_bits root) i else [])
    = ser (FCwn 0 (Z.of_nat (length root) - 1) i).
  Proof.
    intros H. pose proof (cwn_refines 0 (Z.of_nat (length root) - 1) i ltac:(lia)) as Hc.
    rewrite !Z.sub_0_r in Hc. rewrite <- Hc. unfold choice_root_bits.
    destruct (1 <? length root)%nat eqn:E; [reflexivity|].
    assert (length root = 1%nat) by lia. rewrite H0. reflexivity.
  Qed.

  Lemma choice_refines root ext v :
    choice_scope root ext v = true ->
    enc_choice encT root ext v = (let* fs := choice_fields recF root ext v in Ok (serialise fs)).
  Proof.
    unfold choice_scope, enc_choice, choice_fields. destruct v; try discriminate. rename alt into name.
    pose proof (find_alt_lookup name root 0) as Hroot.
    destruct (alt_lookup name root) as [[k t]|].
    - destruct Hroot as (m & Hf & Ht & Hk). intros Hsc.
      assert (Hroot_enc : enc_choice_root encT root name v =
                          (let* body := recF t v in Ok (ser (FCwn 0 (Z.of_nat (length root) - 1) (Z.of_nat k)) ++ serialise body))).
      { unfold enc_choice_root. rewrite Hf, Ht, (HT _ _ Hsc).
        destruct (recF t v); cbn [bind]; [|reflexivity]. rewrite choice_index by lia. reflexivity. }
      destruct ext as [adds|].
      + rewrite Hf, Hroot_enc. destruct (recF t v); reflexivity.
      + rewrite Hroot_enc. destruct (recF t v); reflexivity.
    - destruct ext as [adds|].
      + rewrite Hroot. pose proof (find_alt_lookup name adds 0) as Hadds.
        destruct (alt_lookup name adds) as [[j t]|].
        * destruct Hadds as (m & Hf & Ht & Hj). intros Hsc.
          apply andb_prop in Hsc. destruct Hsc as [Hsc Hok]. apply andb_prop in Hsc. destruct Hsc as [Hsc Hsm].
          rewrite Hf, Ht, (HT _ _ Hsc). destruct (recF t v) as [fs|e]; cbn [bind]; [|reflexivity].
          rewrite nsnnwn_refines by lia.
          assert (nnbi_octets (0 + Z.of_nat j) <? 16384 = true) as ->.
          { unfold small_ok in Hsm.
            pose proof (nnbi_octets_mono (0 + Z.of_nat j) (Z.of_nat (length adds)) ltac:(lia)). lia. }
          cbn [bind]. pose proof (open_refines fs Hok) as Hor. cbv zeta in Hor.
          destruct (enc_len_single (Z.of_nat (length (pad8 (serialise fs)) / 8))) as [len|]; [|discriminate].
          cbn [bind] in *. assert (Hor' : len ++ pad8 (serialise fs) = ser (FOpen fs)) by congruence.
          change (serialise [FBit true; FNsnnwn (Z.of_nat j); FOpen fs])
            with (true :: ser (FNsnnwn (Z.of_nat j)) ++ ser (FOpen fs) ++ []).
          rewrite app_nil_r, <- Hor'. reflexivity.
        * intros _. rewrite Hadds. reflexivity.
      + intros _. unfold enc_choice_root. rewrite Hroot. reflexivity.
  Qed.
End CompositeRefine2.

(** * The scope and the refinement theorem *)

Section Scope.
  Variable numeric : bool.
  Variable e : env.

  Fixpoint x691_scope (fuel : nat) (t : ty) (v : value) {struct fuel} : bool :=
    match fuel with
    | O => false
    | S f =>
      match t with
      | TBool => match v with VBool _ => true | _ => false end
      | TNull => true
      | TInt c => match v with VInt z => int_scope c z | _ => false end
      | TEnum root ext => enum_scope root ext
      | TBits named s =>
        match v with
        | VBits b n => bits_scope (match named with Some _ => true | None => false end) s b n
        | _ => false
        end
      | TOctets s => match v with VBytes b => size_scope_x s (Z.of_nat (length b)) | _ => false end
      | TStr SkUTF8 _ _ => match v with VStr c => utf8_scope c | _ => false end
      | TStr k s alpha => match v with VStr c => km_scope k s alpha c | _ => false end
      | TOid => match v with VOid a => oid_scope a | _ => false end
      | TSeq _ root ext => seq_scope (x691_fields numeric e f) (x691_scope f) (deref e f) root ext v
      | TSeqOf _ elem s => seqof_scope (x691_scope f) elem s v
      | TChoice root ext => choice_scope (x691_fields numeric e f) (x691_scope f) root ext v
      | TRef n => match lookup n e with Some t' => x691_scope f t' v | None => false end
      | TTag _ t' => x691_scope f t' v
      end
    end.
End Scope.

Theorem uper_refines_x691 numeric e : forall fuel t v,
  x691_scope numeric e fuel t v = true ->
  enc numeric e fuel t v = x691_encode numeric e fuel t v.
Proof.
  unfold x691_encode.
  induction fuel as [|f IH]; intros t v H; [discriminate|].
  cbn [x691_scope] in H. cbn [enc x691_fields].
  destruct t.
  - destruct v; try discriminate. reflexivity.
  - reflexivity.
  - destruct v; try discriminate. apply int_refines. exact H.
  - apply enum_refines. exact H.
  - destruct v; try discriminate. apply bitstring_refines. exact H.
  - destruct v; try discriminate. apply octets_refines. exact H.
  - destruct k; (destruct v; try discriminate);
      try (apply kmstring_refines; exact H); try (apply utf8_refines; exact H).
  - destruct v; try discriminate. apply oid_refines. exact H.
  - apply seq_refines with (scopeT := x691_scope numeric e f); [exact IH | exact H].
  - apply seqof_refines with (scopeT := x691_scope numeric e f); [exact IH | exact H].
  - apply (choice_refines (enc numeric e f) (x691_fields numeric e f) (x691_scope numeric e f) (deref e f) IH). exact H.
  - destruct (lookup name e); [apply IH; exact H | discriminate].
  - apply IH. exact H.
Qed.
Print Assumptions uper_refines_x691.

(** Octet level: the library emits [bits_to_bytes] of the bit string; X.691
    11.1 prescribes the same octets except for an empty bit string, which is
    one zero octet (11.1.3) where the library returns no octet at all. *)
Corollary uper_encode_refines_x691 numeric e fuel t v :
  x691_scope numeric e fuel t v = true ->
  x691_encode numeric e fuel t v <> Ok [] ->
  uper_encode numeric fuel e t v = x691_encode_octets numeric e fuel t v.
Proof.
  intros H Hne. unfold uper_encode, x691_encode_octets. rewrite (uper_refines_x691 numeric e fuel t v H).
  destruct (x691_encode numeric e fuel t v) as [[|b bs]|err]; cbn [bind complete_octets];
    [exfalso; apply Hne; reflexivity | reflexivity | reflexivity].
Qed.
Print Assumptions uper_encode_refines_x691.

Corollary uper_encode_empty_x691 numeric e fuel t v :
  x691_scope numeric e fuel t v = true ->
  x691_encode numeric e fuel t v = Ok [] ->
  uper_encode numeric fuel e t v = Ok [] /\ x691_encode_octets numeric e fuel t v = Ok [0].
Proof.
  intros H He. unfold uper_encode, x691_encode_octets. rewrite (uper_refines_x691 numeric e fuel t v H), He.
  split; reflexivity.
Qed.
Print Assumptions uper_encode_empty_x691.

(** * Why the scope excludes what it excludes

    Each example evaluates the implementation model (= the library, octets as
    the library returns them) and the specification model on a witness that
    [x691_scope] rejects.  [uper_encode] is the library's output,
    [x691_encode_octets] what X.691 prescribes. *)
Local Open Scope string_scope.

Definition deviation (numeric : bool) (e : env) (fuel : nat) (t : ty) (v : value)
           (library x691 : result (list Z)) : Prop :=
  uper_encode numeric fuel e t v = library /\
  x691_encode_octets numeric e fuel t v = x691 /\
  library <> x691 /\
  x691_scope numeric e fuel t v = false.

Ltac deviation := unfold deviation; repeat split; try (vm_compute; reflexivity); discriminate.

(** the X.691 octets are [n] octets beginning with [pre] *)
Definition octets_are (r : result (list Z)) (n : Z) (pre : list Z) : bool :=
  match r with
  | Ok l => Z.eqb (Z.of_nat (length l)) n && zlist_eqb (firstn (length pre) l) pre
  | Err _ => false
  end.

Definition seq_a (adds : list (addition_of ty)) : ty := TSeq false [("a", TBool, Mandatory)] (Some adds).

(** known finding per-semi-constrained-as-unconstrained: INTEGER (0..MAX), 128 *)
Example semi_constrained_deviates :
  deviation false [] 2 (TInt (IcRange (Some 0) None false)) (VInt 128) (Ok (hex "020080")) (Ok (hex "0180")).
Proof. deviation. Qed.

(** known finding per-int-extensible-open-bound: INTEGER (MIN..6, ...), 6 *)
Example int_extensible_open_bound_deviates :
  deviation false [] 2 (TInt (IcRange None (Some 6) true)) (VInt 6) (Err (EForeign "TypeError")) (Ok (hex "008300")).
Proof. deviation. Qed.

(** known finding uper-string-size-extension-outside-root: NumericString
    (SIZE(5, ...)), "86 1" (the library writes a length-less body; the
    implementation model says EUnmodelled) *)
Example string_size_extension_deviates :
  deviation false [] 2 (TStr SkNumeric (SzRange 5 (Some 5) true) None) (VStr [56; 54; 32; 49])
            (Err EUnmodelled) (Ok (hex "824b8100")).
Proof. deviation. Qed.

(** known finding per-bitstring-size-extension-outside-root: BIT STRING (SIZE(2, ...)), '111'B *)
Example bitstring_size_extension_deviates :
  deviation false [] 2 (TBits None (SzRange 2 (Some 2) true)) (VBits [224] 3)
            (Err (EForeign "NotImplementedError")) (Ok (hex "81f0")).
Proof. deviation. Qed.

(** known finding per-addition-group-zero-width: SEQUENCE { a BOOLEAN, ..., [[ g NULL ]] } *)
Example zero_width_group_deviates :
  deviation false [] 3 (seq_a [(true, [("g", TNull, Mandatory)])]) (VSeq [("a", VBool true); ("g", VNone)])
            (Ok (hex "40")) (Ok (hex "c0404000")).
Proof. deviation. Qed.

(** known finding per-empty-outermost-encoding: NULL.  The bit strings agree
    (both empty: in scope); the octets differ (11.1.3). *)
Example empty_outermost_deviates :
  x691_scope false [] 2 TNull VNone = true /\
  uper_encode false 2 [] TNull VNone = Ok [] /\
  x691_encode_octets false [] 2 TNull VNone = Ok (hex "00").
Proof. repeat split; vm_compute; reflexivity. Qed.

(** known finding per-open-type-over-16k: SEQUENCE { a BOOLEAN, ..., b OCTET
    STRING OPTIONAL } with 16384 octets in b (the library writes one fragment
    marker and then all the data; the implementation model says EUnmodelled;
    X.691 fragments the open type: 16390 octets beginning c0 70 70 40) *)
Example open_type_16k_deviates :
  let t := seq_a [(false, [("b", TOctets SzNone, Optional)])] in
  let v := VSeq [("a", VBool true); ("b", VBytes (repeat 0 (Z.to_nat 16384)))] in
  uper_encode false 3 [] t v = Err EUnmodelled /\
  octets_are (x691_encode_octets false [] 3 t v) 16390 (hex "c0707040") = true /\
  x691_scope false [] 3 t v = false.
Proof. cbv zeta. split; [|split]; vm_compute; reflexivity. Qed.

(** a count of 16K or more outside the root of an extensible SIZE is in scope
    since the repair C01-per-size-extension-fragmentation (before it the
    library wrote one fragment marker and then all the data): OCTET STRING
    (SIZE(0..3, ...)) with 16384 octets is fragmented as 11.9.3.8 prescribes *)
Example size_extension_16k_in_scope :
  let t := TOctets (SzRange 0 (Some 3) true) in
  let v := VBytes (repeat 0 (Z.to_nat 16384)) in
  octets_are (uper_encode false 3 [] t v) 16387 (hex "e080") = true /\
  uper_encode false 3 [] t v = x691_encode_octets false [] 3 t v /\
  x691_scope false [] 3 t v = true.
Proof. cbv zeta. split; [|split]; vm_compute; reflexivity. Qed.

(** NEW: uper.py always re-indexes an explicit permitted alphabet; X.691
    30.5.4 a) encodes the character values themselves when the largest one
    fits in the field: IA5String (FROM ("0".."z")), "0z" (75 characters, 7
    bits, largest value 122 <= 127) *)
Example alphabet_reindexed_deviates :
  deviation false [] 2 (TStr SkIA5 SzNone (Some (zrange_list 48 122))) (VStr [48; 122])
            (Ok (hex "020128")) (Ok (hex "0261e8")).
Proof. deviation. Qed.

(** NEW: an extension addition with an empty encoding is written as an open
    type of length 0; X.691 11.2 with 11.1.3 prescribes one zero octet:
    SEQUENCE { a BOOLEAN, ..., b NULL OPTIONAL } *)
Example zero_width_addition_deviates :
  deviation false [] 3 (seq_a [(false, [("b", TNull, Optional)])]) (VSeq [("a", VBool true); ("b", VNone)])
            (Ok (hex "c04000")) (Ok (hex "c0404000")).
Proof. deviation. Qed.

(** NEW: the same for a CHOICE extension alternative: CHOICE { a BOOLEAN, ..., n NULL } *)
Example zero_width_choice_addition_deviates :
  deviation false [] 3 (TChoice [("a", TBool, Mandatory)] (Some [("n", TNull, Mandatory)])) (VChoice "n" VNone)
            (Ok (hex "8000")) (Ok (hex "800100")).
Proof. deviation. Qed.

(** NEW (reading of 19.5): an extension addition marked DEFAULT is encoded by
    the library even when its value is the default value: SEQUENCE { a
    BOOLEAN, ..., b INTEGER DEFAULT 5 } with b = 5 *)
Example default_addition_deviates :
  deviation false [] 3 (seq_a [(false, [("b", TInt IcNone, Default (VInt 5))])])
            (VSeq [("a", VBool true); ("b", VInt 5)]) (Ok (hex "c040804140")) (Ok (hex "40")).
Proof. deviation. Qed.

(** NEW: a value whose later addition is present while an earlier mandatory
    addition is missing loses the later addition silently: SEQUENCE { a
    BOOLEAN, ..., b BOOLEAN, c BOOLEAN } with a and c *)
Example addition_after_missing_deviates :
  deviation false [] 3 (seq_a [(false, [("b", TBool, Mandatory)]); (false, [("c", TBool, Mandatory)])])
            (VSeq [("a", VBool true); ("c", VBool true)]) (Ok (hex "40")) (Ok (hex "c0a03000")).
Proof. deviation. Qed.

(** NEW: named-bit BIT STRING whose data has 1 bits after the stated number
    of bits: the library strips on the whole data: BIT STRING { x(0), y(3) },
    (b'\xff', 3) *)
Example named_bits_beyond_length_deviates :
  deviation false [] 2 (TBits (Some [("x", 0); ("y", 3)]) SzNone) (VBits [255] 3) (Ok (hex "08ff")) (Ok (hex "03e0")).
Proof. deviation. Qed.

(** NEW: more than 127 extension additions: NotImplementedError in
    append_normally_small_length *)
Example many_additions_deviates :
  let t := seq_a (repeat (false, [("x", TBool, Optional)]) 128) in
  let v := VSeq [("a", VBool true); ("x", VBool true)] in
  uper_encode false 3 [] t v = Err (EForeign "NotImplementedError") /\
  octets_are (x691_encode_octets false [] 3 t v) 275 (hex "f0101fff") = true /\
  x691_scope false [] 3 t v = false.
Proof. cbv zeta. split; [|split]; vm_compute; reflexivity. Qed.

(** NEW: SIZE (1..MAX, ...): the library raises TypeError (the upper bound is
    the string MAX); the implementation model is NOT faithful here (it treats
    every count as outside the root; its generator never produces this shape),
    so the region is excluded: OCTET STRING (SIZE(1..MAX, ...)), '01'H *)
Example size_extensible_open_upper_bound_deviates :
  deviation false [] 2 (TOctets (SzRange 1 None true)) (VBytes [1]) (Ok (hex "808080")) (Ok (hex "008080")).
Proof. deviation. Qed.

(** A single-character permitted alphabet (known finding
    per-single-character-alphabet) is a DECODER defect: the encoder output is
    what X.691 prescribes, so the region is in scope. *)
Example single_character_alphabet_in_scope :
  let t := TStr SkPrintable (SzRange 2 (Some 4) false) (Some [109]) in
  x691_scope false [] 2 t (VStr [109; 109]) = true /\
  uper_encode false 2 [] t (VStr [109; 109]) = Ok (hex "00").
Proof. cbv zeta. split; vm_compute; reflexivity. Qed.
