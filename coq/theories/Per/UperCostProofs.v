(** C08, work bound for the UPER decoder model: proofs about the instrumented
    decoder of [Per/UperCost.v].

    1. [dec_cost_erases]: dropping the step counter gives back [dec].
    2. [dec_cost_bound]: on ANY input the step count is at most
       [K e fuel t * (length inp + 1)], with [K] computed from the type.
    3. [K_fuel_stable]: for a specification whose reference graph below [t]
       is acyclic of nesting depth <= d ([fits e d t = true]) the constant does
       not depend on the fuel. *)
From Asn1V Require Import Base.Prelude Base.Bits Base.BitsProofs Base.Utf8 Syntax.Asn1.
From Asn1V Require Import Per.UperImpl Per.UperCost.
From Coq Require Import NArith.

(** * 1. Erasure *)

Definition Er {A} (m : creader A) (rd : reader A) : Prop := forall bs, fst (m bs) = rd bs.

Lemma Er_ret {A} (a : A) : Er (cret a) (rret a).
Proof. intros bs. reflexivity. Qed.

Lemma Er_fail {A} x : Er (@cfail A x) (rfail x).
Proof. intros bs. reflexivity. Qed.

Lemma Er_prim {A} (rd : reader A) : Er (prim rd) rd.
Proof. intros bs. reflexivity. Qed.

Lemma Er_tick {A} n (m : creader A) rd : Er m rd -> Er (tick n m) rd.
Proof. intros H bs. unfold tick. rewrite <- H. destruct (m bs). reflexivity. Qed.

Lemma Er_bind {A B} (m : creader A) rd (f : A -> creader B) g :
  Er m rd -> (forall a, Er (f a) (g a)) -> Er (cbind m f) (rbind rd g).
Proof.
  intros H1 H2 bs. unfold cbind, rbind. rewrite <- H1.
  destruct (m bs) as [[[a r]|x] c]; cbn [fst]; [|reflexivity].
  rewrite <- H2. destruct (f a r). reflexivity.
Qed.

Lemma Er_with_consumed {A} (m : creader A) rd : Er m rd -> Er (c_with_consumed m) (with_consumed rd).
Proof.
  intros H bs. unfold c_with_consumed, with_consumed. rewrite <- H.
  destruct (m bs) as [[[a r]|x] c]; reflexivity.
Qed.

Ltac er_step :=
  match goal with
  | |- Er (cret _) _ => apply Er_ret
  | |- Er (cfail _) _ => apply Er_fail
  | |- Er (prim _) _ => apply Er_prim
  | |- Er c_read_bit _ => apply Er_prim
  | |- Er (c_read_uint _) _ => apply Er_prim
  | |- Er (c_read_raw _) _ => apply Er_prim
  | |- Er (c_skip_bits _) _ => apply Er_prim
  | |- Er (tick _ _) _ => apply Er_tick
  | |- Er (cbind _ _) (rbind _ _) => apply Er_bind; [|intros ?]
  | |- Er (c_with_consumed _) _ => apply Er_with_consumed
  | |- Er (let _ := _ in _) _ => cbv zeta
  | |- Er (match ?x with _ => _ end) _ => destruct x
  | |- Er (if ?x then _ else _) _ => destruct x
  end.
Ltac er := repeat er_step; try assumption.

Lemma Er_read_len : Er c_read_len read_len.
Proof. unfold c_read_len, read_len, c_read_uint. er. Qed.

Lemma Er_read_n {A} n (m : creader A) rd : Er m rd -> Er (c_read_n n m) (read_n n rd).
Proof. intros H. induction n as [|n IH]; cbn [c_read_n read_n]; er. Qed.

Lemma Er_read_frag {A} fuel (m : creader A) rd : Er m rd -> Er (c_read_frag fuel m) (read_frag fuel rd).
Proof.
  intros H. induction fuel as [|f IH]; cbn [c_read_frag read_frag]; er.
  - apply Er_read_len.
  - apply Er_read_n, H.
Qed.

Lemma Er_read_frag_auto {A} (m : creader A) rd : Er m rd -> Er (c_read_frag_auto m) (read_frag_auto rd).
Proof. intros H bs. unfold c_read_frag_auto, read_frag_auto. apply Er_read_frag, H. Qed.

Lemma Er_read_unconstrained : Er c_read_unconstrained read_unconstrained.
Proof. unfold c_read_unconstrained, read_unconstrained, c_read_uint. er. apply Er_read_len. Qed.

Lemma Er_read_small_nonneg : Er c_read_small_nonneg read_small_nonneg.
Proof. unfold c_read_small_nonneg, read_small_nonneg, c_read_uint, c_read_bit. er. apply Er_read_len. Qed.

Lemma Er_read_small_len : Er c_read_small_len read_small_len.
Proof. unfold c_read_small_len, read_small_len, c_read_uint, c_read_bit. er. Qed.

Lemma Er_read_int_root c : Er (c_read_int_root c) (read_int_root c).
Proof. unfold c_read_int_root, read_int_root, c_read_uint. er. apply Er_read_unconstrained. Qed.

Lemma Er_read_int c : Er (c_read_int c) (read_int c).
Proof.
  unfold c_read_int, read_int, c_read_bit. er;
    first [apply Er_read_unconstrained | apply Er_read_int_root].
Qed.

Lemma Er_read_enum_root numeric root : Er (c_read_enum_root numeric root) (read_enum_root numeric root).
Proof. unfold c_read_enum_root, read_enum_root, c_read_uint. er. Qed.

Lemma Er_read_enum numeric root ext : Er (c_read_enum numeric root ext) (read_enum numeric root ext).
Proof.
  unfold c_read_enum, read_enum, c_read_bit. er;
    first [apply Er_read_enum_root | apply Er_read_small_nonneg].
Qed.

Lemma Er_read_byte : Er c_read_byte read_byte.
Proof. apply Er_prim. Qed.

Lemma Er_read_bitstring sz : Er (c_read_bitstring sz) (read_bitstring sz).
Proof.
  unfold c_read_bitstring, read_bitstring, c_read_bit, c_read_uint, c_read_raw. er.
  all: apply Er_read_frag_auto, Er_prim.
Qed.

Lemma Er_read_octets sz : Er (c_read_octets sz) (read_octets sz).
Proof.
  unfold c_read_octets, read_octets, c_read_bit, c_read_uint. er.
  all: first [apply Er_read_frag_auto, Er_read_byte | apply Er_read_n, Er_read_byte].
Qed.

Lemma Er_km_read_char a ident : Er (c_km_read_char a ident) (km_read_char a ident).
Proof. unfold c_km_read_char, km_read_char, c_read_uint. er. Qed.

Lemma Er_read_kmstring k sz alpha : Er (c_read_kmstring k sz alpha) (read_kmstring k sz alpha).
Proof.
  unfold c_read_kmstring, read_kmstring, c_read_bit, c_read_uint.
  destruct (km_alphabet k alpha) as [[a ident]|]; er.
  all: first [apply Er_read_frag_auto, Er_km_read_char | apply Er_read_n, Er_km_read_char].
Qed.

Lemma Er_read_utf8 : Er c_read_utf8 read_utf8.
Proof. unfold c_read_utf8, read_utf8. er. apply Er_read_frag_auto, Er_read_byte. Qed.

Lemma Er_read_oid : Er c_read_oid read_oid.
Proof.
  unfold c_read_oid, read_oid. er.
  - apply Er_read_len.
  - apply Er_read_n, Er_tick, Er_read_byte.
Qed.

Section ErComposite.
  Variable decT : ty -> creader value.
  Variable rdT : ty -> reader value.
  Hypothesis HT : forall t, Er (decT t) (rdT t).

  Lemma Er_dec_members ms : forall pres, Er (c_dec_members decT ms pres) (dec_members rdT ms pres).
  Proof.
    induction ms as [|m r IH]; intros pres; cbn [c_dec_members dec_members]; er;
      first [apply HT | apply IH].
  Qed.

  Lemma Er_dec_root ms : Er (c_dec_root decT ms) (dec_root rdT ms).
  Proof.
    unfold c_dec_root, dec_root. er.
    - apply Er_read_n, Er_prim.
    - apply Er_dec_members.
  Qed.

  Lemma Er_dec_one_addition adds n : Er (c_dec_one_addition decT adds n) (dec_one_addition rdT adds n).
  Proof.
    unfold c_dec_one_addition, dec_one_addition, c_skip_bits. er;
      first [apply Er_dec_root | apply HT].
  Qed.

  Lemma Er_dec_adds pres : forall adds, Er (c_dec_adds decT pres adds) (dec_adds rdT pres adds).
  Proof.
    induction pres as [|p pres IH]; intros adds; cbn [c_dec_adds dec_adds]; er.
    all: first [apply IH | apply Er_read_len | apply Er_dec_one_addition | idtac].
  Qed.

  Lemma Er_dec_additions adds : Er (c_dec_additions decT adds) (dec_additions rdT adds).
  Proof.
    unfold c_dec_additions, dec_additions, c_read_raw. er.
    - apply Er_read_small_len.
    - apply Er_dec_adds.
  Qed.

  Lemma Er_dec_seq root ext : Er (c_dec_seq decT root ext) (dec_seq rdT root ext).
  Proof.
    unfold c_dec_seq, dec_seq, c_read_bit. er;
      first [apply Er_dec_root | apply Er_dec_additions].
  Qed.

  Lemma Er_dec_seqof elem sz : Er (c_dec_seqof decT elem sz) (dec_seqof rdT elem sz).
  Proof.
    unfold c_dec_seqof, dec_seqof, c_read_bit, c_read_uint. er.
    all: first [apply Er_read_frag_auto, HT | apply Er_read_n, HT].
  Qed.

  Lemma Er_dec_choice_root root : Er (c_dec_choice_root decT root) (dec_choice_root rdT root).
  Proof. unfold c_dec_choice_root, dec_choice_root, c_read_uint. er. all: apply HT. Qed.

  Lemma Er_dec_choice root ext : Er (c_dec_choice decT root ext) (dec_choice rdT root ext).
  Proof.
    unfold c_dec_choice, dec_choice, c_read_bit, c_skip_bits. er.
    all: first [apply Er_dec_choice_root | apply Er_read_small_nonneg | apply Er_read_len | apply HT].
  Qed.
End ErComposite.

Lemma Er_dec numeric e fuel : forall t, Er (dec_cost numeric e fuel t) (dec numeric e fuel t).
Proof.
  induction fuel as [|f IH]; intros t; cbn [dec_cost dec]; [er|].
  apply Er_tick. destruct t.
  - unfold c_read_bit. er.
  - er.
  - er. apply Er_read_int.
  - apply Er_read_enum.
  - apply Er_read_bitstring.
  - apply Er_read_octets.
  - destruct k; first [apply Er_read_utf8 | apply Er_read_kmstring].
  - apply Er_read_oid.
  - apply Er_dec_seq, IH.
  - apply Er_dec_seqof, IH.
  - apply Er_dec_choice, IH.
  - er. apply IH.
  - apply IH.
Qed.

(** The instrumentation does not change behaviour. *)
Theorem dec_cost_erases numeric e fuel t inp :
  fst (dec_cost numeric e fuel t inp) = dec numeric e fuel t inp.
Proof. apply Er_dec. Qed.

Theorem uper_decode_cost_erases numeric fuel e t data :
  fst (uper_decode_cost numeric fuel e t data) = uper_decode numeric fuel e t data.
Proof.
  unfold uper_decode_cost, uper_decode. rewrite <- dec_cost_erases.
  destruct (dec_cost numeric e fuel t (bytes_to_bits data)) as [[[v r]|x] c]; reflexivity.
Qed.

(** * 2. The bound

    The abstract cost of a reader is a triple [(a, b, w)]: on every input the
    reader makes at most [a + b * consumed] steps, where [consumed] is the
    number of bits it consumed (on an error: the number of bits that were
    left), and [w = true] says that a successful run consumes at least one
    bit.  [a] is paid even on empty input (fixed-size arrays of zero-width
    elements), [b] is paid per consumed bit. *)
Local Open Scope N_scope.

Record abw : Type := ABW { ka : N; kb : N; kw : bool }.

Definition Cost {A} (k : abw) (m : creader A) : Prop :=
  forall bs,
    match m bs with
    | (Ok (_, r), c) =>
      (length r <= length bs)%nat /\
      c <= ka k + kb k * N.of_nat (length bs - length r) /\
      (kw k = true -> (length r < length bs)%nat)
    | (Err _, c) => c <= ka k + kb k * N.of_nat (length bs)
    end.

Definition kle (k k' : abw) : Prop :=
  ka k <= ka k' /\ kb k <= kb k' /\ (kw k' = true -> kw k = true).

Definition kret : abw := ABW 0 0 false.
Definition kfail : abw := ABW 0 0 true.
Definition kprim (w : bool) : abw := ABW 1 0 w.
Definition kseq (k1 k2 : abw) : abw := ABW (ka k1 + ka k2) (N.max (kb k1) (kb k2)) (kw k1 || kw k2).
Definition kalt (k1 k2 : abw) : abw := ABW (N.max (ka k1) (ka k2)) (N.max (kb k1) (kb k2)) (kw k1 && kw k2).
Definition ktick (n : N) (k : abw) : abw := ABW (n + ka k) (kb k) (kw k).

Lemma kle_refl k : kle k k.
Proof. unfold kle. repeat split; auto; lia. Qed.

Lemma kle_trans k1 k2 k3 : kle k1 k2 -> kle k2 k3 -> kle k1 k3.
Proof. unfold kle. intros (A1 & B1 & W1) (A2 & B2 & W2). repeat split; [lia | lia | auto]. Qed.

Lemma Cost_weaken {A} k k' (m : creader A) : kle k k' -> Cost k m -> Cost k' m.
Proof.
  intros (Ha & Hb & Hw) H bs. specialize (H bs). destruct (m bs) as [[[x r]|er] c].
  - destruct H as (L & C & W). split; [exact L|]. split; [|auto].
    pose proof (N.mul_le_mono_r _ _ (N.of_nat (length bs - length r)) Hb). lia.
  - pose proof (N.mul_le_mono_r _ _ (N.of_nat (length bs)) Hb). lia.
Qed.

Lemma Cost_ret {A} (a : A) : Cost kret (cret a).
Proof. intros bs. cbn. split; [lia|]. split; [lia|discriminate]. Qed.

Lemma Cost_fail {A} x : Cost kfail (@cfail A x).
Proof. intros bs. cbn. lia. Qed.

Lemma Cost_tick {A} n k (m : creader A) : Cost k m -> Cost (ktick n k) (tick n m).
Proof.
  intros H bs. specialize (H bs). unfold tick. destruct (m bs) as [[[x r]|er] c]; cbn [ka kb kw ktick].
  - destruct H as (L & C & W). split; [exact L|]. split; [lia|exact W].
  - lia.
Qed.

Definition Post {A} (Q : A -> Prop) (m : creader A) : Prop :=
  forall bs x r c, m bs = (Ok (x, r), c) -> Q x.

Lemma arith_seq a1 b1 a2 b2 c1 c2 X Y :
  c1 <= a1 + b1 * X -> c2 <= a2 + b2 * Y -> c1 + c2 <= a1 + a2 + N.max b1 b2 * (X + Y).
Proof.
  intros H1 H2.
  pose proof (N.mul_le_mono_r _ _ X (N.le_max_l b1 b2)).
  pose proof (N.mul_le_mono_r _ _ Y (N.le_max_r b1 b2)).
  rewrite N.mul_add_distr_l. lia.
Qed.

Lemma arith_seq_le a1 b1 a2 b2 c1 c2 X Y Z :
  c1 <= a1 + b1 * X -> c2 <= a2 + b2 * Y -> X + Y <= Z -> c1 + c2 <= a1 + a2 + N.max b1 b2 * Z.
Proof.
  intros H1 H2 H3. pose proof (arith_seq _ _ _ _ _ _ _ _ H1 H2).
  pose proof (N.mul_le_mono_l _ _ (N.max b1 b2) H3). lia.
Qed.

Lemma Cost_bind_post {A B} (Q : A -> Prop) k1 k2 (m : creader A) (f : A -> creader B) :
  Cost k1 m -> Post Q m -> (forall x, Q x -> Cost k2 (f x)) -> Cost (kseq k1 k2) (cbind m f).
Proof.
  intros H1 HQ H2 bs. unfold cbind. specialize (H1 bs). specialize (HQ bs).
  destruct (m bs) as [[[x r]|er] c1]; cbn [ka kb kw kseq].
  - destruct H1 as (L1 & C1 & W1). specialize (H2 x (HQ _ _ _ eq_refl) r).
    destruct (f x r) as [[[y r2]|er2] c2].
    + destruct H2 as (L2 & C2 & W2). split; [lia|]. split.
      * eapply arith_seq_le; [exact C1 | exact C2 | lia].
      * intros Hw. apply orb_prop in Hw. destruct Hw as [Hw|Hw]; [specialize (W1 Hw)|specialize (W2 Hw)]; lia.
    + eapply arith_seq_le; [exact C1 | exact H2 | lia].
  - pose proof (N.mul_le_mono_r _ _ (N.of_nat (length bs)) (N.le_max_l (kb k1) (kb k2))). lia.
Qed.

Lemma Cost_bind {A B} k1 k2 (m : creader A) (f : A -> creader B) :
  Cost k1 m -> (forall x, Cost k2 (f x)) -> Cost (kseq k1 k2) (cbind m f).
Proof.
  intros H1 H2. apply (Cost_bind_post (fun _ => True)); auto. intros bs x r c _. exact I.
Qed.

Lemma Cost_if {A} k1 k2 (c : bool) (m1 m2 : creader A) :
  Cost k1 m1 -> Cost k2 m2 -> Cost (kalt k1 k2) (if c then m1 else m2).
Proof.
  intros H1 H2. destruct c; [eapply Cost_weaken; [|exact H1] | eapply Cost_weaken; [|exact H2]];
    unfold kle, kalt; cbn [ka kb kw]; (split; [lia|]); (split; [lia|]);
    intros Hw; apply andb_prop in Hw; tauto.
Qed.

Lemma Cost_opt {A B} k1 k2 (o : option B) (f : B -> creader A) (g : creader A) :
  (forall x, Cost k1 (f x)) -> Cost k2 g ->
  Cost (kalt k1 k2) (match o with Some x => f x | None => g end).
Proof.
  intros H1 H2. destruct o as [x|]; [eapply Cost_weaken; [|exact (H1 x)] | eapply Cost_weaken; [|exact H2]];
    unfold kle, kalt; cbn [ka kb kw]; (split; [lia|]); (split; [lia|]);
    intros Hw; apply andb_prop in Hw; tauto.
Qed.

Lemma Cost_with_consumed {A} k (m : creader A) : Cost k m -> Cost k (c_with_consumed m).
Proof.
  intros H bs. specialize (H bs). unfold c_with_consumed. destruct (m bs) as [[[x r]|er] c]; exact H.
Qed.

(** primitives: one step, no per-bit cost *)
Lemma Cost_read_bit : Cost (kprim true) c_read_bit.
Proof.
  intros bs. unfold c_read_bit, prim, read_bit. destruct bs as [|b r]; cbn [ka kb kw kprim length].
  - lia.
  - split; [lia|]. split; [lia|]. intros _. lia.
Qed.

Lemma Cost_read_uint n : Cost (kprim (0 <? n)%nat) (c_read_uint n).
Proof.
  intros bs. unfold c_read_uint, prim, read_uint. destruct (length bs <? n)%nat eqn:E; cbn [ka kb kw kprim].
  - lia.
  - rewrite skipn_length. split; [lia|]. split; [lia|]. intros Hw. lia.
Qed.

Lemma Cost_read_raw n : Cost (kprim (0 <? n)%nat) (c_read_raw n).
Proof.
  intros bs. unfold c_read_raw, prim, read_raw. destruct (length bs <? n)%nat eqn:E; cbn [ka kb kw kprim].
  - lia.
  - rewrite skipn_length. split; [lia|]. split; [lia|]. intros Hw. lia.
Qed.

Lemma Cost_skip_bits n : Cost (kprim (0 <? n)%nat) (c_skip_bits n).
Proof.
  intros bs. unfold c_skip_bits, prim, skip_bits. destruct (length bs <? n)%nat eqn:E; cbn [ka kb kw kprim].
  - lia.
  - rewrite skipn_length. split; [lia|]. split; [lia|]. intros Hw. lia.
Qed.

Lemma Cost_read_byte : Cost (kprim true) c_read_byte.
Proof. apply (Cost_read_uint 8). Qed.

(** structural derivation of an abstract cost for a reader built from the
    combinators; data-dependent branches take the maximum ([kalt]) *)
Lemma kle_prim_false w : kle (kprim w) (kprim false).
Proof. unfold kle, kprim; cbn [ka kb kw]. repeat split; lia. Qed.

Ltac cost_hook := fail.
Ltac cost_step :=
  match goal with
  | |- Cost _ (cret _) => apply Cost_ret
  | |- Cost _ (cfail _) => apply Cost_fail
  | |- Cost _ c_read_bit => apply Cost_read_bit
  | |- Cost _ c_read_byte => apply Cost_read_byte
  | |- Cost _ (c_read_uint _) =>
    first [apply Cost_read_uint | eapply Cost_weaken; [apply kle_prim_false|apply Cost_read_uint]]
  | |- Cost _ (c_read_raw _) =>
    first [apply Cost_read_raw | eapply Cost_weaken; [apply kle_prim_false|apply Cost_read_raw]]
  | |- Cost _ (c_skip_bits _) =>
    first [apply Cost_skip_bits | eapply Cost_weaken; [apply kle_prim_false|apply Cost_skip_bits]]
  | |- Cost _ (tick _ _) => eapply Cost_tick
  | |- Cost _ (c_with_consumed _) => eapply Cost_with_consumed
  | |- Cost _ (cbind _ _) => eapply Cost_bind; [|intros ?]
  | |- Cost _ (let _ := _ in _) => cbv zeta
  | |- Cost _ (if _ then _ else _) => eapply Cost_if
  | |- Cost _ (match ?o with Some _ => _ | None => _ end) => eapply Cost_opt; [intros ?|]
  | |- Cost _ (let '(_, _) := ?p in _) => destruct p
  | _ => cost_hook
  end.
Ltac cost := repeat cost_step.
Ltac kle_solve :=
  unfold kle, kseq, kalt, ktick, kprim, kret, kfail; cbn [ka kb kw];
  cbn [Nat.ltb Nat.leb orb andb];
  repeat split; try lia; try (intros; reflexivity); try (intros; assumption); try discriminate.

Definition k_read_len : abw := ABW 2 0 true.
Lemma Cost_read_len : Cost k_read_len c_read_len.
Proof. unfold c_read_len. eapply Cost_weaken; [|cost]. unfold k_read_len. kle_solve. Qed.

(** the length determinant: at most two reads, at least 8 bits, a value of at
    most 65536 (the four-fragment marker 0xC4) *)
Lemma lor_lt_pow2 a b n : (0 <= n -> 0 <= a < 2 ^ n -> 0 <= b < 2 ^ n -> Z.lor a b < 2 ^ n)%Z.
Proof.
  intros Hn Ha Hb.
  assert (H0 : (0 <= Z.lor a b)%Z) by (apply Z.lor_nonneg; lia).
  destruct (Z.eq_dec (Z.lor a b) 0) as [E|E]; [rewrite E; lia|].
  apply Z.log2_lt_pow2; [lia|]. rewrite Z.log2_lor by lia.
  destruct (Z.eq_dec a 0) as [Ea|Ea]; destruct (Z.eq_dec b 0) as [Eb|Eb]; subst;
    cbn [Z.log2]; try (rewrite Z.max_l by (apply Z.log2_nonneg));
    try (rewrite Z.max_r by (apply Z.log2_nonneg)).
  - exfalso. apply E. reflexivity.
  - apply Z.log2_lt_pow2; lia.
  - apply Z.log2_lt_pow2; lia.
  - apply Z.max_lub_lt; apply Z.log2_lt_pow2; lia.
Qed.

Lemma c_read_len_spec bs :
  match c_read_len bs with
  | (Ok (n, r), c) => c <= 2 /\ (0 <= n <= 65536)%Z /\ (length r + 8 <= length bs)%nat
  | (Err _, c) => c <= 2
  end.
Proof.
  unfold c_read_len, cbind, c_read_uint, prim, read_uint, cret, cfail.
  destruct (length bs <? 8)%nat eqn:E; [lia|].
  pose proof (of_bits_bounds (firstn 8 bs)) as Hv. rewrite firstn_length in Hv.
  replace (Init.Nat.min 8 (length bs)) with 8%nat in Hv by lia.
  change (2 ^ Z.of_nat 8)%Z with 256%Z in Hv.
  set (v := of_bits (firstn 8 bs)) in *.
  destruct (Z.land v 128 =? 0)%Z; [cbv beta iota; rewrite skipn_length; lia|].
  destruct (Z.land v 192 =? 128)%Z.
  - destruct (length (skipn 8 bs) <? 8)%nat eqn:E2; [lia|].
    pose proof (of_bits_bounds (firstn 8 (skipn 8 bs))) as Hw. rewrite firstn_length in Hw.
    replace (Init.Nat.min 8 (length (skipn 8 bs))) with 8%nat in Hw by lia.
    change (2 ^ Z.of_nat 8)%Z with 256%Z in Hw.
    set (w := of_bits (firstn 8 (skipn 8 bs))) in *. cbv beta iota.
    split; [lia|]. split; [|rewrite !skipn_length in *; lia].
    assert (H127 : (0 <= Z.land v 127 < 128)%Z).
    { split; [apply Z.land_nonneg; lia|].
      change 127%Z with (Z.ones 7). rewrite Z.land_ones by lia. apply Z.mod_pos_bound. lia. }
    assert (Hs : (0 <= Z.shiftl (Z.land v 127) 8 < 2 ^ 16)%Z).
    { rewrite Z.shiftl_mul_pow2 by lia. change (2 ^ 8)%Z with 256%Z. change (2 ^ 16)%Z with 65536%Z. lia. }
    pose proof (lor_lt_pow2 (Z.shiftl (Z.land v 127) 8) w 16 ltac:(lia) Hs ltac:(change (2 ^ 16)%Z with 65536%Z; lia)) as Hl.
    change (2 ^ 16)%Z with 65536%Z in Hl.
    assert (0 <= Z.lor (Z.shiftl (Z.land v 127) 8) w)%Z by (apply Z.lor_nonneg; lia). lia.
  - repeat match goal with |- context [if ?c then _ else _] => destruct c end;
      cbv beta iota; rewrite ?skipn_length; lia.
Qed.

(** [for _ in range(n)], additive reading: [n] iterations of the element cost *)
Lemma Cost_read_n_exact {A} x (rd : creader A) n :
  Cost x rd -> Cost (ABW (N.of_nat n * (1 + ka x)) (kb x) ((0 <? n)%nat && kw x)) (c_read_n n rd).
Proof.
  intros H. induction n as [|n IH]; cbn [c_read_n].
  - eapply Cost_weaken; [|apply Cost_ret]. kle_solve.
  - eapply Cost_weaken; [|cost; [exact H | exact IH]].
    unfold kle, kseq, ktick, kret; cbn [ka kb kw]. split; [|split].
    + rewrite Nat2N.inj_succ, N.mul_succ_l. lia.
    + lia.
    + cbn [Nat.ltb Nat.leb andb]. intros ->. reflexivity.
Qed.

Lemma Cost_read_n_add {A} x (rd : creader A) (pos : bool) nmax n :
  Cost x rd -> N.of_nat n <= nmax -> (pos = true -> (0 < n)%nat) ->
  Cost (ABW (nmax * (1 + ka x)) (kb x) (pos && kw x)) (c_read_n n rd).
Proof.
  intros H Hn Hp. eapply Cost_weaken; [|apply Cost_read_n_exact, H].
  unfold kle; cbn [ka kb kw]. split; [apply N.mul_le_mono_r; exact Hn|]. split; [lia|].
  intros Hw. apply andb_prop in Hw. destruct Hw as [Hw1 Hw2]. rewrite Hw2.
  specialize (Hp Hw1). destruct n; [lia|reflexivity].
Qed.

(** multiplicative reading: an element that consumes at least one bit pays
    for its own iteration, whatever the count *)
Lemma Cost_read_n_mul {A} x (rd : creader A) n :
  kw x = true -> Cost x rd ->
  Cost (ABW (1 + ka x) (1 + ka x + kb x) (0 <? n)%nat) (c_read_n n rd).
Proof.
  intros Hw H. induction n as [|n IH]; cbn [c_read_n].
  - eapply Cost_weaken; [|apply Cost_ret]. kle_solve.
  - intros bs. unfold tick, cbind. specialize (H bs).
    destruct (rd bs) as [[[v r]|er] c1]; cbn [ka kb kw].
    + destruct H as (L1 & C1 & W1). specialize (W1 Hw). specialize (IH r).
      destruct (c_read_n n rd r) as [[[vs r2]|er2] c2]; cbn [ka kb kw cret] in *.
      * destruct IH as (L2 & C2 & _). split; [lia|]. split; [|intros _; lia].
        replace (N.of_nat (length bs - length r2))
          with (N.of_nat (length bs - length r) + N.of_nat (length r - length r2)) by lia.
        set (D1 := N.of_nat (length bs - length r)) in *.
        set (D2 := N.of_nat (length r - length r2)) in *.
        assert (1 <= D1) by lia. nia.
      * replace (N.of_nat (length bs))
          with (N.of_nat (length bs - length r) + N.of_nat (length r)) by lia.
        set (D1 := N.of_nat (length bs - length r)) in *.
        set (D2 := N.of_nat (length r)) in *.
        assert (1 <= D1) by lia. nia.
    + nia.
Qed.

(** the count of a loop *)
Definition k_rep (pos : bool) (nmax : N) (x : abw) : abw :=
  if kw x then ABW (1 + ka x) (1 + ka x + kb x) pos
  else ABW (nmax * (1 + ka x)) (kb x) false.

Lemma Cost_read_n {A} x (rd : creader A) (pos : bool) nmax n :
  Cost x rd -> N.of_nat n <= nmax -> (pos = true -> (0 < n)%nat) ->
  Cost (k_rep pos nmax x) (c_read_n n rd).
Proof.
  intros H Hn Hp. unfold k_rep. destruct (kw x) eqn:Ew.
  - eapply Cost_weaken; [|apply Cost_read_n_mul; [exact Ew|exact H]].
    unfold kle; cbn [ka kb kw]. split; [lia|]. split; [lia|].
    intros Hw. specialize (Hp Hw). destruct n; [lia|reflexivity].
  - eapply Cost_weaken; [|apply (Cost_read_n_add x rd pos nmax n H Hn Hp)].
    unfold kle; cbn [ka kb kw]. split; [lia|]. split; [lia|discriminate].
Qed.

(** a reader that has consumed at least [p] bits pays, per bit, for (part of)
    the additive cost of itself and of what follows *)
Lemma Cost_bind_paid_gen {A B} (Q : A -> Prop) (p : nat) a1 atot k2 b' (m : creader A) (f : A -> creader B) :
  (forall bs, match m bs with
              | (Ok (x, r), c) => c <= a1 /\ Q x /\ (length r + p <= length bs)%nat
              | (Err _, c) => c <= a1
              end) ->
  (0 < p)%nat ->
  (forall x, Q x -> Cost k2 (f x)) ->
  kb k2 <= b' -> a1 <= atot -> a1 + ka k2 <= atot + b' * N.of_nat p ->
  Cost (ABW atot b' true) (cbind m f).
Proof.
  intros Hm Hp Hf Hb Ha1 Ha bs. unfold cbind. specialize (Hm bs).
  destruct (m bs) as [[[x r]|er] c1]; cbn [ka kb kw].
  - destruct Hm as (C1 & HQ & L1). specialize (Hf x HQ r).
    destruct (f x r) as [[[y r2]|er2] c2].
    + destruct Hf as (L2 & C2 & _). split; [lia|]. split; [|intros _; lia].
      assert (E : N.of_nat (length bs - length r2) =
                  N.of_nat p + N.of_nat (length r - length r2) + N.of_nat (length bs - length r - p)) by lia.
      rewrite E.
      set (D2 := N.of_nat (length r - length r2)) in *.
      set (D3 := N.of_nat (length bs - length r - p)) in *.
      pose proof (N.mul_le_mono_r _ _ D2 Hb). nia.
    + assert (E : N.of_nat (length bs) =
                  N.of_nat p + N.of_nat (length r) + N.of_nat (length bs - length r - p)) by lia.
      rewrite E.
      set (D2 := N.of_nat (length r)) in *.
      set (D3 := N.of_nat (length bs - length r - p)) in *.
      pose proof (N.mul_le_mono_r _ _ D2 Hb). nia.
  - nia.
Qed.

Lemma Cost_bind_paid {A B} (Q : A -> Prop) (p : nat) a1 k2 b' (m : creader A) (f : A -> creader B) :
  (forall bs, match m bs with
              | (Ok (x, r), c) => c <= a1 /\ Q x /\ (length r + p <= length bs)%nat
              | (Err _, c) => c <= a1
              end) ->
  (0 < p)%nat ->
  (forall x, Q x -> Cost k2 (f x)) ->
  kb k2 <= b' -> ka k2 <= b' * N.of_nat p ->
  Cost (ABW a1 b' true) (cbind m f).
Proof.
  intros Hm Hp Hf Hb Ha. apply (Cost_bind_paid_gen Q p a1 a1 k2 b' m f Hm Hp Hf Hb); lia.
Qed.

(** [read_len; for _ in range(n)]: a count of at most 65536 after 8 bits *)
Definition k_lenrep (x : abw) : abw :=
  if kw x then ABW 2 (1 + ka x + kb x) true
  else ABW 2 (N.max (kb x) (8192 * (1 + ka x))) true.

Lemma Cost_lenrep {A B} x (rd : creader A) (g : list A -> creader B) :
  Cost x rd -> (forall l, Cost kret (g l)) ->
  Cost (k_lenrep x) (dc* n <- c_read_len; dc* vs <- c_read_n (Z.to_nat n) rd; g vs).
Proof.
  intros H Hg. unfold k_lenrep. destruct (kw x) eqn:Ew.
  - eapply (Cost_bind_paid (fun n => (0 <= n <= 65536)%Z) 8 2
              (kseq (ABW (1 + ka x) (1 + ka x + kb x) false) kret)).
    + intros bs. pose proof (c_read_len_spec bs) as Hs. destruct (c_read_len bs) as [[[n r]|er] c]; exact Hs.
    + lia.
    + intros n Hn. apply Cost_bind; [|exact Hg].
      eapply Cost_weaken; [|apply Cost_read_n_mul; [exact Ew|exact H]]. kle_solve.
    + cbn [kb kseq kret]. lia.
    + cbn [ka kseq kret]. lia.
  - eapply (Cost_bind_paid (fun n => (0 <= n <= 65536)%Z) 8 2
              (kseq (ABW (65536 * (1 + ka x)) (kb x) false) kret)).
    + intros bs. pose proof (c_read_len_spec bs) as Hs. destruct (c_read_len bs) as [[[n r]|er] c]; exact Hs.
    + lia.
    + intros n Hn. apply Cost_bind; [|exact Hg].
      eapply Cost_weaken; [|apply (Cost_read_n_add x rd false 65536 (Z.to_nat n) H); [lia|discriminate]].
      kle_solve.
    + cbn [kb kseq kret]. lia.
    + cbn [ka kseq kret]. lia.
Qed.

(** the 16K-fragment loop: every fragment costs its determinant (8 bits) *)
Definition k_frag (x : abw) : abw :=
  if kw x then ABW 3 (1 + ka x + kb x) true
  else ABW 3 (N.max (kb x) (8192 * (1 + ka x) + 1)) true.

Lemma Cost_read_frag {A} x (rd : creader A) :
  Cost x rd -> forall fuel, Cost (k_frag x) (c_read_frag fuel rd).
Proof.
  intros H fuel. induction fuel as [|f IH]; cbn [c_read_frag].
  - eapply Cost_weaken; [|apply Cost_fail]. unfold k_frag. destruct (kw x); kle_solve.
  - revert IH. unfold k_frag. destruct (kw x) eqn:Ew; intros IH.
    + eapply Cost_weaken; [|apply Cost_tick;
        eapply (Cost_bind_paid (fun n => (0 <= n <= 65536)%Z) 8 2
                  (kseq (ABW (1 + ka x) (1 + ka x + kb x) false)
                        (kalt kret (kseq (ABW 3 (1 + ka x + kb x) true) kret))) (1 + ka x + kb x))].
      * kle_solve.
      * intros bs. pose proof (c_read_len_spec bs) as Hs. destruct (c_read_len bs) as [[[n r]|er] c]; exact Hs.
      * lia.
      * intros n Hn. apply Cost_bind.
        -- eapply Cost_weaken; [|apply Cost_read_n_mul; [exact Ew|exact H]]. kle_solve.
        -- intros items. apply Cost_if; [apply Cost_ret|]. apply Cost_bind; [exact IH|intros; apply Cost_ret].
      * cbn [ka kb kw kseq kalt kret]. lia.
      * cbn [ka kb kw kseq kalt kret]. lia.
    + set (B := N.max (kb x) (8192 * (1 + ka x) + 1)) in *.
      eapply Cost_weaken; [|apply Cost_tick;
        eapply (Cost_bind_paid (fun n => (0 <= n <= 65536)%Z) 8 2
                  (kseq (ABW (65536 * (1 + ka x)) (kb x) false)
                        (kalt kret (kseq (ABW 3 B true) kret))) B)].
      * kle_solve.
      * intros bs. pose proof (c_read_len_spec bs) as Hs. destruct (c_read_len bs) as [[[n r]|er] c]; exact Hs.
      * lia.
      * intros n Hn. apply Cost_bind.
        -- eapply Cost_weaken; [|apply (Cost_read_n_add x rd false 65536 (Z.to_nat n) H); [lia|discriminate]].
           kle_solve.
        -- intros items. apply Cost_if; [apply Cost_ret|]. apply Cost_bind; [exact IH|intros; apply Cost_ret].
      * cbn [ka kb kw kseq kalt kret]. lia.
      * cbn [ka kb kw kseq kalt kret]. lia.
Qed.

Lemma Cost_read_frag_auto {A} x (rd : creader A) : Cost x rd -> Cost (k_frag x) (c_read_frag_auto rd).
Proof. intros H bs. unfold c_read_frag_auto. apply (Cost_read_frag x rd H). Qed.

(** ** Leaf types *)

Lemma kle_seq_ret k : kle (kseq k kret) k.
Proof. unfold kle, kseq, kret; cbn [ka kb kw]. repeat split; lia. Qed.

Ltac cost_hook ::=
  match goal with
  | |- Cost _ c_read_len => apply Cost_read_len
  end.

Definition k_unconstrained : abw := ABW 3 0 true.
Lemma Cost_read_unconstrained : Cost k_unconstrained c_read_unconstrained.
Proof. unfold c_read_unconstrained. eapply Cost_weaken; [|cost]. unfold k_unconstrained, k_read_len. kle_solve. Qed.

Definition k_small_nonneg : abw := ABW 4 0 true.
Lemma Cost_read_small_nonneg : Cost k_small_nonneg c_read_small_nonneg.
Proof. unfold c_read_small_nonneg. eapply Cost_weaken; [|cost]. unfold k_small_nonneg, k_read_len. kle_solve. Qed.

Definition k_small_len : abw := ABW 3 0 true.
Lemma Cost_read_small_len : Cost k_small_len c_read_small_len.
Proof. unfold c_read_small_len. eapply Cost_weaken; [|cost]. unfold k_small_len. kle_solve. Qed.

Lemma Post_read_small_len : Post (fun n => (0 <= n <= 127)%Z) c_read_small_len.
Proof.
  intros bs x r c. unfold c_read_small_len, cbind, c_read_bit, c_read_uint, prim, read_bit, read_uint, cret, cfail.
  destruct bs as [|b bs]; [discriminate|]. destruct b; cbn [negb].
  - destruct bs as [|b2 bs]; [discriminate|]. destruct b2; cbn [negb]; [discriminate|].
    destruct (length bs <? 7)%nat eqn:E; [discriminate|]. intros H.
    assert (x = of_bits (firstn 7 bs)) by congruence. subst x.
    pose proof (of_bits_bounds (firstn 7 bs)) as Hv. rewrite firstn_length in Hv.
    replace (Init.Nat.min 7 (length bs)) with 7%nat in Hv by lia.
    change (2 ^ Z.of_nat 7)%Z with 128%Z in Hv. lia.
  - destruct (length bs <? 6)%nat eqn:E; [discriminate|]. intros H.
    assert (x = (of_bits (firstn 6 bs) + 1)%Z) by congruence. subst x.
    pose proof (of_bits_bounds (firstn 6 bs)) as Hv. rewrite firstn_length in Hv.
    replace (Init.Nat.min 6 (length bs)) with 6%nat in Hv by lia.
    change (2 ^ Z.of_nat 6)%Z with 64%Z in Hv. lia.
Qed.

Ltac cost_hook ::=
  match goal with
  | |- Cost _ c_read_len => apply Cost_read_len
  | |- Cost _ c_read_unconstrained => apply Cost_read_unconstrained
  | |- Cost _ c_read_small_nonneg => apply Cost_read_small_nonneg
  | |- Cost _ c_read_small_len => apply Cost_read_small_len
  end.

Definition k_int_root (c : intc) : abw :=
  match int_bounds c with
  | None => k_unconstrained
  | Some (lo, hi) => kprim (0 <? Z.to_nat (bit_length (hi - lo)))%nat
  end.
Definition k_int (c : intc) : abw :=
  if int_ext c then kseq (kprim true) (kalt k_unconstrained (k_int_root c)) else k_int_root c.

Lemma Cost_read_int_root c : Cost (k_int_root c) (c_read_int_root c).
Proof.
  unfold c_read_int_root, k_int_root. destruct (int_bounds c) as [[lo hi]|]; [|apply Cost_read_unconstrained].
  eapply Cost_weaken; [|cost]. kle_solve.
Qed.

Lemma Cost_read_int c : Cost (k_int c) (c_read_int c).
Proof.
  unfold c_read_int, k_int. destruct (int_ext c); [|apply Cost_read_int_root].
  cost. apply Cost_read_int_root.
Qed.

Definition k_enum_root (root : list (string * Z)) : abw := kprim (0 <? enum_root_bits root)%nat.
Definition k_enum (root : list (string * Z)) (ext : option (list (string * Z))) : abw :=
  match ext with
  | None => k_enum_root root
  | Some _ => kseq (kprim true) (kalt (k_enum_root root) k_small_nonneg)
  end.

Lemma Cost_read_enum_root numeric root : Cost (k_enum_root root) (c_read_enum_root numeric root).
Proof. unfold c_read_enum_root, k_enum_root. eapply Cost_weaken; [|cost]. kle_solve. Qed.

Lemma Cost_read_enum numeric root ext : Cost (k_enum root ext) (c_read_enum numeric root ext).
Proof.
  unfold c_read_enum, k_enum. destruct ext as [adds|]; [|apply Cost_read_enum_root].
  apply Cost_bind; [apply Cost_read_bit|]. intros b. apply Cost_if; [apply Cost_read_enum_root|].
  eapply Cost_weaken; [|cost]. unfold k_small_nonneg. kle_solve.
Qed.

(** SIZE-constrained counts: [lo + extra] with [extra] read from
    [size_nbits sz] bits, so at most [size_nmax sz] *)
Definition size_nmax (sz : size) : N := Z.to_N (size_lo sz + 2 ^ Z.of_nat (size_nbits sz) - 1).
Definition k_szext (sz : size) : abw := if size_ext sz then kprim true else kret.
Definition k_extra (sz : size) : abw :=
  if negb (size_lo sz =? size_hi sz)%Z then kprim (0 <? size_nbits sz)%nat else kret.
Definition k_sized (sz : size) (x : abw) : abw :=
  kseq (k_extra sz) (k_rep (0 <? size_lo sz)%Z (size_nmax sz) x).

Definition c_extra (sz : size) : creader Z :=
  if negb (size_lo sz =? size_hi sz)%Z then c_read_uint (size_nbits sz) else cret 0%Z.

Lemma Cost_extra sz : Cost (k_extra sz) (c_extra sz).
Proof. unfold k_extra, c_extra. destruct (negb (size_lo sz =? size_hi sz)%Z); cost. Qed.

Lemma Post_extra sz : Post (fun x => (0 <= x < 2 ^ Z.of_nat (size_nbits sz))%Z) (c_extra sz).
Proof.
  intros bs x r c. unfold c_extra. destruct (negb (size_lo sz =? size_hi sz)%Z).
  - unfold c_read_uint, prim, read_uint. destruct (length bs <? size_nbits sz)%nat eqn:E; [discriminate|].
    intros H. assert (x = of_bits (firstn (size_nbits sz) bs)) by congruence. subst x.
    pose proof (of_bits_bounds (firstn (size_nbits sz) bs)) as Hv. rewrite firstn_length in Hv.
    replace (Init.Nat.min (size_nbits sz) (length bs)) with (size_nbits sz) in Hv by lia. exact Hv.
  - unfold cret. intros H. assert (x = 0%Z) by congruence. subst x.
    pose proof (pow2_pos (Z.of_nat (size_nbits sz)) ltac:(lia)). lia.
Qed.

Lemma Cost_sized {A B} sz x (rd : creader A) (g : list A -> creader B) :
  Cost x rd -> (forall l, Cost kret (g l)) ->
  Cost (k_sized sz x)
       (dc* extra <- c_extra sz; dc* vs <- c_read_n (Z.to_nat (size_lo sz + extra)) rd; g vs).
Proof.
  intros H Hg. unfold k_sized.
  eapply (Cost_bind_post _ _ _ _ _ (Cost_extra sz) (Post_extra sz)).
  intros extra He. eapply Cost_weaken; [apply kle_seq_ret|]. apply Cost_bind; [|exact Hg].
  apply Cost_read_n; [exact H | unfold size_nmax; lia | lia].
Qed.

Definition k_array (sz : size) (x : abw) : abw :=
  let normal := if size_unbound sz then k_frag x else k_sized sz x in
  if size_ext sz then kseq (kprim true) (kalt (k_frag x) normal) else normal.

Definition c_array {A} (rd : creader A) (g : list A -> creader value) (sz : size) : creader value :=
  let normal :=
      if size_unbound sz then dc* vs <- c_read_frag_auto rd; g vs
      else dc* extra <- c_extra sz; dc* vs <- c_read_n (Z.to_nat (size_lo sz + extra)) rd; g vs in
  if size_ext sz then
    dc* b <- c_read_bit;
    if b then dc* vs <- c_read_frag_auto rd; g vs
    else normal
  else normal.

Lemma Cost_array {A} sz x (rd : creader A) g :
  Cost x rd -> (forall l, Cost kret (g l)) -> Cost (k_array sz x) (c_array rd g sz).
Proof.
  intros H Hg. unfold k_array, c_array.
  assert (Hn : Cost (if size_unbound sz then k_frag x else k_sized sz x)
                 (if size_unbound sz then dc* vs <- c_read_frag_auto rd; g vs
                  else dc* extra <- c_extra sz; dc* vs <- c_read_n (Z.to_nat (size_lo sz + extra)) rd; g vs)).
  { destruct (size_unbound sz).
    - eapply Cost_weaken; [apply kle_seq_ret|]. apply Cost_bind; [apply Cost_read_frag_auto, H|exact Hg].
    - apply Cost_sized; assumption. }
  destruct (size_ext sz); [|exact Hn].
  apply Cost_bind; [apply Cost_read_bit|]. intros b. apply Cost_if; [|exact Hn].
  eapply Cost_weaken; [apply kle_seq_ret|]. apply Cost_bind; [apply Cost_read_frag_auto, H|exact Hg].
Qed.

Definition k_bits (sz : size) : abw :=
  kseq (k_szext sz) (if size_unbound sz then k_frag (kprim true) else kseq (k_extra sz) (kprim false)).

Lemma Cost_szext sz :
  Cost (k_szext sz) (if size_ext sz then
                       dc* b <- c_read_bit; if b then cfail (EForeign "NotImplementedError") else cret tt
                     else cret tt).
Proof. unfold k_szext. destruct (size_ext sz); [|cost]. eapply Cost_weaken; [|cost]. kle_solve. Qed.

Lemma Cost_read_bitstring sz : Cost (k_bits sz) (c_read_bitstring sz).
Proof.
  unfold c_read_bitstring, k_bits. apply Cost_bind; [apply Cost_szext|]. intros _.
  destruct (size_unbound sz).
  - eapply Cost_weaken; [apply kle_seq_ret|]. apply Cost_bind; [|intros; apply Cost_ret].
    apply Cost_read_frag_auto, Cost_read_bit.
  - apply Cost_bind; [apply Cost_extra|]. intros extra.
    eapply Cost_weaken; [|cost]. kle_solve.
Qed.

Definition k_octets (sz : size) : abw := k_array sz (kprim true).

Lemma Cost_read_octets sz : Cost (k_octets sz) (c_read_octets sz).
Proof.
  change (c_read_octets sz) with (c_array c_read_byte (fun bs => cret (VBytes bs)) sz).
  apply Cost_array; [apply Cost_read_byte|intros; apply Cost_ret].
Qed.

Definition k_char (a : list Z) : abw := kprim (0 <? km_bits a)%nat.

Lemma Cost_km_read_char a ident : Cost (k_char a) (c_km_read_char a ident).
Proof. unfold c_km_read_char, k_char. eapply Cost_weaken; [|cost]. kle_solve. Qed.

Definition k_kmstring (k : strkind) (sz : size) (alpha : option (list Z)) : abw :=
  match km_alphabet k alpha with
  | None => kfail
  | Some (a, _) =>
    kseq (k_szext sz) (if size_unbound sz then k_frag (k_char a) else k_sized sz (k_char a))
  end.

Lemma Cost_read_kmstring k sz alpha : Cost (k_kmstring k sz alpha) (c_read_kmstring k sz alpha).
Proof.
  unfold c_read_kmstring, k_kmstring. destruct (km_alphabet k alpha) as [[a ident]|]; [|apply Cost_fail].
  apply Cost_bind; [apply Cost_szext|]. intros _. destruct (size_unbound sz).
  - eapply Cost_weaken; [apply kle_seq_ret|]. apply Cost_bind; [|intros; apply Cost_ret].
    apply Cost_read_frag_auto, Cost_km_read_char.
  - apply (Cost_sized sz (k_char a) (c_km_read_char a ident) (fun cs => cret (VStr cs)));
      [apply Cost_km_read_char|intros; apply Cost_ret].
Qed.

Definition k_utf8 : abw := ABW 4 2 true.
Lemma Cost_read_utf8 : Cost k_utf8 c_read_utf8.
Proof.
  unfold c_read_utf8. eapply Cost_weaken; [|apply Cost_bind; [apply Cost_read_frag_auto, Cost_read_byte|intros; cost]].
  unfold k_utf8, k_frag. kle_solve.
Qed.

Definition k_oid : abw := ABW 2 3 true.
Lemma Cost_read_oid : Cost k_oid c_read_oid.
Proof.
  unfold c_read_oid. eapply Cost_weaken; [|apply (Cost_lenrep (ktick 1 (kprim true)))].
  - unfold k_oid, k_lenrep. kle_solve.
  - cost.
  - intros l. destruct (dec_oid_bytes l); [apply Cost_ret|].
    eapply Cost_weaken; [|apply Cost_fail]. kle_solve.
Qed.

(** ** Composite types, relative to an abstract cost [kT] of the nested types *)

Definition kopt (k : abw) : abw := ABW (ka k) (kb k) false.

Lemma Post_read_raw n : Post (fun x : bits => length x = n) (c_read_raw n).
Proof.
  intros bs x r c. unfold c_read_raw, prim, read_raw. destruct (length bs <? n)%nat eqn:E; [discriminate|].
  intros H. assert (x = firstn n bs) by congruence. subst x. rewrite firstn_length. lia.
Qed.

Section KComposite.
  Variable kT : ty -> abw.

  Definition k_member (m : member_of ty) : abw :=
    if has_presence_bit m then kopt (kT (m_ty m)) else kT (m_ty m).

  (** SEQUENCE root members: one step per member plus the members' costs *)
  Fixpoint k_members (ms : list (member_of ty)) : abw :=
    match ms with
    | [] => kret
    | m :: r => ktick 1 (kseq (k_member m) (k_members r))
    end.

  Definition n_pres (ms : list (member_of ty)) : nat := length (filter has_presence_bit ms).

  Definition k_root (ms : list (member_of ty)) : abw :=
    kseq (ABW (2 * N.of_nat (n_pres ms)) 0 (0 <? n_pres ms)%nat) (k_members ms).

  Definition k_one_addition (ad : addition_of ty) : abw :=
    if fst ad then k_root (snd ad)
    else match snd ad with
         | [m] => kT (m_ty m)
         | _ => kfail
         end.

  Definition k_one_adds (adds : list (addition_of ty)) : abw :=
    match adds with
    | [] => kprim false
    | ad :: _ => k_one_addition ad
    end.

  Definition k_adds_A (adds : list (addition_of ty)) : N :=
    fold_right (fun ad acc => N.max (ka (k_one_addition ad)) acc) 1 adds.
  Definition k_adds_B (adds : list (addition_of ty)) : N :=
    fold_right (fun ad acc => N.max (kb (k_one_addition ad)) acc) 0 adds.

  (** extension additions: at most 127 presence bits; a present addition is an
      open type whose length determinant (8 bits) pays for its fixed costs *)
  Definition k_dec_adds (adds : list (addition_of ty)) : abw :=
    ABW (127 + k_adds_A adds + 4) (N.max (k_adds_B adds) (k_adds_A adds + 4)) false.

  Definition k_additions (adds : list (addition_of ty)) : abw :=
    kseq k_small_len (kseq (kprim false) (k_dec_adds adds)).

  Definition k_seq (root : list (member_of ty)) (ext : option (list (addition_of ty))) : abw :=
    match ext with
    | None => k_root root
    | Some adds => kseq (kprim true) (kseq (k_root root) (kopt (k_additions adds)))
    end.

  (** CHOICE: the maximum over the alternatives *)
  Definition kmax_alts (alts : list (member_of ty)) : abw :=
    fold_right (fun m acc => kalt (kT (m_ty m)) acc) kfail alts.

  Definition k_choice_root (root : list (member_of ty)) : abw :=
    kseq (if (1 <? length root)%nat then kprim (0 <? choice_root_bits root)%nat else kret)
         (kmax_alts root).

  Definition k_choice (root : list (member_of ty)) (ext : option (list (member_of ty))) : abw :=
    match ext with
    | None => k_choice_root root
    | Some adds =>
      kseq (kprim true)
           (kalt (k_choice_root root)
                 (kseq k_small_nonneg (kseq k_read_len (kopt (kseq (kmax_alts adds) (kprim false))))))
    end.
End KComposite.

Section CostComposite.
  Variable decT : ty -> creader value.
  Variable kT : ty -> abw.
  Hypothesis HT : forall t, Cost (kT t) (decT t).

  Lemma Cost_dec_members ms : forall pres, Cost (k_members kT ms) (c_dec_members decT ms pres).
  Proof.
    induction ms as [|m r IH]; intros pres; cbn [c_dec_members k_members]; [apply Cost_ret|].
    apply Cost_tick. unfold k_member. destruct (has_presence_bit m).
    - destruct pres as [|p pres'].
      + eapply Cost_weaken; [|apply Cost_fail]. unfold kopt. kle_solve.
      + destruct p.
        * eapply Cost_weaken; [|cost; [apply HT|apply IH]]. unfold kopt. kle_solve.
        * destruct (m_opt m).
          -- eapply Cost_weaken; [|apply IH]. unfold kopt. kle_solve.
          -- eapply Cost_weaken; [|apply IH]. unfold kopt. kle_solve.
          -- eapply Cost_weaken; [|cost; apply IH]. unfold kopt. kle_solve.
    - eapply Cost_weaken; [|cost; [apply HT|apply IH]]. kle_solve.
  Qed.

  Lemma Cost_dec_root ms : Cost (k_root kT ms) (c_dec_root decT ms).
  Proof.
    unfold c_dec_root, k_root. apply Cost_bind; [|intros; apply Cost_dec_members].
    eapply Cost_weaken; [|apply (Cost_read_n_exact (kprim true)), Cost_read_bit].
    unfold n_pres. kle_solve.
  Qed.

  Lemma Cost_dec_one_addition adds n :
    Cost (k_one_adds kT adds) (c_dec_one_addition decT adds n).
  Proof.
    unfold c_dec_one_addition, k_one_adds. destruct adds as [|[isgroup ms] rest].
    - eapply Cost_weaken; [|cost]. kle_solve.
    - unfold k_one_addition. cbn [fst snd]. destruct isgroup; [apply Cost_dec_root|].
      destruct ms as [|m [|m2 ms]]; try apply Cost_fail.
      eapply Cost_weaken; [apply kle_seq_ret|]. cost. apply HT.
  Qed.

  Lemma k_one_adds_le adds :
    ka (k_one_adds kT adds) <= k_adds_A kT adds /\ kb (k_one_adds kT adds) <= k_adds_B kT adds.
  Proof.
    destruct adds as [|ad rest]; cbn [k_one_adds k_adds_A k_adds_B fold_right kprim ka kb]; lia.
  Qed.

  Lemma k_adds_tl adds :
    k_adds_A kT (tl adds) <= k_adds_A kT adds /\ k_adds_B kT (tl adds) <= k_adds_B kT adds.
  Proof.
    destruct adds as [|ad rest]; cbn [tl k_adds_A k_adds_B fold_right]; lia.
  Qed.

  Lemma Cost_dec_adds A B : forall pres adds,
    k_adds_A kT adds <= A -> k_adds_B kT adds <= B ->
    Cost (ABW (N.of_nat (length pres) + A + 4) (N.max B (A + 4)) false) (c_dec_adds decT pres adds).
  Proof.
    induction pres as [|p pres IH]; intros adds HA HB; cbn [c_dec_adds].
    - eapply Cost_weaken; [|apply Cost_ret]. kle_solve.
    - pose proof (k_adds_tl adds) as (HtA & HtB).
      pose proof (k_one_adds_le adds) as (HoA & HoB).
      specialize (IH (tl adds) ltac:(lia) ltac:(lia)).
      destruct p; cbn [negb].
      + eapply Cost_weaken; [|apply Cost_tick;
          eapply (Cost_bind_paid_gen (fun _ => True) 8 2 (N.of_nat (length pres) + A + 4)
                    (kseq (ABW A B false)
                          (kseq (kprim false)
                                (kseq (ABW (N.of_nat (length pres) + A + 4) (N.max B (A + 4)) false) kret)))
                    (N.max B (A + 4)))].
        * unfold kle, ktick; cbn [ka kb kw length]. repeat split; lia.
        * intros bs. pose proof (c_read_len_spec bs) as Hs.
          destruct (c_read_len bs) as [[[n r]|er] c]; [|exact Hs]. destruct Hs as (H1 & _ & H3). auto.
        * lia.
        * intros open_len _. apply Cost_bind.
          -- apply Cost_with_consumed. eapply Cost_weaken; [|apply Cost_dec_one_addition].
             unfold kle; cbn [ka kb kw]. repeat split; [lia|lia|discriminate].
          -- intros [fields consumed]. apply Cost_bind.
             ++ cbv zeta. destruct (consumed mod 8 =? 0)%nat.
                ** eapply Cost_weaken; [|apply Cost_ret]. kle_solve.
                ** eapply Cost_weaken; [apply kle_prim_false|apply Cost_skip_bits].
             ++ intros _. apply Cost_bind; [exact IH|intros; apply Cost_ret].
        * cbn [ka kb kw kseq kprim kret]. lia.
        * lia.
        * cbn [ka kb kw kseq kprim kret]. lia.
      + eapply Cost_weaken; [|apply Cost_tick, IH].
        unfold kle, ktick; cbn [ka kb kw length]. repeat split; lia.
  Qed.

  Lemma Cost_dec_additions adds : Cost (k_additions kT adds) (c_dec_additions decT adds).
  Proof.
    unfold c_dec_additions, k_additions.
    eapply (Cost_bind_post _ _ _ _ _ Cost_read_small_len Post_read_small_len).
    intros n Hn.
    apply (Cost_bind_post (fun x : bits => length x = Z.to_nat n)).
    - eapply Cost_weaken; [apply kle_prim_false|apply Cost_read_raw].
    - apply Post_read_raw.
    - intros pres Hp. eapply Cost_weaken; [|apply (Cost_dec_adds _ _ pres adds (N.le_refl _) (N.le_refl _))].
      unfold k_dec_adds, kle; cbn [ka kb kw]. repeat split; lia.
  Qed.

  Lemma Cost_dec_seq root ext : Cost (k_seq kT root ext) (c_dec_seq decT root ext).
  Proof.
    unfold c_dec_seq, k_seq. destruct ext as [adds|].
    - apply Cost_bind; [apply Cost_read_bit|]. intros b.
      apply Cost_bind; [apply Cost_dec_root|]. intros fs. destruct b.
      + eapply Cost_weaken; [|apply Cost_bind; [apply Cost_dec_additions|intros; apply Cost_ret]].
        unfold kopt. kle_solve.
      + eapply Cost_weaken; [|apply Cost_ret]. unfold kopt. kle_solve.
    - eapply Cost_weaken; [apply kle_seq_ret|].
      apply Cost_bind; [apply Cost_dec_root|intros; apply Cost_ret].
  Qed.

  Lemma Cost_dec_seqof elem sz : Cost (k_array sz (kT elem)) (c_dec_seqof decT elem sz).
  Proof.
    change (c_dec_seqof decT elem sz) with (c_array (decT elem) (fun vs => cret (VList vs)) sz).
    apply Cost_array; [apply HT|intros; apply Cost_ret].
  Qed.

  Lemma kle_kmax_In alts m : In m alts -> kle (kT (m_ty m)) (kmax_alts kT alts).
  Proof.
    induction alts as [|a r IH]; intros Hin; [destruct Hin|].
    cbn [kmax_alts fold_right]. fold (kmax_alts kT r). destruct Hin as [->|Hin].
    - unfold kle, kalt; cbn [ka kb kw]. repeat split; lia.
    - specialize (IH Hin). unfold kle, kalt in *; cbn [ka kb kw] in *. destruct IH as (H1 & H2 & H3).
      repeat split; lia.
  Qed.

  Lemma nth_z_In {A} (l : list A) i x : nth_z l i = Some x -> In x l.
  Proof.
    unfold nth_z. destruct ((i <? 0)%Z || (Z.of_nat (length l) <=? i)%Z); [discriminate|].
    apply nth_error_In.
  Qed.

  Lemma Cost_alt alts i (g : member_of ty -> value -> creader value) k2 :
    (forall m v, Cost k2 (g m v)) ->
    forall m, nth_z alts i = Some m ->
    Cost (kseq (kmax_alts kT alts) k2) (dc* v <- decT (m_ty m); g m v).
  Proof.
    intros Hg m Hn. apply Cost_bind; [|intros; apply Hg].
    eapply Cost_weaken; [apply (kle_kmax_In alts m), (nth_z_In _ _ _ Hn)|apply HT].
  Qed.

  Lemma Cost_dec_choice_root root : Cost (k_choice_root kT root) (c_dec_choice_root decT root).
  Proof.
    unfold c_dec_choice_root, k_choice_root. apply Cost_bind.
    - destruct (1 <? length root)%nat; cost.
    - intros i. destruct (nth_z root i) as [m|] eqn:En.
      + eapply Cost_weaken; [apply kle_seq_ret|].
        apply (Cost_alt root i (fun m v => cret (VChoice (m_name m) v)) kret); [intros; apply Cost_ret|exact En].
      + eapply Cost_weaken; [|apply Cost_fail]. kle_solve.
  Qed.

  Lemma Cost_dec_choice root ext : Cost (k_choice kT root ext) (c_dec_choice decT root ext).
  Proof.
    unfold c_dec_choice, k_choice. destruct ext as [adds|]; [|apply Cost_dec_choice_root].
    apply Cost_bind; [apply Cost_read_bit|]. intros b. apply Cost_if; [apply Cost_dec_choice_root|].
    apply Cost_bind; [apply Cost_read_small_nonneg|]. intros i.
    apply Cost_bind; [apply Cost_read_len|]. intros len. cbv zeta.
    destruct (nth_z adds i) as [m|] eqn:En.
    - eapply Cost_weaken; [|apply Cost_bind].
      3:{ intros [v consumed]. eapply (Cost_if kfail (kseq (kprim false) kret)); [apply Cost_fail|].
          apply Cost_bind; [|intros; apply Cost_ret].
          eapply Cost_weaken; [apply kle_prim_false|apply Cost_skip_bits]. }
      2:{ apply Cost_with_consumed. eapply Cost_weaken; [apply (kle_kmax_In adds m), (nth_z_In _ _ _ En)|apply HT]. }
      unfold kopt, kle, kseq, kalt, kprim, kret, kfail; cbn [ka kb kw]. repeat split; lia.
    - eapply Cost_weaken; [|cost]. unfold kopt. kle_solve.
  Qed.
End CostComposite.

(** ** The abstract cost of a type, by the recursion of [dec] (same fuel) *)

Fixpoint Kabw (e : env) (fuel : nat) (t : ty) {struct fuel} : abw :=
  match fuel with
  | O => ktick 1 kfail
  | S f =>
    ktick 1 (
    match t with
    | TBool => kprim true
    | TNull => kret
    | TInt c => k_int c
    | TEnum root ext => k_enum root ext
    | TBits _ sz => k_bits sz
    | TOctets sz => k_octets sz
    | TStr SkUTF8 _ _ => k_utf8
    | TStr k sz alpha => k_kmstring k sz alpha
    | TOid => k_oid
    | TSeq _ root ext => k_seq (Kabw e f) root ext
    | TSeqOf _ elem sz => k_array sz (Kabw e f elem)
    | TChoice root ext => k_choice (Kabw e f) root ext
    | TRef n => match lookup n e with Some t' => Kabw e f t' | None => kfail end
    | TTag _ t' => Kabw e f t'
    end)
  end.

(** the constant of the bound *)
Definition K (e : env) (fuel : nat) (t : ty) : N := ka (Kabw e fuel t) + kb (Kabw e fuel t).

Theorem Cost_dec numeric e fuel : forall t, Cost (Kabw e fuel t) (dec_cost numeric e fuel t).
Proof.
  induction fuel as [|f IH]; intros t; cbn [dec_cost Kabw]; apply Cost_tick; [apply Cost_fail|].
  destruct t.
  - eapply Cost_weaken; [apply kle_seq_ret|]. cost.
  - apply Cost_ret.
  - eapply Cost_weaken; [apply kle_seq_ret|]. apply Cost_bind; [apply Cost_read_int|intros; apply Cost_ret].
  - apply Cost_read_enum.
  - apply Cost_read_bitstring.
  - apply Cost_read_octets.
  - destruct k; first [apply Cost_read_utf8 | apply Cost_read_kmstring].
  - apply Cost_read_oid.
  - apply Cost_dec_seq, IH.
  - apply Cost_dec_seqof, IH.
  - apply Cost_dec_choice, IH.
  - destruct (lookup name e); [apply IH|apply Cost_fail].
  - apply IH.
Qed.

(** additive / per-bit form of the bound: [ka] steps even on empty input plus
    [kb] steps per bit of input *)
Theorem dec_cost_bound_ab numeric e fuel t inp :
  snd (dec_cost numeric e fuel t inp)
  <= ka (Kabw e fuel t) + kb (Kabw e fuel t) * N.of_nat (length inp).
Proof.
  pose proof (Cost_dec numeric e fuel t inp) as H.
  destruct (dec_cost numeric e fuel t inp) as [[[v r]|x] c]; cbn [snd]; [|exact H].
  destruct H as (L & C & _).
  pose proof (N.mul_le_mono_l (N.of_nat (length inp - length r)) (N.of_nat (length inp))
                              (kb (Kabw e fuel t)) ltac:(lia)). lia.
Qed.

(** a successful decode is paid for by the bits it consumed *)
Theorem dec_cost_bound_consumed numeric e fuel t inp v rest c :
  dec_cost numeric e fuel t inp = (Ok (v, rest), c) ->
  (length rest <= length inp)%nat /\
  c <= ka (Kabw e fuel t) + kb (Kabw e fuel t) * N.of_nat (length inp - length rest).
Proof.
  intros E. pose proof (Cost_dec numeric e fuel t inp) as H. rewrite E in H. tauto.
Qed.

(** THE WORK BOUND: on any input whatsoever - success or error - the decoder
    makes at most [K * (number of input bits + 1)] steps. *)
Theorem dec_cost_bound numeric e fuel t inp :
  snd (dec_cost numeric e fuel t inp) <= K e fuel t * (N.of_nat (length inp) + 1).
Proof.
  pose proof (dec_cost_bound_ab numeric e fuel t inp) as H. unfold K.
  set (a := ka (Kabw e fuel t)) in *. set (b := kb (Kabw e fuel t)) in *. nia.
Qed.

Lemma bytes_to_bits_len data : length (bytes_to_bits data) = (8 * length data)%nat.
Proof.
  unfold bytes_to_bits. induction data as [|b r IHd]; [reflexivity|].
  cbn [flat_map]. rewrite app_length, to_bits_length, IHd. cbn [length]. lia.
Qed.

Theorem uper_decode_cost_bound numeric fuel e t data :
  snd (uper_decode_cost numeric fuel e t data) <= K e fuel t * (8 * N.of_nat (length data) + 1).
Proof.
  unfold uper_decode_cost.
  pose proof (dec_cost_bound numeric e fuel t (bytes_to_bits data)) as H.
  rewrite bytes_to_bits_len in H. replace (N.of_nat (8 * length data)) with (8 * N.of_nat (length data)) in H by lia.
  destruct (dec_cost numeric e fuel t (bytes_to_bits data)) as [[[v r]|x] c]; exact H.
Qed.

(** * 3. The constant does not depend on the fuel for acyclic specifications *)

(** [fits e d t]: unfolding the references of [e], every path of nested types
    below [t] has at most [d] levels (so [t] does not reach a reference cycle) *)
Fixpoint fits (e : env) (d : nat) (t : ty) {struct d} : bool :=
  match d with
  | O => false
  | S d' =>
    let ms_fit (ms : list (member_of ty)) := forallb (fun m => fits e d' (m_ty m)) ms in
    match t with
    | TSeq _ root ext =>
      ms_fit root && match ext with
                     | None => true
                     | Some adds => forallb (fun ad : addition_of ty => ms_fit (snd ad)) adds
                     end
    | TSeqOf _ elem _ => fits e d' elem
    | TChoice root ext => ms_fit root && match ext with None => true | Some adds => ms_fit adds end
    | TRef n => match lookup n e with Some t' => fits e d' t' | None => true end
    | TTag _ t' => fits e d' t'
    | _ => true
    end
  end.

Section Agree.
  Variable P : ty -> bool.
  Variables kT1 kT2 : ty -> abw.
  Hypothesis Hag : forall t, P t = true -> kT1 t = kT2 t.

  Let ms_ok (ms : list (member_of ty)) := forallb (fun m => P (m_ty m)) ms.

  Lemma k_members_agree ms : ms_ok ms = true -> k_members kT1 ms = k_members kT2 ms.
  Proof.
    induction ms as [|m r IH]; [reflexivity|]. unfold ms_ok. cbn [forallb k_members]. intros H.
    apply andb_prop in H. destruct H as [H1 H2]. unfold k_member. rewrite (Hag _ H1), (IH H2). reflexivity.
  Qed.

  Lemma k_root_agree ms : ms_ok ms = true -> k_root kT1 ms = k_root kT2 ms.
  Proof. intros H. unfold k_root. rewrite (k_members_agree ms H). reflexivity. Qed.

  Lemma k_one_addition_agree ad : ms_ok (snd ad) = true -> k_one_addition kT1 ad = k_one_addition kT2 ad.
  Proof.
    intros H. unfold k_one_addition. destruct (fst ad); [apply k_root_agree, H|].
    destruct (snd ad) as [|m [|m2 ms]]; try reflexivity.
    unfold ms_ok in H. cbn [forallb] in H. apply andb_prop in H. destruct H as [H _]. apply Hag, H.
  Qed.

  Lemma k_adds_agree adds :
    forallb (fun ad : addition_of ty => ms_ok (snd ad)) adds = true ->
    k_adds_A kT1 adds = k_adds_A kT2 adds /\ k_adds_B kT1 adds = k_adds_B kT2 adds.
  Proof.
    induction adds as [|ad r IH]; [split; reflexivity|]. cbn [forallb]. intros H.
    apply andb_prop in H. destruct H as [H1 H2]. destruct (IH H2) as [IA IB].
    cbn [k_adds_A k_adds_B fold_right]. fold (k_adds_A kT1 r) (k_adds_A kT2 r) (k_adds_B kT1 r) (k_adds_B kT2 r).
    rewrite (k_one_addition_agree ad H1), IA, IB. split; reflexivity.
  Qed.

  Lemma k_seq_agree root ext :
    ms_ok root && match ext with
                  | None => true
                  | Some adds => forallb (fun ad : addition_of ty => ms_ok (snd ad)) adds
                  end = true ->
    k_seq kT1 root ext = k_seq kT2 root ext.
  Proof.
    intros H. apply andb_prop in H. destruct H as [H1 H2]. unfold k_seq.
    rewrite (k_root_agree root H1). destruct ext as [adds|]; [|reflexivity].
    unfold k_additions, k_dec_adds. destruct (k_adds_agree adds H2) as [-> ->]. reflexivity.
  Qed.

  Lemma kmax_alts_agree alts : ms_ok alts = true -> kmax_alts kT1 alts = kmax_alts kT2 alts.
  Proof.
    induction alts as [|m r IH]; [reflexivity|]. unfold ms_ok. cbn [forallb kmax_alts fold_right]. intros H.
    apply andb_prop in H. destruct H as [H1 H2]. fold (kmax_alts kT1 r) (kmax_alts kT2 r).
    rewrite (Hag _ H1), (IH H2). reflexivity.
  Qed.

  Lemma k_choice_agree root ext :
    ms_ok root && match ext with None => true | Some adds => ms_ok adds end = true ->
    k_choice kT1 root ext = k_choice kT2 root ext.
  Proof.
    intros H. apply andb_prop in H. destruct H as [H1 H2]. unfold k_choice, k_choice_root.
    rewrite (kmax_alts_agree root H1). destruct ext as [adds|]; [|reflexivity].
    rewrite (kmax_alts_agree adds H2). reflexivity.
  Qed.
End Agree.

Lemma Kabw_fuel_stable e d : forall t fuel,
  fits e d t = true -> (d <= fuel)%nat -> Kabw e fuel t = Kabw e d t.
Proof.
  induction d as [|d IH]; intros t fuel Hf Hle; [discriminate|].
  destruct fuel as [|f]; [lia|]. assert (Hle' : (d <= f)%nat) by lia.
  assert (Hag : forall t', fits e d t' = true -> Kabw e f t' = Kabw e d t') by (intros; apply IH; assumption).
  cbn [Kabw]. f_equal. cbn [fits] in Hf. destruct t; try reflexivity.
  - apply (k_seq_agree (fits e d)); assumption.
  - rewrite (Hag _ Hf). reflexivity.
  - apply (k_choice_agree (fits e d)); assumption.
  - destruct (lookup name e); [apply Hag, Hf|reflexivity].
  - apply Hag, Hf.
Qed.

(** For a specification that is acyclic below [t] with nesting depth <= d the
    constant of the bound is [K e d t], whatever fuel >= d the decoder runs
    with. *)
Theorem K_fuel_stable e d t fuel :
  fits e d t = true -> (d <= fuel)%nat -> K e fuel t = K e d t.
Proof. intros Hf Hle. unfold K. rewrite (Kabw_fuel_stable e d t fuel Hf Hle). reflexivity. Qed.

Theorem dec_cost_bound_acyclic numeric e d t fuel inp :
  fits e d t = true -> (d <= fuel)%nat ->
  snd (dec_cost numeric e fuel t inp) <= K e d t * (N.of_nat (length inp) + 1).
Proof. intros Hf Hle. rewrite <- (K_fuel_stable e d t fuel Hf Hle). apply dec_cost_bound. Qed.

Lemma fits_mono e d : forall t, fits e d t = true -> fits e (S d) t = true.
Proof.
  induction d as [|d IH]; intros t H; [discriminate|].
  assert (Hms : forall ms : list (member_of ty),
             forallb (fun m => fits e d (m_ty m)) ms = true ->
             forallb (fun m => fits e (S d) (m_ty m)) ms = true).
  { intros ms Hm. rewrite forallb_forall in *. intros m Hin. apply IH, Hm, Hin. }
  cbn [fits] in H. change (fits e (S (S d)) t) with
    (let ms_fit (ms : list (member_of ty)) := forallb (fun m => fits e (S d) (m_ty m)) ms in
     match t with
     | TSeq _ root ext =>
       ms_fit root && match ext with
                      | None => true
                      | Some adds => forallb (fun ad : addition_of ty => ms_fit (snd ad)) adds
                      end
     | TSeqOf _ elem _ => fits e (S d) elem
     | TChoice root ext => ms_fit root && match ext with None => true | Some adds => ms_fit adds end
     | TRef n => match lookup n e with Some t' => fits e (S d) t' | None => true end
     | TTag _ t' => fits e (S d) t'
     | _ => true
     end).
  cbv zeta. destruct t; try reflexivity.
  - apply andb_prop in H. destruct H as [H1 H2]. rewrite (Hms _ H1). cbn [andb].
    destruct ext as [adds|]; [|reflexivity]. rewrite forallb_forall in *. intros ad Hin. apply Hms, H2, Hin.
  - apply IH, H.
  - apply andb_prop in H. destruct H as [H1 H2]. rewrite (Hms _ H1). cbn [andb].
    destruct ext as [adds|]; [|reflexivity]. apply Hms, H2.
  - destruct (lookup name e); [apply IH, H|reflexivity].
  - apply IH, H.
Qed.

(** * 4. Recursive types: a bound that does not depend on the fuel

    [K] above grows with the fuel when [t] reaches a reference cycle, although
    a decoder whose every recursion level consumes input cannot recurse deeper
    than the input is long.  The second analysis below accounts in DEBTS at a
    fixed rate [B] (steps per bit): a reader has success debt [dd] and error
    debt [de] when its steps are at most [dd + B * consumed] on success and
    [de + B * remaining] on an error.  [dd] may be negative (a CREDIT: a read
    of 8 bits costs 1 step and leaves [8 * B - 1]), debts add up along a
    sequence, so the bits a level consumes pay for the steps of that level and
    the debt does not accumulate along the recursion.  Reference cycles are
    cut at chosen names with ASSUMED debts [rho]; the assumption is discharged
    by a computation ([rho_ok]): the body of every cut name, analysed under the
    assumptions, stays within its assumed debt - at every fuel. *)
Local Close Scope N_scope.

Record dk : Type := DK { dd : Z; de : Z; dok : bool }.

Section Debt.
  Variable B : Z.
  Hypothesis HB : 0 <= B.
  (** the success debt given to readers that never succeed (any number) *)
  Variable M : Z.

  Definition Inv {A} (k : dk) (m : creader A) : Prop :=
    dok k = true ->
    forall bs,
      match m bs with
      | (Ok (_, r), c) =>
        (length r <= length bs)%nat /\ Z.of_N c <= dd k + B * Z.of_nat (length bs - length r)
      | (Err _, c) => Z.of_N c <= de k + B * Z.of_nat (length bs)
      end.

  Definition dle (k k' : dk) : Prop :=
    dok k' = true -> dok k = true /\ dd k <= dd k' /\ de k <= de k'.

  Definition dret : dk := DK 0 0 true.
  Definition dfail : dk := DK (- M) 0 true.
  Definition done : dk := DK 1 1 true.
  Definition dtick (n : Z) (k : dk) : dk := DK (n + dd k) (n + de k) (dok k).
  Definition dseq (k1 k2 : dk) : dk :=
    DK (dd k1 + dd k2) (Z.max (de k1) (dd k1 + de k2)) (dok k1 && dok k2).
  Definition dalt (k1 k2 : dk) : dk :=
    DK (Z.max (dd k1) (dd k2)) (Z.max (de k1) (de k2)) (dok k1 && dok k2).
  Definition dconv (k : abw) : dk :=
    DK (Z.of_N (ka k) - (B - Z.of_N (kb k)) * (if kw k then 1 else 0)) (Z.of_N (ka k))
       (Z.of_N (kb k) <=? B).

  Lemma dle_refl k : dle k k.
  Proof. unfold dle. intros H. repeat split; auto; lia. Qed.

  Lemma Inv_weaken {A} k k' (m : creader A) : dle k k' -> Inv k m -> Inv k' m.
  Proof.
    intros Hle H Hok bs. destruct (Hle Hok) as (Hok1 & Hd & He). specialize (H Hok1 bs).
    destruct (m bs) as [[[x r]|er] c].
    - destruct H as (L & C). split; [exact L|lia].
    - lia.
  Qed.

  Lemma Inv_ret {A} (a : A) : Inv dret (cret a).
  Proof. intros _ bs. cbn. split; [lia|]. rewrite Nat.sub_diag. lia. Qed.

  Lemma Inv_fail {A} x : Inv dfail (@cfail A x).
  Proof. intros _ bs. cbn. lia. Qed.

  Lemma Inv_tick {A} n k (m : creader A) : Inv k m -> Inv (dtick (Z.of_N n) k) (tick n m).
  Proof.
    intros H Hok bs. specialize (H Hok bs). unfold tick. destruct (m bs) as [[[x r]|er] c]; cbn [dd de dtick].
    - destruct H as (L & C). split; [exact L|lia].
    - lia.
  Qed.

  Lemma Inv_bind_post {A C} (Q : A -> Prop) k1 k2 (m : creader A) (f : A -> creader C) :
    Inv k1 m -> Post Q m -> (forall x, Q x -> Inv k2 (f x)) -> Inv (dseq k1 k2) (cbind m f).
  Proof.
    intros H1 HQ H2 Hok bs. cbn [dok dseq] in Hok. apply andb_prop in Hok. destruct Hok as [Hok1 Hok2].
    unfold cbind. specialize (H1 Hok1 bs). specialize (HQ bs).
    destruct (m bs) as [[[x r]|er] c1]; cbn [dd de dseq].
    - destruct H1 as (L1 & C1). specialize (H2 x (HQ _ _ _ eq_refl) Hok2 r).
      destruct (f x r) as [[[y r2]|er2] c2].
      + destruct H2 as (L2 & C2). split; [lia|].
        replace (Z.of_nat (length bs - length r2))
          with (Z.of_nat (length bs - length r) + Z.of_nat (length r - length r2)) by lia.
        rewrite Z.mul_add_distr_l. lia.
      + replace (Z.of_nat (length bs))
          with (Z.of_nat (length bs - length r) + Z.of_nat (length r)) by lia.
        rewrite Z.mul_add_distr_l. lia.
    - lia.
  Qed.

  Lemma Inv_bind {A C} k1 k2 (m : creader A) (f : A -> creader C) :
    Inv k1 m -> (forall x, Inv k2 (f x)) -> Inv (dseq k1 k2) (cbind m f).
  Proof.
    intros H1 H2. apply (Inv_bind_post (fun _ => True)); auto. intros bs x r c _. exact I.
  Qed.

  Lemma dle_alt_l k1 k2 : dle k1 (dalt k1 k2).
  Proof.
    unfold dle, dalt; cbn [dd de dok]. intros H. apply andb_prop in H. destruct H. repeat split; auto; lia.
  Qed.
  Lemma dle_alt_r k1 k2 : dle k2 (dalt k1 k2).
  Proof.
    unfold dle, dalt; cbn [dd de dok]. intros H. apply andb_prop in H. destruct H. repeat split; auto; lia.
  Qed.

  Lemma Inv_if {A} k1 k2 (c : bool) (m1 m2 : creader A) :
    Inv k1 m1 -> Inv k2 m2 -> Inv (dalt k1 k2) (if c then m1 else m2).
  Proof.
    intros H1 H2. destruct c; [eapply Inv_weaken; [apply dle_alt_l|exact H1]
                              | eapply Inv_weaken; [apply dle_alt_r|exact H2]].
  Qed.

  Lemma Inv_opt {A C} k1 k2 (o : option C) (f : C -> creader A) (g : creader A) :
    (forall x, Inv k1 (f x)) -> Inv k2 g ->
    Inv (dalt k1 k2) (match o with Some x => f x | None => g end).
  Proof.
    intros H1 H2. destruct o as [x|]; [eapply Inv_weaken; [apply dle_alt_l|exact (H1 x)]
                                      | eapply Inv_weaken; [apply dle_alt_r|exact H2]].
  Qed.

  Lemma Inv_with_consumed {A} k (m : creader A) : Inv k m -> Inv k (c_with_consumed m).
  Proof.
    intros H Hok bs. specialize (H Hok bs). unfold c_with_consumed.
    destruct (m bs) as [[[x r]|er] c]; exact H.
  Qed.

  (** every [(a, b, w)] bound with [b <= B] is a debt bound; a reader that
      consumes at least one bit leaves a credit of [B - b] *)
  Lemma Inv_conv {A} k (m : creader A) : Cost k m -> Inv (dconv k) m.
  Proof.
    intros H Hok bs. cbn [dok dconv] in Hok. specialize (H bs).
    destruct (m bs) as [[[x r]|er] c]; cbn [dd de dconv].
    - destruct H as (L & C & W). split; [exact L|].
      assert (C' : Z.of_N c <= Z.of_N (ka k) + Z.of_N (kb k) * Z.of_nat (length bs - length r)) by lia.
      destruct (kw k).
      + specialize (W eq_refl). assert (1 <= Z.of_nat (length bs - length r)) by lia. nia.
      + nia.
    - assert (C' : Z.of_N c <= Z.of_N (ka k) + Z.of_N (kb k) * Z.of_nat (length bs)) by lia. nia.
  Qed.

  Lemma Inv_one {A} k (m : creader A) : Cost k m -> ka k = 1%N -> kb k = 0%N -> Inv done m.
  Proof.
    intros H Ha Hb. eapply Inv_weaken; [|apply (Inv_conv k m H)].
    unfold dle, dconv, done; cbn [dd de dok]. rewrite Ha, Hb. intros _.
    split; [lia|]. destruct (kw k); lia.
  Qed.

  (** loops *)
  Definition d_rep (nmax : Z) (k : dk) : dk :=
    if 1 + dd k <=? 0 then DK 0 (Z.max 0 (1 + de k)) (dok k)
    else DK (nmax * (1 + dd k)) (nmax * (1 + dd k) + Z.max 0 (1 + de k)) (dok k).

  Lemma Inv_read_n_pay {A} k (rd : creader A) n :
    1 + dd k <= 0 -> Inv k rd -> Inv (DK 0 (Z.max 0 (1 + de k)) (dok k)) (c_read_n n rd).
  Proof.
    intros Hp H Hok. cbn [dok] in Hok. specialize (H Hok).
    induction n as [|n IH]; intros bs; cbn [c_read_n dd de].
    - cbn. split; [lia|]. rewrite Nat.sub_diag. lia.
    - unfold tick, cbind. specialize (H bs). destruct (rd bs) as [[[v r]|er] c1].
      + destruct H as (L1 & C1). specialize (IH r).
        destruct (c_read_n n rd r) as [[[vs r2]|er2] c2]; cbn [cret dd de] in *.
        * destruct IH as (L2 & C2). split; [lia|].
          replace (Z.of_nat (length bs - length r2))
            with (Z.of_nat (length bs - length r) + Z.of_nat (length r - length r2)) by lia.
          rewrite Z.mul_add_distr_l. lia.
        * replace (Z.of_nat (length bs))
            with (Z.of_nat (length bs - length r) + Z.of_nat (length r)) by lia.
          rewrite Z.mul_add_distr_l. lia.
      + lia.
  Qed.

  Lemma Inv_read_n_count {A} k (rd : creader A) n :
    0 <= 1 + dd k -> Inv k rd ->
    Inv (DK (Z.of_nat n * (1 + dd k)) (Z.of_nat n * (1 + dd k) + Z.max 0 (1 + de k)) (dok k)) (c_read_n n rd).
  Proof.
    intros Hp H Hok. cbn [dok] in Hok. specialize (H Hok).
    induction n as [|n IH]; intros bs; cbn [c_read_n dd de].
    - cbn. split; [lia|]. rewrite Nat.sub_diag. lia.
    - unfold tick, cbind. specialize (H bs). destruct (rd bs) as [[[v r]|er] c1].
      + destruct H as (L1 & C1). specialize (IH r).
        destruct (c_read_n n rd r) as [[[vs r2]|er2] c2]; cbn [cret dd de] in *.
        * destruct IH as (L2 & C2). split; [lia|].
          replace (Z.of_nat (length bs - length r2))
            with (Z.of_nat (length bs - length r) + Z.of_nat (length r - length r2)) by lia.
          rewrite Z.mul_add_distr_l. rewrite Nat2Z.inj_succ. lia.
        * replace (Z.of_nat (length bs))
            with (Z.of_nat (length bs - length r) + Z.of_nat (length r)) by lia.
          rewrite Z.mul_add_distr_l. rewrite Nat2Z.inj_succ. lia.
      + rewrite Nat2Z.inj_succ. nia.
  Qed.

  Lemma Inv_read_n {A} k (rd : creader A) nmax n :
    Inv k rd -> Z.of_nat n <= nmax -> Inv (d_rep nmax k) (c_read_n n rd).
  Proof.
    intros H Hn. unfold d_rep. destruct (1 + dd k <=? 0) eqn:E.
    - apply Inv_read_n_pay; [lia|exact H].
    - eapply Inv_weaken; [|apply (Inv_read_n_count k rd n); [lia|exact H]].
      unfold dle; cbn [dd de dok]. intros Hok. split; [exact Hok|]. nia.
  Qed.

  Definition d_len : dk := DK (2 - 8 * B) 2 true.

  Lemma Inv_read_len : Inv d_len c_read_len.
  Proof.
    intros _ bs. pose proof (c_read_len_spec bs) as Hs.
    destruct (c_read_len bs) as [[[n r]|er] c]; cbn [dd de d_len].
    - destruct Hs as (C & _ & L). split; [lia|]. nia.
    - nia.
  Qed.

  Lemma Post_read_len : Post (fun n => 0 <= n <= 65536) c_read_len.
  Proof.
    intros bs x r c E. pose proof (c_read_len_spec bs) as Hs. rewrite E in Hs. tauto.
  Qed.

  Definition d_lenrep (k : dk) : dk := dseq d_len (dseq (d_rep 65536 k) dret).

  Lemma Inv_lenrep {A C} k (rd : creader A) (g : list A -> creader C) :
    Inv k rd -> (forall l, Inv dret (g l)) ->
    Inv (d_lenrep k) (dc* n <- c_read_len; dc* vs <- c_read_n (Z.to_nat n) rd; g vs).
  Proof.
    intros H Hg. unfold d_lenrep. apply (Inv_bind_post _ _ _ _ _ Inv_read_len Post_read_len).
    intros n Hn. apply Inv_bind; [|exact Hg]. apply Inv_read_n; [exact H|lia].
  Qed.

  (** fragments: each one must pay for itself with its 8 determinant bits *)
  Definition d_frag (k : dk) : dk :=
    let F := 1 + (2 - 8 * B) + dd (d_rep 65536 k) in
    DK F (1 + Z.max 2 (2 - 8 * B + de (d_rep 65536 k))) (dok (d_rep 65536 k) && (F <=? 0)).

  Lemma Inv_read_frag {A} k (rd : creader A) :
    Inv k rd -> forall fuel, Inv (d_frag k) (c_read_frag fuel rd).
  Proof.
    intros H fuel. induction fuel as [|f IH]; cbn [c_read_frag].
    - intros Hok bs. unfold cfail, d_frag. cbn [de].
      pose proof (Z.mul_nonneg_nonneg B (Z.of_nat (length bs)) HB ltac:(lia)). lia.
    - eapply Inv_weaken; [|eapply (Inv_tick 1);
        eapply Inv_bind_post; [apply Inv_read_len | apply Post_read_len |];
        intros n Hn; cbv beta in Hn;
        eapply Inv_bind; [apply (Inv_read_n k rd 65536); [exact H|lia]|];
        intros items; eapply Inv_if; [apply Inv_ret|];
        eapply Inv_bind; [exact IH|intros; apply Inv_ret]].
      unfold dle, d_frag, dtick, dseq, dalt, dret, d_len; cbn [dd de dok].
      intros Hok. apply andb_prop in Hok. destruct Hok as [Hok1 Hok2].
      rewrite Hok1, Hok2. cbn [andb]. split; [reflexivity|]. lia.
  Qed.

  Lemma Inv_read_frag_auto {A} k (rd : creader A) : Inv k rd -> Inv (d_frag k) (c_read_frag_auto rd).
  Proof. intros H Hok bs. unfold c_read_frag_auto. apply (Inv_read_frag k rd H _ Hok). Qed.

  Definition d_sized (sz : size) (k : dk) : dk :=
    dseq (dconv (k_extra sz)) (dseq (d_rep (Z.of_N (size_nmax sz)) k) dret).

  Lemma Inv_sized {A C} sz k (rd : creader A) (g : list A -> creader C) :
    Inv k rd -> (forall l, Inv dret (g l)) ->
    Inv (d_sized sz k)
        (dc* extra <- c_extra sz; dc* vs <- c_read_n (Z.to_nat (size_lo sz + extra)) rd; g vs).
  Proof.
    intros H Hg. unfold d_sized.
    apply (Inv_bind_post _ _ _ _ _ (Inv_conv _ _ (Cost_extra sz)) (Post_extra sz)).
    intros extra He. apply Inv_bind; [|exact Hg].
    apply Inv_read_n; [exact H | unfold size_nmax; lia].
  Qed.

  Definition d_array (sz : size) (k : dk) : dk :=
    let normal := if size_unbound sz then dseq (d_frag k) dret else d_sized sz k in
    if size_ext sz then dseq (dconv (kprim true)) (dalt (dseq (d_frag k) dret) normal) else normal.

  Lemma Inv_array {A} sz k (rd : creader A) g :
    Inv k rd -> (forall l, Inv dret (g l)) -> Inv (d_array sz k) (c_array rd g sz).
  Proof.
    intros H Hg. unfold d_array, c_array.
    assert (Hn : Inv (if size_unbound sz then dseq (d_frag k) dret else d_sized sz k)
                   (if size_unbound sz then dc* vs <- c_read_frag_auto rd; g vs
                    else dc* extra <- c_extra sz; dc* vs <- c_read_n (Z.to_nat (size_lo sz + extra)) rd; g vs)).
    { destruct (size_unbound sz).
      - apply Inv_bind; [apply Inv_read_frag_auto, H|exact Hg].
      - apply Inv_sized; assumption. }
    destruct (size_ext sz); [|exact Hn].
    apply Inv_bind; [apply Inv_conv, Cost_read_bit|]. intros b. apply Inv_if; [|exact Hn].
    apply Inv_bind; [apply Inv_read_frag_auto, H|exact Hg].
  Qed.

  (** composite types, relative to a debt bound [dT] of the nested types *)
  Section DComposite.
    Variable dT : ty -> dk.

    Definition d_member_seq (m : member_of ty) (acc : dk) : dk :=
      if has_presence_bit m
      then dalt (dseq (dT (m_ty m)) (dseq acc dret)) (dseq acc dret)
      else dseq (dT (m_ty m)) (dseq acc dret).

    Fixpoint d_members (ms : list (member_of ty)) : dk :=
      match ms with
      | [] => dret
      | m :: r => dtick 1 (d_member_seq m (d_members r))
      end.

    Definition d_root (ms : list (member_of ty)) : dk :=
      dseq (dconv (ABW (2 * N.of_nat (n_pres ms)) 0 (0 <? n_pres ms)%nat)) (d_members ms).

    Definition d_one_addition (ad : addition_of ty) : dk :=
      if fst ad then d_root (snd ad)
      else match snd ad with
           | [m] => dseq (dT (m_ty m)) dret
           | _ => dfail
           end.

    Definition d_one_adds (adds : list (addition_of ty)) : dk :=
      match adds with
      | [] => done
      | ad :: _ => d_one_addition ad
      end.

    (** maximum over the known additions and the skip of an unknown one *)
    Definition d_adds_max (adds : list (addition_of ty)) : dk :=
      fold_right (fun ad acc => dalt (d_one_addition ad) acc) done adds.

    Definition d_adds_P (adds : list (addition_of ty)) : Z :=
      Z.max 1 (1 + (2 - 8 * B) + dd (d_adds_max adds) + 1).
    Definition d_adds_E (adds : list (addition_of ty)) : Z :=
      Z.max 3 (3 - 8 * B + de (d_adds_max adds)).

    Definition d_dec_adds (adds : list (addition_of ty)) : dk :=
      DK (127 * d_adds_P adds) (127 * d_adds_P adds + d_adds_E adds) (dok (d_adds_max adds)).

    Definition d_additions (adds : list (addition_of ty)) : dk :=
      dseq (dconv k_small_len) (dseq done (d_dec_adds adds)).

    Definition d_seq (root : list (member_of ty)) (ext : option (list (addition_of ty))) : dk :=
      match ext with
      | None => dseq (d_root root) dret
      | Some adds =>
        dseq (dconv (kprim true))
             (dseq (d_root root) (dalt (dseq (d_additions adds) dret) dret))
      end.

    Definition dmax_alts (alts : list (member_of ty)) : dk :=
      fold_right (fun m acc => dalt (dT (m_ty m)) acc) dfail alts.

    Definition d_choice_root (root : list (member_of ty)) : dk :=
      dseq (if (1 <? length root)%nat then dconv (kprim (0 <? choice_root_bits root)%nat) else dret)
           (dseq (dmax_alts root) dret).

    Definition d_choice (root : list (member_of ty)) (ext : option (list (member_of ty))) : dk :=
      match ext with
      | None => d_choice_root root
      | Some adds =>
        dseq (dconv (kprim true))
             (dalt (d_choice_root root)
                   (dseq (dconv k_small_nonneg)
                         (dseq d_len (dalt (dseq (dmax_alts adds) (dalt dfail (dseq done dret)))
                                           (dseq done dret)))))
      end.

    Variable decT : ty -> creader value.
    Hypothesis HT : forall t, Inv (dT t) (decT t).

    Lemma dle_seq_ret k : dle k (dseq k dret).
    Proof.
      unfold dle, dseq, dret; cbn [dd de dok]. intros H. apply andb_prop in H. destruct H as [H _].
      split; [exact H|]. lia.
    Qed.

    Lemma Inv_dec_members ms : forall pres, Inv (d_members ms) (c_dec_members decT ms pres).
    Proof.
      induction ms as [|m r IH]; intros pres; cbn [c_dec_members d_members]; [apply Inv_ret|].
      apply (Inv_tick 1). unfold d_member_seq. destruct (has_presence_bit m).
      - destruct pres as [|p pres'].
        + intros Hok bs. unfold cfail. cbn [dd de dalt dseq dret].
          cbn [dok dalt dseq dret] in Hok.
          pose proof (Z.mul_nonneg_nonneg B (Z.of_nat (length bs)) HB ltac:(lia)).
          assert (Hr : dok (d_members r) = true).
          { destruct (dok (dT (m_ty m))); destruct (dok (d_members r)); cbn in Hok; congruence. }
          pose proof (IH [] Hr []) as Hx. cbn [length] in Hx.
          destruct (c_dec_members decT r [] []) as [[[x rr]|er] c]; [destruct Hx as (_ & Hx)|]; cbn in Hx; lia.
        + destruct p.
          * eapply Inv_weaken; [apply dle_alt_l|].
            apply Inv_bind; [apply HT|]. intros v. apply Inv_bind; [apply IH|intros; apply Inv_ret].
          * eapply Inv_weaken; [apply dle_alt_r|]. destruct (m_opt m).
            -- eapply Inv_weaken; [apply dle_seq_ret|apply IH].
            -- eapply Inv_weaken; [apply dle_seq_ret|apply IH].
            -- apply Inv_bind; [apply IH|intros; apply Inv_ret].
      - apply Inv_bind; [apply HT|]. intros v. apply Inv_bind; [apply IH|intros; apply Inv_ret].
    Qed.

    Lemma Inv_dec_root ms : Inv (d_root ms) (c_dec_root decT ms).
    Proof.
      unfold c_dec_root, d_root. apply Inv_bind; [|intros; apply Inv_dec_members].
      apply Inv_conv. eapply Cost_weaken; [|apply (Cost_read_n_exact (kprim true)), Cost_read_bit].
      unfold n_pres, kle, kprim; cbn [ka kb kw]. repeat split; lia.
    Qed.

    Lemma Inv_skip n : Inv done (c_skip_bits n).
    Proof. apply (Inv_one _ _ (Cost_skip_bits n)); reflexivity. Qed.

    Lemma Inv_dec_one_addition adds n : Inv (d_one_adds adds) (c_dec_one_addition decT adds n).
    Proof.
      unfold c_dec_one_addition, d_one_adds. destruct adds as [|[isgroup ms] rest].
      - intros _ bs. pose proof (Inv_skip (Z.to_nat (8 * n)) eq_refl bs) as Hs.
        unfold cbind. destruct (c_skip_bits (Z.to_nat (8 * n)) bs) as [[[x r]|er] c]; [|exact Hs].
        unfold cret. destruct Hs as (L & C). split; [exact L|]. cbn [dd done] in *. lia.
      - unfold d_one_addition. cbn [fst snd]. destruct isgroup; [apply Inv_dec_root|].
        destruct ms as [|m [|m2 ms]]; try apply Inv_fail.
        apply Inv_bind; [apply HT|intros; apply Inv_ret].
    Qed.

    Lemma d_adds_max_tl adds : dle (d_adds_max (tl adds)) (d_adds_max adds).
    Proof.
      destruct adds as [|ad rest]; [apply dle_refl|]. cbn [tl d_adds_max fold_right]. apply dle_alt_r.
    Qed.

    Lemma d_one_adds_le adds : dle (d_one_adds adds) (d_adds_max adds).
    Proof.
      destruct adds as [|ad rest]; [apply dle_refl|]. cbn [d_one_adds d_adds_max fold_right]. apply dle_alt_l.
    Qed.

    Lemma Inv_dec_adds_gen Mx : forall pres adds,
      dle (d_adds_max adds) Mx ->
      let P := Z.max 1 (1 + (2 - 8 * B) + dd Mx + 1) in
      let E := Z.max 3 (3 - 8 * B + de Mx) in
      Inv (DK (Z.of_nat (length pres) * P) (Z.of_nat (length pres) * P + E) (dok Mx)) (c_dec_adds decT pres adds).
    Proof.
      intros pres adds HM P E. revert adds HM.
      induction pres as [|p pres IH]; intros adds HM; cbn [c_dec_adds].
      - intros _ bs. cbn. split; [lia|]. rewrite Nat.sub_diag. lia.
      - assert (HM' : dle (d_adds_max (tl adds)) Mx).
        { intros Hok. destruct (HM Hok) as (H1 & H2 & H3).
          destruct (d_adds_max_tl adds H1) as (H4 & H5 & H6). repeat split; [exact H4|lia|lia]. }
        specialize (IH (tl adds) HM').
        destruct p; cbn [negb].
        + eapply Inv_weaken; [|eapply (Inv_tick 1);
            eapply Inv_bind; [apply Inv_read_len|]; intros open_len;
            eapply Inv_bind; [apply Inv_with_consumed;
                              eapply Inv_weaken; [|apply Inv_dec_one_addition];
                              intros Hok; destruct (HM Hok) as (H1 & H2 & H3);
                              destruct (d_one_adds_le adds H1) as (H4 & H5 & H6);
                              split; [exact H4|split; [apply (Z.le_trans _ _ _ H5 H2)|apply (Z.le_trans _ _ _ H6 H3)]]|];
            intros [fields consumed];
            eapply Inv_bind; [cbv zeta; eapply (Inv_if dret done); [apply Inv_ret|apply Inv_skip]|];
            intros _; eapply Inv_bind; [exact IH|intros; apply Inv_ret]].
          unfold dle, dtick, dseq, dalt, dret, done, d_len; cbn [dd de dok length].
          intros Hok. rewrite Hok. cbn [andb]. split; [reflexivity|].
          rewrite Nat2Z.inj_succ. subst P E. nia.
        + eapply Inv_weaken; [|apply (Inv_tick 1), IH].
          unfold dle, dtick; cbn [dd de dok length]. intros Hok. split; [exact Hok|].
          rewrite Nat2Z.inj_succ. subst P E. nia.
    Qed.

    Lemma Inv_dec_additions adds : Inv (d_additions adds) (c_dec_additions decT adds).
    Proof.
      unfold c_dec_additions, d_additions.
      eapply (Inv_bind_post _ _ _ _ _ (Inv_conv _ _ Cost_read_small_len) Post_read_small_len).
      intros n Hn. cbv beta in Hn.
      apply (Inv_bind_post (fun x : bits => length x = Z.to_nat n)).
      - apply (Inv_one _ _ (Cost_read_raw (Z.to_nat n))); reflexivity.
      - apply Post_read_raw.
      - intros pres Hp. eapply Inv_weaken; [|apply (Inv_dec_adds_gen _ pres adds (dle_refl _))].
        unfold d_dec_adds, d_adds_P, d_adds_E, dle; cbn [dd de dok]. intros Hok. split; [exact Hok|]. nia.
    Qed.

    Lemma Inv_dec_seq root ext : Inv (d_seq root ext) (c_dec_seq decT root ext).
    Proof.
      unfold c_dec_seq, d_seq. destruct ext as [adds|].
      - apply Inv_bind; [apply Inv_conv, Cost_read_bit|]. intros b.
        apply Inv_bind; [apply Inv_dec_root|]. intros fs. apply Inv_if; [|apply Inv_ret].
        apply Inv_bind; [apply Inv_dec_additions|intros; apply Inv_ret].
      - apply Inv_bind; [apply Inv_dec_root|intros; apply Inv_ret].
    Qed.

    Lemma Inv_dec_seqof elem sz : Inv (d_array sz (dT elem)) (c_dec_seqof decT elem sz).
    Proof.
      change (c_dec_seqof decT elem sz) with (c_array (decT elem) (fun vs => cret (VList vs)) sz).
      apply Inv_array; [apply HT|intros; apply Inv_ret].
    Qed.

    Lemma dle_dmax_In alts m : In m alts -> dle (dT (m_ty m)) (dmax_alts alts).
    Proof.
      induction alts as [|a r IH]; intros Hin; [destruct Hin|].
      cbn [dmax_alts fold_right]. fold (dmax_alts r). destruct Hin as [->|Hin]; [apply dle_alt_l|].
      intros Hok. destruct (dle_alt_r (dT (m_ty a)) (dmax_alts r) Hok) as (H1 & H2 & H3).
      destruct (IH Hin H1) as (H4 & H5 & H6). repeat split; [exact H4|lia|lia].
    Qed.

    Lemma Inv_alt alts i m : nth_z alts i = Some m -> Inv (dmax_alts alts) (decT (m_ty m)).
    Proof.
      intros Hn. eapply Inv_weaken; [apply (dle_dmax_In alts m), (nth_z_In _ _ _ Hn)|apply HT].
    Qed.

    Lemma Inv_dec_choice_root root : Inv (d_choice_root root) (c_dec_choice_root decT root).
    Proof.
      unfold c_dec_choice_root, d_choice_root. apply Inv_bind.
      - destruct (1 <? length root)%nat; [apply Inv_conv, Cost_read_uint|apply Inv_ret].
      - intros i. destruct (nth_z root i) as [m|] eqn:En.
        + apply Inv_bind; [apply (Inv_alt root i m En)|intros; apply Inv_ret].
        + intros Hok bs. unfold cfail. cbn [dok dseq dret] in Hok. apply andb_prop in Hok. destruct Hok as [Hok _].
          cbn [de dseq dret].
          pose proof (Z.mul_nonneg_nonneg B (Z.of_nat (length bs)) HB ltac:(lia)).
          assert (0 <= de (dmax_alts root)).
          { clear. unfold dmax_alts. induction root as [|a r IH]; cbn [fold_right dalt dfail de]; lia. }
          lia.
    Qed.

    Lemma Inv_dec_choice root ext : Inv (d_choice root ext) (c_dec_choice decT root ext).
    Proof.
      unfold c_dec_choice, d_choice. destruct ext as [adds|]; [|apply Inv_dec_choice_root].
      apply Inv_bind; [apply Inv_conv, Cost_read_bit|]. intros b. apply Inv_if; [apply Inv_dec_choice_root|].
      apply Inv_bind; [apply Inv_conv, Cost_read_small_nonneg|]. intros i.
      apply Inv_bind; [apply Inv_read_len|]. intros len. cbv zeta.
      destruct (nth_z adds i) as [m|] eqn:En.
      - eapply Inv_weaken; [apply dle_alt_l|].
        apply Inv_bind; [apply Inv_with_consumed, (Inv_alt adds i m En)|].
        intros [v consumed]. apply Inv_if; [apply Inv_fail|].
        apply Inv_bind; [apply Inv_skip|intros; apply Inv_ret].
      - eapply Inv_weaken; [apply dle_alt_r|].
        apply Inv_bind; [apply Inv_skip|intros; apply Inv_ret].
    Qed.
  End DComposite.

  (** the debt bound of a type; the names of [rho] are cut points whose bodies
      are ASSUMED to satisfy the given bound (discharged by [rho_ok] below) *)
  Section DK.
    Variable rho : list (string * dk).
    Variable e : env.

    Fixpoint dK (fuel : nat) (t : ty) {struct fuel} : dk :=
      match fuel with
      | O => dtick 1 dfail
      | S f =>
        match t with
        | TSeq _ root ext => dtick 1 (d_seq (dK f) root ext)
        | TSeqOf _ elem sz => dtick 1 (d_array sz (dK f elem))
        | TChoice root ext => dtick 1 (d_choice (dK f) root ext)
        | TRef n =>
          dtick 1 (match lookup n e with
                   | None => dfail
                   | Some t' => match lookup n rho with Some k => k | None => dK f t' end
                   end)
        | TTag _ t' => dtick 1 (dK f t')
        | _ => dconv (Kabw e 1 t)
        end
      end.

    Definition consistent : Prop :=
      forall f n k t', lookup n rho = Some k -> lookup n e = Some t' -> dle (dK f t') k.

    Lemma Inv_dK numeric : consistent -> forall f t, Inv (dK f t) (dec_cost numeric e f t).
    Proof.
      intros Hc. induction f as [|f IH]; intros t.
      - cbn [dK dec_cost]. apply (Inv_tick 1), Inv_fail.
      - destruct t; cbn [dK];
          try (match goal with
               | |- Inv (dconv _) (dec_cost _ _ _ ?t) =>
                 change (dec_cost numeric e (S f) t) with (dec_cost numeric e 1 t);
                 apply Inv_conv, Cost_dec
               end).
        + cbn [dec_cost]. apply (Inv_tick 1), Inv_dec_seq, IH.
        + cbn [dec_cost]. apply (Inv_tick 1), Inv_dec_seqof, IH.
        + cbn [dec_cost]. apply (Inv_tick 1), Inv_dec_choice, IH.
        + cbn [dec_cost]. apply (Inv_tick 1). destruct (lookup name e) as [t'|] eqn:Ee; [|apply Inv_fail].
          destruct (lookup name rho) as [k|] eqn:Er; [|apply IH].
          eapply Inv_weaken; [apply (Hc f name k t' Er Ee)|apply IH].
        + cbn [dec_cost]. apply (Inv_tick 1), IH.
    Qed.

    (** cut-point aware nesting depth *)
    Fixpoint dfits (d : nat) (t : ty) {struct d} : bool :=
      match d with
      | O => false
      | S d' =>
        let ms_fit (ms : list (member_of ty)) := forallb (fun m => dfits d' (m_ty m)) ms in
        match t with
        | TSeq _ root ext =>
          ms_fit root && match ext with
                         | None => true
                         | Some adds => forallb (fun ad : addition_of ty => ms_fit (snd ad)) adds
                         end
        | TSeqOf _ elem _ => dfits d' elem
        | TChoice root ext => ms_fit root && match ext with None => true | Some adds => ms_fit adds end
        | TRef n =>
          match lookup n e with
          | None => true
          | Some t' => match lookup n rho with Some _ => true | None => dfits d' t' end
          end
        | TTag _ t' => dfits d' t'
        | _ => true
        end
      end.
  End DK.

  Section DAgree.
    Variable P : ty -> bool.
    Variables dT1 dT2 : ty -> dk.
    Hypothesis Hag : forall t, P t = true -> dT1 t = dT2 t.

    Let ms_ok (ms : list (member_of ty)) := forallb (fun m => P (m_ty m)) ms.

    Lemma d_members_agree ms : ms_ok ms = true -> d_members dT1 ms = d_members dT2 ms.
    Proof.
      induction ms as [|m r IH]; [reflexivity|]. unfold ms_ok. cbn [forallb d_members]. intros H.
      apply andb_prop in H. destruct H as [H1 H2]. unfold d_member_seq. rewrite (Hag _ H1), (IH H2). reflexivity.
    Qed.

    Lemma d_root_agree ms : ms_ok ms = true -> d_root dT1 ms = d_root dT2 ms.
    Proof. intros H. unfold d_root. rewrite (d_members_agree ms H). reflexivity. Qed.

    Lemma d_one_addition_agree ad : ms_ok (snd ad) = true -> d_one_addition dT1 ad = d_one_addition dT2 ad.
    Proof.
      intros H. unfold d_one_addition. destruct (fst ad); [apply d_root_agree, H|].
      destruct (snd ad) as [|m [|m2 ms]]; try reflexivity.
      unfold ms_ok in H. cbn [forallb] in H. apply andb_prop in H. destruct H as [H _]. rewrite (Hag _ H). reflexivity.
    Qed.

    Lemma d_adds_max_agree adds :
      forallb (fun ad : addition_of ty => ms_ok (snd ad)) adds = true ->
      d_adds_max dT1 adds = d_adds_max dT2 adds.
    Proof.
      induction adds as [|ad r IH]; [reflexivity|]. cbn [forallb]. intros H.
      apply andb_prop in H. destruct H as [H1 H2]. cbn [d_adds_max fold_right].
      fold (d_adds_max dT1 r) (d_adds_max dT2 r). rewrite (d_one_addition_agree ad H1), (IH H2). reflexivity.
    Qed.

    Lemma d_seq_agree root ext :
      ms_ok root && match ext with
                    | None => true
                    | Some adds => forallb (fun ad : addition_of ty => ms_ok (snd ad)) adds
                    end = true ->
      d_seq dT1 root ext = d_seq dT2 root ext.
    Proof.
      intros H. apply andb_prop in H. destruct H as [H1 H2]. unfold d_seq.
      rewrite (d_root_agree root H1). destruct ext as [adds|]; [|reflexivity].
      unfold d_additions, d_dec_adds, d_adds_P, d_adds_E. rewrite (d_adds_max_agree adds H2). reflexivity.
    Qed.

    Lemma dmax_alts_agree alts : ms_ok alts = true -> dmax_alts dT1 alts = dmax_alts dT2 alts.
    Proof.
      induction alts as [|m r IH]; [reflexivity|]. unfold ms_ok. cbn [forallb dmax_alts fold_right]. intros H.
      apply andb_prop in H. destruct H as [H1 H2]. fold (dmax_alts dT1 r) (dmax_alts dT2 r).
      rewrite (Hag _ H1), (IH H2). reflexivity.
    Qed.

    Lemma d_choice_agree root ext :
      ms_ok root && match ext with None => true | Some adds => ms_ok adds end = true ->
      d_choice dT1 root ext = d_choice dT2 root ext.
    Proof.
      intros H. apply andb_prop in H. destruct H as [H1 H2]. unfold d_choice, d_choice_root.
      rewrite (dmax_alts_agree root H1). destruct ext as [adds|]; [|reflexivity].
      rewrite (dmax_alts_agree adds H2). reflexivity.
    Qed.
  End DAgree.

  Lemma dK_fuel_stable rho e d : forall t fuel,
    dfits rho e d t = true -> (d <= fuel)%nat -> dK rho e fuel t = dK rho e d t.
  Proof.
    induction d as [|d IH]; intros t fuel Hf Hle; [discriminate|].
    destruct fuel as [|f]; [lia|]. assert (Hle' : (d <= f)%nat) by lia.
    assert (Hag : forall t', dfits rho e d t' = true -> dK rho e f t' = dK rho e d t')
      by (intros; apply IH; assumption).
    cbn [dK]. cbn [dfits] in Hf. destruct t; try reflexivity.
    - f_equal. apply (d_seq_agree (dfits rho e d)); assumption.
    - rewrite (Hag _ Hf). reflexivity.
    - f_equal. apply (d_choice_agree (dfits rho e d)); assumption.
    - destruct (lookup name e); [|reflexivity]. destruct (lookup name rho); [reflexivity|].
      rewrite (Hag _ Hf). reflexivity.
    - rewrite (Hag _ Hf). reflexivity.
  Qed.

  (** the boolean consistency check of the assumed bounds: every cut point's
      body, analysed under the assumptions at every fuel up to its (cut) depth
      [d], stays within its assumed bound *)
  Definition dleb (k k' : dk) : bool := dok k && (dd k <=? dd k') && (de k <=? de k').

  Definition rho_ok (rho : list (string * dk)) (e : env) (d : nat) : bool :=
    forallb (fun nk : string * dk =>
               match lookup (fst nk) e with
               | None => true
               | Some t' =>
                 dfits rho e d t' && forallb (fun f => dleb (dK rho e f t') (snd nk)) (seq 0 (S d))
               end) rho.

  Lemma lookup_In {V} n (l : list (string * V)) v : lookup n l = Some v -> In (n, v) l.
  Proof.
    induction l as [|[k a] r IH]; cbn [lookup]; [discriminate|].
    destruct (String.eqb n k) eqn:E.
    - intros H. inversion H; subst. apply String.eqb_eq in E. subst. left. reflexivity.
    - intros H. right. apply IH, H.
  Qed.

  Lemma rho_ok_consistent rho e d : rho_ok rho e d = true -> consistent rho e.
  Proof.
    intros Hok f n k t' Hr He. unfold rho_ok in Hok. rewrite forallb_forall in Hok.
    specialize (Hok (n, k) (lookup_In _ _ _ Hr)). cbn [fst snd] in Hok. rewrite He in Hok.
    apply andb_prop in Hok. destruct Hok as [Hfit Htab]. rewrite forallb_forall in Htab.
    assert (Hb : dleb (dK rho e f t') k = true).
    { destruct (Nat.le_gt_cases f d) as [Hle|Hgt].
      - apply Htab. apply in_seq. lia.
      - rewrite (dK_fuel_stable rho e d t' f Hfit ltac:(lia)). apply Htab. apply in_seq. lia. }
    unfold dleb in Hb. apply andb_prop in Hb. destruct Hb as [Hb H3]. apply andb_prop in Hb. destruct Hb as [H1 H2].
    intros _. repeat split; [exact H1|lia|lia].
  Qed.
End Debt.

(** THE BOUND FOR RECURSIVE TYPES: if the assumed bounds of the cut points are
    consistent ([rho_ok], a computation) then, for EVERY fuel, the steps are
    bounded by the debt bound of the type plus [B] per input bit; and when [t]
    is acyclic up to the cut points ([dfits]) that bound does not depend on
    the fuel. *)
Theorem dec_cost_bound_rec numeric B M rho e d fuel t inp :
  0 <= B -> rho_ok B M rho e d = true -> dok (dK B M rho e fuel t) = true ->
  Z.of_N (snd (dec_cost numeric e fuel t inp))
  <= Z.max (dd (dK B M rho e fuel t)) (de (dK B M rho e fuel t)) + B * Z.of_nat (length inp).
Proof.
  intros HB Hok Hd.
  pose proof (Inv_dK B HB M rho e numeric (rho_ok_consistent B M rho e d Hok) fuel t Hd inp) as H.
  destruct (dec_cost numeric e fuel t inp) as [[[v r]|x] c]; cbn [snd]; [|lia].
  destruct H as (L & C).
  assert (B * Z.of_nat (length inp - length r) <= B * Z.of_nat (length inp)) by (apply Z.mul_le_mono_nonneg_l; lia).
  lia.
Qed.

(* OPEN: dec_cost_bound_guarded - completeness of the check.  For every
   environment in which every reference cycle passes through a position that
   consumes at least one bit (a presence bit, the index of a CHOICE with two or
   more alternatives, an extension bit, a length determinant) there are B, M
   and rho with rho_ok B M rho e d = true.  Here the check is discharged per
   specification, by computation (UperCostEx.v: ex_rho_ok, tree_rho_ok); an
   unguarded cycle has no such bound (UperCostEx.v:
   unguarded_recursion_costs_the_fuel). *)

Theorem dec_cost_bound_rec_stable numeric B M rho e d d' fuel t inp :
  0 <= B -> rho_ok B M rho e d = true -> dfits rho e d' t = true -> (d' <= fuel)%nat ->
  dok (dK B M rho e d' t) = true ->
  Z.of_N (snd (dec_cost numeric e fuel t inp))
  <= Z.max (dd (dK B M rho e d' t)) (de (dK B M rho e d' t)) + B * Z.of_nat (length inp).
Proof.
  intros HB Hok Hf Hle Hd. rewrite <- (dK_fuel_stable B M rho e d' t fuel Hf Hle) in *.
  apply (dec_cost_bound_rec numeric B M rho e d fuel t inp HB Hok Hd).
Qed.

Print Assumptions dec_cost_erases.
Print Assumptions dec_cost_bound.
Print Assumptions dec_cost_bound_consumed.
Print Assumptions uper_decode_cost_bound.
Print Assumptions K_fuel_stable.
Print Assumptions dec_cost_bound_acyclic.
Print Assumptions dec_cost_bound_rec.
Print Assumptions dec_cost_bound_rec_stable.
