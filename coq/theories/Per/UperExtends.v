(** C07 for the UPER model, at any nesting depth: if version 2 of a type
    differs from version 1 only by extension additions (SEQUENCE/SET additions
    and groups, CHOICE alternatives, ENUMERATED items after the marker), at any
    number of nodes simultaneously, then
    - forward: version 1 decodes every version-2 encoding to the version-1
      projection of the value (unknown additions dropped, an unknown CHOICE
      alternative reported as (None, None), an unknown ENUMERATED item as None)
      and leaves the rest of the input untouched;
    - backward: version 2 decodes every version-1 encoding to exactly the
      value the version-1 decoder returns.
    The one-node theorems are in UperExt.v; the two-sided component lemmas in
    UperCompat2.v. *)
From Asn1V Require Import Base.Prelude Base.Sweep Base.Bits Base.BitsProofs
     Syntax.Asn1 Per.UperImpl Per.UperPrim Per.UperPB Per.UperRT Per.UperExt
     Per.UperReenc Per.UperCompat2.

Ltac Zify.zify_post_hook ::= Z.div_mod_to_equations.

(** ** Generic facts *)

Lemma Forall2_imp {A B} (R S : A -> B -> Prop) l1 l2 :
  (forall x y, R x y -> S x y) -> Forall2 R l1 l2 -> Forall2 S l1 l2.
Proof. intros H F. induction F; constructor; auto. Qed.

Lemma Forall2_swap {A B} (R : A -> B -> Prop) l1 l2 :
  Forall2 R l1 l2 -> Forall2 (fun y x => R x y) l2 l1.
Proof. intros F. induction F; constructor; auto. Qed.

Lemma lookup_In_nodup {A} (K : list (string * A)) n x :
  NoDup (keys K) -> In (n, x) K -> lookup n K = Some x.
Proof.
  induction K as [|[k y] K IH]; cbn [keys map fst In lookup]; intros Hnd Hin; [contradiction|].
  inversion Hnd as [|? ? Hnot Hnd']; subst.
  destruct Hin as [E|Hin].
  - assert (k = n /\ y = x) as [-> ->] by (split; congruence). rewrite String.eqb_refl. reflexivity.
  - destruct (String.eqb n k) eqn:E.
    + apply String.eqb_eq in E. subst. exfalso. apply Hnot. change (In (fst (k, x)) (map fst K)). apply in_map. exact Hin.
    + apply IH; assumption.
Qed.

Definition opt_list {A} (o : option (list A)) : list A := match o with Some l => l | None => [] end.

(** ** The version-1 projection of a version-2 normal form *)

(** name -> (version-1 type, version-2 type) for the components both versions know *)
Fixpoint zipm (ms1 ms2 : list (member_of ty)) : list (string * (ty * ty)) :=
  match ms1, ms2 with
  | m1 :: r1, m2 :: r2 => (m_name m2, (m_ty m1, m_ty m2)) :: zipm r1 r2
  | _, _ => []
  end.
Fixpoint zipa (a1 a2 : list (addition_of ty)) : list (string * (ty * ty)) :=
  match a1, a2 with
  | x1 :: r1, x2 :: r2 => zipm (snd x1) (snd x2) ++ zipa r1 r2
  | _, _ => []
  end.
Definition known (r1 r2 : list (member_of ty)) (x1 x2 : option (list (addition_of ty)))
  : list (string * (ty * ty)) :=
  zipm r1 r2 ++ zipa (opt_list x1) (opt_list x2).

(** keep the fields version 1 knows (projected), drop the others *)
Definition proj_fields (P : ty -> ty -> value -> value) (K : list (string * (ty * ty)))
           (fields : list (string * value)) : list (string * value) :=
  flat_map (fun nw => match lookup (fst nw) K with
                      | Some pr => [(fst nw, P (fst pr) (snd pr) (snd nw))]
                      | None => []
                      end) fields.

(** an ENUMERATED datum as version 1 (additions [a1]) reports it when version 2
    (additions [a2]) encoded it: an item beyond [a1] is None *)
Definition proj_enum (numeric : bool) (root : list (string * Z)) (a1 a2 : list (string * Z)) (d : value) : value :=
  match index_of_last numeric d (sort_by_value root) 0 with
  | Some _ => d
  | None =>
    match index_of_last numeric d a2 0 with
    | Some j => if j <? Z.of_nat (length a1) then d else VNone
    | None => d
    end
  end.

Lemma proj_fields_app P K a b : proj_fields P K (a ++ b) = proj_fields P K a ++ proj_fields P K b.
Proof. unfold proj_fields. apply flat_map_app. Qed.

Lemma proj_fields_drop P K tl :
  (forall n, In n (keys tl) -> lookup n K = None) -> proj_fields P K tl = [].
Proof.
  induction tl as [|[n w] tl IH]; intros H; [reflexivity|].
  unfold proj_fields in *. cbn [flat_map fst snd].
  rewrite (H n) by (cbn; auto). cbn [app]. apply IH. intros n' Hn'. apply H. cbn. auto.
Qed.

(** projecting the normalised fields = the two-sided field list of UperCompat2 *)
Section ProjFields.
  Variable encT : ty -> value -> result bits.
  Variable normT : ty -> value -> value.
  Variable res : ty -> ty.
  Variable P : ty -> ty -> value -> value.
  Variable K : list (string * (ty * ty)).

  (** [nm te td v]: encoder-side type first *)
  Definition nm_fwd (te td : ty) (v : value) : value := P td te (normT te v).

  (** the pair (version-2 member, version-1 member) is registered in [K], and
      a DEFAULT value is its own projection *)
  Definition pair_ok (m2 m1 : member_of ty) : Prop :=
    lookup (m_name m2) K = Some (m_ty m1, m_ty m2) /\
    (forall d, m_opt m2 = Default d -> P (m_ty m1) (m_ty m2) d = d).

  Lemma pf_cons n w tl t1 t2 :
    lookup n K = Some (t1, t2) ->
    proj_fields P K ((n, w) :: tl) = (n, P t1 t2 w) :: proj_fields P K tl.
  Proof. intros H. unfold proj_fields. cbn [flat_map fst snd]. rewrite H. reflexivity. Qed.

  Lemma pf_members ms2 ms1 data :
    Forall2 pair_ok ms2 ms1 ->
    proj_fields P K (norm_members normT res ms2 data) = nmembers res nm_fwd ms2 ms1 data.
  Proof.
    intros F. induction F as [|m2 m1 r2 r1 [Hk Hd] F IH]; [reflexivity|].
    cbn [norm_members nmembers].
    destruct (lookup (m_name m2) data) as [v|]; destruct (m_opt m2) as [| |d] eqn:Eo;
      try destruct (is_default_value (res (m_ty m2)) v d);
      rewrite ?(pf_cons _ _ _ _ _ Hk), ?IH; try reflexivity;
      rewrite (Hd d eq_refl); reflexivity.
  Qed.

  Lemma pf_adds c2 a1 data :
    Forall2 (fun x2 x1 => Forall2 pair_ok (snd x2) (snd x1)) c2 a1 ->
    proj_fields P K (norm_adds encT normT res c2 data) = nadds encT res nm_fwd c2 a1 data.
  Proof.
    intros F. induction F as [|[g2 ms2] [g1 ms1] r2 r1 Hm F IH]; [reflexivity|].
    cbn [snd] in Hm. cbn [norm_adds nadds]. destruct g2.
    - destruct (group_missing_first encT res ms2 data); [reflexivity|].
      destruct (enc_group encT res ms2 data) as [bs|]; [|reflexivity].
      rewrite proj_fields_app, IH. f_equal.
      destruct (0 <? length bs)%nat; [|reflexivity]. apply pf_members. exact Hm.
    - destruct Hm as [|m2 m1 l2 l1 [Hk Hd] Hm']; [reflexivity|].
      destruct Hm' as [|m2' m1' l2' l1' _ _]; [|reflexivity].
      assert (Hc : forall found : option value,
        proj_fields P K
          (match enc_member encT res m2 data true with
           | Ok _ => (match found with Some v => [(m_name m2, normT (m_ty m2) v)] | None => [] end)
                     ++ norm_adds encT normT res r2 data
           | Err _ => []
           end)
        = match enc_member encT res m2 data true with
          | Ok _ => (match found with Some v => [(m_name m2, nm_fwd (m_ty m2) (m_ty m1) v)] | None => [] end)
                    ++ nadds encT res nm_fwd r2 r1 data
          | Err _ => []
          end).
      { intros found. destruct (enc_member encT res m2 data true); [|reflexivity].
        rewrite proj_fields_app, IH. f_equal. destruct found as [v|]; [|reflexivity].
        rewrite (pf_cons _ _ _ _ _ Hk). reflexivity. }
      destruct (lookup (m_name m2) data) as [v|]; destruct (m_opt m2); try reflexivity;
        first [exact (Hc (Some v)) | exact (Hc None)].
  Qed.
End ProjFields.

Lemma norm_adds_app encT normT res c new data :
  exists tl, norm_adds encT normT res (c ++ new) data = norm_adds encT normT res c data ++ tl /\
             (forall n, In n (keys tl) -> In n (add_names new)).
Proof.
  induction c as [|[g ms] c (tl & IH & Hk)]; cbn [app].
  - exists (norm_adds encT normT res new data). split; [reflexivity|]. intros n. apply keys_norm_adds.
  - assert (Hstop : exists tl0, @nil (string * value) = [] ++ tl0 /\ (forall n, In n (keys tl0) -> In n (add_names new)))
      by (exists []; split; [reflexivity|intros n []]).
    cbn [norm_adds]. destruct g.
    + destruct (group_missing_first encT res ms data); [exact Hstop|].
      destruct (enc_group encT res ms data) as [bs|]; [|exact Hstop].
      exists tl. rewrite IH, app_assoc. split; [reflexivity|exact Hk].
    + destruct ms as [|m [|m' ms']]; try exact Hstop.
      assert (Hc : forall found : option value, exists tl0,
        match enc_member encT res m data true with
        | Ok _ => (match found with Some v => [(m_name m, normT (m_ty m) v)] | None => [] end)
                  ++ norm_adds encT normT res (c ++ new) data
        | Err _ => []
        end
        = match enc_member encT res m data true with
          | Ok _ => (match found with Some v => [(m_name m, normT (m_ty m) v)] | None => [] end)
                    ++ norm_adds encT normT res c data
          | Err _ => []
          end ++ tl0 /\ (forall n, In n (keys tl0) -> In n (add_names new))).
      { intros found. destruct (enc_member encT res m data true); [|exact Hstop].
        exists tl. rewrite IH, app_assoc. split; [reflexivity|exact Hk]. }
      destruct (lookup (m_name m) data) as [v|]; destruct (m_opt m); try exact Hstop;
        first [exact (Hc (Some v)) | exact (Hc None)].
Qed.

(** keys of the registry *)
Lemma keys_zipm ms1 ms2 : length ms1 = length ms2 -> keys (zipm ms1 ms2) = map m_name ms2.
Proof.
  revert ms2. induction ms1 as [|m1 r1 IH]; intros [|m2 r2] H; cbn [length] in H; try discriminate; [reflexivity|].
  cbn [zipm keys map fst]. f_equal. apply IH. lia.
Qed.

Lemma keys_zipa (R : addition_of ty -> addition_of ty -> Prop) a1 c2 :
  (forall x1 x2, R x1 x2 -> length (snd x1) = length (snd x2)) ->
  Forall2 R a1 c2 -> forall new, keys (zipa a1 (c2 ++ new)) = add_names c2.
Proof.
  intros HR F new. induction F as [|x1 x2 r1 r2 Hx F IH]; cbn [app zipa add_names flat_map].
  - destruct new; reflexivity.
  - unfold keys in *. rewrite map_app. fold (keys (zipm (snd x1) (snd x2))).
    rewrite (keys_zipm _ _ (HR _ _ Hx)). f_equal. exact IH.
Qed.

Lemma zipm_In (Q : member_of ty -> member_of ty -> Prop) ms1 ms2 :
  Forall2 Q ms1 ms2 ->
  forall K, incl (zipm ms1 ms2) K ->
  Forall2 (fun m2 m1 => In (m_name m2, (m_ty m1, m_ty m2)) K /\ Q m1 m2) ms2 ms1.
Proof.
  intros F. induction F as [|m1 m2 r1 r2 Hq F IH]; intros K Hi; constructor.
  - split; [|exact Hq]. apply Hi. cbn [zipm]. left. reflexivity.
  - apply IH. intros x Hx. apply Hi. cbn [zipm]. right. exact Hx.
Qed.

Lemma zipa_In (Q : member_of ty -> member_of ty -> Prop) a1 c2 new :
  Forall2 (fun x1 x2 => Forall2 Q (snd x1) (snd x2)) a1 c2 ->
  forall K, incl (zipa a1 (c2 ++ new)) K ->
  Forall2 (fun x2 x1 => Forall2 (fun m2 m1 => In (m_name m2, (m_ty m1, m_ty m2)) K /\ Q m1 m2) (snd x2) (snd x1)) c2 a1.
Proof.
  intros F. induction F as [|x1 x2 r1 r2 Hq F IH]; intros K Hi; constructor.
  - apply (zipm_In Q _ _ Hq). intros y Hy. apply Hi. cbn [app zipa]. apply in_or_app. left. exact Hy.
  - apply IH. intros y Hy. apply Hi. cbn [app zipa]. apply in_or_app. right. exact Hy.
Qed.

Lemma find_alt2_app_l name (ae ad new : list (member_of ty)) :
  length ae = length ad -> find_alt2 name (ae ++ new) ad = find_alt2 name ae ad.
Proof.
  revert ad. induction ae as [|me re IH]; intros [|md rd] H; cbn [length] in H; try discriminate.
  - cbn [app find_alt2]. destruct new; reflexivity.
  - cbn [app find_alt2]. destruct (String.eqb (m_name me) name); [reflexivity|]. apply IH. lia.
Qed.

(** ** ENUMERATED with further items after the marker *)

Lemma read_enum_fwd numeric root a1 new d bs rest :
  enc_enum numeric root (Some (a1 ++ new)) d = Ok bs ->
  read_enum numeric root (Some a1) (bs ++ rest) = Ok (proj_enum numeric root a1 (a1 ++ new) d, rest).
Proof.
  unfold enc_enum, read_enum, proj_enum.
  destruct (index_of_last numeric d (sort_by_value root) 0) as [i|] eqn:Er.
  - intros H. assert (bs = false :: to_bits (enum_root_bits root) i) by congruence. subst bs.
    cbn [app]. unfold rbind at 1. cbn [read_bit negb]. apply read_enum_root_rt. exact Er.
  - destruct (index_of_last numeric d (a1 ++ new) 0) as [j|] eqn:Ea; [|discriminate].
    destruct (enc_small_nonneg j) as [r|] eqn:Es; [|discriminate]. cbn [bind]. intros H.
    assert (bs = true :: r) by congruence. subst bs. cbn [app]. unfold rbind at 1. cbn [read_bit negb].
    destruct (index_of_last_spec _ _ _ _ _ Ea) as (Hr & it & Hn & Hd). replace (j - 0) with j in Hn by lia.
    unfold rbind. rewrite (read_small_nonneg_rt j r rest) by (auto; lia).
    destruct (j <? Z.of_nat (length a1)) eqn:Ej.
    + rewrite nth_error_app1 in Hn by lia.
      rewrite (nth_z_of_index _ j it) by (auto; lia). rewrite Hd. reflexivity.
    + assert (Hnone : nth_z a1 j = None).
      { unfold nth_z. destruct ((j <? 0) || (Z.of_nat (length a1) <=? j)) eqn:E; [reflexivity|lia]. }
      rewrite Hnone. reflexivity.
Qed.

Lemma read_enum_bwd numeric root a1 new d bs rest :
  enc_enum numeric root (Some a1) d = Ok bs ->
  read_enum numeric root (Some (a1 ++ new)) (bs ++ rest) = Ok (d, rest).
Proof.
  unfold enc_enum, read_enum.
  destruct (index_of_last numeric d (sort_by_value root) 0) as [i|] eqn:Er.
  - intros H. assert (bs = false :: to_bits (enum_root_bits root) i) by congruence. subst bs.
    cbn [app]. unfold rbind at 1. cbn [read_bit negb]. apply read_enum_root_rt. exact Er.
  - destruct (index_of_last numeric d a1 0) as [j|] eqn:Ea; [|discriminate].
    destruct (enc_small_nonneg j) as [r|] eqn:Es; [|discriminate]. cbn [bind]. intros H.
    assert (bs = true :: r) by congruence. subst bs. cbn [app]. unfold rbind at 1. cbn [read_bit negb].
    destruct (index_of_last_spec _ _ _ _ _ Ea) as (Hr & it & Hn & Hd). replace (j - 0) with j in Hn by lia.
    unfold rbind. rewrite (read_small_nonneg_rt j r rest) by (auto; lia).
    rewrite (nth_z_of_index _ j it); [rewrite Hd; reflexivity|rewrite app_length; lia|].
    rewrite nth_error_app1 by lia. exact Hn.
Qed.

(** ** The relation and the projection *)
Section Extends.
  Variable numeric : bool.
  Variables e1 e2 : env.    (* the environments of version 1 and of version 2 *)

  (** [proj f t1 t2 w]: the version-1 view of a version-2 normal form [w] of
      type [t2], where [t1] is the version-1 type. *)
  Fixpoint proj (f : nat) (t1 t2 : ty) (w : value) {struct f} : value :=
    match f with
    | O => w
    | S f' =>
      match t1, t2 with
      | TSeq _ r1 x1, TSeq _ r2 x2 =>
        match w with
        | VSeq fields => VSeq (proj_fields (proj f') (known r1 r2 x1 x2) fields)
        | _ => w
        end
      | TSeqOf _ el1 _, TSeqOf _ el2 _ =>
        match w with VList ws => VList (map (proj f' el1 el2) ws) | _ => w end
      | TChoice r1 x1, TChoice r2 x2 =>
        match w with
        | VChoice name x =>
          match find_alt2 name r2 r1 with
          | Some (m2, m1) => VChoice name (proj f' (m_ty m1) (m_ty m2) x)
          | None =>
            match find_alt2 name (opt_list x2) (opt_list x1) with
            | Some (m2, m1) => VChoice name (proj f' (m_ty m1) (m_ty m2) x)
            | None => VUnknownChoice
            end
          end
        | _ => w
        end
      | TEnum r1 x1, TEnum _ x2 =>
        match x1, x2 with
        | Some a1, Some a2 => proj_enum numeric r1 a1 a2 w
        | _, _ => w
        end
      | TRef n1, TRef n2 =>
        match lookup n1 e1, lookup n2 e2 with
        | Some a, Some b => proj f' a b w
        | _, _ => w
        end
      | TTag _ a, TTag _ b => proj f' a b w
      | _, _ => w
      end
    end.

  (** components: same name, same optionality (including the DEFAULT value),
      related types; in the strict variant a DEFAULT value is its own
      projection (the version-1 decoder returns the DEFAULT value as it is
      written in the type). *)
  Definition mrel (strict : bool) (R : ty -> ty -> Prop) (P : ty -> ty -> value -> value)
             (m1 m2 : member_of ty) : Prop :=
    m_name m1 = m_name m2 /\ m_opt m1 = m_opt m2 /\ R (m_ty m1) (m_ty m2) /\
    (strict = true -> forall d, m_opt m2 = Default d -> P (m_ty m1) (m_ty m2) d = d).
  Definition arel (strict : bool) (R : ty -> ty -> Prop) (P : ty -> ty -> value -> value)
             (x1 x2 : addition_of ty) : Prop :=
    fst x1 = fst x2 /\ Forall2 (mrel strict R P) (snd x1) (snd x2).

  (** [ext_gen strict f t1 t2]: [t2] is [t1] with extension additions appended
      at any number of nodes (down to depth [f]).
      - leaves (BOOLEAN, NULL, INTEGER, BIT STRING, OCTET STRING, character
        strings, OBJECT IDENTIFIER): identical;
      - SEQUENCE/SET: root components pairwise related; the additions of [t2]
        are those of [t1] pairwise related, followed by new ones; no marker in
        [t1] means none in [t2];
      - CHOICE: likewise for root alternatives and additional alternatives;
      - ENUMERATED: same root, additional items appended;
      - SEQUENCE OF/SET OF: same SIZE, related elements;
      - references: same name, the two environments' definitions related;
      - tags: transparent (UPER does not encode them).
      [strict] adds what only the projection statement needs: component names
      of a version-2 SEQUENCE/SET are unique, DEFAULT values are their own
      projections. *)
  Fixpoint ext_gen (strict : bool) (f : nat) (t1 t2 : ty) {struct f} : Prop :=
    match f with
    | O => True
    | S f' =>
      match t1, t2 with
      | TSeq s1 r1 x1, TSeq s2 r2 x2 =>
        s1 = s2 /\
        Forall2 (mrel strict (ext_gen strict f') (proj f')) r1 r2 /\
        (strict = true -> NoDup (map m_name r2 ++ add_names (opt_list x2))) /\
        match x1, x2 with
        | None, None => True
        | Some a1, Some a2 =>
          exists c2 new, a2 = c2 ++ new /\ Forall2 (arel strict (ext_gen strict f') (proj f')) a1 c2
        | _, _ => False
        end
      | TSeqOf s1 el1 sz1, TSeqOf s2 el2 sz2 => s1 = s2 /\ sz1 = sz2 /\ ext_gen strict f' el1 el2
      | TChoice r1 x1, TChoice r2 x2 =>
        Forall2 (mrel false (ext_gen strict f') (proj f')) r1 r2 /\
        match x1, x2 with
        | None, None => True
        | Some a1, Some a2 =>
          exists c2 new, a2 = c2 ++ new /\ Forall2 (mrel false (ext_gen strict f') (proj f')) a1 c2
        | _, _ => False
        end
      | TEnum r1 x1, TEnum r2 x2 =>
        r1 = r2 /\
        match x1, x2 with
        | None, None => True
        | Some a1, Some a2 => exists new, a2 = a1 ++ new
        | _, _ => False
        end
      | TRef n1, TRef n2 =>
        n1 = n2 /\
        match lookup n1 e1, lookup n2 e2 with
        | Some a, Some b => ext_gen strict f' a b
        | _, _ => False
        end
      | TTag _ a, TTag _ b => ext_gen strict f' a b
      | _, _ => t1 = t2
      end
    end.

  Definition extends := ext_gen false.
  Definition extends_strict := ext_gen true.
End Extends.

(** ** Forward: version 2 encodes, version 1 decodes *)
Section Forward.
  Variable numeric : bool.
  Variables e1 e2 : env.
  Variable f : nat.
  Hypothesis IHf : forall t1 t2 v bs,
    ext_gen numeric e1 e2 true f t1 t2 -> enc numeric e2 f t2 v = Ok bs ->
    forall rest, dec numeric e1 f t1 (bs ++ rest)
                 = Ok (proj numeric e1 e2 f t1 t2 (norm numeric e2 f t2 v), rest).

  Let Rf (te td : ty) : Prop := ext_gen numeric e1 e2 true f td te.
  Let nmf := nm_fwd (norm numeric e2 f) (proj numeric e1 e2 f).
  Let Q := mrel true (ext_gen numeric e1 e2 true f) (proj numeric e1 e2 f).
  Let Qc := mrel false (ext_gen numeric e1 e2 true f) (proj numeric e1 e2 f).

  Lemma HTf : forall te td v bs, Rf te td -> enc numeric e2 f te v = Ok bs ->
    forall rest, dec numeric e1 f td (bs ++ rest) = Ok (nmf te td v, rest).
  Proof. intros te td v bs HR H rest. apply IHf; assumption. Qed.

  Lemma mrel_member_rel strict m1 m2 :
    mrel strict (ext_gen numeric e1 e2 true f) (proj numeric e1 e2 f) m1 m2 -> member_rel Rf m2 m1.
  Proof. intros (Hn & Ho & Ht & _). repeat split; [symmetry; exact Hn|symmetry; exact Ho|exact Ht]. Qed.

  Lemma mrel_flip strict r1 r2 :
    Forall2 (mrel strict (ext_gen numeric e1 e2 true f) (proj numeric e1 e2 f)) r1 r2 ->
    Forall2 (member_rel Rf) r2 r1.
  Proof. intros F. apply Forall2_swap in F. eapply Forall2_imp; [|exact F]. intros x y. apply mrel_member_rel. Qed.

  Lemma arel_flip a1 c2 :
    Forall2 (arel true (ext_gen numeric e1 e2 true f) (proj numeric e1 e2 f)) a1 c2 ->
    Forall2 (addition_rel Rf) c2 a1.
  Proof.
    intros F. apply Forall2_swap in F. eapply Forall2_imp; [|exact F]. intros x y [Hg Hm].
    split; [symmetry; exact Hg|]. eapply mrel_flip. exact Hm.
  Qed.

  Lemma Q_pair_ok K m2 m1 :
    NoDup (keys K) -> In (m_name m2, (m_ty m1, m_ty m2)) K /\ Q m1 m2 ->
    pair_ok (proj numeric e1 e2 f) K m2 m1.
  Proof.
    intros Hnd [Hin (_ & _ & _ & Hd)]. split; [apply lookup_In_nodup; assumption|].
    intros d. apply Hd. reflexivity.
  Qed.

  Lemma seq_fwd r1 r2 a1 c2 new data bs rest :
    Forall2 Q r1 r2 ->
    NoDup (map m_name r2 ++ add_names (c2 ++ new)) ->
    Forall2 (arel true (ext_gen numeric e1 e2 true f) (proj numeric e1 e2 f)) a1 c2 ->
    enc_seq (enc numeric e2 f) (resolve e2 f) r2 (Some (c2 ++ new)) (VSeq data) = Ok bs ->
    dec_seq (dec numeric e1 f) r1 (Some a1) (bs ++ rest)
    = Ok (VSeq (proj_fields (proj numeric e1 e2 f) (known r1 r2 (Some a1) (Some (c2 ++ new)))
                  (norm_members (norm numeric e2 f) (resolve e2 f) r2 data ++
                   norm_adds (enc numeric e2 f) (norm numeric e2 f) (resolve e2 f) (c2 ++ new) data)), rest).
  Proof.
    intros Hr Hnd Ha H.
    pose proof (dec_seq_compat2 (enc numeric e2 f) (dec numeric e1 f) (resolve e2 f) Rf nmf HTf
                  r2 r1 c2 a1 new [] data bs rest (mrel_flip _ _ _ Hr) (arel_flip _ _ Ha) (or_intror eq_refl) H) as Hd.
    rewrite app_nil_r in Hd. rewrite Hd. f_equal. f_equal.
    set (K := known r1 r2 (Some a1) (Some (c2 ++ new))).
    (* the registry has exactly the names of the root and of the common additions *)
    assert (Hlen_r : length r1 = length r2) by (apply (Forall2_len2 Hr)).
    assert (Ha' : Forall2 (fun x1 x2 => Forall2 Q (snd x1) (snd x2)) a1 c2)
      by (eapply Forall2_imp; [|exact Ha]; intros x y [_ Hm]; exact Hm).
    assert (HkK : keys K = map m_name r2 ++ add_names c2).
    { unfold K, known, keys. rewrite map_app. fold (keys (zipm r1 r2)). rewrite (keys_zipm _ _ Hlen_r). f_equal.
      cbn [opt_list]. apply (keys_zipa (fun x1 x2 => Forall2 Q (snd x1) (snd x2))); [|exact Ha'].
      intros x1 x2 Hx. apply (Forall2_len2 Hx). }
    unfold add_names in Hnd. rewrite flat_map_app in Hnd. fold (add_names c2) in Hnd. fold (add_names new) in Hnd.
    rewrite app_assoc in Hnd.
    assert (HndK : NoDup (keys K)) by (rewrite HkK; exact (NoDup_app_l _ _ Hnd)).
    destruct (norm_adds_app (enc numeric e2 f) (norm numeric e2 f) (resolve e2 f) c2 new data) as (tl & Etl & Htl).
    rewrite Etl, !proj_fields_app.
    rewrite (pf_members (norm numeric e2 f) (resolve e2 f) (proj numeric e1 e2 f) K r2 r1 data).
    2:{ eapply Forall2_imp; [intros x y; apply (Q_pair_ok K x y HndK)|].
        apply (zipm_In Q _ _ Hr). unfold K, known. apply incl_appl. apply incl_refl. }
    rewrite (pf_adds (enc numeric e2 f) (norm numeric e2 f) (resolve e2 f) (proj numeric e1 e2 f) K c2 a1 data).
    2:{ eapply Forall2_imp; [intros x y Hxy; eapply Forall2_imp; [intros x' y'; apply (Q_pair_ok K x' y' HndK)|exact Hxy]|].
        apply (zipa_In Q _ _ new Ha'). unfold K, known. cbn [opt_list]. apply incl_appr. apply incl_refl. }
    rewrite proj_fields_drop; [rewrite app_nil_r; reflexivity|].
    intros n Hn. apply lookup_notin. rewrite HkK. intros Hin.
    exact (NoDup_app_disj _ _ _ Hnd Hin (Htl _ Hn)).
  Qed.

  Lemma seq_fwd_noext r1 r2 data bs rest :
    Forall2 Q r1 r2 ->
    NoDup (map m_name r2 ++ []) ->
    enc_seq (enc numeric e2 f) (resolve e2 f) r2 None (VSeq data) = Ok bs ->
    dec_seq (dec numeric e1 f) r1 None (bs ++ rest)
    = Ok (VSeq (proj_fields (proj numeric e1 e2 f) (known r1 r2 None None)
                  (norm_members (norm numeric e2 f) (resolve e2 f) r2 data ++ [])), rest).
  Proof.
    intros Hr Hnd H.
    rewrite (dec_seq_noext2 (enc numeric e2 f) (dec numeric e1 f) (resolve e2 f) Rf nmf HTf
               r2 r1 data bs rest (mrel_flip _ _ _ Hr) H). f_equal. f_equal.
    set (K := known r1 r2 None None). rewrite app_nil_r in *.
    assert (HkK : keys K = map m_name r2).
    { unfold K, known. cbn [opt_list zipa]. rewrite app_nil_r. apply keys_zipm. apply (Forall2_len2 Hr). }
    assert (HndK : NoDup (keys K)) by (rewrite HkK; exact Hnd).
    rewrite (pf_members (norm numeric e2 f) (resolve e2 f) (proj numeric e1 e2 f) K r2 r1 data); [reflexivity|].
    eapply Forall2_imp; [intros x y; apply (Q_pair_ok K x y HndK)|].
    apply (zipm_In Q _ _ Hr). unfold K, known. apply incl_appl. apply incl_refl.
  Qed.

  (** CHOICE: the two-sided result is the projection of the version-2 normal form *)
  Lemma choice_fwd_eq r1 r2 a1 c2 new name x bs :
    Forall2 Qc r1 r2 -> Forall2 Qc a1 c2 ->
    enc_choice (enc numeric e2 f) r2 (Some (c2 ++ new)) (VChoice name x) = Ok bs ->
    nchoice nmf r2 r1 c2 a1 name x
    = proj numeric e1 e2 (S f) (TChoice r1 (Some a1)) (TChoice r2 (Some (c2 ++ new)))
           (norm numeric e2 (S f) (TChoice r2 (Some (c2 ++ new))) (VChoice name x)).
  Proof.
    intros Hr Ha H. cbn [norm proj opt_list]. unfold nchoice.
    pose proof (mrel_flip _ _ _ Hr) as Hr'. pose proof (mrel_flip _ _ _ Ha) as Ha'.
    pose proof (find_alt2_app_l name c2 a1 new (Forall2_len2 Ha')) as Happ.
    destruct (find_alt name r2 0) as [[i me]|] eqn:Ef; cbv beta iota.
    - destruct (find_alt2_some Rf name r2 r1 Hr' 0 i me Ef) as (md & E2 & _ & _). rewrite E2. reflexivity.
    - rewrite (find_alt2_none Rf name r2 r1 Hr' 0 Ef).
      rewrite find_alt_app. destruct (find_alt name c2 0) as [[i me]|] eqn:Ec; cbv beta iota.
      + destruct (find_alt2_some Rf name c2 a1 Ha' 0 i me Ec) as (md & E2 & _ & _).
        rewrite (find_alt2_none Rf name r2 r1 Hr' 0 Ef), Happ, E2. reflexivity.
      + rewrite (find_alt2_none Rf name c2 a1 Ha' 0 Ec).
        destruct (find_alt name new (0 + Z.of_nat (length c2))) as [[i me]|]; cbv beta iota;
          rewrite (find_alt2_none Rf name r2 r1 Hr' 0 Ef), Happ, (find_alt2_none Rf name c2 a1 Ha' 0 Ec); reflexivity.
  Qed.

  Lemma choice_fwd_eq_noext r1 r2 name x bs :
    Forall2 Qc r1 r2 ->
    enc_choice (enc numeric e2 f) r2 None (VChoice name x) = Ok bs ->
    nchoice nmf r2 r1 [] [] name x
    = proj numeric e1 e2 (S f) (TChoice r1 None) (TChoice r2 None)
           (norm numeric e2 (S f) (TChoice r2 None) (VChoice name x)).
  Proof.
    intros Hr H. cbn [norm proj opt_list]. unfold nchoice.
    pose proof (mrel_flip _ _ _ Hr) as Hr'.
    destruct (find_alt name r2 0) as [[i me]|] eqn:Ef; cbv beta iota.
    - destruct (find_alt2_some Rf name r2 r1 Hr' 0 i me Ef) as (md & E2 & _ & _). rewrite E2. reflexivity.
    - unfold enc_choice, enc_choice_root in H. rewrite Ef in H. discriminate.
  Qed.
End Forward.

Section ForwardMain.
  Variable numeric : bool.
  Variables e1 e2 : env.

  (** C07 forward, any depth: a version-2 encoding decoded by version 1 yields
      the version-1 projection of the value version 2 would decode, and the
      rest of the input is untouched. *)
  Theorem uper_forward : forall f t1 t2 v bs,
    extends_strict numeric e1 e2 f t1 t2 ->
    enc numeric e2 f t2 v = Ok bs ->
    forall rest, dec numeric e1 f t1 (bs ++ rest)
                 = Ok (proj numeric e1 e2 f t1 t2 (norm numeric e2 f t2 v), rest).
  Proof.
    unfold extends_strict. induction f as [|f IH]; intros t1 t2 v bs Hx; [discriminate|].
    pose (Rf := fun te td : ty => ext_gen numeric e1 e2 true f td te).
    pose (nmf := nm_fwd (norm numeric e2 f) (proj numeric e1 e2 f)).
    pose proof (HTf numeric e1 e2 f IH) as HT.
    destruct t1; destruct t2; cbn [ext_gen] in Hx; try discriminate Hx.
    - (* BOOLEAN *) intros H rest. exact (enc_dec_rt numeric e2 (S f) _ v bs H rest).
    - (* NULL *) intros H rest. exact (enc_dec_rt numeric e2 (S f) _ v bs H rest).
    - (* INTEGER *) inversion Hx; subst. intros H rest. exact (enc_dec_rt numeric e2 (S f) _ v bs H rest).
    - (* ENUMERATED *)
      destruct Hx as [-> Hx]. destruct ext as [a1|], ext0 as [a2|]; try contradiction.
      + destruct Hx as [new ->]. cbn [enc dec norm proj]. intros H rest. apply read_enum_fwd. exact H.
      + intros H rest. exact (enc_dec_rt numeric e2 (S f) _ v bs H rest).
    - (* BIT STRING *) inversion Hx; subst. intros H rest. exact (enc_dec_rt numeric e2 (S f) _ v bs H rest).
    - (* OCTET STRING *) inversion Hx; subst. intros H rest. exact (enc_dec_rt numeric e2 (S f) _ v bs H rest).
    - (* character strings *) inversion Hx; subst. intros H rest. exact (enc_dec_rt numeric e2 (S f) _ v bs H rest).
    - (* OBJECT IDENTIFIER *) intros H rest. exact (enc_dec_rt numeric e2 (S f) _ v bs H rest).
    - (* SEQUENCE / SET *)
      destruct Hx as (-> & Hr & Hnd & Hx). specialize (Hnd eq_refl).
      destruct ext as [a1|], ext0 as [a2|]; try contradiction.
      + destruct Hx as (c2 & new & -> & Ha). cbn [enc dec]. destruct v; try discriminate. intros H rest.
        cbn [norm proj]. unfold norm_seq. cbn [opt_list] in Hnd.
        apply (seq_fwd numeric e1 e2 f IH); assumption.
      + cbn [enc dec]. destruct v; try discriminate. intros H rest.
        cbn [norm proj]. unfold norm_seq. cbn [opt_list add_names flat_map] in Hnd.
        apply (seq_fwd_noext numeric e1 e2 f IH); assumption.
    - (* SEQUENCE OF / SET OF *)
      destruct Hx as (-> & -> & Hx). cbn [enc dec]. destruct v; try discriminate. intros H rest.
      cbn [norm proj]. rewrite map_map.
      exact (dec_seqof_rt (fun _ => enc numeric e2 f t2) (fun _ => dec numeric e1 f t1)
               (fun _ w => proj numeric e1 e2 f t1 t2 (norm numeric e2 f t2 w)) (fun t => t)
               (fun _ v0 bs0 H0 rest0 => IH _ _ v0 bs0 Hx H0 rest0) t2 sz0 vs bs rest H).
    - (* CHOICE *)
      destruct Hx as (Hr & Hx). destruct ext as [a1|], ext0 as [a2|]; try contradiction.
      + destruct Hx as (c2 & new & -> & Ha). cbn [enc dec]. destruct v; try discriminate. intros H rest.
        rewrite <- (choice_fwd_eq numeric e1 e2 f root root0 a1 c2 new alt v bs Hr Ha H).
        pose proof (dec_choice_compat2 (enc numeric e2 f) (dec numeric e1 f) Rf nmf HT root0 root c2 a1 new []
                      alt v bs rest (mrel_flip numeric e1 e2 f _ _ _ Hr) (mrel_flip numeric e1 e2 f _ _ _ Ha)
                      (or_intror eq_refl) H) as Hd.
        rewrite app_nil_r in Hd. exact Hd.
      + cbn [enc dec]. destruct v; try discriminate. intros H rest.
        rewrite <- (choice_fwd_eq_noext numeric e1 e2 f root root0 alt v bs Hr H).
        exact (dec_choice_noext2 (enc numeric e2 f) (dec numeric e1 f) Rf nmf HT root0 root
                 alt v bs rest (mrel_flip numeric e1 e2 f _ _ _ Hr) H).
    - (* reference *)
      destruct Hx as [-> Hx]. cbn [enc dec norm proj].
      destruct (lookup name0 e1) as [a|]; [|contradiction].
      destruct (lookup name0 e2) as [b|]; [|contradiction]. apply IH. exact Hx.
    - (* tagged *)
      cbn [enc dec norm proj]. apply IH. exact Hx.
  Qed.
End ForwardMain.

Print Assumptions uper_forward.

(** ** Backward: version 1 encodes, version 2 decodes *)

Lemma nmembers_norm res (normT : ty -> value -> value) mse msd data :
  length mse = length msd ->
  nmembers res (fun te _ v => normT te v) mse msd data = norm_members normT res mse data.
Proof.
  revert msd. induction mse as [|me re IH]; intros [|md rd] H; cbn [length] in H; try discriminate; [reflexivity|].
  cbn [nmembers norm_members]. rewrite (IH rd) by lia. reflexivity.
Qed.

Lemma nadds_norm encT res (normT : ty -> value -> value) ce cd data :
  Forall2 (fun x1 x2 : addition_of ty => length (snd x1) = length (snd x2)) ce cd ->
  nadds encT res (fun te _ v => normT te v) ce cd data = norm_adds encT normT res ce data.
Proof.
  intros F. induction F as [|[g1 ms1] [g2 ms2] r1 r2 Hl F IH]; [reflexivity|].
  cbn [snd] in Hl. cbn [nadds norm_adds]. rewrite IH. destruct g1.
  - rewrite (nmembers_norm _ _ _ _ _ Hl). reflexivity.
  - destruct ms1 as [|m1 [|m1' l1]]; destruct ms2 as [|m2 [|m2' l2]]; cbn [length] in Hl; try discriminate; reflexivity.
Qed.

Section Backward.
  Variable numeric : bool.
  Variables e1 e2 : env.
  Variable f : nat.
  Hypothesis IHb : forall t1 t2 v bs,
    ext_gen numeric e1 e2 false f t1 t2 -> enc numeric e1 f t1 v = Ok bs ->
    forall rest, dec numeric e2 f t2 (bs ++ rest) = Ok (norm numeric e1 f t1 v, rest).

  Let Rb (te td : ty) : Prop := ext_gen numeric e1 e2 false f te td.
  Let nmb (te td : ty) (v : value) : value := norm numeric e1 f te v.

  Lemma HTb : forall te td v bs, Rb te td -> enc numeric e1 f te v = Ok bs ->
    forall rest, dec numeric e2 f td (bs ++ rest) = Ok (nmb te td v, rest).
  Proof. intros te td v bs HR H rest. apply IHb; assumption. Qed.

  Lemma mrel_b r1 r2 :
    Forall2 (mrel false (ext_gen numeric e1 e2 false f) (proj numeric e1 e2 f)) r1 r2 ->
    Forall2 (member_rel Rb) r1 r2.
  Proof. apply Forall2_imp. intros x y (Hn & Ho & Ht & _). repeat split; assumption. Qed.

  Lemma arel_b a1 c2 :
    Forall2 (arel false (ext_gen numeric e1 e2 false f) (proj numeric e1 e2 f)) a1 c2 ->
    Forall2 (addition_rel Rb) a1 c2.
  Proof. apply Forall2_imp. intros x y [Hg Hm]. split; [exact Hg|apply mrel_b; exact Hm]. Qed.

  Lemma seq_bwd r1 r2 a1 c2 new data bs rest :
    Forall2 (mrel false (ext_gen numeric e1 e2 false f) (proj numeric e1 e2 f)) r1 r2 ->
    Forall2 (arel false (ext_gen numeric e1 e2 false f) (proj numeric e1 e2 f)) a1 c2 ->
    enc_seq (enc numeric e1 f) (resolve e1 f) r1 (Some a1) (VSeq data) = Ok bs ->
    dec_seq (dec numeric e2 f) r2 (Some (c2 ++ new)) (bs ++ rest)
    = Ok (norm_seq (enc numeric e1 f) (norm numeric e1 f) (resolve e1 f) r1 (Some a1) data, rest).
  Proof.
    intros Hr Ha H. rewrite <- (app_nil_r a1) in H.
    rewrite (dec_seq_compat2 (enc numeric e1 f) (dec numeric e2 f) (resolve e1 f) Rb nmb HTb
               r1 r2 a1 c2 [] new data bs rest (mrel_b _ _ Hr) (arel_b _ _ Ha) (or_introl eq_refl) H).
    unfold norm_seq, nmb. rewrite (nmembers_norm _ _ _ _ _ (Forall2_len2 Hr)).
    rewrite nadds_norm; [reflexivity|].
    eapply Forall2_imp; [|exact Ha]. intros x y [_ Hm]. exact (Forall2_len2 Hm).
  Qed.

  Lemma seq_bwd_noext r1 r2 data bs rest :
    Forall2 (mrel false (ext_gen numeric e1 e2 false f) (proj numeric e1 e2 f)) r1 r2 ->
    enc_seq (enc numeric e1 f) (resolve e1 f) r1 None (VSeq data) = Ok bs ->
    dec_seq (dec numeric e2 f) r2 None (bs ++ rest)
    = Ok (norm_seq (enc numeric e1 f) (norm numeric e1 f) (resolve e1 f) r1 None data, rest).
  Proof.
    intros Hr H.
    rewrite (dec_seq_noext2 (enc numeric e1 f) (dec numeric e2 f) (resolve e1 f) Rb nmb HTb
               r1 r2 data bs rest (mrel_b _ _ Hr) H).
    unfold norm_seq, nmb. rewrite (nmembers_norm _ _ _ _ _ (Forall2_len2 Hr)), app_nil_r. reflexivity.
  Qed.

  Lemma choice_bwd_eq r1 r2 a1 c2 name x bs :
    Forall2 (member_rel Rb) r1 r2 -> Forall2 (member_rel Rb) a1 c2 ->
    enc_choice (enc numeric e1 f) r1 (Some a1) (VChoice name x) = Ok bs ->
    nchoice nmb r1 r2 a1 c2 name x = norm numeric e1 (S f) (TChoice r1 (Some a1)) (VChoice name x).
  Proof.
    intros Hr Ha H. cbn [norm]. unfold nchoice, nmb.
    destruct (find_alt name r1 0) as [[i me]|] eqn:Ef.
    - destruct (find_alt2_some Rb name r1 r2 Hr 0 i me Ef) as (md & E2 & _ & _). rewrite E2. reflexivity.
    - rewrite (find_alt2_none Rb name r1 r2 Hr 0 Ef).
      destruct (find_alt name a1 0) as [[i me]|] eqn:Ec.
      + destruct (find_alt2_some Rb name a1 c2 Ha 0 i me Ec) as (md & E2 & _ & _). rewrite E2. reflexivity.
      + unfold enc_choice in H. rewrite Ef, Ec in H. discriminate.
  Qed.

  Lemma choice_bwd_eq_noext r1 r2 name x bs :
    Forall2 (member_rel Rb) r1 r2 ->
    enc_choice (enc numeric e1 f) r1 None (VChoice name x) = Ok bs ->
    nchoice nmb r1 r2 [] [] name x = norm numeric e1 (S f) (TChoice r1 None) (VChoice name x).
  Proof.
    intros Hr H. cbn [norm]. unfold nchoice, nmb.
    destruct (find_alt name r1 0) as [[i me]|] eqn:Ef.
    - destruct (find_alt2_some Rb name r1 r2 Hr 0 i me Ef) as (md & E2 & _ & _). rewrite E2. reflexivity.
    - unfold enc_choice, enc_choice_root in H. rewrite Ef in H. discriminate.
  Qed.
End Backward.

Section BackwardMain.
  Variable numeric : bool.
  Variables e1 e2 : env.

  (** C07 backward, any depth: a version-1 encoding decoded by version 2 yields
      exactly the value the version-1 decoder returns ([norm] at version 1),
      and the rest of the input is untouched.  In particular an extension
      addition of version 2 with a DEFAULT value is ABSENT from the result (the
      library's decode_additions visits only additions whose presence bit is
      set and never fills in defaults of absent additions); DEFAULT components
      of the root are filled in, as in version 1. *)
  Theorem uper_backward : forall f t1 t2 v bs,
    extends numeric e1 e2 f t1 t2 ->
    enc numeric e1 f t1 v = Ok bs ->
    forall rest, dec numeric e2 f t2 (bs ++ rest) = Ok (norm numeric e1 f t1 v, rest).
  Proof.
    unfold extends. induction f as [|f IH]; intros t1 t2 v bs Hx; [discriminate|].
    pose (Rb := fun te td : ty => ext_gen numeric e1 e2 false f te td).
    pose (nmb := fun (te td : ty) (w : value) => norm numeric e1 f te w).
    pose proof (HTb numeric e1 e2 f IH) as HT.
    destruct t1; destruct t2; cbn [ext_gen] in Hx; try discriminate Hx.
    - intros H rest. exact (enc_dec_rt numeric e1 (S f) _ v bs H rest).
    - intros H rest. exact (enc_dec_rt numeric e1 (S f) _ v bs H rest).
    - inversion Hx; subst. intros H rest. exact (enc_dec_rt numeric e1 (S f) _ v bs H rest).
    - (* ENUMERATED *)
      destruct Hx as [-> Hx]. destruct ext as [a1|], ext0 as [a2|]; try contradiction.
      + destruct Hx as [new ->]. cbn [enc dec norm]. intros H rest. apply read_enum_bwd. exact H.
      + intros H rest. exact (enc_dec_rt numeric e1 (S f) _ v bs H rest).
    - inversion Hx; subst. intros H rest. exact (enc_dec_rt numeric e1 (S f) _ v bs H rest).
    - inversion Hx; subst. intros H rest. exact (enc_dec_rt numeric e1 (S f) _ v bs H rest).
    - inversion Hx; subst. intros H rest. exact (enc_dec_rt numeric e1 (S f) _ v bs H rest).
    - intros H rest. exact (enc_dec_rt numeric e1 (S f) _ v bs H rest).
    - (* SEQUENCE / SET *)
      destruct Hx as (-> & Hr & _ & Hx).
      destruct ext as [a1|], ext0 as [a2|]; try contradiction.
      + destruct Hx as (c2 & new & -> & Ha). cbn [enc dec]. destruct v; try discriminate. intros H rest.
        cbn [norm]. apply (seq_bwd numeric e1 e2 f IH); assumption.
      + cbn [enc dec]. destruct v; try discriminate. intros H rest.
        cbn [norm]. apply (seq_bwd_noext numeric e1 e2 f IH); assumption.
    - (* SEQUENCE OF / SET OF *)
      destruct Hx as (-> & -> & Hx). cbn [enc dec]. destruct v; try discriminate. intros H rest.
      cbn [norm].
      exact (dec_seqof_rt (fun _ => enc numeric e1 f t1) (fun _ => dec numeric e2 f t2)
               (fun _ w => norm numeric e1 f t1 w) (fun t => t)
               (fun _ v0 bs0 H0 rest0 => IH _ _ v0 bs0 Hx H0 rest0) t1 sz0 vs bs rest H).
    - (* CHOICE *)
      destruct Hx as (Hr & Hx). apply (mrel_b numeric e1 e2 f) in Hr.
      destruct ext as [a1|], ext0 as [a2|]; try contradiction.
      + destruct Hx as (c2 & new & -> & Ha). apply (mrel_b numeric e1 e2 f) in Ha.
        cbn [enc dec]. destruct v; try discriminate. intros H rest.
        rewrite <- (choice_bwd_eq numeric e1 e2 f root root0 a1 c2 alt v bs Hr Ha H).
        rewrite <- (app_nil_r a1) in H.
        exact (dec_choice_compat2 (enc numeric e1 f) (dec numeric e2 f) Rb nmb HT root root0 a1 c2 [] new
                 alt v bs rest Hr Ha (or_introl eq_refl) H).
      + cbn [enc dec]. destruct v; try discriminate. intros H rest.
        rewrite <- (choice_bwd_eq_noext numeric e1 e2 f root root0 alt v bs Hr H).
        exact (dec_choice_noext2 (enc numeric e1 f) (dec numeric e2 f) Rb nmb HT root root0 alt v bs rest Hr H).
    - (* reference *)
      destruct Hx as [-> Hx]. cbn [enc dec norm].
      destruct (lookup name0 e1) as [a|]; [|contradiction].
      destruct (lookup name0 e2) as [b|]; [|contradiction]. apply IH. exact Hx.
    - (* tagged *)
      cbn [enc dec norm]. apply IH. exact Hx.
  Qed.
End BackwardMain.

Print Assumptions uper_backward.

(** ** The strict relation implies the plain one *)
Lemma ext_gen_weaken numeric e1 e2 : forall f t1 t2,
  extends_strict numeric e1 e2 f t1 t2 -> extends numeric e1 e2 f t1 t2.
Proof.
  unfold extends_strict, extends. induction f as [|f IH]; intros t1 t2; [trivial|].
  assert (Hm : forall s m1 m2, mrel s (ext_gen numeric e1 e2 true f) (proj numeric e1 e2 f) m1 m2 ->
                               mrel false (ext_gen numeric e1 e2 false f) (proj numeric e1 e2 f) m1 m2).
  { intros s m1 m2 (Hn & Ho & Ht & _). repeat split; auto. discriminate. }
  destruct t1; destruct t2; cbn [ext_gen]; try (intros H; exact H).
  - intros (E & Hr & _ & Hx). split; [exact E|]. split; [eapply Forall2_imp; [apply Hm|exact Hr]|].
    split; [discriminate|].
    destruct ext as [a1|], ext0 as [a2|]; try exact Hx.
    destruct Hx as (c2 & new & E2 & Ha). exists c2, new. split; [exact E2|].
    eapply Forall2_imp; [|exact Ha]. intros x y [Hg Hms]. split; [exact Hg|].
    eapply Forall2_imp; [apply Hm|exact Hms].
  - intros (E1 & E2 & H). auto.
  - intros (Hr & Hx). split; [eapply Forall2_imp; [apply Hm|exact Hr]|].
    destruct ext as [a1|], ext0 as [a2|]; try exact Hx.
    destruct Hx as (c2 & new & E2 & Ha). exists c2, new. split; [exact E2|].
    eapply Forall2_imp; [apply Hm|exact Ha].
  - intros (E & H). split; [exact E|].
    destruct (lookup name e1); [|exact H]. destruct (lookup name0 e2); [|exact H]. apply IH. exact H.
  - apply IH.
Qed.

(** a DEFAULT value of a type without components is its own projection *)
Definition is_leaf (t : ty) : bool :=
  match t with
  | TSeq _ _ _ | TSeqOf _ _ _ | TChoice _ _ | TEnum _ _ | TRef _ | TTag _ _ => false
  | _ => true
  end.
Lemma proj_leaf numeric e1 e2 f t1 t2 w : is_leaf t1 = true -> proj numeric e1 e2 f t1 t2 w = w.
Proof. destruct f; [reflexivity|]. destruct t1; try discriminate; intros _; destruct t2; reflexivity. Qed.

(** ** Octet level: uper.CompiledType.encode of one version, decode of the other *)
Theorem uper_forward_octets numeric e1 e2 fuel t1 t2 v data :
  extends_strict numeric e1 e2 fuel t1 t2 ->
  uper_encode numeric fuel e2 t2 v = Ok data ->
  forall tail, exists n,
    uper_decode numeric fuel e1 t1 (data ++ tail)
    = Ok (proj numeric e1 e2 fuel t1 t2 (norm numeric e2 fuel t2 v), n) /\
    (n <= 8 * length data)%nat /\ (8 * length data < n + 8)%nat.
Proof.
  intros Hx. unfold uper_encode, uper_decode. destruct (enc numeric e2 fuel t2 v) as [bs|] eqn:E; [|discriminate].
  cbn [bind]. intros H tail. assert (data = bits_to_bytes bs) by congruence. subst data.
  rewrite bytes_to_bits_app, bytes_bits_roundtrip, <- app_assoc.
  rewrite (uper_forward numeric e1 e2 fuel t1 t2 v bs Hx E).
  exists (length bs). split.
  - f_equal. f_equal. rewrite !app_length. lia.
  - pose proof (bits_to_bytes_length bs) as Hl.
    pose proof (Nat.mod_upper_bound (8 - length bs mod 8) 8 ltac:(lia)). lia.
Qed.

Theorem uper_backward_octets numeric e1 e2 fuel t1 t2 v data :
  extends numeric e1 e2 fuel t1 t2 ->
  uper_encode numeric fuel e1 t1 v = Ok data ->
  forall tail, exists n,
    uper_decode numeric fuel e2 t2 (data ++ tail) = Ok (norm numeric e1 fuel t1 v, n) /\
    (n <= 8 * length data)%nat /\ (8 * length data < n + 8)%nat.
Proof.
  intros Hx. unfold uper_encode, uper_decode. destruct (enc numeric e1 fuel t1 v) as [bs|] eqn:E; [|discriminate].
  cbn [bind]. intros H tail. assert (data = bits_to_bytes bs) by congruence. subst data.
  rewrite bytes_to_bits_app, bytes_bits_roundtrip, <- app_assoc.
  rewrite (uper_backward numeric e1 e2 fuel t1 t2 v bs Hx E).
  exists (length bs). split.
  - f_equal. f_equal. rewrite !app_length. lia.
  - pose proof (bits_to_bytes_length bs) as Hl.
    pose proof (Nat.mod_upper_bound (8 - length bs mod 8) 8 ltac:(lia)). lia.
Qed.

(** the shape in which the relation is checked on concrete types *)
Lemma ex_split {A B} (R : A -> B -> Prop) (a1 : list A) (a2 : list B) :
  Forall2 R a1 (firstn (length a1) a2) -> exists c2 new, a2 = c2 ++ new /\ Forall2 R a1 c2.
Proof. intros H. exists (firstn (length a1) a2), (skipn (length a1) a2). split; [symmetry; apply firstn_skipn|exact H]. Qed.

Print Assumptions uper_forward_octets.
Print Assumptions uper_backward_octets.
Print Assumptions ext_gen_weaken.

(** One-step unfoldings of the relation, for checking it on concrete types
    ([cbn] would unfold the partially applied recursive occurrences at every
    depth at once). *)
Section Unfold.
  Variable numeric : bool.
  Variables e1 e2 : env.
  Variable s : bool.
  Variable f : nat.

  Lemma ext_seq i1 r1 x1 i2 r2 x2 :
    ext_gen numeric e1 e2 s (S f) (TSeq i1 r1 x1) (TSeq i2 r2 x2) =
    (i1 = i2 /\
     Forall2 (mrel s (ext_gen numeric e1 e2 s f) (proj numeric e1 e2 f)) r1 r2 /\
     (s = true -> NoDup (map m_name r2 ++ add_names (opt_list x2))) /\
     match x1, x2 with
     | None, None => True
     | Some a1, Some a2 =>
       exists c2 new, a2 = c2 ++ new /\ Forall2 (arel s (ext_gen numeric e1 e2 s f) (proj numeric e1 e2 f)) a1 c2
     | _, _ => False
     end).
  Proof. reflexivity. Qed.

  Lemma ext_seqof i1 el1 sz1 i2 el2 sz2 :
    ext_gen numeric e1 e2 s (S f) (TSeqOf i1 el1 sz1) (TSeqOf i2 el2 sz2) =
    (i1 = i2 /\ sz1 = sz2 /\ ext_gen numeric e1 e2 s f el1 el2).
  Proof. reflexivity. Qed.

  Lemma ext_choice r1 x1 r2 x2 :
    ext_gen numeric e1 e2 s (S f) (TChoice r1 x1) (TChoice r2 x2) =
    (Forall2 (mrel false (ext_gen numeric e1 e2 s f) (proj numeric e1 e2 f)) r1 r2 /\
     match x1, x2 with
     | None, None => True
     | Some a1, Some a2 =>
       exists c2 new, a2 = c2 ++ new /\ Forall2 (mrel false (ext_gen numeric e1 e2 s f) (proj numeric e1 e2 f)) a1 c2
     | _, _ => False
     end).
  Proof. reflexivity. Qed.

  Lemma ext_enum r1 x1 r2 x2 :
    ext_gen numeric e1 e2 s (S f) (TEnum r1 x1) (TEnum r2 x2) =
    (r1 = r2 /\
     match x1, x2 with
     | None, None => True
     | Some a1, Some a2 => exists new, a2 = a1 ++ new
     | _, _ => False
     end).
  Proof. reflexivity. Qed.

  Lemma ext_ref n1 n2 :
    ext_gen numeric e1 e2 s (S f) (TRef n1) (TRef n2) =
    (n1 = n2 /\
     match lookup n1 e1, lookup n2 e2 with
     | Some a, Some b => ext_gen numeric e1 e2 s f a b
     | _, _ => False
     end).
  Proof. reflexivity. Qed.

  Lemma ext_tag g1 a g2 b :
    ext_gen numeric e1 e2 s (S f) (TTag g1 a) (TTag g2 b) = ext_gen numeric e1 e2 s f a b.
  Proof. reflexivity. Qed.

  Lemma ext_leaf t1 t2 : is_leaf t1 = true -> ext_gen numeric e1 e2 s (S f) t1 t2 = (t1 = t2).
  Proof. destruct t1; try discriminate; intros _; destruct t2; reflexivity. Qed.
End Unfold.
