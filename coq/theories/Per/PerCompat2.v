(** Two-sided version of the composite round trip of PerRT.v (the aligned
    analogue of UperCompat2.v): the encoder and the decoder work on DIFFERENT
    member lists that are pairwise related ([member_rel R], [addition_rel R] of
    UperCompat2.v), positionally (relation [ERT]). *)
From Asn1V Require Import Base.Prelude Base.Sweep Base.Bits Base.BitsProofs
     Syntax.Asn1 Per.UperImpl Per.UperPrim Per.UperPB Per.UperRT Per.UperExt Per.UperCompat2
     Per.PerImpl Per.PerPrim Per.PerPB Per.PerRT.
Ltac Zify.zify_post_hook ::= Z.div_mod_to_equations.

Section PCompat2.
  Variable encT : ty -> value -> penc.          (* encoder's nested codec, on ENCODER-side types *)
  Variable decT : ty -> reader value.           (* decoder's nested codec, on DECODER-side types *)
  Variable res : ty -> ty.                      (* encoder-side resolve *)
  Variable R : ty -> ty -> Prop.                (* R te td *)
  Variable nm : ty -> ty -> value -> value.     (* nm te td v: what decT td returns on the bits of encT te v *)
  Hypothesis HT : forall te td v, R te td -> ERT (encT te v) (decT td) (nm te td v).

  Lemma ERT_members2 mse msd data : Forall2 (member_rel R) mse msd ->
    ERT (p_all (fun m => p_member encT res m data false) mse)
        (dec_members decT msd (map (fun m => presence_bit res m data) (filter has_presence_bit mse)))
        (nmembers res nm mse msd data).
  Proof.
    induction 1 as [|me md re rd Hm Hf IH]; cbn [p_all dec_members nmembers filter map].
    - apply ERT_ret.
    - unfold p_member. rewrite (has_presence_bit2 R _ _ Hm).
      destruct Hm as (Hn & Ho & HR). rewrite <- ?Hn, <- ?Ho.
      destruct (m_opt me) as [| |d] eqn:Eo.
      + assert (Hh : has_presence_bit me = false) by (unfold has_presence_bit; rewrite Eo; reflexivity).
        rewrite Hh. destruct (lookup (m_name me) data) as [v|]; [|apply ERT_fail_l].
        eapply ERT_bind; [apply HT; exact HR|]. cbv beta.
        apply (ERT_fmap _ _ (cons (m_name me, nm (m_ty me) (m_ty md) v)) (nmembers res nm re rd data)); [exact IH | reflexivity].
      + assert (Hh : has_presence_bit me = true) by (unfold has_presence_bit; rewrite Eo; reflexivity).
        rewrite Hh. cbn [map]. unfold presence_bit at 1. rewrite Eo.
        destruct (lookup (m_name me) data) as [v|]; cbv beta iota.
        * eapply ERT_bind; [apply HT; exact HR|]. cbv beta.
          apply (ERT_fmap _ _ (cons (m_name me, nm (m_ty me) (m_ty md) v)) (nmembers res nm re rd data)); [exact IH | reflexivity].
        * apply ERT_nil_l. exact IH.
      + assert (Hh : has_presence_bit me = true) by (unfold has_presence_bit; rewrite Eo; reflexivity).
        rewrite Hh. cbn [map]. unfold presence_bit at 1. rewrite Eo.
        destruct (lookup (m_name me) data) as [v|]; cbv beta iota.
        * destruct (is_default_value (res (m_ty me)) v d); cbn [negb orb]; cbv beta iota.
          -- apply ERT_nil_l.
             apply (ERT_fmap _ _ (cons (m_name me, d)) (nmembers res nm re rd data)); [exact IH | reflexivity].
          -- eapply ERT_bind; [apply HT; exact HR|]. cbv beta.
             apply (ERT_fmap _ _ (cons (m_name me, nm (m_ty me) (m_ty md) v)) (nmembers res nm re rd data)); [exact IH | reflexivity].
        * apply ERT_nil_l.
          apply (ERT_fmap _ _ (cons (m_name me, d)) (nmembers res nm re rd data)); [exact IH | reflexivity].
  Qed.

  Lemma ERT_root2 mse msd data : Forall2 (member_rel R) mse msd ->
    ERT (p_root encT res mse data) (dec_root decT msd) (nmembers res nm mse msd data).
  Proof.
    intros Hf. unfold p_root, dec_root. rewrite (presence_count2 R _ _ Hf).
    eapply ERT_bind; [|apply ERT_members2; exact Hf].
    apply ERT_pemit. intros rest.
    rewrite <- (map_length (fun m => presence_bit res m data) (filter has_presence_bit mse)). apply read_n_bits.
  Qed.

  (** what the decoder returns for the additions both sides know *)
  Fixpoint pnadds (ae ad : list (addition_of ty)) (data : list (string * value)) : list (string * value) :=
    match ae, ad with
    | (isgroup, mse) :: re, (_, msd) :: rd =>
      if isgroup then
        if p_group_missing_first encT res mse data
             (pst_app pst0 (map (fun m => presence_bit res m data) (filter has_presence_bit mse))) then []
        else match p_group encT res mse data with
             | Ok bs => (if (0 <? length bs)%nat then nmembers res nm mse msd data else []) ++ pnadds re rd data
             | Err _ => []
             end
      else
        match mse, msd with
        | [me], [md] =>
          match lookup (m_name me) data, m_opt me with
          | None, Mandatory => []
          | found, _ =>
            match prun (p_member encT res me data true) with
            | Ok _ => (match found with Some v => [(m_name me, nm (m_ty me) (m_ty md) v)] | None => [] end)
                      ++ pnadds re rd data
            | Err _ => []
            end
          end
        | _, _ => []
        end
    | _, _ => []
    end.

  Lemma pd_adds_compat2 ce cd data : Forall2 (addition_rel R) ce cd ->
    forall xe xd processed body k rest,
    xe = [] \/ xd = [] ->
    p_adds encT res (ce ++ xe) data = Ok processed ->
    enc_open_types processed = Ok body ->
    (length rest mod 8 = 0)%nat ->
    pd_adds decT (map is_some processed ++ repeat false k) (cd ++ xd) (body ++ rest)
    = Ok (pnadds ce cd data, rest).
  Proof.
    induction 1 as [|[isgroup mse] [isg' msd] ce cd Ha Hf IH]; intros xe xd processed body k rest Hx.
    - cbn [app pnadds]. destruct Hx as [-> | ->].
      + cbn [p_adds]. intros H Hb _. assert (processed = []) by congruence. subst. cbn in Hb.
        assert (body = []) by congruence. subst. cbn [map app]. apply pd_adds_all_false.
      + intros _ Hb _. apply pd_adds_skip_all. exact Hb.
    - destruct Ha as (Hg & Hms). cbn [fst snd] in Hg, Hms. subst isg'.
      cbn [app p_adds pnadds]. destruct isgroup.
      + (* addition group *)
        destruct (p_group_missing_first encT res mse data _).
        { intros H Hb _. assert (processed = []) by congruence. subst. cbn in Hb.
          assert (body = []) by congruence. subst. cbn [map app]. apply pd_adds_all_false. }
        destruct (p_group encT res mse data) as [bs|x] eqn:Eg; cbn [bind]; [|discriminate].
        destruct (p_adds encT res (ce ++ xe) data) as [rest_p|] eqn:Er; [|discriminate]. cbn [bind].
        intros H. destruct (0 <? length bs)%nat eqn:Epos.
        * assert (processed = Some bs :: rest_p) by congruence. subst processed. intros Hb Hrest.
          apply (pd_adds_present decT bs (nmembers res nm mse msd data) rest_p _ body k rest (pnadds ce cd data));
            [|exact Hb|exact Hrest|].
          -- intros r Hr. cbn [pd_one_addition].
             apply (prun_ERT _ _ _ _ (ERT_root2 mse msd data Hms)); [|exact Hr].
             apply p_group_present; [exact Eg|]. apply Nat.ltb_lt. exact Epos.
          -- intros body' Hb'. cbn [tl]. apply (IH _ _ _ _ _ _ Hx Er Hb' Hrest).
        * assert (processed = None :: rest_p) by congruence. subst processed. cbn [enc_open_types].
          intros Hb Hrest. cbn [map app is_some pd_adds negb tl]. cbn [app]. apply (IH _ _ _ _ _ _ Hx Er Hb Hrest).
      + (* single addition *)
        destruct Hms as [|me md mse' msd' Hm Hms']; [discriminate|].
        destruct Hms' as [|me2 md2 mse'' msd'' Hm2 Hms'']; [|discriminate].
        destruct Hm as (Hn & Ho & HR).
        destruct (lookup (m_name me) data) as [v|] eqn:Elk.
        * (* present *)
          assert (Henc : p_member encT res me data true = encT (m_ty me) v).
          { unfold p_member. rewrite Elk. destruct (m_opt me); try reflexivity. rewrite Bool.orb_true_r. reflexivity. }
          assert (Hgoal : (let* bs := prun (p_member encT res me data true) in
                           let* rest0 := p_adds encT res (ce ++ xe) data in
                           Ok ((if (0 <? length bs)%nat || true then Some bs else None) :: rest0)) = Ok processed ->
                          enc_open_types processed = Ok body ->
                          (length rest mod 8 = 0)%nat ->
                          pd_adds decT (map is_some processed ++ repeat false k) ((false, [md]) :: cd ++ xd) (body ++ rest) =
                          Ok (match prun (p_member encT res me data true) with
                              | Ok _ => [(m_name me, nm (m_ty me) (m_ty md) v)] ++ pnadds ce cd data
                              | Err _ => []
                              end, rest)).
          { rewrite Henc. destruct (prun (encT (m_ty me) v)) as [bs|x] eqn:Eb; cbn [bind]; [|discriminate].
            destruct (p_adds encT res (ce ++ xe) data) as [rest_p|] eqn:Er; [|discriminate]. cbn [bind].
            intros H. rewrite Bool.orb_true_r in H.
            assert (processed = Some bs :: rest_p) by congruence. subst processed. intros Hb Hrest.
            apply (pd_adds_present decT bs [(m_name me, nm (m_ty me) (m_ty md) v)] rest_p _ body k rest (pnadds ce cd data));
              [|exact Hb|exact Hrest|].
            - intros r Hr. cbn [pd_one_addition]. unfold rbind.
              rewrite (prun_ERT _ _ _ _ (HT _ _ v HR) Eb r Hr). rewrite Hn. reflexivity.
            - intros body' Hb'. cbn [tl]. apply (IH _ _ _ _ _ _ Hx Er Hb' Hrest). }
          destruct (m_opt me); exact Hgoal.
        * (* absent *)
          destruct (m_opt me) eqn:Eo.
          -- intros H Hb _. assert (processed = []) by congruence. subst. cbn in Hb.
             assert (body = []) by congruence. subst. cbn [map app]. apply pd_adds_all_false.
          -- assert (Henc : prun (p_member encT res me data true) = Ok [])
               by (unfold p_member; rewrite Elk, Eo; reflexivity).
             rewrite Henc. cbn [bind].
             destruct (p_adds encT res (ce ++ xe) data) as [rest_p|] eqn:Er; [|discriminate]. cbn [bind].
             intros H. cbn [length Nat.ltb Nat.leb orb] in H.
             assert (processed = None :: rest_p) by congruence. subst processed. cbn [enc_open_types].
             intros Hb Hrest. cbn [map app is_some pd_adds negb tl]. apply (IH _ _ _ _ _ _ Hx Er Hb Hrest).
          -- assert (Henc : prun (p_member encT res me data true) = Ok [])
               by (unfold p_member; rewrite Elk, Eo; reflexivity).
             rewrite Henc. cbn [bind].
             destruct (p_adds encT res (ce ++ xe) data) as [rest_p|] eqn:Er; [|discriminate]. cbn [bind].
             intros H. cbn [length Nat.ltb Nat.leb orb] in H.
             assert (processed = None :: rest_p) by congruence. subst processed. cbn [enc_open_types].
             intros Hb Hrest. cbn [map app is_some pd_adds negb tl]. apply (IH _ _ _ _ _ _ Hx Er Hb Hrest).
  Qed.

  Lemma pnadds_none_gen ce cd data : Forall2 (addition_rel R) ce cd -> forall xe processed,
    p_adds encT res (ce ++ xe) data = Ok processed -> existsb is_some processed = false ->
    pnadds ce cd data = [].
  Proof.
    induction 1 as [|[isgroup mse] [isg' msd] ce cd Ha Hf IH]; intros xe processed; cbn [app p_adds pnadds]; [reflexivity|].
    destruct Ha as (Hg & Hms). cbn [fst snd] in Hg, Hms. subst isg'.
    destruct isgroup.
    - destruct (p_group_missing_first encT res mse data _); [reflexivity|].
      destruct (p_group encT res mse data) as [bs|x]; cbn [bind]; [|reflexivity].
      destruct (p_adds encT res (ce ++ xe) data) as [rest_p|] eqn:Er; [|discriminate]. cbn [bind]. intros H.
      destruct (0 <? length bs)%nat.
      + assert (processed = Some bs :: rest_p) by congruence. subst. cbn. discriminate.
      + assert (processed = None :: rest_p) by congruence. subst. cbn [existsb is_some orb]. intros He.
        cbn [app]. apply (IH _ _ Er He).
    - destruct Hms as [|me md mse' msd' Hm Hms']; [reflexivity|].
      destruct Hms' as [|me2 md2 mse'' msd'' Hm2 Hms'']; [|reflexivity].
      assert (Hmain : forall found,
                 (found = lookup (m_name me) data) ->
                 (let* bs := prun (p_member encT res me data true) in
                  let* rest0 := p_adds encT res (ce ++ xe) data in
                  Ok ((if (0 <? length bs)%nat || match found with Some _ => true | None => false end
                       then Some bs else None) :: rest0)) = Ok processed ->
                 existsb is_some processed = false ->
                 match prun (p_member encT res me data true) with
                 | Ok _ => (match found with Some v => [(m_name me, nm (m_ty me) (m_ty md) v)] | None => [] end)
                           ++ pnadds ce cd data
                 | Err _ => []
                 end = []).
      { intros found Hfd. destruct (prun (p_member encT res me data true)) as [bs|x]; cbn [bind]; [|reflexivity].
        destruct (p_adds encT res (ce ++ xe) data) as [rest_p|] eqn:Er; [|discriminate]. cbn [bind]. intros H.
        destruct found as [v|].
        - rewrite Bool.orb_true_r in H. assert (processed = Some bs :: rest_p) by congruence. subst. cbn. discriminate.
        - rewrite Bool.orb_false_r in H. destruct (0 <? length bs)%nat.
          + assert (processed = Some bs :: rest_p) by congruence. subst. cbn. discriminate.
          + assert (processed = None :: rest_p) by congruence. subst. cbn [existsb is_some orb]. intros He.
            cbn [app]. apply (IH _ _ Er He). }
      destruct (lookup (m_name me) data) as [v|] eqn:Elk; destruct (m_opt me); try reflexivity;
        try (apply (Hmain (Some v)); reflexivity); apply (Hmain None); reflexivity.
  Qed.

  Lemma ERT_seq_compat2 roote rootd ce cd xe xd data :
    Forall2 (member_rel R) roote rootd -> Forall2 (addition_rel R) ce cd -> xe = [] \/ xd = [] ->
    ERT (p_seq encT res roote (Some (ce ++ xe)) (VSeq data))
        (pd_seq decT rootd (Some (cd ++ xd)))
        (VSeq (nmembers res nm roote rootd data ++ pnadds ce cd data)).
  Proof.
    intros Hr Hf Hx st st' H. unfold p_seq in H.
    assert (Hp : (match ce ++ xe with [] => Ok [] | _ :: _ => p_adds encT res (ce ++ xe) data end)
                 = p_adds encT res (ce ++ xe) data) by (destruct (ce ++ xe); reflexivity).
    rewrite Hp in H. clear Hp.
    destruct (p_adds encT res (ce ++ xe) data) as [processed|] eqn:Ep; cbn [bind] in H; [|discriminate].
    revert st st' H. unfold pd_seq.
    destruct (existsb is_some processed) eqn:Ee; cbn [negb]; intros st st' H.
    - pose proof (p_adds_length _ _ _ _ _ Ep) as Hlen.
      assert (Hne : (1 <= length processed)%nat) by (destruct processed; [discriminate | cbn [length]; lia]).
      set (n := length (ce ++ xe)) in *.
      set (pres := map is_some processed ++ repeat false (n - length processed)) in *.
      assert (Hpl : length pres = n) by (unfold pres; rewrite app_length, map_length, repeat_length; lia).
      revert st st' H. apply ERT_bit.
      eapply ERT_bind; [apply ERT_root2; exact Hr|]. cbv beta iota.
      eapply ERT_bind; [apply ERT_plift; intros l Hl rest; apply (read_small_len_rt (Z.of_nat n)); [lia | exact Hl]|].
      cbv beta. rewrite Nat2Z.id.
      eapply ERT_bind; [apply (ERT_pemit pres (read_raw n) pres); intros rest; rewrite <- Hpl; apply read_raw_app|].
      cbv beta. apply ERT_aligned.
      intros st st' Hst H. rewrite p_open_types_eq in H. unfold plift in H.
      destruct (enc_open_types processed) as [body|] eqn:Eb; cbn [bind] in H; [|discriminate].
      exists body. split; [congruence|]. intros rest Hrest.
      pose proof (enc_open_types_len8 _ _ Eb) as Hb8.
      unfold rbind. unfold pres.
      rewrite (pd_adds_compat2 _ _ _ Hf _ _ _ _ _ _ Hx Ep Eb) by lia. reflexivity.
    - revert st st' H. apply ERT_bit.
      apply (ERT_fmap _ _ VSeq (nmembers res nm roote rootd data)); [apply ERT_root2; exact Hr|].
      rewrite (pnadds_none_gen _ _ _ Hf _ _ Ep Ee), app_nil_r. reflexivity.
  Qed.

  Lemma ERT_seq_noext2 roote rootd data :
    Forall2 (member_rel R) roote rootd ->
    ERT (p_seq encT res roote None (VSeq data)) (pd_seq decT rootd None) (VSeq (nmembers res nm roote rootd data)).
  Proof.
    intros Hr. unfold p_seq, pd_seq.
    apply (ERT_fmap _ _ VSeq (nmembers res nm roote rootd data)); [apply ERT_root2; exact Hr | reflexivity].
  Qed.

  (** CHOICE *)
  Lemma ERT_choice_root2 roote rootd name x i me md :
    Forall2 (member_rel R) roote rootd ->
    find_alt name roote 0 = Some (i, me) -> nth_error rootd (Z.to_nat i) = Some md -> member_rel R me md ->
    ERT (p_choice_root encT roote name x) (pd_choice_root decT rootd) (VChoice name (nm (m_ty me) (m_ty md) x)).
  Proof.
    intros Hr Hf Hnd (Hn & _ & HR). unfold p_choice_root, pd_choice_root. rewrite Hf.
    destruct (find_alt_spec _ _ _ _ _ Hf) as (Hrg & _ & Hm).
    pose proof (Forall2_len2 Hr) as Hlen.
    assert (Hcb : choice_root_bits rootd = choice_root_bits roote) by (unfold choice_root_bits; rewrite Hlen; reflexivity).
    rewrite <- Hlen, Hcb.
    eapply (ERT_bind _ _ _ _ i).
    - destruct (1 <? length roote)%nat eqn:E1.
      + apply ERT_cwn; [lia|]. unfold choice_root_bits.
        apply (fits_bit_length (i - 0) (Z.of_nat (length roote) - 1)). lia.
      + assert (i = 0) by lia. subst i. apply ERT_pemit_nil.
    - cbv beta. rewrite (nth_z_of_index _ i md) by (auto; lia).
      apply (ERT_fmap _ _ (VChoice (m_name md)) (nm (m_ty me) (m_ty md) x)); [apply HT; exact HR | rewrite <- Hn, Hm; reflexivity].
  Qed.

  Lemma ERT_choice_compat2 roote rootd ce cd xe xd name x :
    Forall2 (member_rel R) roote rootd -> Forall2 (member_rel R) ce cd -> xe = [] \/ xd = [] ->
    ERT (p_choice encT roote (Some (ce ++ xe)) (VChoice name x)) (pd_choice decT rootd (Some (cd ++ xd)))
        (nchoice nm roote rootd ce cd name x).
  Proof.
    intros Hr Hc Hx. unfold p_choice, pd_choice, nchoice.
    destruct (find_alt name roote 0) as [[i me]|] eqn:Ef.
    - destruct (find_alt2_some R _ _ _ Hr _ _ _ Ef) as (md & F2 & Hnd & Hm). rewrite F2.
      replace (i - 0) with i in Hnd by lia.
      apply ERT_bit. cbn [negb]. eapply ERT_choice_root2; eauto.
    - rewrite (find_alt2_none R _ _ _ Hr _ Ef). rewrite find_alt_app.
      pose proof (Forall2_len2 Hc) as Hlen.
      destruct (find_alt name ce 0) as [[i me]|] eqn:Ea.
      + (* an addition both sides know *)
        destruct (find_alt2_some R _ _ _ Hc _ _ _ Ea) as (md & F2 & Hnd & (Hn & _ & HR)). rewrite F2.
        replace (i - 0) with i in Hnd by lia.
        destruct (find_alt_spec _ _ _ _ _ Ea) as (Hrg & _ & Hnm).
        intros st st' H.
        destruct (prun (encT (m_ty me) x)) as [body|] eqn:Eb; cbn [bind] in H; [|discriminate]. cbv zeta in H.
        revert st st' H.
        change (ERT (pemit [true];; plift (enc_small_nonneg i);; palign_e;;
                     plift (enc_len_single (Z.of_nat (length (pad8 body) / 8)));; pemit (pad8 body))
                    (pd_choice decT rootd (Some (cd ++ xd))) (VChoice name (nm (m_ty me) (m_ty md) x))).
        unfold pd_choice. apply ERT_bit. cbn [negb].
        eapply ERT_bind; [apply ERT_plift; intros b Hb rest; apply (read_small_nonneg_rt i); [lia | exact Hb]|]. cbv beta.
        apply ERT_aligned.
        intros st st' Hst H. unfold pbind, plift, pemit, enc_len_single in H.
        destruct (Z.of_nat (length (pad8 body) / 8) <? 16384) eqn:El; cbn [bind] in H; [|discriminate].
        rewrite pst_app_app in H.
        exists (enc_len_short (Z.of_nat (length (pad8 body) / 8)) ++ pad8 body). split; [congruence|].
        intros rest Hrest. destruct (pad8_length body) as (q & Hq & Hle & Hdiv).
        pose proof (enc_len_short_len8 (Z.of_nat (length (pad8 body) / 8))) as Hl8.
        rewrite !app_length in Hrest.
        assert (Hrest8 : (length rest mod 8 = 0)%nat) by lia.
        unfold rbind at 1. rewrite <- app_assoc. rewrite read_len_short by lia. cbv zeta.
        assert (Hz : nth_z (cd ++ xd) i = Some md).
        { apply nth_z_of_index; [rewrite app_length; lia|]. rewrite nth_error_app1 by lia. exact Hnd. }
        rewrite Hz.
        unfold pad8 in Hq, Hdiv |- *. rewrite app_length, repeat_length in Hq, Hdiv.
        set (padn := ((8 - length body mod 8) mod 8)%nat) in *.
        rewrite <- app_assoc. unfold rbind at 1. unfold with_consumed.
        rewrite (prun_ERT _ _ _ _ (HT _ _ x HR) Eb) by (rewrite app_length, repeat_length; lia).
        rewrite !app_length, repeat_length.
        replace (length body + (padn + length rest) - (padn + length rest))%nat with (length body) by lia.
        assert (Hnb : Z.to_nat (8 * Z.of_nat ((length body + padn) / 8)) = (length body + padn)%nat) by (rewrite Hdiv; lia).
        rewrite Hnb.
        destruct (length body + padn <? length body)%nat eqn:Elt; [lia|].
        replace (length body + padn - length body)%nat with padn by lia.
        unfold rbind. unfold skip_bits. rewrite app_length, repeat_length.
        destruct (padn + length rest <? padn)%nat eqn:E2; [lia|].
        rewrite skipn_app, repeat_length, Nat.sub_diag. cbn [skipn].
        rewrite skipn_all2 by (rewrite repeat_length; lia). cbn [app]. rewrite <- Hn, Hnm. reflexivity.
      + rewrite (find_alt2_none R _ _ _ Hc _ Ea). destruct Hx as [-> | ->]; [cbn [find_alt]; apply ERT_fail|].
        (* an addition only the encoder knows: the open type is skipped *)
        rewrite (app_nil_r cd).
        destruct (find_alt name xe (0 + Z.of_nat (length ce))) as [[i m]|] eqn:Ex; [|apply ERT_fail].
        destruct (find_alt_spec _ _ _ _ _ Ex) as (Hrange & _ & _).
        intros st st' H.
        destruct (prun (encT (m_ty m) x)) as [body|] eqn:Eb; cbn [bind] in H; [|discriminate]. cbv zeta in H.
        revert st st' H.
        change (ERT (pemit [true];; plift (enc_small_nonneg i);; palign_e;;
                     plift (enc_len_single (Z.of_nat (length (pad8 body) / 8)));; pemit (pad8 body))
                    (pd_choice decT rootd (Some cd)) VUnknownChoice).
        unfold pd_choice. apply ERT_bit. cbn [negb].
        eapply ERT_bind; [apply ERT_plift; intros b Hb rest; apply (read_small_nonneg_rt i); [lia | exact Hb]|]. cbv beta.
        apply ERT_aligned.
        intros st st' Hst H. unfold pbind, plift, pemit, enc_len_single in H.
        destruct (Z.of_nat (length (pad8 body) / 8) <? 16384) eqn:El; cbn [bind] in H; [|discriminate].
        rewrite pst_app_app in H.
        exists (enc_len_short (Z.of_nat (length (pad8 body) / 8)) ++ pad8 body). split; [congruence|].
        intros rest Hrest.
        unfold rbind at 1. rewrite <- app_assoc. rewrite read_len_short by lia. cbv zeta.
        assert (Hnone : nth_z cd i = None).
        { unfold nth_z. destruct ((i <? 0) || (Z.of_nat (length cd) <=? i)) eqn:E; [reflexivity|lia]. }
        rewrite Hnone. destruct (pad8_length body) as (q & Hq & _ & Hdiv).
        unfold rbind. unfold skip_bits. rewrite Hdiv.
        replace (Z.to_nat (8 * Z.of_nat q)) with (length (pad8 body)) by lia. rewrite app_length.
        destruct (length (pad8 body) + length rest <? length (pad8 body))%nat eqn:E; [lia|].
        rewrite skipn_app, Nat.sub_diag. cbn [skipn]. rewrite skipn_all. reflexivity.
  Qed.

  Lemma ERT_choice_noext2 roote rootd name x :
    Forall2 (member_rel R) roote rootd ->
    ERT (p_choice encT roote None (VChoice name x)) (pd_choice decT rootd None) (nchoice nm roote rootd [] [] name x).
  Proof.
    intros Hr. unfold p_choice, pd_choice, nchoice.
    destruct (find_alt name roote 0) as [[i me]|] eqn:Ef.
    - destruct (find_alt2_some R _ _ _ Hr _ _ _ Ef) as (md & F2 & Hnd & Hm). rewrite F2.
      replace (i - 0) with i in Hnd by lia. eapply ERT_choice_root2; eauto.
    - unfold p_choice_root. rewrite Ef. apply ERT_fail.
  Qed.
End PCompat2.

Print Assumptions ERT_seq_compat2.
Print Assumptions ERT_choice_compat2.
