(** C08 for the UPER model: decoding is a total function of (type, input) —
    every Python loop is a structural recursion of the model, accepted by Coq's
    guard checker — whose only iteration not bounded by a decoded count, the
    16K-fragment loop, provably never exhausts its input-derived bound; and a
    successful decode never reads beyond its input. *)
From Asn1V Require Import Base.Prelude Base.Bits Base.BitsProofs Syntax.Asn1 Per.UperImpl Per.UperPrim Per.UperPB.

Ltac Zify.zify_post_hook ::= Z.div_mod_to_equations.

Definition never_fuel {A} (rd : reader A) : Prop := forall bs, rd bs <> Err EFuel.

Lemma read_uint_not_fuel n : never_fuel (read_uint n).
Proof. intros bs. unfold read_uint. destruct (length bs <? n)%nat; discriminate. Qed.

Lemma read_len_not_fuel : never_fuel read_len.
Proof.
  intros bs. unfold read_len, rbind. destruct (read_uint 8 bs) as [[v r]|e] eqn:E.
  - destruct (Z.land v 128 =? 0); [discriminate|]. destruct (Z.land v 192 =? 128).
    + destruct (read_uint 8 r) as [[w r2]|e] eqn:E2; [discriminate|].
      intros H. apply (read_uint_not_fuel 8 r). congruence.
    + repeat match goal with |- (if ?c then _ else _) _ <> _ => destruct c end; discriminate.
  - intros H. apply (read_uint_not_fuel 8 bs). congruence.
Qed.

Lemma read_n_not_fuel {A} n (rd : reader A) : never_fuel rd -> never_fuel (read_n n rd).
Proof.
  intros H. induction n as [|n IH]; intros bs; cbn [read_n]; [discriminate|].
  unfold rbind. destruct (rd bs) as [[x r]|e] eqn:E.
  - destruct (read_n n rd r) as [[xs r2]|e] eqn:E2; [discriminate|]. intros H2. apply (IH r). congruence.
  - intros H2. apply (H bs). congruence.
Qed.

(** the 16K-fragment loop: with fuel > (remaining bits) / 8 it never runs out of fuel *)
Lemma read_frag_not_fuel {A} (rd : reader A) :
  PB rd -> never_fuel rd -> forall f bs, (length bs / 8 < f)%nat -> read_frag f rd bs <> Err EFuel.
Proof.
  intros Hpb Hnf. induction f as [|f IH]; intros bs Hf; [lia|]. cbn [read_frag]. unfold rbind.
  destruct (read_len bs) as [[n r1]|e] eqn:E1.
  - pose proof (read_len_consumes _ _ _ E1) as H8.
    destruct (read_n (Z.to_nat n) rd r1) as [[items r2]|e] eqn:E2.
    + destruct (n <? 16384); [discriminate|].
      pose proof (PB_length _ _ _ _ (PB_read_n (Z.to_nat n) rd Hpb) E2) as Hle.
      destruct (read_frag f rd r2) as [[more r3]|e] eqn:E3; [discriminate|].
      intros H. apply (IH r2); [lia|congruence].
    + intros H. apply (read_n_not_fuel (Z.to_nat n) rd Hnf r1). congruence.
  - intros H. apply (read_len_not_fuel bs). congruence.
Qed.

Theorem read_frag_auto_not_fuel {A} (rd : reader A) : PB rd -> never_fuel rd -> never_fuel (read_frag_auto rd).
Proof. intros Hpb Hnf bs. unfold read_frag_auto. apply read_frag_not_fuel; auto; lia. Qed.

(** a successful decode never ends beyond the data it was given, and reports
    at most 8 * (number of octets) consumed bits *)
Theorem uper_decode_in_bounds numeric fuel e t data v n :
  uper_decode numeric fuel e t data = Ok (v, n) -> (n <= 8 * length data)%nat.
Proof.
  unfold uper_decode. destruct (dec numeric e fuel t (bytes_to_bits data)) as [[v' rest]|x] eqn:E; [|discriminate].
  intros H. assert (n = (length (bytes_to_bits data) - length rest)%nat) by congruence. subst n.
  rewrite bytes_to_bits_length. lia.
Qed.
