(** Examples for UperReenc.v: a non-trivial instance of the side condition
    [reenc_ok], and one refutation per clause of it (each is the statement of
    [enc_reenc] failing when that clause is dropped).  The refutations marked
    LIBRARY were replayed on asn1tools (see notes/UPER-proofs.md). *)
From Asn1V Require Import Base.Prelude Base.Bits Syntax.Asn1 Per.UperImpl Per.UperRT Per.UperReenc.
Open Scope string_scope.

Definition is_ok {A} (r : result A) : bool := match r with Ok _ => true | Err _ => false end.

(** ** A nested instance that satisfies the side condition

    Env:   Leaf ::= CHOICE { n NULL, os OCTET STRING (SIZE(0..4)), ..., oid OBJECT IDENTIFIER }
    Type:  SEQUENCE {
             i   INTEGER (0..7),
             o   BOOLEAN OPTIONAL,
             d   OCTET STRING DEFAULT '00'H,
             nb  BIT STRING { x(0), y(1) } (SIZE(1..8, ...)),
             l   SEQUENCE (SIZE(0..3)) OF Leaf,
             ...,
             [[ g1 INTEGER DEFAULT 3, g2 BOOLEAN OPTIONAL ]],
             s   BIT STRING,
             [[ h1 NULL OPTIONAL ]],
             t   Leaf OPTIONAL
           }
    The value has garbage bits beyond the bit count of [s], an octet given as
    256, a non-canonical OID (1.50 = 2.10), [d] equal to its default, the group
    [[g1,g2]] entirely default (encoded as absent) and [t] absent. *)
Definition ex_env : env :=
  [("Leaf", TChoice [("n", TNull, Mandatory); ("os", TOctets (SzRange 0 (Some 4) false), Mandatory)]
                    (Some [("oid", TOid, Mandatory)]))].
Definition ex_ty : ty :=
  TSeq false
       [("i", TInt (IcRange (Some 0) (Some 7) false), Mandatory);
        ("o", TBool, Optional);
        ("d", TOctets SzNone, Default (VBytes [0]));
        ("nb", TBits (Some [("x", 0); ("y", 1)]) (SzRange 1 (Some 8) true), Mandatory);
        ("l", TSeqOf false (TRef "Leaf") (SzRange 0 (Some 3) false), Mandatory)]
       (Some [(true, [("g1", TInt IcNone, Default (VInt 3)); ("g2", TBool, Optional)]);
              (false, [("s", TBits None SzNone, Mandatory)]);
              (true, [("h1", TNull, Optional)]);
              (false, [("t", TRef "Leaf", Optional)])]).
Definition ex_val : value :=
  VSeq [("i", VInt 5); ("d", VBytes [0]); ("nb", VBits [128; 0] 8);
        ("l", VList [VChoice "n" VNone; VChoice "os" (VBytes [256; 1]); VChoice "oid" (VOid [1; 50; 3])]);
        ("g1", VInt 3); ("s", VBits [255] 3); ("h1", VNone)].

Example reenc_ok_example :
  reenc_ok false ex_env 6 ex_ty ex_val = true /\
  is_ok (uper_encode false 6 ex_env ex_ty ex_val) = true /\
  norm false ex_env 6 ex_ty ex_val <> ex_val /\
  uper_encode false 6 ex_env ex_ty (norm false ex_env 6 ex_ty ex_val) = uper_encode false 6 ex_env ex_ty ex_val.
Proof. vm_compute. repeat split. discriminate. Qed.

(** ** Refutations *)

(** LIBRARY (genuine defect).  An addition group whose components are all
    zero-width and mandatory is encoded as "absent" (its open type would be
    empty); the decoder therefore reports no component of it; on re-encoding
    the group counts as "missing" and [encode_additions] silently drops every
    LATER addition.
      S ::= SEQUENCE { r BOOLEAN, ..., [[ a NULL ]], b INTEGER }
      {r TRUE, a NULL, b 5}  ->  c0a04020a0  ->  {r TRUE, b 5}  ->  40 *)
Definition cx_group_ty : ty :=
  TSeq false [("r", TBool, Mandatory)]
       (Some [(true, [("a", TNull, Mandatory)]); (false, [("b", TInt IcNone, Mandatory)])]).
Definition cx_group_val : value := VSeq [("r", VBool true); ("a", VNone); ("b", VInt 5)].

Example uper_reencode_empty_group_refuted :
  uper_encode false 5 [] cx_group_ty cx_group_val = Ok (hex "c0a04020a0") /\
  norm false [] 5 cx_group_ty cx_group_val = VSeq [("r", VBool true); ("b", VInt 5)] /\
  uper_encode false 5 [] cx_group_ty (norm false [] 5 cx_group_ty cx_group_val) = Ok (hex "40") /\
  reenc_ok false [] 5 cx_group_ty cx_group_val = false.
Proof. vm_compute. repeat split. Qed.

(** LIBRARY (ill-formed input: a set bit beyond the bit count).  DEFAULT
    stability: [is_default] looks at the first [nbits] bits, the encoder of a
    named-bit string at all of them.
      S ::= SEQUENCE { a BIT STRING { x(0), y(1) } DEFAULT { x, y }, b BOOLEAN }
      {a (c0, 1), b TRUE}  ->  8170  ->  {a (c0, 2), b TRUE}  ->  40 *)
Definition cx_default_ty : ty :=
  TSeq false [("a", TBits (Some [("x", 0); ("y", 1)]) SzNone, Default (VBits [192] 2));
              ("b", TBool, Mandatory)] None.
Definition cx_default_val : value := VSeq [("a", VBits [192] 1); ("b", VBool true)].

Example uper_reencode_default_unstable_refuted :
  uper_encode false 5 [] cx_default_ty cx_default_val = Ok (hex "8170") /\
  norm false [] 5 cx_default_ty cx_default_val = VSeq [("a", VBits [192] 2); ("b", VBool true)] /\
  uper_encode false 5 [] cx_default_ty (norm false [] 5 cx_default_ty cx_default_val) = Ok (hex "40") /\
  reenc_ok false [] 5 cx_default_ty cx_default_val = false.
Proof. vm_compute. repeat split. Qed.

(** model only: DEFAULT stability also fails for a non-canonical OID
    (1.50 and 2.10 have the same encoding) and for an octet outside 0..255 *)
Definition cx_oid_ty : ty := TSeq false [("a", TOid, Default (VOid [2; 10]))] None.
Example uper_reencode_default_oid_refuted :
  uper_encode false 5 [] cx_oid_ty (VSeq [("a", VOid [1; 50])]) = Ok (hex "80ad00") /\
  uper_encode false 5 [] cx_oid_ty (norm false [] 5 cx_oid_ty (VSeq [("a", VOid [1; 50])])) = Ok (hex "00") /\
  reenc_ok false [] 5 cx_oid_ty (VSeq [("a", VOid [1; 50])]) = false.
Proof. vm_compute. repeat split. Qed.

Definition cx_octet_ty : ty := TSeq false [("a", TOctets SzNone, Default (VBytes [0]))] None.
Example uper_reencode_default_octet_refuted :
  uper_encode false 5 [] cx_octet_ty (VSeq [("a", VBytes [256])]) = Ok (hex "808000") /\
  uper_encode false 5 [] cx_octet_ty (norm false [] 5 cx_octet_ty (VSeq [("a", VBytes [256])])) = Ok (hex "00") /\
  reenc_ok false [] 5 cx_octet_ty (VSeq [("a", VBytes [256])]) = false.
Proof. vm_compute. repeat split. Qed.

(** LIBRARY (ill-formed input: set bits beyond the bit count).  Named bits
    with an extensible SIZE whose upper bound is above 65535: the extension bit
    comes from the bit count the user gave (1, in the root), the data from the
    stripped octets (70008 bits, outside the root).
      S ::= BIT STRING { x(0) } (SIZE(1..70000, ...))
      (8750 zero octets ++ 01, 1) encodes; the decoded value (…, 70008) raises
      NotImplementedError on re-encoding. *)
Definition cx_named_ty : ty := TBits (Some [("x", 0)]) (SzRange 1 (Some 70000) true).
Definition cx_named_val : value := VBits (repeat 0 (Z.to_nat 8750) ++ [1]) 1.

Example uper_reencode_named_ext_refuted :
  is_ok (uper_encode false 2 [] cx_named_ty cx_named_val) = true /\
  uper_encode false 2 [] cx_named_ty (norm false [] 2 cx_named_ty cx_named_val)
  = Err (EForeign "NotImplementedError") /\
  reenc_ok false [] 2 cx_named_ty cx_named_val = false.
Proof. vm_compute. repeat split. Qed.

(** model only (ASN.1 forbids it): two components with the same name *)
Definition cx_dup_ty : ty := TSeq false [("a", TNull, Mandatory); ("a", TBool, Mandatory)] None.
Example uper_reencode_duplicate_names_refuted :
  uper_encode false 5 [] cx_dup_ty (VSeq [("a", VBool true)]) = Ok (hex "80") /\
  uper_encode false 5 [] cx_dup_ty (norm false [] 5 cx_dup_ty (VSeq [("a", VBool true)])) = Err EUnmodelled /\
  reenc_ok false [] 5 cx_dup_ty (VSeq [("a", VBool true)]) = false.
Proof. vm_compute. repeat split. Qed.
