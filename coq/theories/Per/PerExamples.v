(** Non-vacuity of the aligned-PER theorems: a nested extensible value whose
    encoding crosses several alignment points (an INTEGER with a range above
    64K in the indefinite-length form, a 16-bit constrained length, a
    known-multiplier string with the class-alphabet rule, a CHOICE addition
    holding a recursive type, an addition group wrapped as an open type). *)
From Asn1V Require Import Base.Prelude Base.Bits Syntax.Asn1 Per.UperImpl Per.UperRT
     Per.PerImpl Per.PerPrim Per.PerPB Per.PerRT.

Local Open Scope string_scope.
Definition pex_env : env :=
  [("R", TSeq false [("v", TInt (IcRange (Some 0) (Some 255) false), Mandatory);
                     ("next", TRef "R", Optional)] None)].
Definition pex_ty : ty :=
  TSeq false
       [("a", TChoice [("i", TInt IcNone, Mandatory); ("s", TStr SkIA5 (SzRange 1 (Some 4) false) None, Mandatory)]
                      (Some [("r", TRef "R", Mandatory)]), Mandatory);
        ("b", TBits (Some [("x", 0); ("y", 3)]) SzNone, Default (VBits [128] 1));
        ("c", TEnum [("e0", 5); ("e1", 1)] (Some [("e2", 9)]), Optional);
        ("n", TInt (IcRange (Some (-5)) (Some 100000) false), Mandatory);
        ("w", TInt (IcRange (Some 0) (Some 300) true), Mandatory);
        ("s", TStr SkVisible (SzRange 0 (Some 10) false) (Some [65; 66; 67]), Mandatory);
        ("l", TSeqOf false TBool (SzRange 0 (Some 1000) false), Mandatory)]
       (Some [(true, [("g", TBool, Mandatory); ("h", TOctets (SzRange 0 (Some 3) true), Optional)]);
              (false, [("z", TOid, Optional)])]).
Definition pex_val : value :=
  VSeq [("a", VChoice "r" (VSeq [("v", VInt 7); ("next", VSeq [("v", VInt 200)])]));
        ("b", VBits [144; 0] 9); ("c", VEnum "e2"); ("n", VInt 70000); ("w", VInt 1000);
        ("s", VStr [67; 65; 66]); ("l", VList [VBool true; VBool false; VBool true]);
        ("g", VBool true); ("h", VBytes [1; 2; 3; 4; 5]); ("z", VOid [1; 2; 840])].

Definition pex_data : list Z :=
  Eval vm_compute in match per_encode false 12 pex_env pex_ty pex_val with Ok d => d | Err _ => [] end.

Example per_hypotheses_inhabited :
  per_encode false 12 pex_env pex_ty pex_val = Ok pex_data /\ (30 < length pex_data)%nat /\
  pnorm false pex_env 12 pex_ty pex_val =
  VSeq [("a", VChoice "r" (VSeq [("v", VInt 7); ("next", VSeq [("v", VInt 200)])]));
        ("b", VBits [144] 4); ("c", VEnum "e2"); ("n", VInt 70000); ("w", VInt 1000);
        ("s", VStr [67; 65; 66]); ("l", VList [VBool true; VBool false; VBool true]);
        ("g", VBool true); ("h", VBytes [1; 2; 3; 4; 5]); ("z", VOid [1; 2; 840])].
Proof. split; [vm_compute; reflexivity|]. split; [vm_compute; lia | vm_compute; reflexivity]. Qed.

(** the instance of [per_roundtrip] / [per_truncation], recomputed *)
Example per_roundtrip_instance :
  per_decode false 12 pex_env pex_ty (pex_data ++ [171; 205]) =
  Ok (pnorm false pex_env 12 pex_ty pex_val, (8 * length pex_data - 0)%nat).
Proof. vm_compute. reflexivity. Qed.

Example per_truncation_instance :
  forallb (fun k => match per_decode false 12 pex_env pex_ty (firstn k pex_data) with
                    | Err x => is_decode_error x | Ok _ => false end)
          (seq 0 (length pex_data)) = true.
Proof. vm_compute. reflexivity. Qed.

Print Assumptions per_hypotheses_inhabited.
