(** Round trip of the ALIGNED PER model, positionally: an encoder running at
    bit position [n] appends [b]; the decoder reads it back from [b ++ rest]
    whenever [(n + length b + length rest) mod 8 = 0] (relation [ERT] of
    Per/PerPrim.v).  Primitive types, then composites from the round trip of
    the nested codec, then induction on fuel, then the octet level. *)
From Asn1V Require Import Base.Prelude Base.Sweep Base.Bits Base.BitsProofs Base.Utf8 Base.Utf8Proofs
     Syntax.Asn1 Per.UperImpl Per.UperPrim Per.UperPB Per.UperRT Per.PerImpl Per.PerPrim Per.PerPB.

Ltac Zify.zify_post_hook ::= Z.div_mod_to_equations.

(** ** Small pieces shared by the string types *)

Lemma ERT_fail_l {B} e m (d : reader B) v : ERT (pfail e ;; m) d v.
Proof. intros st st' H. discriminate H. Qed.

Lemma ERT_post {A B} m (d : reader A) (k : A -> reader B) x v :
  ERT m d x -> (forall rest, k x rest = Ok (v, rest)) -> ERT m (rbind d k) v.
Proof.
  intros H Hk st st' E. destruct (H _ _ E) as (b & -> & D). exists b. split; [reflexivity|].
  intros rest Hr. unfold rbind. rewrite (D _ Hr). apply Hk.
Qed.

Lemma ERT_bit {B} (b : bool) m (d : bool -> reader B) v :
  ERT m (d b) v -> ERT (pemit [b] ;; m) (rbind read_bit d) v.
Proof. intros H. eapply ERT_bind; [apply (ERT_pemit [b] read_bit b); reflexivity | exact H]. Qed.

Lemma ERT_cond_align (c : bool) : ERT (if c then palign_e else pemit []) (if c then r_align else rret tt) tt.
Proof. destruct c; [apply ERT_align | apply ERT_pemit_nil]. Qed.

Lemma ERT_cond_align' (c : bool) : ERT (if c then pemit [] else palign_e) (if c then rret tt else r_align) tt.
Proof. destruct c; [apply ERT_pemit_nil | apply ERT_align]. Qed.

(** the extension bit of a size-constrained string whose extension is not implemented *)
Lemma ERT_size_pre (ext ok : bool) e1 e2 :
  ERT (if ext then if ok then pemit [false] else pfail e1 else pemit [])
      (if ext then do* b <- read_bit; if b then rfail e2 else rret tt else rret tt) tt.
Proof.
  destruct ext; [|apply ERT_pemit_nil]. destruct ok; [|apply ERT_fail].
  apply ERT_pemit. intros rest. reflexivity.
Qed.

Lemma read_len_single n b rest : 0 <= n -> enc_len_single n = Ok b -> read_len (b ++ rest) = Ok (n, rest).
Proof.
  intros Hn. unfold enc_len_single. destruct (n <? 16384) eqn:E; [|discriminate]. intros H.
  assert (b = enc_len_short n) by congruence. subst b. apply read_len_short. lia.
Qed.

Lemma ERT_len_single n : 0 <= n -> ERT (plift (enc_len_single n)) read_len n.
Proof. intros Hn. apply ERT_plift. intros b Hb rest. apply read_len_single; assumption. Qed.

Lemma enc_len_short_len8 n : (length (enc_len_short n) mod 8 = 0)%nat.
Proof.
  unfold enc_len_short. destruct (n <? 128); rewrite ?app_length, !to_bits_length; reflexivity.
Qed.

Lemma ERT_size_cwn sz n :
  size_in_root sz n = true -> ERT (p_cwn n (size_lo sz) (size_hi sz) (size_nbits sz)) (r_cwn (size_lo sz) (size_hi sz) (size_nbits sz)) n.
Proof.
  intros H. pose proof (size_offset_fits sz n H). apply ERT_cwn; [unfold size_in_root in H; lia | lia].
Qed.

(** ** BIT STRING *)

Lemma ERT_bitstring named sz bytes nbits :
  ERT (p_bitstring named sz bytes nbits) (r_bitstring sz) (norm_bitstring named sz bytes nbits).
Proof.
  unfold p_bitstring, r_bitstring, norm_bitstring, bits_value.
  destruct (Z.of_nat (length bytes) * 8 <? nbits); [apply ERT_fail|]. cbv zeta.
  set (data := if named then named_bits_of sz bytes else bitvalue_bits bytes nbits).
  set (mk := fun bs : bits => VBits (bits_to_bytes bs) (Z.of_nat (length bs))).
  eapply ERT_then; [apply ERT_size_pre|].
  destruct (size_unbound sz).
  - eapply ERT_then; [apply ERT_align|].
    apply (ERT_fmap _ _ mk (map (fun b : bool => b) data)); [|rewrite map_id; reflexivity].
    apply ERT_frag. intros b. apply ERT_pemit. reflexivity.
  - destruct (negb (size_lo sz =? size_hi sz)).
    + destruct (size_in_root sz (Z.of_nat (length data))) eqn:Ein; [|apply ERT_fail].
      eapply ERT_bind; [apply ERT_size_cwn; exact Ein|]. cbv beta.
      eapply ERT_then; [apply ERT_align|]. rewrite Nat2Z.id.
      apply (ERT_fmap _ _ mk data); [|reflexivity]. apply ERT_pemit. apply read_raw_app.
    + destruct (Z.of_nat (length data) =? size_lo sz) eqn:En; [|apply ERT_fail].
      eapply ERT_then; [apply ERT_cond_align|].
      replace (Z.to_nat (size_lo sz)) with (length data) by lia.
      apply (ERT_fmap _ _ mk data); [|reflexivity]. apply ERT_pemit. apply read_raw_app.
Qed.

(** ** OCTET STRING *)

Lemma ERT_byte b : ERT (pemit (to_bits 8 b)) read_byte (b mod 256).
Proof. apply ERT_pemit. intros rest. apply (RT_byte b _ eq_refl). Qed.

Lemma ERT_bytes bytes : ERT (pemit (bytes_to_bits bytes)) (read_n (length bytes) read_byte) (norm_bytes bytes).
Proof. apply ERT_pemit. apply read_bytes_rt. Qed.

Lemma ERT_octets sz bytes : ERT (p_octets sz bytes) (r_octets sz) (VBytes (norm_bytes bytes)).
Proof.
  unfold p_octets, r_octets. cbv zeta. set (n := Z.of_nat (length bytes)).
  match goal with |- ERT (if _ then if _ then _ ;; ?r else _ else _) (if _ then do* b <- _; if b then _ else ?d else _) _ =>
    assert (Hroot : ERT r d (VBytes (norm_bytes bytes))) end.
  { destruct (size_unbound sz).
    - eapply ERT_then; [apply ERT_align|].
      apply (ERT_fmap _ _ VBytes (norm_bytes bytes)); [|reflexivity].
      apply (ERT_frag _ _ (fun b => b mod 256)). apply ERT_byte.
    - destruct (negb (size_lo sz =? size_hi sz)).
      + destruct (size_in_root sz n) eqn:Ein; [|apply ERT_fail].
        eapply ERT_bind; [apply ERT_size_cwn; exact Ein|]. cbv beta.
        eapply ERT_then; [apply ERT_align|]. unfold n. rewrite Nat2Z.id.
        apply (ERT_fmap _ _ VBytes (norm_bytes bytes)); [|reflexivity]. apply ERT_bytes.
      + destruct (n =? size_lo sz) eqn:En; [|apply ERT_fail].
        eapply ERT_then; [apply ERT_cond_align'|].
        replace (Z.to_nat (size_lo sz)) with (length bytes) by lia.
        apply (ERT_fmap _ _ VBytes (norm_bytes bytes)); [|reflexivity]. apply ERT_bytes. }
  destruct (size_ext sz); [|exact Hroot].
  destruct (size_in_root sz n) eqn:Ein.
  - apply ERT_bit. exact Hroot.
  - apply ERT_bit. eapply ERT_then; [apply ERT_align|].
    apply (ERT_fmap _ _ VBytes (norm_bytes bytes)); [|reflexivity].
    apply (ERT_frag _ _ (fun b => b mod 256)). apply ERT_byte.
Qed.

(** ** Known-multiplier character strings: power-of-two character widths
    and the class-alphabet rule of per.py *)

Definition km_ok (a : list Z) (ident : bool) (bpc : nat) : Prop :=
  if ident then forall c, In c a -> 0 <= c < 2 ^ Z.of_nat bpc
  else Z.of_nat (length a) <= 2 ^ Z.of_nat bpc.

Definition km_okb (a : list Z) (ident : bool) (bpc : nat) : bool :=
  if ident then forallb (fun c => (0 <=? c) && (c <? 2 ^ Z.of_nat bpc)) a
  else Z.of_nat (length a) <=? 2 ^ Z.of_nat bpc.

Lemma km_okb_ok a ident bpc : km_okb a ident bpc = true -> km_ok a ident bpc.
Proof.
  unfold km_okb, km_ok. destruct ident.
  - rewrite forallb_forall. intros H c Hc. specialize (H c Hc). lia.
  - lia.
Qed.

Definition pow2_vals : list nat := [0; 1; 2; 4; 8; 16; 32]%nat.

Lemma pow2_bits_vals s : In (pow2_bits s) pow2_vals.
Proof.
  unfold pow2_bits, pow2_vals. destruct (s =? 0); [cbn; auto|]. cbv zeta.
  repeat match goal with |- In (if ?c then _ else _) _ => destruct c end; cbn; auto 10.
Qed.

Lemma pow2_bits_fits s : -1 <= s -> s < 2 ^ Z.of_nat (pow2_bits s) \/ pow2_bits s = 32%nat.
Proof.
  intros Hs. unfold pow2_bits. destruct (s =? 0) eqn:E0; [left; cbn; lia|]. cbv zeta.
  pose proof (bit_length_nonneg s) as Hb.
  assert (Hlt : s < 2 ^ bit_length s).
  { destruct (Z_lt_le_dec 0 s) as [Hp|Hn]; [apply bit_length_pos; exact Hp|].
    pose proof (pow2_pos (bit_length s) Hb). lia. }
  assert (Hmono : forall K : nat, bit_length s <= Z.of_nat K -> s < 2 ^ Z.of_nat K).
  { intros K HK. assert (2 ^ bit_length s <= 2 ^ Z.of_nat K) by (apply pow2_le_mono; lia). lia. }
  destruct (bit_length s <=? 1) eqn:E1; [left; apply Hmono; lia|].
  destruct (bit_length s <=? 2) eqn:E2; [left; apply Hmono; lia|].
  destruct (bit_length s <=? 4) eqn:E4; [left; apply Hmono; lia|].
  destruct (bit_length s <=? 8) eqn:E8; [left; apply Hmono; lia|].
  destruct (bit_length s <=? 16) eqn:E16; [left; apply Hmono; lia|].
  right. reflexivity.
Qed.

(** whenever the class alphabet is selected, its characters (identity
    coding) or its indices fit the chosen width *)
Definition class_ok (k : strkind) : bool :=
  match p_class_alphabet k with
  | None => true
  | Some (ca, cident) =>
    forallb (fun bpc => implb (Z.of_nat (length ca) <? 2 ^ Z.of_nat bpc) (km_okb ca cident bpc)) pow2_vals
    && km_okb ca cident (pow2_bits (Z.of_nat (length ca) - 1))
    && (Z.of_nat (length ca) <? 2 ^ Z.of_nat 32)
  end.

Lemma class_ok_all k : class_ok k = true.
Proof. destruct k; vm_compute; reflexivity. Qed.

Lemma p_km_params_ok k alpha a ident bpc : p_km_params k alpha = Some (a, ident, bpc) -> km_ok a ident bpc.
Proof.
  unfold p_km_params. pose proof (class_ok_all k) as Hc. unfold class_ok in Hc.
  destruct (p_class_alphabet k) as [[ca cident]|]; [|discriminate].
  apply andb_prop in Hc. destruct Hc as [Hc H32]. apply andb_prop in Hc. destruct Hc as [Hall Hnone].
  destruct alpha as [al|].
  - remember (pow2_bits (Z.of_nat (length al) - 1)) as bpc0 eqn:Eb.
    destruct (Z.of_nat (length ca) <? 2 ^ Z.of_nat bpc0) eqn:El; intros H.
    + assert (a = ca /\ ident = cident /\ bpc = bpc0) as (-> & -> & ->) by (repeat split; congruence).
      apply km_okb_ok. rewrite forallb_forall in Hall.
      specialize (Hall bpc0 ltac:(rewrite Eb; apply pow2_bits_vals)). rewrite El in Hall. exact Hall.
    + assert (a = al /\ ident = false /\ bpc = bpc0) as (-> & -> & ->) by (repeat split; congruence).
      unfold km_ok. destruct (pow2_bits_fits (Z.of_nat (length al) - 1) ltac:(lia)) as [Hf|Hf]; rewrite <- Eb in Hf; [lia|].
      rewrite Hf in El. lia.
  - intros H. assert (a = ca /\ ident = cident /\ bpc = pow2_bits (Z.of_nat (length ca) - 1)) as (-> & -> & ->)
      by (repeat split; congruence).
    apply km_okb_ok. exact Hnone.
Qed.

Lemma ERT_km_char a ident bpc c :
  km_ok a ident bpc -> ERT (p_km_char a ident bpc c) (r_km_char a ident bpc) c.
Proof.
  intros Hok. unfold p_km_char, r_km_char, km_ok in *. destruct ident.
  - destruct (mem_z c a) eqn:Em; [|apply ERT_fail]. apply ERT_pemit. intros rest. unfold rbind.
    rewrite read_uint_app by (apply Hok, mem_z_in; exact Em). rewrite Em. reflexivity.
  - destruct (index_in c a 0) as [i|] eqn:Ei; [|apply ERT_fail]. apply ERT_pemit. intros rest. unfold rbind.
    destruct (index_in_spec _ _ _ _ Ei) as (Hr & Hn). replace (i - 0) with i in Hn by lia.
    rewrite read_uint_app by lia. rewrite (nth_z_of_index _ i c) by (auto; lia). reflexivity.
Qed.

Lemma ERT_kmstring k sz alpha cps : ERT (p_kmstring k sz alpha cps) (r_kmstring k sz alpha) (VStr cps).
Proof.
  unfold p_kmstring, r_kmstring.
  destruct (p_km_params k alpha) as [[[a ident] bpc]|] eqn:Ep; [|apply ERT_fail]. cbv zeta.
  pose proof (p_km_params_ok _ _ _ _ _ Ep) as Hok.
  assert (Hc : forall c, ERT (p_km_char a ident bpc c) (r_km_char a ident bpc) ((fun c => c) c))
    by (intros c; apply ERT_km_char; exact Hok).
  assert (Hv : VStr (map (fun c : Z => c) cps) = VStr cps) by (rewrite map_id; reflexivity).
  set (n := Z.of_nat (length cps)).
  eapply ERT_then; [apply ERT_size_pre|].
  destruct (size_unbound sz).
  - eapply ERT_then; [apply ERT_align|].
    apply (ERT_fmap _ _ VStr (map (fun c => c) cps)); [|exact Hv]. apply ERT_frag. exact Hc.
  - destruct (negb (size_lo sz =? size_hi sz)).
    + destruct (size_in_root sz n) eqn:Ein; [|apply ERT_fail].
      eapply ERT_bind; [apply ERT_size_cwn; exact Ein|]. cbv beta.
      eapply ERT_then; [apply ERT_cond_align|]. unfold n. rewrite Nat2Z.id.
      apply (ERT_fmap _ _ VStr (map (fun c => c) cps)); [|exact Hv]. apply ERT_all. exact Hc.
    + destruct (n =? size_lo sz) eqn:En; [|apply ERT_fail].
      eapply ERT_then; [apply ERT_cond_align|].
      replace (Z.to_nat (size_lo sz)) with (length cps) by lia.
      apply (ERT_fmap _ _ VStr (map (fun c => c) cps)); [|exact Hv]. apply ERT_all. exact Hc.
Qed.

(** ** UTF8String, OBJECT IDENTIFIER *)

Lemma ERT_utf8 cps : ERT (p_utf8 cps) r_utf8 (VStr cps).
Proof.
  unfold p_utf8, r_utf8, read_utf8. destruct (utf8_encode cps) as [bytes|] eqn:Eu; [|apply ERT_fail].
  eapply ERT_then; [apply ERT_align|].
  eapply ERT_post; [apply (ERT_frag _ _ (fun b => b mod 256)); apply ERT_byte|]. cbv beta.
  assert (Hb : map (fun b => b mod 256) bytes = bytes).
  { pose proof (utf8_encode_bytes _ _ Eu) as Hall.
    clear -Hall. induction Hall as [|b l Hb Hl IH]; [reflexivity|]. cbn [map]. rewrite IH. f_equal.
    apply Z.mod_small. exact Hb. }
  rewrite Hb, (utf8_roundtrip _ _ Eu). reflexivity.
Qed.

Lemma ERT_oid arcs : ERT (p_oid arcs) r_oid (VOid (norm_oid arcs)).
Proof.
  unfold p_oid, r_oid. eapply ERT_then; [apply ERT_align|].
  apply ERT_plift. intros b Hb rest. apply read_oid_rt. exact Hb.
Qed.

(** ** Composite types: SEQUENCE/SET, SEQUENCE OF, CHOICE, given the
    positional round trip of the nested codec (at the smaller fuel). *)

(** what a fresh Encoder object produced reads back on any octet-aligned input *)
Lemma prun_ERT {B} m (d : reader B) v bs :
  ERT m d v -> prun m = Ok bs ->
  forall rest, ((length bs + length rest) mod 8 = 0)%nat -> d (bs ++ rest) = Ok (v, rest).
Proof.
  intros H Hr. unfold prun in Hr. destruct (m pst0) as [st|] eqn:E; cbn [bind] in Hr; [|discriminate].
  destruct (H _ _ E) as (b & -> & D). rewrite pst_bits_fresh in Hr. assert (bs = b) by congruence. subst b.
  intros rest Hm. apply D. cbn [fst pst0]. lia.
Qed.

(** the open types are position independent: the UPER function gives their bits *)
Lemma p_open_types_eq l : forall st, p_open_types l st = plift (enc_open_types l) st.
Proof.
  induction l as [|[bs|] l IH]; intros st; cbn [p_open_types enc_open_types].
  - reflexivity.
  - unfold pbind, plift. destruct (enc_len_single (Z.of_nat (length (pad8 bs) / 8))) as [len|x]; cbn [bind]; [|reflexivity].
    unfold pemit; cbn [bind]. rewrite IH. unfold plift. destruct (enc_open_types l) as [r|x]; cbn [bind]; [|reflexivity].
    rewrite !pst_app_app. reflexivity.
  - apply IH.
Qed.

Lemma enc_open_types_len8 l : forall body, enc_open_types l = Ok body -> (length body mod 8 = 0)%nat.
Proof.
  induction l as [|[bs|] l IH]; intros body; cbn [enc_open_types].
  - intros H. assert (body = []) by congruence. subst. reflexivity.
  - unfold enc_len_single. destruct (Z.of_nat (length (pad8 bs) / 8) <? 16384); [|discriminate]. cbn [bind].
    destruct (enc_open_types l) as [b|] eqn:E; [|discriminate]. cbn [bind]. intros H.
    assert (body = enc_len_short (Z.of_nat (length (pad8 bs) / 8)) ++ pad8 bs ++ b) by congruence. subst.
    rewrite !app_length. pose proof (enc_len_short_len8 (Z.of_nat (length (pad8 bs) / 8))).
    destruct (pad8_length bs) as (q & Hq & _). specialize (IH _ eq_refl). lia.
  - apply IH.
Qed.

Section PCompositeRT.
  Variable encT : ty -> value -> penc.
  Variable decT : ty -> reader value.
  Variable normT : ty -> value -> value.
  Variable res : ty -> ty.
  Hypothesis HT : forall t v, ERT (encT t v) (decT t) (normT t v).

  Lemma ERT_members ms data :
    ERT (p_all (fun m => p_member encT res m data false) ms)
        (dec_members decT ms (map (fun m => presence_bit res m data) (filter has_presence_bit ms)))
        (norm_members normT res ms data).
  Proof.
    induction ms as [|m ms IH]; cbn [p_all dec_members norm_members filter map].
    - apply ERT_ret.
    - unfold p_member. destruct (m_opt m) as [| |d] eqn:Eo.
      + (* mandatory *)
        assert (Hh : has_presence_bit m = false) by (unfold has_presence_bit; rewrite Eo; reflexivity).
        rewrite Hh. destruct (lookup (m_name m) data) as [v|]; [|apply ERT_fail_l].
        eapply ERT_bind; [apply HT|]. cbv beta.
        apply (ERT_fmap _ _ (cons (m_name m, normT (m_ty m) v)) (norm_members normT res ms data)); [exact IH | reflexivity].
      + (* optional *)
        assert (Hh : has_presence_bit m = true) by (unfold has_presence_bit; rewrite Eo; reflexivity).
        rewrite Hh. cbn [map]. unfold presence_bit at 1. rewrite Eo.
        destruct (lookup (m_name m) data) as [v|]; cbv beta iota.
        * eapply ERT_bind; [apply HT|]. cbv beta.
          apply (ERT_fmap _ _ (cons (m_name m, normT (m_ty m) v)) (norm_members normT res ms data)); [exact IH | reflexivity].
        * apply ERT_nil_l. exact IH.
      + (* default *)
        assert (Hh : has_presence_bit m = true) by (unfold has_presence_bit; rewrite Eo; reflexivity).
        rewrite Hh. cbn [map]. unfold presence_bit at 1. rewrite Eo.
        destruct (lookup (m_name m) data) as [v|]; cbv beta iota.
        * destruct (is_default_value (res (m_ty m)) v d); cbn [negb orb]; cbv beta iota.
          -- apply ERT_nil_l.
             apply (ERT_fmap _ _ (cons (m_name m, d)) (norm_members normT res ms data)); [exact IH | reflexivity].
          -- eapply ERT_bind; [apply HT|]. cbv beta.
             apply (ERT_fmap _ _ (cons (m_name m, normT (m_ty m) v)) (norm_members normT res ms data)); [exact IH | reflexivity].
        * apply ERT_nil_l.
          apply (ERT_fmap _ _ (cons (m_name m, d)) (norm_members normT res ms data)); [exact IH | reflexivity].
  Qed.

  Lemma ERT_root ms data : ERT (p_root encT res ms data) (dec_root decT ms) (norm_members normT res ms data).
  Proof.
    unfold p_root, dec_root. eapply ERT_bind; [|apply ERT_members].
    apply ERT_pemit. intros rest.
    rewrite <- (map_length (fun m => presence_bit res m data) (filter has_presence_bit ms)). apply read_n_bits.
  Qed.

  (** SEQUENCE OF / SET OF *)
  Lemma ERT_seqof elem sz vs :
    ERT (p_seqof encT elem sz (VList vs)) (pd_seqof decT elem sz) (VList (map (normT elem) vs)).
  Proof.
    unfold p_seqof, pd_seqof. cbv zeta. set (n := Z.of_nat (length vs)).
    assert (Hall : ERT (p_all (encT elem) vs) (read_n (length vs) (decT elem)) (map (normT elem) vs))
      by (apply ERT_all; intros a; apply HT).
    match goal with |- ERT (if _ then if _ then _ ;; ?r else _ else _) (if _ then do* b <- _; if b then _ else ?d else _) _ =>
      assert (Hroot : ERT r d (VList (map (normT elem) vs))) end.
    { destruct (size_unbound sz).
      - eapply ERT_then; [apply ERT_align|].
        apply (ERT_fmap _ _ VList (map (normT elem) vs)); [|reflexivity].
        apply ERT_frag. intros a. apply HT.
      - destruct (negb (size_lo sz =? size_hi sz)).
        + destruct (size_in_root sz n) eqn:Ein; [|apply ERT_fail].
          eapply ERT_bind; [apply ERT_size_cwn; exact Ein|]. cbv beta. unfold n. rewrite Nat2Z.id.
          apply (ERT_fmap _ _ VList (map (normT elem) vs)); [exact Hall | reflexivity].
        + destruct (n =? size_lo sz) eqn:En; [|apply ERT_fail].
          replace (Z.to_nat (size_lo sz)) with (length vs) by lia.
          apply (ERT_fmap _ _ VList (map (normT elem) vs)); [exact Hall | reflexivity]. }
    destruct (size_ext sz); [|exact Hroot].
    destruct (size_in_root sz n) eqn:Ein.
    - apply ERT_bit. exact Hroot.
    - apply ERT_bit. eapply ERT_then; [apply ERT_align|].
      apply (ERT_fmap _ _ VList (map (normT elem) vs)); [|reflexivity].
      apply ERT_frag. intros a. apply HT.
  Qed.

  (** CHOICE *)
  Lemma ERT_choice_root root name x i m :
    find_alt name root 0 = Some (i, m) ->
    ERT (p_choice_root encT root name x) (pd_choice_root decT root) (VChoice name (normT (m_ty m) x)).
  Proof.
    intros Hf. unfold p_choice_root, pd_choice_root. rewrite Hf.
    destruct (find_alt_spec _ _ _ _ _ Hf) as (Hr & Hn & Hm). replace (i - 0) with i in Hn by lia.
    eapply (ERT_bind _ _ _ _ i).
    - destruct (1 <? length root)%nat eqn:E1.
      + apply ERT_cwn; [lia|]. unfold choice_root_bits.
        apply (fits_bit_length (i - 0) (Z.of_nat (length root) - 1)). lia.
      + assert (i = 0) by lia. subst i. apply ERT_pemit_nil.
    - cbv beta. rewrite (nth_z_of_index _ i m) by (auto; lia).
      apply (ERT_fmap _ _ (VChoice (m_name m)) (normT (m_ty m) x)); [apply HT | rewrite Hm; reflexivity].
  Qed.

  Lemma ERT_choice root ext name x m :
    (match find_alt name root 0 with
     | Some (_, m') => m' = m
     | None => match ext with
               | Some adds => match find_alt name adds 0 with Some (_, m') => m' = m | None => False end
               | None => False
               end
     end) ->
    ERT (p_choice encT root ext (VChoice name x)) (pd_choice decT root ext) (VChoice name (normT (m_ty m) x)).
  Proof.
    unfold p_choice, pd_choice. intros Hm. destruct ext as [adds|].
    - destruct (find_alt name root 0) as [[i m']|] eqn:Ef.
      + subst m'. apply ERT_bit. cbn [negb]. eapply ERT_choice_root; eauto.
      + destruct (find_alt name adds 0) as [[i m']|] eqn:Ea; [|contradiction]. subst m'.
        destruct (find_alt_spec _ _ _ _ _ Ea) as (Hr & Hn & Hnm). replace (i - 0) with i in Hn by lia.
        intros st st' H.
        destruct (prun (encT (m_ty m) x)) as [body|] eqn:Eb; cbn [bind] in H; [|discriminate]. cbv zeta in H.
        revert st st' H. change (ERT (pemit [true];; plift (enc_small_nonneg i);; palign_e;;
                                      plift (enc_len_single (Z.of_nat (length (pad8 body) / 8)));; pemit (pad8 body))
                                     (pd_choice decT root (Some adds)) (VChoice name (normT (m_ty m) x))).
        unfold pd_choice. apply ERT_bit. cbn [negb].
        eapply ERT_bind; [apply ERT_plift; intros b Hb rest; apply (read_small_nonneg_rt i); [lia | exact Hb]|]. cbv beta.
        apply ERT_aligned.
        intros st st' Hst H. unfold pbind, plift, pemit, enc_len_single in H.
        destruct (Z.of_nat (length (pad8 body) / 8) <? 16384) eqn:El; cbn [bind] in H; [|discriminate].
        rewrite pst_app_app in H.
        exists (enc_len_short (Z.of_nat (length (pad8 body) / 8)) ++ pad8 body). split; [congruence|].
        intros rest Hrest. destruct (pad8_length body) as (q & Hq & Hle & Hdiv).
        pose proof (enc_len_short_len8 (Z.of_nat (length (pad8 body) / 8))) as Hl8.
        rewrite !app_length in Hrest.
        assert (Hrest8 : (length rest mod 8 = 0)%nat) by lia.
        unfold rbind at 1. rewrite <- app_assoc. rewrite read_len_short by lia. cbv zeta.
        rewrite (nth_z_of_index _ i m) by (auto; lia).
        unfold pad8 in Hq, Hdiv |- *. rewrite app_length, repeat_length in Hq, Hdiv.
        set (padn := ((8 - length body mod 8) mod 8)%nat) in *.
        rewrite <- app_assoc. unfold rbind at 1. unfold with_consumed.
        rewrite (prun_ERT _ _ _ _ (HT (m_ty m) x) Eb) by (rewrite app_length, repeat_length; lia).
        rewrite !app_length, repeat_length.
        replace (length body + (padn + length rest) - (padn + length rest))%nat with (length body) by lia.
        assert (Hnb : Z.to_nat (8 * Z.of_nat ((length body + padn) / 8)) = (length body + padn)%nat) by (rewrite Hdiv; lia).
        rewrite Hnb.
        destruct (length body + padn <? length body)%nat eqn:Elt; [lia|].
        replace (length body + padn - length body)%nat with padn by lia.
        unfold rbind. unfold skip_bits. rewrite app_length, repeat_length.
        destruct (padn + length rest <? padn)%nat eqn:E2; [lia|].
        rewrite skipn_app, repeat_length, Nat.sub_diag. cbn [skipn].
        rewrite skipn_all2 by (rewrite repeat_length; lia). cbn [app]. rewrite Hnm. reflexivity.
    - destruct (find_alt name root 0) as [[i m']|] eqn:Ef; [|contradiction]. subst m'.
      eapply ERT_choice_root; eauto.
  Qed.
  (** Extension additions of SEQUENCE/SET *)
  Fixpoint pnorm_adds (adds : list (addition_of ty)) (data : list (string * value)) : list (string * value) :=
    match adds with
    | [] => []
    | (isgroup, ms) :: r =>
      if isgroup then
        if p_group_missing_first encT res ms data
             (pst_app pst0 (map (fun m => presence_bit res m data) (filter has_presence_bit ms))) then []
        else
          match p_group encT res ms data with
          | Ok bs => (if (0 <? length bs)%nat then norm_members normT res ms data else []) ++ pnorm_adds r data
          | Err _ => []
          end
      else
        match ms with
        | [m] =>
          match lookup (m_name m) data, m_opt m with
          | None, Mandatory => []
          | found, _ =>
            match prun (p_member encT res m data true) with
            | Ok _ =>
              (match found with
               | Some v => [(m_name m, normT (m_ty m) v)]
               | None => []
               end) ++ pnorm_adds r data
            | Err _ => []
            end
          end
        | _ => []
        end
    end.

  Lemma pd_adds_all_false k adds rest : pd_adds decT (repeat false k) adds rest = Ok ([], rest).
  Proof. exact (dec_adds_all_false decT k adds rest). Qed.

  Lemma pd_adds_skip_all processed body k rest :
    enc_open_types processed = Ok body ->
    pd_adds decT (map is_some processed ++ repeat false k) [] (body ++ rest) = Ok ([], rest).
  Proof. exact (dec_adds_skip_all decT processed body k rest). Qed.

  Lemma p_group_present ms data bs :
    p_group encT res ms data = Ok bs -> (0 < length bs)%nat -> prun (p_root encT res ms data) = Ok bs.
  Proof.
    unfold p_group. destruct (prun (p_root encT res ms data)) as [b|] eqn:E; [|discriminate]. cbn [bind].
    destruct (all_false b && (length b =? length (filter has_presence_bit ms))%nat).
    - intros H Hl. assert (bs = []) by congruence. subst. cbn in Hl. lia.
    - intros H _. congruence.
  Qed.

  (** an open type written on an octet boundary is read back, and the decoder
      resynchronises on the next octet boundary *)
  Lemma p_open_type_rt (bs : bits) (fields : list (string * value)) adds tail :
    (forall rest, ((length bs + length rest) mod 8 = 0)%nat ->
       pd_one_addition decT adds (Z.of_nat (length (pad8 bs) / 8)) (bs ++ rest) = Ok (fields, rest)) ->
    (Z.of_nat (length (pad8 bs) / 8) <? 16384) = true ->
    (length tail mod 8 = 0)%nat ->
    forall (k : list (string * value) -> reader (list (string * value))),
    (do* open_len <- read_len;
     do* (fs, consumed) <- with_consumed (pd_one_addition decT adds open_len);
     do* _ <- (let al := (consumed mod 8)%nat in if (al =? 0)%nat then rret tt else skip_bits (8 - al));
     k fs) (enc_len_short (Z.of_nat (length (pad8 bs) / 8)) ++ pad8 bs ++ tail) = k fields tail.
  Proof.
    intros Hd Hl Ht k. unfold rbind at 1. rewrite read_len_short by lia.
    destruct (pad8_length bs) as (q & Hq & Hle & Hdiv).
    unfold rbind at 1. unfold with_consumed, pad8. rewrite <- app_assoc. rewrite Hd.
    - rewrite !app_length, repeat_length.
      replace (length bs + ((8 - length bs mod 8) mod 8 + length tail) - ((8 - length bs mod 8) mod 8 + length tail))%nat
        with (length bs) by lia.
      unfold rbind at 1. rewrite skip_pad. reflexivity.
    - unfold pad8 in Hq. rewrite app_length, repeat_length in *. lia.
  Qed.

  Lemma pd_adds_present (bs : bits) (fields : list (string * value)) rest_p adds_dec more k rest
        (tailres : list (string * value)) :
    (forall r, ((length bs + length r) mod 8 = 0)%nat ->
       pd_one_addition decT adds_dec (Z.of_nat (length (pad8 bs) / 8)) (bs ++ r) = Ok (fields, r)) ->
    enc_open_types (Some bs :: rest_p) = Ok more ->
    (length rest mod 8 = 0)%nat ->
    (forall body', enc_open_types rest_p = Ok body' ->
       pd_adds decT (map is_some rest_p ++ repeat false k) (tl adds_dec) (body' ++ rest) = Ok (tailres, rest)) ->
    pd_adds decT (map is_some (Some bs :: rest_p) ++ repeat false k) adds_dec (more ++ rest)
    = Ok (fields ++ tailres, rest).
  Proof.
    intros Hone Hm Hrest Htail. cbn [enc_open_types] in Hm. unfold enc_len_single in Hm.
    destruct (Z.of_nat (length (pad8 bs) / 8) <? 16384) eqn:El; [|discriminate]. cbn [bind] in Hm.
    destruct (enc_open_types rest_p) as [body'|] eqn:Em; [|discriminate]. cbn [bind] in Hm.
    assert (more = enc_len_short (Z.of_nat (length (pad8 bs) / 8)) ++ pad8 bs ++ body') by congruence. subst more.
    cbn [map app is_some pd_adds negb]. rewrite <- !app_assoc.
    pose proof (enc_open_types_len8 _ _ Em) as Hb8.
    rewrite (p_open_type_rt bs fields adds_dec _ Hone El) by (rewrite app_length; lia).
    unfold rbind. rewrite (Htail _ eq_refl). reflexivity.
  Qed.

  (** Encoder knows [common ++ extra_enc], decoder knows [common ++ extra_dec],
      one of the two extras is empty. *)
  Lemma pd_adds_compat common data : forall extra_enc extra_dec processed body k rest,
    extra_enc = [] \/ extra_dec = [] ->
    p_adds encT res (common ++ extra_enc) data = Ok processed ->
    enc_open_types processed = Ok body ->
    (length rest mod 8 = 0)%nat ->
    pd_adds decT (map is_some processed ++ repeat false k) (common ++ extra_dec) (body ++ rest)
    = Ok (pnorm_adds common data, rest).
  Proof.
    induction common as [|[isgroup ms] common IH]; intros extra_enc extra_dec processed body k rest Hx.
    - cbn [app pnorm_adds]. destruct Hx as [-> | ->].
      + cbn [p_adds]. intros H Hb _. assert (processed = []) by congruence. subst. cbn in Hb.
        assert (body = []) by congruence. subst. cbn [map app]. apply pd_adds_all_false.
      + intros _ Hb _. apply pd_adds_skip_all. exact Hb.
    - cbn [app p_adds pnorm_adds]. destruct isgroup.
      + (* addition group *)
        destruct (p_group_missing_first encT res ms data
                    (pst_app pst0 (map (fun m => presence_bit res m data) (filter has_presence_bit ms)))).
        { intros H Hb _. assert (processed = []) by congruence. subst. cbn in Hb.
          assert (body = []) by congruence. subst. cbn [map app]. apply pd_adds_all_false. }
        destruct (p_group encT res ms data) as [bs|x] eqn:Eg; cbn [bind]; [|discriminate].
        destruct (p_adds encT res (common ++ extra_enc) data) as [rest_p|] eqn:Er; [|discriminate]. cbn [bind].
        intros H. destruct (0 <? length bs)%nat eqn:Epos.
        * assert (processed = Some bs :: rest_p) by congruence. subst processed. intros Hb Hrest.
          apply (pd_adds_present bs (norm_members normT res ms data) rest_p _ body k rest (pnorm_adds common data));
            [|exact Hb|exact Hrest|].
          -- intros r Hr. cbn [pd_one_addition].
             apply (prun_ERT _ _ _ _ (ERT_root ms data)); [|exact Hr].
             apply p_group_present; [exact Eg|]. apply Nat.ltb_lt. exact Epos.
          -- intros body' Hb'. cbn [tl]. apply (IH _ _ _ _ _ _ Hx Er Hb' Hrest).
        * assert (processed = None :: rest_p) by congruence. subst processed. cbn [enc_open_types].
          intros Hb Hrest. cbn [map app is_some pd_adds negb tl]. cbn [app]. apply (IH _ _ _ _ _ _ Hx Er Hb Hrest).
      + (* single addition *)
        destruct ms as [|m [|m' ms']]; [discriminate| |discriminate].
        destruct (lookup (m_name m) data) as [v|] eqn:Elk.
        * (* present *)
          assert (Henc : p_member encT res m data true = encT (m_ty m) v).
          { unfold p_member. rewrite Elk. destruct (m_opt m); try reflexivity. rewrite Bool.orb_true_r. reflexivity. }
          assert (Hgoal : (let* bs := prun (p_member encT res m data true) in
                           let* rest0 := p_adds encT res (common ++ extra_enc) data in
                           Ok ((if (0 <? length bs)%nat || true then Some bs else None) :: rest0)) = Ok processed ->
                          enc_open_types processed = Ok body ->
                          (length rest mod 8 = 0)%nat ->
                          pd_adds decT (map is_some processed ++ repeat false k) ((false, [m]) :: common ++ extra_dec) (body ++ rest) =
                          Ok (match prun (p_member encT res m data true) with
                              | Ok _ => [(m_name m, normT (m_ty m) v)] ++ pnorm_adds common data
                              | Err _ => []
                              end, rest)).
          { rewrite Henc. destruct (prun (encT (m_ty m) v)) as [bs|x] eqn:Eb; cbn [bind]; [|discriminate].
            destruct (p_adds encT res (common ++ extra_enc) data) as [rest_p|] eqn:Er; [|discriminate]. cbn [bind].
            intros H. rewrite Bool.orb_true_r in H.
            assert (processed = Some bs :: rest_p) by congruence. subst processed. intros Hb Hrest.
            apply (pd_adds_present bs [(m_name m, normT (m_ty m) v)] rest_p _ body k rest (pnorm_adds common data));
              [|exact Hb|exact Hrest|].
            - intros r Hr. cbn [pd_one_addition]. unfold rbind.
              rewrite (prun_ERT _ _ _ _ (HT (m_ty m) v) Eb r Hr). reflexivity.
            - intros body' Hb'. cbn [tl]. apply (IH _ _ _ _ _ _ Hx Er Hb' Hrest). }
          destruct (m_opt m); exact Hgoal.
        * (* absent *)
          destruct (m_opt m) eqn:Eo.
          -- intros H Hb _. assert (processed = []) by congruence. subst. cbn in Hb.
             assert (body = []) by congruence. subst. cbn [map app]. apply pd_adds_all_false.
          -- assert (Henc : prun (p_member encT res m data true) = Ok [])
               by (unfold p_member; rewrite Elk, Eo; reflexivity).
             rewrite Henc. cbn [bind].
             destruct (p_adds encT res (common ++ extra_enc) data) as [rest_p|] eqn:Er; [|discriminate]. cbn [bind].
             intros H. cbn [length Nat.ltb Nat.leb orb] in H.
             assert (processed = None :: rest_p) by congruence. subst processed. cbn [enc_open_types].
             intros Hb Hrest. cbn [map app is_some pd_adds negb tl]. apply (IH _ _ _ _ _ _ Hx Er Hb Hrest).
          -- assert (Henc : prun (p_member encT res m data true) = Ok [])
               by (unfold p_member; rewrite Elk, Eo; reflexivity).
             rewrite Henc. cbn [bind].
             destruct (p_adds encT res (common ++ extra_enc) data) as [rest_p|] eqn:Er; [|discriminate]. cbn [bind].
             intros H. cbn [length Nat.ltb Nat.leb orb] in H.
             assert (processed = None :: rest_p) by congruence. subst processed. cbn [enc_open_types].
             intros Hb Hrest. cbn [map app is_some pd_adds negb tl]. apply (IH _ _ _ _ _ _ Hx Er Hb Hrest).
  Qed.

  Lemma p_adds_length adds data : forall processed,
    p_adds encT res adds data = Ok processed -> (length processed <= length adds)%nat.
  Proof.
    induction adds as [|[isgroup ms] adds IH]; intros processed; cbn [p_adds].
    - intros H. assert (processed = []) by congruence. subst. cbn. lia.
    - assert (Hstop : Ok [] = Ok processed -> (length processed <= length ((isgroup, ms) :: adds))%nat).
      { intros H. assert (processed = []) by congruence. subst. cbn. lia. }
      assert (Hcons : forall (bs : bits) (c : bool),
                 (let* bs0 := Ok bs in let* rest0 := p_adds encT res adds data in
                  Ok ((if c then Some bs0 else None) :: rest0)) = Ok processed ->
                 (length processed <= length ((isgroup, ms) :: adds))%nat).
      { intros bs c. cbn [bind]. destruct (p_adds encT res adds data) as [rest_p|]; [|discriminate]. cbn [bind].
        intros H. assert (processed = (if c then Some bs else None) :: rest_p) by congruence. subst.
        specialize (IH _ eq_refl). simpl length. clear Hstop H. apply le_n_S. exact IH. }
      destruct isgroup.
      + destruct (p_group_missing_first encT res ms data _); [exact Hstop|].
        destruct (p_group encT res ms data) as [bs|x]; [|discriminate]. apply Hcons.
      + destruct ms as [|m [|m' ms']]; try discriminate.
        destruct (lookup (m_name m) data) as [v|]; destruct (m_opt m);
          try exact Hstop;
          (destruct (prun (p_member encT res m data true)) as [bs|x]; [|discriminate]; apply Hcons).
  Qed.

  Lemma pnorm_adds_none_gen common data : forall extra processed,
    p_adds encT res (common ++ extra) data = Ok processed -> existsb is_some processed = false ->
    pnorm_adds common data = [].
  Proof.
    induction common as [|[isgroup ms] common IH]; intros extra processed; cbn [app p_adds pnorm_adds]; [reflexivity|].
    destruct isgroup.
    - destruct (p_group_missing_first encT res ms data _); [reflexivity|].
      destruct (p_group encT res ms data) as [bs|x]; cbn [bind]; [|reflexivity].
      destruct (p_adds encT res (common ++ extra) data) as [rest_p|] eqn:Er; [|discriminate]. cbn [bind]. intros H.
      destruct (0 <? length bs)%nat.
      + assert (processed = Some bs :: rest_p) by congruence. subst. cbn. discriminate.
      + assert (processed = None :: rest_p) by congruence. subst. cbn [existsb is_some orb]. intros He.
        cbn [app]. apply (IH _ _ Er He).
    - destruct ms as [|m [|m' ms']]; try reflexivity.
      assert (Hmain : forall found,
                 (found = lookup (m_name m) data) ->
                 (let* bs := prun (p_member encT res m data true) in
                  let* rest0 := p_adds encT res (common ++ extra) data in
                  Ok ((if (0 <? length bs)%nat || match found with Some _ => true | None => false end
                       then Some bs else None) :: rest0)) = Ok processed ->
                 existsb is_some processed = false ->
                 match prun (p_member encT res m data true) with
                 | Ok _ => (match found with Some v => [(m_name m, normT (m_ty m) v)] | None => [] end) ++ pnorm_adds common data
                 | Err _ => []
                 end = []).
      { intros found Hf. destruct (prun (p_member encT res m data true)) as [bs|x]; cbn [bind]; [|reflexivity].
        destruct (p_adds encT res (common ++ extra) data) as [rest_p|] eqn:Er; [|discriminate]. cbn [bind]. intros H.
        destruct found as [v|].
        - rewrite Bool.orb_true_r in H. assert (processed = Some bs :: rest_p) by congruence. subst. cbn. discriminate.
        - rewrite Bool.orb_false_r in H. destruct (0 <? length bs)%nat.
          + assert (processed = Some bs :: rest_p) by congruence. subst. cbn. discriminate.
          + assert (processed = None :: rest_p) by congruence. subst. cbn [existsb is_some orb]. intros He.
            cbn [app]. apply (IH _ _ Er He). }
      destruct (lookup (m_name m) data) as [v|] eqn:Elk; destruct (m_opt m); try reflexivity;
        try (apply (Hmain (Some v)); reflexivity); apply (Hmain None); reflexivity.
  Qed.

  Definition pnorm_seq (root : list (member_of ty)) (ext : option (list (addition_of ty)))
             (data : list (string * value)) : value :=
    VSeq (norm_members normT res root data ++ match ext with Some adds => pnorm_adds adds data | None => [] end).

  (** SEQUENCE/SET: encoder knows [common ++ extra_enc], decoder [common ++ extra_dec] *)
  Lemma ERT_seq_compat root common extra_enc extra_dec data :
    extra_enc = [] \/ extra_dec = [] ->
    ERT (p_seq encT res root (Some (common ++ extra_enc)) (VSeq data))
        (pd_seq decT root (Some (common ++ extra_dec)))
        (VSeq (norm_members normT res root data ++ pnorm_adds common data)).
  Proof.
    intros Hx st st' H. unfold p_seq in H.
    assert (Hp : (match common ++ extra_enc with [] => Ok [] | _ :: _ => p_adds encT res (common ++ extra_enc) data end)
                 = p_adds encT res (common ++ extra_enc) data) by (destruct (common ++ extra_enc); reflexivity).
    rewrite Hp in H. clear Hp.
    destruct (p_adds encT res (common ++ extra_enc) data) as [processed|] eqn:Ep; cbn [bind] in H; [|discriminate].
    revert st st' H. unfold pd_seq.
    destruct (existsb is_some processed) eqn:Ee; cbn [negb]; intros st st' H.
    - (* additions present *)
      pose proof (p_adds_length _ _ _ Ep) as Hlen.
      assert (Hne : (1 <= length processed)%nat) by (destruct processed; [discriminate | cbn [length]; lia]).
      set (n := length (common ++ extra_enc)) in *.
      set (pres := map is_some processed ++ repeat false (n - length processed)) in *.
      assert (Hpl : length pres = n) by (unfold pres; rewrite app_length, map_length, repeat_length; lia).
      revert st st' H. apply ERT_bit.
      eapply ERT_bind; [apply ERT_root|]. cbv beta iota.
      eapply ERT_bind; [apply ERT_plift; intros l Hl rest; apply (read_small_len_rt (Z.of_nat n)); [lia | exact Hl]|].
      cbv beta. rewrite Nat2Z.id.
      eapply ERT_bind; [apply (ERT_pemit pres (read_raw n) pres); intros rest; rewrite <- Hpl; apply read_raw_app|].
      cbv beta. apply ERT_aligned.
      intros st st' Hst H. rewrite p_open_types_eq in H. unfold plift in H.
      destruct (enc_open_types processed) as [body|] eqn:Eb; cbn [bind] in H; [|discriminate].
      exists body. split; [congruence|]. intros rest Hr.
      pose proof (enc_open_types_len8 _ _ Eb) as Hb8.
      unfold rbind. unfold pres.
      rewrite (pd_adds_compat _ _ _ _ _ _ _ _ Hx Ep Eb) by lia. reflexivity.
    - (* no additions present *)
      revert st st' H. apply ERT_bit.
      apply (ERT_fmap _ _ VSeq (norm_members normT res root data)); [apply ERT_root|].
      rewrite (pnorm_adds_none_gen _ _ _ _ Ep Ee), app_nil_r. reflexivity.
  Qed.

  Lemma ERT_seq root ext data :
    ERT (p_seq encT res root ext (VSeq data)) (pd_seq decT root ext) (pnorm_seq root ext data).
  Proof.
    unfold pnorm_seq. destruct ext as [adds|].
    - pose proof (ERT_seq_compat root adds [] [] data (or_introl eq_refl)) as H.
      rewrite app_nil_r in H. exact H.
    - unfold p_seq, pd_seq. rewrite app_nil_r.
      apply (ERT_fmap _ _ VSeq (norm_members normT res root data)); [apply ERT_root | reflexivity].
  Qed.
End PCompositeRT.

(** ** The type-directed codec *)
Section PMain.
  Variable numeric : bool.
  Variable e : env.

  (** The value the aligned decoder returns for an encoded value (same shape
      as [UperRT.norm]; which extension additions count as present is decided
      by the aligned encoders). *)
  Fixpoint pnorm (fuel : nat) (t : ty) (v : value) {struct fuel} : value :=
    match fuel with
    | O => v
    | S f =>
      match t with
      | TNull => VNone
      | TBits named sz =>
        match v with
        | VBits b n => norm_bitstring (match named with Some _ => true | None => false end) sz b n
        | _ => v
        end
      | TOctets _ => match v with VBytes b => VBytes (norm_bytes b) | _ => v end
      | TOid => match v with VOid a => VOid (norm_oid a) | _ => v end
      | TSeq _ root ext =>
        match v with
        | VSeq data => pnorm_seq (penc_ty numeric e f) (pnorm f) (resolve e f) root ext data
        | _ => v
        end
      | TSeqOf _ elem _ => match v with VList vs => VList (map (pnorm f elem) vs) | _ => v end
      | TChoice root ext =>
        match v with
        | VChoice name x =>
          match find_alt name root 0 with
          | Some (_, m) => VChoice name (pnorm f (m_ty m) x)
          | None =>
            match ext with
            | Some adds =>
              match find_alt name adds 0 with
              | Some (_, m) => VChoice name (pnorm f (m_ty m) x)
              | None => v
              end
            | None => v
            end
          end
        | _ => v
        end
      | TRef n => match lookup n e with Some t' => pnorm f t' v | None => v end
      | TTag _ t' => pnorm f t' v
      | _ => v
      end
    end.

  Theorem penc_pdec_rt : forall fuel t v,
    ERT (penc_ty numeric e fuel t v) (pdec_ty numeric e fuel t) (pnorm fuel t v).
  Proof.
    induction fuel as [|f IH]; intros t v; [apply ERT_fail|].
    destruct t; cbn [penc_ty pdec_ty pnorm].
    - (* BOOLEAN *)
      destruct v; try apply ERT_fail.
      apply (ERT_fmap _ _ VBool b); [|reflexivity]. apply ERT_pemit. reflexivity.
    - (* NULL *)
      apply ERT_pemit_nil.
    - (* INTEGER *)
      destruct v; try apply ERT_fail. apply (ERT_fmap _ _ VInt z); [apply ERT_int | reflexivity].
    - (* ENUMERATED *)
      apply ERT_plift. intros b Hb rest. apply read_enum_rt. exact Hb.
    - (* BIT STRING *)
      destruct v; try apply ERT_fail. apply ERT_bitstring.
    - (* OCTET STRING *)
      destruct v; try apply ERT_fail. apply ERT_octets.
    - (* character strings *)
      destruct k; destruct v; try apply ERT_fail; first [apply ERT_utf8 | apply ERT_kmstring].
    - (* OBJECT IDENTIFIER *)
      destruct v; try apply ERT_fail. apply ERT_oid.
    - (* SEQUENCE / SET *)
      destruct v; try apply ERT_fail.
      apply ERT_seq. exact IH.
    - (* SEQUENCE OF / SET OF *)
      destruct v; try apply ERT_fail.
      apply (ERT_seqof _ _ _ (resolve e f) IH).
    - (* CHOICE *)
      destruct v; try apply ERT_fail.
      destruct (find_alt alt root 0) as [[i m]|] eqn:Ef.
      + apply (ERT_choice _ _ _ IH root ext alt v m).
        rewrite Ef. reflexivity.
      + destruct ext as [adds|].
        * destruct (find_alt alt adds 0) as [[i m]|] eqn:Ea.
          -- apply (ERT_choice _ _ _ IH root (Some adds) alt v m).
             rewrite Ef, Ea. reflexivity.
          -- unfold p_choice. rewrite Ef, Ea. apply ERT_fail.
        * unfold p_choice, p_choice_root. rewrite Ef. apply ERT_fail.
    - (* reference *)
      destruct (lookup name e) as [t'|]; [apply IH | apply ERT_fail].
    - (* tagged *)
      apply IH.
  Qed.
End PMain.

(** ** Statements for re-export *)

(** Bit level, positional: an encoder state with [n] bits; the encoder only
    appends ([pst_bits st' = pst_bits st ++ b]); the decoder reads the value
    back from [b ++ rest] for every [rest] that completes whole octets. *)
Theorem per_roundtrip_bits numeric e fuel t v st st' :
  penc_ty numeric e fuel t v st = Ok st' ->
  exists b, st' = pst_app st b /\ pst_bits st' = pst_bits st ++ b /\
    forall rest, ((fst st + length b + length rest) mod 8 = 0)%nat ->
      pdec_ty numeric e fuel t (b ++ rest) = Ok (pnorm numeric e fuel t v, rest).
Proof.
  intros H. destruct (penc_pdec_rt numeric e fuel t v _ _ H) as (b & -> & D).
  exists b. split; [reflexivity|]. split; [apply pst_bits_app | exact D].
Qed.

(** the same with the position given by the bits the Encoder object holds *)
Corollary per_roundtrip_bits_wf numeric e fuel t v st st' :
  pst_wf st -> penc_ty numeric e fuel t v st = Ok st' ->
  exists b, pst_bits st' = pst_bits st ++ b /\ pst_wf st' /\
    forall rest, ((length (pst_bits st) + length b + length rest) mod 8 = 0)%nat ->
      pdec_ty numeric e fuel t (b ++ rest) = Ok (pnorm numeric e fuel t v, rest).
Proof.
  intros Hwf H. destruct (per_roundtrip_bits _ _ _ _ _ _ _ H) as (b & -> & Hb & D).
  exists b. split; [exact Hb|]. split; [apply pst_wf_app; exact Hwf|].
  rewrite <- (pst_wf_bits _ Hwf). exact D.
Qed.

(** a fresh Encoder object: what [prun] returns reads back on octet-aligned input *)
Corollary per_roundtrip_fresh numeric e fuel t v bs :
  prun (penc_ty numeric e fuel t v) = Ok bs ->
  forall rest, ((length bs + length rest) mod 8 = 0)%nat ->
    pdec_ty numeric e fuel t (bs ++ rest) = Ok (pnorm numeric e fuel t v, rest).
Proof. intros H. apply (prun_ERT _ _ _ _ (penc_pdec_rt numeric e fuel t v) H). Qed.

(** ** Octet level: per.CompiledType.encode / decode *)
Theorem per_roundtrip numeric fuel e t v data :
  per_encode numeric fuel e t v = Ok data ->
  forall tail, exists n,
    per_decode numeric fuel e t (data ++ tail) = Ok (pnorm numeric e fuel t v, n) /\
    (n <= 8 * length data)%nat /\ (8 * length data < n + 8)%nat.
Proof.
  unfold per_encode, per_decode. destruct (prun (penc_ty numeric e fuel t v)) as [bs|] eqn:E; [|discriminate].
  cbn [bind]. intros H tail. assert (data = bits_to_bytes bs) by congruence. subst data.
  rewrite bytes_to_bits_app, bytes_bits_roundtrip, <- app_assoc.
  pose proof (bits_to_bytes_length bs) as Hl.
  rewrite (per_roundtrip_fresh numeric e fuel t v bs E).
  - exists (length bs). split.
    + f_equal. f_equal. rewrite !app_length. lia.
    + pose proof (Nat.mod_upper_bound (8 - length bs mod 8) 8 ltac:(lia)). lia.
  - rewrite app_length, repeat_length, bytes_to_bits_length. lia.
Qed.

(** C16 for encoder outputs: every strict octet prefix of an encoding is a decode error. *)
Theorem per_truncation numeric fuel e t v data :
  per_encode numeric fuel e t v = Ok data ->
  forall k, (k < length data)%nat ->
    exists x, per_decode numeric fuel e t (firstn k data) = Err x /\ is_decode_error x = true.
Proof.
  intros H k Hk. destruct (per_roundtrip _ _ _ _ _ _ H []) as (n & Hd & Hle & Hgt).
  rewrite app_nil_r in Hd.
  apply (per_decode_truncation _ _ _ _ _ _ _ Hd); [lia | exact Hk].
Qed.

(** appended octets are left alone (re-synchronisation, C01/C07) *)
Theorem per_roundtrip_ext_stable numeric fuel e t v data tail n :
  per_encode numeric fuel e t v = Ok data ->
  per_decode numeric fuel e t data = Ok (pnorm numeric e fuel t v, n) ->
  per_decode numeric fuel e t (data ++ tail) = Ok (pnorm numeric e fuel t v, n).
Proof. intros _ H. apply per_decode_ext_stable. exact H. Qed.

Print Assumptions per_roundtrip_bits.
Print Assumptions per_roundtrip.
Print Assumptions per_truncation.
Print Assumptions PB_pdec.
