(** C07 for the UPER model: extension additions at a node keep versions
    interoperable.  V2 = V1 with further additions appended after the existing
    ones (SEQUENCE/SET additions and groups, CHOICE alternatives, ENUMERATED
    items); everything below the node is the same in both versions, so the
    nested codec obeys the round-trip theorem. *)
From Asn1V Require Import Base.Prelude Base.Sweep Base.Bits Base.BitsProofs
     Syntax.Asn1 Per.UperImpl Per.UperPrim Per.UperPB Per.UperRT.

Ltac Zify.zify_post_hook ::= Z.div_mod_to_equations.

Section Ext.
  Variable encT : ty -> value -> result bits.
  Variable decT : ty -> reader value.
  Variable normT : ty -> value -> value.
  Variable res : ty -> ty.
  Hypothesis HT : forall t v bs, encT t v = Ok bs -> forall rest, decT t (bs ++ rest) = Ok (normT t v, rest).

  (** an open type of an addition the decoder does not know is skipped by its length *)
  Lemma open_type_skip (bs : bits) tail :
    (Z.of_nat (length (pad8 bs) / 8) <? 16384) = true ->
    forall (k : list (string * value) -> reader (list (string * value))),
    (do* open_len <- read_len;
     do* (fs, consumed) <- with_consumed (dec_one_addition decT [] open_len);
     do* _ <- (let al := (consumed mod 8)%nat in if (al =? 0)%nat then rret tt else skip_bits (8 - al));
     k fs) (enc_len_short (Z.of_nat (length (pad8 bs) / 8)) ++ pad8 bs ++ tail) = k [] tail.
  Proof.
    intros Hl k. unfold rbind at 1. rewrite read_len_short by lia.
    destruct (pad8_length bs) as (q & Hq & Hle & Hdiv).
    unfold rbind at 1. unfold with_consumed. cbn [dec_one_addition]. unfold rbind at 1.
    assert (Hs : skip_bits (Z.to_nat (8 * Z.of_nat (length (pad8 bs) / 8))) (pad8 bs ++ tail) = Ok (tt, tail)).
    { unfold skip_bits. rewrite Hdiv. replace (Z.to_nat (8 * Z.of_nat q)) with (length (pad8 bs)) by lia.
      rewrite app_length. destruct (length (pad8 bs) + length tail <? length (pad8 bs))%nat eqn:E; [lia|].
      rewrite skipn_app, Nat.sub_diag. cbn [skipn]. rewrite skipn_all. reflexivity. }
    rewrite Hs. unfold rret at 1. rewrite app_length.
    replace (length (pad8 bs) + length tail - length tail)%nat with (length (pad8 bs)) by lia.
    unfold rbind at 1. rewrite Hq. replace ((8 * q) mod 8)%nat with 0%nat by (rewrite Nat.mul_comm, Nat.mod_mul; lia).
    cbn [Nat.eqb]. reflexivity.
  Qed.

  Lemma dec_adds_skip_all processed : forall body k rest,
    enc_open_types processed = Ok body ->
    dec_adds decT (map is_some processed ++ repeat false k) [] (body ++ rest) = Ok ([], rest).
  Proof.
    induction processed as [|[bs|] processed IH]; intros body k rest; cbn [enc_open_types map app is_some].
    - intros H. assert (body = []) by congruence. subst. apply dec_adds_all_false.
    - unfold enc_len_single. destruct (Z.of_nat (length (pad8 bs) / 8) <? 16384) eqn:El; [|discriminate]. cbn [bind].
      destruct (enc_open_types processed) as [more|] eqn:Em; [|discriminate]. cbn [bind]. intros H.
      assert (body = enc_len_short (Z.of_nat (length (pad8 bs) / 8)) ++ pad8 bs ++ more) by congruence. subst body.
      cbn [dec_adds negb tl]. rewrite <- !app_assoc. rewrite (open_type_skip bs _ El).
      unfold rbind. rewrite (IH _ _ _ eq_refl). reflexivity.
    - intros H. cbn [dec_adds negb tl]. apply (IH _ _ _ H).
  Qed.

  (** Encoder knows [common ++ extra_enc], decoder knows [common ++ extra_dec],
      one of the two extras is empty: the decoder returns exactly the additions
      of [common] that are present, and resynchronises after the open types. *)
  Lemma dec_adds_compat common data : forall extra_enc extra_dec processed body k rest,
    extra_enc = [] \/ extra_dec = [] ->
    enc_adds encT res (common ++ extra_enc) data = Ok processed ->
    enc_open_types processed = Ok body ->
    dec_adds decT (map is_some processed ++ repeat false k) (common ++ extra_dec) (body ++ rest)
    = Ok (norm_adds encT normT res common data, rest).
  Proof.
    induction common as [|[isgroup ms] common IH]; intros extra_enc extra_dec processed body k rest Hx.
    - cbn [app norm_adds]. destruct Hx as [-> | ->].
      + cbn [enc_adds]. intros H Hb. assert (processed = []) by congruence. subst. cbn in Hb.
        assert (body = []) by congruence. subst. cbn [map app]. apply dec_adds_all_false.
      + intros _ Hb. apply dec_adds_skip_all. exact Hb.
    - cbn [app enc_adds norm_adds]. destruct isgroup.
      + destruct (enc_group encT res ms data) as [bs|x] eqn:Eg; cbn [bind].
        * destruct (enc_adds encT res (common ++ extra_enc) data) as [rest_p|] eqn:Er; [|discriminate]. cbn [bind].
          intros H. rewrite Bool.orb_false_r in H.
          destruct (0 <? length bs)%nat eqn:Epos.
          -- assert (processed = Some bs :: rest_p) by congruence. subst processed. cbn [enc_open_types].
             unfold enc_len_single.
             destruct (Z.of_nat (length (pad8 bs) / 8) <? 16384) eqn:El; [|discriminate]. cbn [bind].
             destruct (enc_open_types rest_p) as [more|] eqn:Em; [|discriminate]. cbn [bind]. intros Hb.
             assert (body = enc_len_short (Z.of_nat (length (pad8 bs) / 8)) ++ pad8 bs ++ more) by congruence.
             subst body. cbn [map app is_some dec_adds negb tl]. rewrite <- !app_assoc.
             rewrite (open_type_rt decT bs (norm_members normT res ms data)); [| |exact El].
             ++ unfold rbind. rewrite (IH _ _ _ _ _ _ Hx Er Em). reflexivity.
             ++ intros r. cbn [dec_one_addition]. apply (dec_root_rt encT decT normT res HT).
                apply enc_group_present; [exact Eg|]. apply Nat.ltb_lt. exact Epos.
          -- assert (processed = None :: rest_p) by congruence. subst processed. cbn [enc_open_types].
             intros Hb. cbn [map app is_some dec_adds negb tl]. cbn [app]. apply (IH _ _ _ _ _ _ Hx Er Hb).
        * destruct x; try discriminate. intros H. assert (processed = []) by congruence. subst.
          cbn [enc_open_types]. intros Hb. assert (body = []) by congruence. subst.
          cbn [map app]. apply dec_adds_all_false.
      + destruct ms as [|m [|m' ms']].
        * cbn [bind]. discriminate.
        * unfold enc_member at 1. destruct (lookup (m_name m) data) as [v|] eqn:Elk.
          -- assert (Henc : enc_member encT res m data true = encT (m_ty m) v).
             { unfold enc_member. rewrite Elk. destruct (m_opt m); try reflexivity. rewrite Bool.orb_true_r. reflexivity. }
             assert (Hsame : (match m_opt m with
                              | Default d => if negb (is_default_value (res (m_ty m)) v d) || true then encT (m_ty m) v else Ok []
                              | _ => encT (m_ty m) v end) = encT (m_ty m) v).
             { destruct (m_opt m); try reflexivity. rewrite Bool.orb_true_r. reflexivity. }
             rewrite Hsame, Henc. destruct (encT (m_ty m) v) as [bs|x] eqn:Eb; cbn [bind].
             ++ destruct (enc_adds encT res (common ++ extra_enc) data) as [rest_p|] eqn:Er; [|discriminate]. cbn [bind].
                intros H. rewrite Bool.orb_true_r in H.
                assert (processed = Some bs :: rest_p) by congruence. subst processed. cbn [enc_open_types].
                unfold enc_len_single.
                destruct (Z.of_nat (length (pad8 bs) / 8) <? 16384) eqn:El; [|discriminate]. cbn [bind].
                destruct (enc_open_types rest_p) as [more|] eqn:Em; [|discriminate]. cbn [bind]. intros Hb.
                assert (body = enc_len_short (Z.of_nat (length (pad8 bs) / 8)) ++ pad8 bs ++ more) by congruence.
                subst body. cbn [map app is_some dec_adds negb tl]. rewrite <- !app_assoc.
                rewrite (open_type_rt decT bs [(m_name m, normT (m_ty m) v)]); [| |exact El].
                ** unfold rbind. rewrite (IH _ _ _ _ _ _ Hx Er Em). reflexivity.
                ** intros r. cbn [dec_one_addition]. unfold rbind. rewrite (HT _ _ _ Eb). reflexivity.
             ++ destruct x; try discriminate. intros H. assert (processed = []) by congruence. subst.
                cbn [enc_open_types]. intros Hb. assert (body = []) by congruence. subst.
                cbn [map app]. apply dec_adds_all_false.
          -- assert (Henc : enc_member encT res m data true =
                            match m_opt m with Mandatory => Err EEncode | _ => Ok [] end).
             { unfold enc_member. rewrite Elk. reflexivity. }
             rewrite Henc. destruct (m_opt m) eqn:Eo; cbn [bind].
             ++ intros H. assert (processed = []) by congruence. subst.
                cbn [enc_open_types]. intros Hb. assert (body = []) by congruence. subst.
                cbn [map app]. apply dec_adds_all_false.
             ++ destruct (enc_adds encT res (common ++ extra_enc) data) as [rest_p|] eqn:Er; [|discriminate]. cbn [bind].
                intros H. cbn [length Nat.ltb Nat.leb orb] in H.
                assert (processed = None :: rest_p) by congruence. subst processed. cbn [enc_open_types].
                intros Hb. cbn [map app is_some dec_adds negb tl]. apply (IH _ _ _ _ _ _ Hx Er Hb).
             ++ destruct (enc_adds encT res (common ++ extra_enc) data) as [rest_p|] eqn:Er; [|discriminate]. cbn [bind].
                intros H. cbn [length Nat.ltb Nat.leb orb] in H.
                assert (processed = None :: rest_p) by congruence. subst processed. cbn [enc_open_types].
                intros Hb. cbn [map app is_some dec_adds negb tl]. apply (IH _ _ _ _ _ _ Hx Er Hb).
        * cbn [bind]. discriminate.
  Qed.

  Lemma norm_adds_none_gen common data : forall extra processed,
    enc_adds encT res (common ++ extra) data = Ok processed -> existsb is_some processed = false ->
    norm_adds encT normT res common data = [].
  Proof.
    induction common as [|[isgroup ms] common IH]; intros extra processed; cbn [app enc_adds norm_adds]; [reflexivity|].
    destruct isgroup.
    - destruct (enc_group encT res ms data) as [bs|x]; cbn [bind]; [|reflexivity].
      destruct (enc_adds encT res (common ++ extra) data) as [rest_p|] eqn:Er; [|discriminate]. cbn [bind]. intros H.
      rewrite Bool.orb_false_r in H. destruct (0 <? length bs)%nat.
      + assert (processed = Some bs :: rest_p) by congruence. subst. cbn. discriminate.
      + assert (processed = None :: rest_p) by congruence. subst. cbn [existsb is_some orb]. intros He.
        cbn [app]. apply (IH _ _ Er He).
    - destruct ms as [|m [|m' ms']]; try reflexivity.
      destruct (enc_member encT res m data true) as [bs|x]; cbn [bind]; [|reflexivity].
      destruct (enc_adds encT res (common ++ extra) data) as [rest_p|] eqn:Er; [|discriminate]. cbn [bind]. intros H.
      destruct (lookup (m_name m) data) as [v|].
      + rewrite Bool.orb_true_r in H. assert (processed = Some bs :: rest_p) by congruence. subst. cbn. discriminate.
      + rewrite Bool.orb_false_r in H. destruct (0 <? length bs)%nat.
        * assert (processed = Some bs :: rest_p) by congruence. subst. cbn. discriminate.
        * assert (processed = None :: rest_p) by congruence. subst. cbn [existsb is_some orb]. intros He.
          cbn [app]. apply (IH _ _ Er He).
  Qed.

  Lemma dec_additions_compat common extra_enc extra_dec data abits rest :
    extra_enc = [] \/ extra_dec = [] ->
    (1 <= length (common ++ extra_enc))%nat ->
    enc_additions encT res (common ++ extra_enc) data = Ok (Some abits) ->
    dec_additions decT (common ++ extra_dec) (abits ++ rest) = Ok (norm_adds encT normT res common data, rest).
  Proof.
    intros Hx Hne. unfold enc_additions, dec_additions.
    destruct (enc_adds encT res (common ++ extra_enc) data) as [processed|] eqn:Ep; [|discriminate]. cbn [bind].
    destruct (negb (existsb is_some processed)); [discriminate|].
    destruct (enc_small_len (Z.of_nat (length (common ++ extra_enc)))) as [l|] eqn:El; [|discriminate]. cbn [bind].
    destruct (enc_open_types processed) as [body|] eqn:Eb; [|discriminate]. cbn [bind]. intros H.
    pose proof (enc_adds_length _ _ _ _ _ Ep) as Hlen.
    set (pres := map is_some processed ++ repeat false (length (common ++ extra_enc) - length processed)) in *.
    assert (abits = l ++ pres ++ body) by congruence. subst abits.
    assert (Hn1 : 1 <= Z.of_nat (length (common ++ extra_enc))) by lia.
    unfold rbind at 1. rewrite <- app_assoc. rewrite (read_small_len_rt _ _ _ Hn1 El).
    assert (Hpl : length pres = length (common ++ extra_enc)).
    { unfold pres. rewrite app_length, map_length, repeat_length. lia. }
    unfold rbind at 1. rewrite Nat2Z.id. rewrite <- Hpl at 1. rewrite <- app_assoc. rewrite read_raw_app.
    unfold pres. apply (dec_adds_compat _ _ _ _ _ _ _ _ Hx Ep Eb).
  Qed.

  (** SEQUENCE/SET: encoder knows [common ++ extra_enc], decoder [common ++ extra_dec] *)
  Lemma dec_seq_compat root common extra_enc extra_dec data bs rest :
    extra_enc = [] \/ extra_dec = [] ->
    enc_seq encT res root (Some (common ++ extra_enc)) (VSeq data) = Ok bs ->
    dec_seq decT root (Some (common ++ extra_dec)) (bs ++ rest)
    = Ok (VSeq (norm_members normT res root data ++ norm_adds encT normT res common data), rest).
  Proof.
    intros Hx. unfold enc_seq, dec_seq.
    destruct (enc_root encT res root data) as [r|] eqn:Er; [|discriminate]. cbn [bind].
    assert (Hfalse : forall processed,
               enc_adds encT res (common ++ extra_enc) data = Ok processed -> existsb is_some processed = false ->
               (do* b <- read_bit; do* fs <- dec_root decT root;
                if b then do* more <- dec_additions decT (common ++ extra_dec); rret (VSeq (fs ++ more))
                else rret (VSeq fs)) ((false :: r) ++ rest)
               = Ok (VSeq (norm_members normT res root data ++ norm_adds encT normT res common data), rest)).
    { intros processed Hp He. cbn [app]. unfold rbind at 1. cbn [read_bit]. unfold rbind.
      rewrite (dec_root_rt encT decT normT res HT _ _ _ _ Er).
      rewrite (norm_adds_none_gen _ _ _ _ Hp He), app_nil_r. reflexivity. }
    destruct (common ++ extra_enc) as [|a l] eqn:Eadds.
    - intros H. assert (bs = false :: r) by congruence. subst bs.
      apply (Hfalse []); reflexivity.
    - destruct (enc_additions encT res (a :: l) data) as [[abits|]|] eqn:Ea; [| |discriminate]; cbn [bind].
      + intros H. assert (bs = true :: r ++ abits) by congruence. subst bs. cbn [app]. unfold rbind at 1. cbn [read_bit].
        unfold rbind. rewrite <- app_assoc. rewrite (dec_root_rt encT decT normT res HT _ _ _ _ Er).
        rewrite <- Eadds in Ea.
        assert (Hne : (1 <= length (common ++ extra_enc))%nat) by (rewrite Eadds; cbn [length]; lia).
        rewrite (dec_additions_compat _ _ _ _ _ _ Hx Hne Ea). reflexivity.
      + intros H. assert (bs = false :: r) by congruence. subst bs.
        unfold enc_additions in Ea.
        destruct (enc_adds encT res (a :: l) data) as [processed|] eqn:Ep; [|discriminate]. cbn [bind] in Ea.
        destruct (existsb is_some processed) eqn:Ee; cbn [negb] in Ea.
        * destruct (enc_small_len (Z.of_nat (length (a :: l)))); [|discriminate]. cbn [bind] in Ea.
          destruct (enc_open_types processed); discriminate.
        * apply (Hfalse processed); auto.
  Qed.
End Ext.

(** ** The statements at the level of the type-directed codec *)
Section ExtMain.
  Variable numeric : bool.
  Variable e : env.

  (** forward: a version-2 encoding (additions [common ++ new]) decoded by
      version 1 (additions [common]) gives the version-1 view of the value:
      root components and the additions version 1 knows, unknown additions
      dropped, and the rest of the input untouched. *)
  Theorem uper_seq_forward f isset root common new data bs :
    enc numeric e (S f) (TSeq isset root (Some (common ++ new))) (VSeq data) = Ok bs ->
    forall rest,
      dec numeric e (S f) (TSeq isset root (Some common)) (bs ++ rest)
      = Ok (VSeq (norm_members (norm numeric e f) (resolve e f) root data ++
                  norm_adds (enc numeric e f) (norm numeric e f) (resolve e f) common data), rest).
  Proof.
    cbn [enc dec]. intros H rest.
    pose proof (dec_seq_compat (enc numeric e f) (dec numeric e f) (norm numeric e f) (resolve e f)
                               (enc_dec_rt numeric e f) root common new [] data bs rest (or_intror eq_refl) H) as Hc.
    rewrite app_nil_r in Hc. exact Hc.
  Qed.

  (** backward: a version-1 encoding decoded by version 2 gives the same value *)
  Theorem uper_seq_backward f isset root common new data bs :
    enc numeric e (S f) (TSeq isset root (Some common)) (VSeq data) = Ok bs ->
    forall rest,
      dec numeric e (S f) (TSeq isset root (Some (common ++ new))) (bs ++ rest)
      = Ok (norm numeric e (S f) (TSeq isset root (Some common)) (VSeq data), rest).
  Proof.
    cbn [enc dec norm]. intros H rest. unfold norm_seq.
    rewrite <- (app_nil_r common) in H.
    apply (dec_seq_compat (enc numeric e f) (dec numeric e f) (norm numeric e f) (resolve e f)
                          (enc_dec_rt numeric e f) root common [] new data bs rest (or_introl eq_refl) H).
  Qed.
End ExtMain.

(** ** CHOICE alternatives and ENUMERATED items added after the marker *)

Lemma find_alt_app name (l1 l2 : list (member_of ty)) : forall i,
  find_alt name (l1 ++ l2) i =
  match find_alt name l1 i with
  | Some r => Some r
  | None => find_alt name l2 (i + Z.of_nat (length l1))
  end.
Proof.
  induction l1 as [|x l1 IH]; intros i; cbn [app find_alt length].
  - f_equal. lia.
  - destruct (String.eqb (m_name x) name); [reflexivity|]. rewrite IH. destruct (find_alt name l1 (i + 1)); [reflexivity|].
    f_equal. lia.
Qed.

Section ExtChoice.
  Variable numeric : bool.
  Variable e : env.

  (** known alternative: both versions produce the same bits, so each decodes the other's *)
  Lemma enc_choice_known f root common new name x :
    (find_alt name root 0 <> None \/ find_alt name common 0 <> None) ->
    enc_choice (enc numeric e f) root (Some (common ++ new)) (VChoice name x)
    = enc_choice (enc numeric e f) root (Some common) (VChoice name x).
  Proof.
    intros H. unfold enc_choice. destruct (find_alt name root 0) as [[i m]|]; [reflexivity|].
    rewrite find_alt_app. destruct (find_alt name common 0) as [[j m]|]; [reflexivity|].
    destruct H as [H|H]; congruence.
  Qed.

  Theorem uper_choice_known_alternative f root common new name x bs :
    (find_alt name root 0 <> None \/ find_alt name common 0 <> None) ->
    (enc numeric e (S f) (TChoice root (Some (common ++ new))) (VChoice name x) = Ok bs ->
     forall rest, dec numeric e (S f) (TChoice root (Some common)) (bs ++ rest)
                  = Ok (norm numeric e (S f) (TChoice root (Some common)) (VChoice name x), rest)) /\
    (enc numeric e (S f) (TChoice root (Some common)) (VChoice name x) = Ok bs ->
     forall rest, dec numeric e (S f) (TChoice root (Some (common ++ new))) (bs ++ rest)
                  = Ok (norm numeric e (S f) (TChoice root (Some (common ++ new))) (VChoice name x), rest)).
  Proof.
    intros Hk. split; intros H rest.
    - apply enc_dec_rt. cbn [enc] in *. rewrite <- (enc_choice_known f root common new name x Hk). exact H.
    - apply enc_dec_rt. cbn [enc] in *. rewrite (enc_choice_known f root common new name x Hk). exact H.
  Qed.

  (** unknown alternative: version 1 reports "absent" and skips exactly the open type *)
  Theorem uper_choice_unknown_alternative f root common new name x bs :
    find_alt name root 0 = None -> find_alt name common 0 = None ->
    enc numeric e (S f) (TChoice root (Some (common ++ new))) (VChoice name x) = Ok bs ->
    forall rest, dec numeric e (S f) (TChoice root (Some common)) (bs ++ rest) = Ok (VUnknownChoice, rest).
  Proof.
    intros Hr Hc. cbn [enc dec]. unfold enc_choice, dec_choice. rewrite Hr, find_alt_app, Hc.
    destruct (find_alt name new (0 + Z.of_nat (length common))) as [[i m]|] eqn:Ea; [|discriminate].
    destruct (enc numeric e f (m_ty m) x) as [body|] eqn:Eb; [|discriminate]. cbn [bind].
    destruct (enc_small_nonneg i) as [idx|] eqn:Ei; [|discriminate]. cbn [bind].
    unfold enc_len_single.
    destruct (Z.of_nat (length (pad8 body) / 8) <? 16384) eqn:El; [|discriminate]. cbn [bind]. intros H rest.
    assert (bs = true :: idx ++ enc_len_short (Z.of_nat (length (pad8 body) / 8)) ++ pad8 body) by congruence.
    subst bs. cbn [app]. unfold rbind at 1. cbn [read_bit negb].
    destruct (find_alt_spec _ _ _ _ _ Ea) as (Hrange & _ & _).
    unfold rbind at 1. rewrite <- app_assoc. rewrite (read_small_nonneg_rt i idx _ ltac:(lia) Ei).
    unfold rbind at 1. rewrite <- app_assoc. rewrite read_len_short by lia.
    assert (Hnone : nth_z common i = None).
    { unfold nth_z. destruct ((i <? 0) || (Z.of_nat (length common) <=? i)) eqn:E; [reflexivity|lia]. }
    rewrite Hnone. destruct (pad8_length body) as (q & Hq & _ & Hdiv).
    unfold rbind. unfold skip_bits. rewrite Hdiv.
    replace (Z.to_nat (8 * Z.of_nat q)) with (length (pad8 body)) by lia. rewrite app_length.
    destruct (length (pad8 body) + length rest <? length (pad8 body))%nat eqn:E; [lia|].
    rewrite skipn_app, Nat.sub_diag. cbn [skipn]. rewrite skipn_all. reflexivity.
  Qed.
End ExtChoice.

Lemma index_of_last_app numeric d (l1 l2 : list (string * Z)) : forall i,
  index_of_last numeric d (l1 ++ l2) i =
  match index_of_last numeric d l2 (i + Z.of_nat (length l1)) with
  | Some j => Some j
  | None => index_of_last numeric d l1 i
  end.
Proof.
  induction l1 as [|x l1 IH]; intros i; cbn [app index_of_last length].
  - replace (i + Z.of_nat 0) with i by lia. destruct (index_of_last numeric d l2 i); reflexivity.
  - rewrite IH. replace (i + 1 + Z.of_nat (length l1)) with (i + Z.of_nat (S (length l1))) by lia.
    destruct (index_of_last numeric d l2 (i + Z.of_nat (S (length l1)))); reflexivity.
Qed.

(** ENUMERATED: an item version 1 does not know decodes as "absent" (None);
    an item both know has the same bits in both versions. *)
Theorem uper_enum_unknown_item numeric root adds new d bs :
  index_of_last numeric d (sort_by_value root) 0 = None ->
  index_of_last numeric d new (Z.of_nat (length adds)) <> None ->
  enc_enum numeric root (Some (adds ++ new)) d = Ok bs ->
  forall rest, read_enum numeric root (Some adds) (bs ++ rest) = Ok (VNone, rest).
Proof.
  intros Hr Hn. unfold enc_enum, read_enum. rewrite Hr, index_of_last_app. cbn [Z.add].
  destruct (index_of_last numeric d new (Z.of_nat (length adds))) as [j|] eqn:Ej; [|congruence].
  destruct (enc_small_nonneg j) as [r|] eqn:Es; [|discriminate]. cbn [bind]. intros H rest.
  assert (bs = true :: r) by congruence. subst bs. cbn [app]. unfold rbind at 1. cbn [read_bit negb].
  destruct (index_of_last_spec _ _ _ _ _ Ej) as (Hrange & _).
  unfold rbind. rewrite (read_small_nonneg_rt j r rest ltac:(lia) Es).
  assert (Hnone : nth_z adds j = None).
  { unfold nth_z. destruct ((j <? 0) || (Z.of_nat (length adds) <=? j)) eqn:E; [reflexivity|lia]. }
  rewrite Hnone. reflexivity.
Qed.

Theorem uper_enum_known_item numeric root adds new d :
  index_of_last numeric d new (Z.of_nat (length adds)) = None ->
  enc_enum numeric root (Some (adds ++ new)) d = enc_enum numeric root (Some adds) d.
Proof.
  intros Hn. unfold enc_enum. destruct (index_of_last numeric d (sort_by_value root) 0); [reflexivity|].
  rewrite index_of_last_app. cbn [Z.add]. rewrite Hn. reflexivity.
Qed.
