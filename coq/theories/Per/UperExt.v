(** C07 for the UPER model: extension additions at a node keep versions
    interoperable.  V2 = V1 with further additions appended after the existing
    ones (SEQUENCE/SET additions and groups, CHOICE alternatives, ENUMERATED
    items); everything below the node is the same in both versions, so the
    nested codec obeys the round-trip theorem. *)
From Asn1V Require Import Base.Prelude Base.Sweep Base.Bits Base.BitsProofs
     Syntax.Asn1 Per.UperImpl Per.UperPrim Per.UperPB Per.UperRT.

Ltac Zify.zify_post_hook ::= Z.div_mod_to_equations.

Section Ext.
  Variable encT : ty -> value -> result bits.
  Variable decT : ty -> reader value.
  Variable normT : ty -> value -> value.
  Variable res : ty -> ty.
  Hypothesis HT : forall t v bs, encT t v = Ok bs -> forall rest, decT t (bs ++ rest) = Ok (normT t v, rest).

  (** an open type of an addition the decoder does not know is skipped by its length *)
  Lemma open_type_skip (bs : bits) tail :
    (Z.of_nat (length (pad8 bs) / 8) <? 16384) = true ->
    forall (k : list (string * value) -> reader (list (string * value))),
    (do* open_len <- read_len;
     do* (fs, consumed) <- with_consumed (dec_one_addition decT [] open_len);
     do* _ <- (let al := (consumed mod 8)%nat in if (al =? 0)%nat then rret tt else skip_bits (8 - al));
     k fs) (enc_len_short (Z.of_nat (length (pad8 bs) / 8)) ++ pad8 bs ++ tail) = k [] tail.
  Proof.
    intros Hl k. unfold rbind at 1. rewrite read_len_short by lia.
    destruct (pad8_length bs) as (q & Hq & Hle & Hdiv).
    unfold rbind at 1. unfold with_consumed. cbn [dec_one_addition]. unfold rbind at 1.
    assert (Hs : skip_bits (Z.to_nat (8 * Z.of_nat (length (pad8 bs) / 8))) (pad8 bs ++ tail) = Ok (tt, tail)).
    { unfold skip_bits. rewrite Hdiv. replace (Z.to_nat (8 * Z.of_nat q)) with (length (pad8 bs)) by lia.
      rewrite app_length. destruct (length (pad8 bs) + length tail <? length (pad8 bs))%nat eqn:E; [lia|].
      rewrite skipn_app, Nat.sub_diag. cbn [skipn]. rewrite skipn_all. reflexivity. }
    rewrite Hs. unfold rret at 1. rewrite app_length.
    replace (length (pad8 bs) + length tail - length tail)%nat with (length (pad8 bs)) by lia.
    unfold rbind at 1. rewrite Hq. replace ((8 * q) mod 8)%nat with 0%nat by (rewrite Nat.mul_comm, Nat.mod_mul; lia).
    cbn [Nat.eqb]. reflexivity.
  Qed.

  Lemma dec_adds_skip_all processed : forall body k rest,
    enc_open_types processed = Ok body ->
    dec_adds decT (map is_some processed ++ repeat false k) [] (body ++ rest) = Ok ([], rest).
  Proof.
    induction processed as [|[bs|] processed IH]; intros body k rest; cbn [enc_open_types map app is_some].
    - intros H. assert (body = []) by congruence. subst. apply dec_adds_all_false.
    - unfold enc_len_single. destruct (Z.of_nat (length (pad8 bs) / 8) <? 16384) eqn:El; [|discriminate]. cbn [bind].
      destruct (enc_open_types processed) as [more|] eqn:Em; [|discriminate]. cbn [bind]. intros H.
      assert (body = enc_len_short (Z.of_nat (length (pad8 bs) / 8)) ++ pad8 bs ++ more) by congruence. subst body.
      cbn [dec_adds negb tl]. rewrite <- !app_assoc. rewrite (open_type_skip bs _ El).
      unfold rbind. rewrite (IH _ _ _ eq_refl). reflexivity.
    - intros H. cbn [dec_adds negb tl]. apply (IH _ _ _ H).
  Qed.

  (** Encoder knows [common ++ extra_enc], decoder knows [common ++ extra_dec],
      one of the two extras is empty: the decoder returns exactly the additions
      of [common] that are present, and resynchronises after the open types. *)
  Lemma dec_adds_compat common data : forall extra_enc extra_dec processed body k rest,
    extra_enc = [] \/ extra_dec = [] ->
    enc_adds encT res (common ++ extra_enc) data = Ok processed ->
    enc_open_types processed = Ok body ->
    dec_adds decT (map is_some processed ++ repeat false k) (common ++ extra_dec) (body ++ rest)
    = Ok (norm_adds encT normT res common data, rest).
  Proof.
    induction common as [|[isgroup ms] common IH]; intros extra_enc extra_dec processed body k rest Hx.
    - cbn [app norm_adds]. destruct Hx as [-> | ->].
      + cbn [enc_adds]. intros H Hb. assert (processed = []) by congruence. subst. cbn in Hb.
        assert (body = []) by congruence. subst. cbn [map app]. apply dec_adds_all_false.
      + intros _ Hb. apply dec_adds_skip_all. exact Hb.
    - cbn [app enc_adds norm_adds]. destruct isgroup.
      + destruct (enc_group encT res ms data) as [bs|x] eqn:Eg; cbn [bind].
        * destruct (enc_adds encT res (common ++ extra_enc) data) as [rest_p|] eqn:Er; [|discriminate]. cbn [bind].
          intros H. rewrite Bool.orb_false_r in H.
          destruct (0 <? length bs)%nat eqn:Epos.
          -- assert (processed = Some bs :: rest_p) by congruence. subst processed. cbn [enc_open_types].
             unfold enc_len_single.
             destruct (Z.of_nat (length (pad8 bs) / 8) <? 16384) eqn:El; [|discriminate]. cbn [bind].
             destruct (enc_open_types rest_p) as [more|] eqn:Em; [|discriminate]. cbn [bind]. intros Hb.
             assert (body = enc_len_short (Z.of_nat (length (pad8 bs) / 8)) ++ pad8 bs ++ more) by congruence.
             subst body. cbn [map app is_some dec_adds negb tl]. rewrite <- !app_assoc.
             rewrite (open_type_rt decT bs (norm_members normT res ms data)); [| |exact El].
             ++ unfold rbind. rewrite (IH _ _ _ _ _ _ Hx Er Em). reflexivity.
             ++ intros r. cbn [dec_one_addition]. apply (dec_root_rt encT decT normT res HT).
                apply enc_group_present; [exact Eg|]. apply Nat.ltb_lt. exact Epos.
          -- assert (processed = None :: rest_p) by congruence. subst processed. cbn [enc_open_types].
             intros Hb. cbn [map app is_some dec_adds negb tl]. cbn [app]. apply (IH _ _ _ _ _ _ Hx Er Hb).
        * destruct x; try discriminate. intros H. assert (processed = []) by congruence. subst.
          cbn [enc_open_types]. intros Hb. assert (body = []) by congruence. subst.
          cbn [map app]. apply dec_adds_all_false.
      + destruct ms as [|m [|m' ms']].
        * cbn [bind]. discriminate.
        * unfold enc_member at 1. destruct (lookup (m_name m) data) as [v|] eqn:Elk.
          -- assert (Henc : enc_member encT res m data true = encT (m_ty m) v).
             { unfold enc_member. rewrite Elk. destruct (m_opt m); try reflexivity. rewrite Bool.orb_true_r. reflexivity. }
             assert (Hsame : (match m_opt m with
                              | Default d => if negb (is_default_value (res (m_ty m)) v d) || true then encT (m_ty m) v else Ok []
                              | _ => encT (m_ty m) v end) = encT (m_ty m) v).
             { destruct (m_opt m); try reflexivity. rewrite Bool.orb_true_r. reflexivity. }
             rewrite Hsame, Henc. destruct (encT (m_ty m) v) as [bs|x] eqn:Eb; cbn [bind].
             ++ destruct (enc_adds encT res (common ++ extra_enc) data) as [rest_p|] eqn:Er; [|discriminate]. cbn [bind].
                intros H. rewrite Bool.orb_true_r in H.
                assert (processed = Some bs :: rest_p) by congruence. subst processed. cbn [enc_open_types].
                unfold enc_len_single.
                destruct (Z.of_nat (length (pad8 bs) / 8) <? 16384) eqn:El; [|discriminate]. cbn [bind].
                destruct (enc_open_types rest_p) as [more|] eqn:Em; [|discriminate]. cbn [bind]. intros Hb.
                assert (body = enc_len_short (Z.of_nat (length (pad8 bs) / 8)) ++ pad8 bs ++ more) by congruence.
                subst body. cbn [map app is_some dec_adds negb tl]. rewrite <- !app_assoc.
                rewrite (open_type_rt decT bs [(m_name m, normT (m_ty m) v)]); [| |exact El].
                ** unfold rbind. rewrite (IH _ _ _ _ _ _ Hx Er Em). reflexivity.
                ** intros r. cbn [dec_one_addition]. unfold rbind. rewrite (HT _ _ _ Eb). reflexivity.
             ++ destruct x; try discriminate. intros H. assert (processed = []) by congruence. subst.
                cbn [enc_open_types]. intros Hb. assert (body = []) by congruence. subst.
                cbn [map app]. apply dec_adds_all_false.
          -- assert (Henc : enc_member encT res m data true =
                            match m_opt m with Mandatory => Err EEncode | _ => Ok [] end).
             { unfold enc_member. rewrite Elk. reflexivity. }
             rewrite Henc. destruct (m_opt m) eqn:Eo; cbn [bind].
             ++ intros H. assert (processed = []) by congruence. subst.
                cbn [enc_open_types]. intros Hb. assert (body = []) by congruence. subst.
                cbn [map app]. apply dec_adds_all_false.
             ++ destruct (enc_adds encT res (common ++ extra_enc) data) as [rest_p|] eqn:Er; [|discriminate]. cbn [bind].
                intros H. cbn [length Nat.ltb Nat.leb orb] in H.
                assert (processed = None :: rest_p) by congruence. subst processed. cbn [enc_open_types].
                intros Hb. cbn [map app is_some dec_adds negb tl]. apply (IH _ _ _ _ _ _ Hx Er Hb).
             ++ destruct (enc_adds encT res (common ++ extra_enc) data) as [rest_p|] eqn:Er; [|discriminate]. cbn [bind].
                intros H. cbn [length Nat.ltb Nat.leb orb] in H.
                assert (processed = None :: rest_p) by congruence. subst processed. cbn [enc_open_types].
                intros Hb. cbn [map app is_some dec_adds negb tl]. apply (IH _ _ _ _ _ _ Hx Er Hb).
        * cbn [bind]. discriminate.
  Qed.
End Ext.
