(** C07 for the UPER model: extension additions at a node keep versions
    interoperable.  V2 = V1 with further additions appended after the existing
    ones (SEQUENCE/SET additions and groups, CHOICE alternatives, ENUMERATED
    items); everything below the node is the same in both versions, so the
    nested codec obeys the round-trip theorem. *)
From Asn1V Require Import Base.Prelude Base.Sweep Base.Bits Base.BitsProofs
     Syntax.Asn1 Per.UperImpl Per.UperPrim Per.UperPB Per.UperRT.

Ltac Zify.zify_post_hook ::= Z.div_mod_to_equations.

(** ** The statements at the level of the type-directed codec *)
Section ExtMain.
  Variable numeric : bool.
  Variable e : env.

  (** forward: a version-2 encoding (additions [common ++ new]) decoded by
      version 1 (additions [common]) gives the version-1 view of the value:
      root components and the additions version 1 knows, unknown additions
      dropped, and the rest of the input untouched. *)
  Theorem uper_seq_forward f isset root common new data bs :
    enc numeric e (S f) (TSeq isset root (Some (common ++ new))) (VSeq data) = Ok bs ->
    forall rest,
      dec numeric e (S f) (TSeq isset root (Some common)) (bs ++ rest)
      = Ok (VSeq (norm_members (norm numeric e f) (resolve e f) root data ++
                  norm_adds (enc numeric e f) (norm numeric e f) (resolve e f) common data), rest).
  Proof.
    cbn [enc dec]. intros H rest.
    pose proof (dec_seq_compat (enc numeric e f) (dec numeric e f) (norm numeric e f) (resolve e f)
                               (enc_dec_rt numeric e f) root common new [] data bs rest (or_intror eq_refl) H) as Hc.
    rewrite app_nil_r in Hc. exact Hc.
  Qed.

  (** backward: a version-1 encoding decoded by version 2 gives the same value *)
  Theorem uper_seq_backward f isset root common new data bs :
    enc numeric e (S f) (TSeq isset root (Some common)) (VSeq data) = Ok bs ->
    forall rest,
      dec numeric e (S f) (TSeq isset root (Some (common ++ new))) (bs ++ rest)
      = Ok (norm numeric e (S f) (TSeq isset root (Some common)) (VSeq data), rest).
  Proof.
    cbn [enc dec norm]. intros H rest. unfold norm_seq.
    rewrite <- (app_nil_r common) in H.
    apply (dec_seq_compat (enc numeric e f) (dec numeric e f) (norm numeric e f) (resolve e f)
                          (enc_dec_rt numeric e f) root common [] new data bs rest (or_introl eq_refl) H).
  Qed.
End ExtMain.

(** ** CHOICE alternatives and ENUMERATED items added after the marker *)

Lemma find_alt_app name (l1 l2 : list (member_of ty)) : forall i,
  find_alt name (l1 ++ l2) i =
  match find_alt name l1 i with
  | Some r => Some r
  | None => find_alt name l2 (i + Z.of_nat (length l1))
  end.
Proof.
  induction l1 as [|x l1 IH]; intros i; cbn [app find_alt length].
  - f_equal. lia.
  - destruct (String.eqb (m_name x) name); [reflexivity|]. rewrite IH. destruct (find_alt name l1 (i + 1)); [reflexivity|].
    f_equal. lia.
Qed.

Section ExtChoice.
  Variable numeric : bool.
  Variable e : env.

  (** known alternative: both versions produce the same bits, so each decodes the other's *)
  Lemma enc_choice_known f root common new name x :
    (find_alt name root 0 <> None \/ find_alt name common 0 <> None) ->
    enc_choice (enc numeric e f) root (Some (common ++ new)) (VChoice name x)
    = enc_choice (enc numeric e f) root (Some common) (VChoice name x).
  Proof.
    intros H. unfold enc_choice. destruct (find_alt name root 0) as [[i m]|]; [reflexivity|].
    rewrite find_alt_app. destruct (find_alt name common 0) as [[j m]|]; [reflexivity|].
    destruct H as [H|H]; congruence.
  Qed.

  Theorem uper_choice_known_alternative f root common new name x bs :
    (find_alt name root 0 <> None \/ find_alt name common 0 <> None) ->
    (enc numeric e (S f) (TChoice root (Some (common ++ new))) (VChoice name x) = Ok bs ->
     forall rest, dec numeric e (S f) (TChoice root (Some common)) (bs ++ rest)
                  = Ok (norm numeric e (S f) (TChoice root (Some common)) (VChoice name x), rest)) /\
    (enc numeric e (S f) (TChoice root (Some common)) (VChoice name x) = Ok bs ->
     forall rest, dec numeric e (S f) (TChoice root (Some (common ++ new))) (bs ++ rest)
                  = Ok (norm numeric e (S f) (TChoice root (Some (common ++ new))) (VChoice name x), rest)).
  Proof.
    intros Hk. split; intros H rest.
    - apply enc_dec_rt. cbn [enc] in *. rewrite <- (enc_choice_known f root common new name x Hk). exact H.
    - apply enc_dec_rt. cbn [enc] in *. rewrite (enc_choice_known f root common new name x Hk). exact H.
  Qed.

  (** unknown alternative: version 1 reports "absent" and skips exactly the open type *)
  Theorem uper_choice_unknown_alternative f root common new name x bs :
    find_alt name root 0 = None -> find_alt name common 0 = None ->
    enc numeric e (S f) (TChoice root (Some (common ++ new))) (VChoice name x) = Ok bs ->
    forall rest, dec numeric e (S f) (TChoice root (Some common)) (bs ++ rest) = Ok (VUnknownChoice, rest).
  Proof.
    intros Hr Hc. cbn [enc dec]. unfold enc_choice, dec_choice. rewrite Hr, find_alt_app, Hc.
    destruct (find_alt name new (0 + Z.of_nat (length common))) as [[i m]|] eqn:Ea; [|discriminate].
    destruct (enc numeric e f (m_ty m) x) as [body|] eqn:Eb; [|discriminate]. cbn [bind].
    destruct (enc_small_nonneg i) as [idx|] eqn:Ei; [|discriminate]. cbn [bind].
    unfold enc_len_single.
    destruct (Z.of_nat (length (pad8 body) / 8) <? 16384) eqn:El; [|discriminate]. cbn [bind]. intros H rest.
    assert (bs = true :: idx ++ enc_len_short (Z.of_nat (length (pad8 body) / 8)) ++ pad8 body) by congruence.
    subst bs. cbn [app]. unfold rbind at 1. cbn [read_bit negb].
    destruct (find_alt_spec _ _ _ _ _ Ea) as (Hrange & _ & _).
    unfold rbind at 1. rewrite <- app_assoc. rewrite (read_small_nonneg_rt i idx _ ltac:(lia) Ei).
    unfold rbind at 1. rewrite <- app_assoc. rewrite read_len_short by lia.
    assert (Hnone : nth_z common i = None).
    { unfold nth_z. destruct ((i <? 0) || (Z.of_nat (length common) <=? i)) eqn:E; [reflexivity|lia]. }
    rewrite Hnone. destruct (pad8_length body) as (q & Hq & _ & Hdiv).
    unfold rbind. unfold skip_bits. rewrite Hdiv.
    replace (Z.to_nat (8 * Z.of_nat q)) with (length (pad8 body)) by lia. rewrite app_length.
    destruct (length (pad8 body) + length rest <? length (pad8 body))%nat eqn:E; [lia|].
    rewrite skipn_app, Nat.sub_diag. cbn [skipn]. rewrite skipn_all. reflexivity.
  Qed.
End ExtChoice.

Lemma index_of_last_app numeric d (l1 l2 : list (string * Z)) : forall i,
  index_of_last numeric d (l1 ++ l2) i =
  match index_of_last numeric d l2 (i + Z.of_nat (length l1)) with
  | Some j => Some j
  | None => index_of_last numeric d l1 i
  end.
Proof.
  induction l1 as [|x l1 IH]; intros i; cbn [app index_of_last length].
  - replace (i + Z.of_nat 0) with i by lia. destruct (index_of_last numeric d l2 i); reflexivity.
  - rewrite IH. replace (i + 1 + Z.of_nat (length l1)) with (i + Z.of_nat (S (length l1))) by lia.
    destruct (index_of_last numeric d l2 (i + Z.of_nat (S (length l1)))); reflexivity.
Qed.

(** ENUMERATED: an item version 1 does not know decodes as "absent" (None);
    an item both know has the same bits in both versions. *)
Theorem uper_enum_unknown_item numeric root adds new d bs :
  index_of_last numeric d (sort_by_value root) 0 = None ->
  index_of_last numeric d new (Z.of_nat (length adds)) <> None ->
  enc_enum numeric root (Some (adds ++ new)) d = Ok bs ->
  forall rest, read_enum numeric root (Some adds) (bs ++ rest) = Ok (VNone, rest).
Proof.
  intros Hr Hn. unfold enc_enum, read_enum. rewrite Hr, index_of_last_app. cbn [Z.add].
  destruct (index_of_last numeric d new (Z.of_nat (length adds))) as [j|] eqn:Ej; [|congruence].
  destruct (enc_small_nonneg j) as [r|] eqn:Es; [|discriminate]. cbn [bind]. intros H rest.
  assert (bs = true :: r) by congruence. subst bs. cbn [app]. unfold rbind at 1. cbn [read_bit negb].
  destruct (index_of_last_spec _ _ _ _ _ Ej) as (Hrange & _).
  unfold rbind. rewrite (read_small_nonneg_rt j r rest ltac:(lia) Es).
  assert (Hnone : nth_z adds j = None).
  { unfold nth_z. destruct ((j <? 0) || (Z.of_nat (length adds) <=? j)) eqn:E; [reflexivity|lia]. }
  rewrite Hnone. reflexivity.
Qed.

Theorem uper_enum_known_item numeric root adds new d :
  index_of_last numeric d new (Z.of_nat (length adds)) = None ->
  enc_enum numeric root (Some (adds ++ new)) d = enc_enum numeric root (Some adds) d.
Proof.
  intros Hn. unfold enc_enum. destruct (index_of_last numeric d (sort_by_value root) 0); [reflexivity|].
  rewrite index_of_last_app. cbn [Z.add]. rewrite Hn. reflexivity.
Qed.
