(** Two-sided version of the composite round trip of UperRT.v: the encoder
    and the decoder work on DIFFERENT member lists that are pairwise related
    (same names, same optionality, nested types related by an abstract
    relation [R]), so that the lemmas apply to "version 2 encoder / version 1
    decoder" and vice versa at every nesting depth. *)
From Asn1V Require Import Base.Prelude Base.Sweep Base.Bits Base.BitsProofs
     Syntax.Asn1 Per.UperImpl Per.UperPrim Per.UperPB Per.UperRT Per.UperExt.
Ltac Zify.zify_post_hook ::= Z.div_mod_to_equations.

(* not in the 8.16 standard library *)
Lemma Forall2_len2 {A B} {P : A -> B -> Prop} {l1 l2} : Forall2 P l1 l2 -> length l1 = length l2.
Proof. induction 1; cbn [length]; congruence. Qed.

Section Compat2.
  Variable encT : ty -> value -> result bits.   (* encoder's nested codec, applied to ENCODER-side types *)
  Variable decT : ty -> reader value.           (* decoder's nested codec, applied to DECODER-side types *)
  Variable res : ty -> ty.                      (* encoder-side resolve *)
  Variable R : ty -> ty -> Prop.                (* R te td: encoder-side type te, decoder-side type td *)
  Variable nm : ty -> ty -> value -> value.     (* nm te td v: what decT td returns on the bits of encT te v *)
  Hypothesis HT : forall te td v bs, R te td -> encT te v = Ok bs ->
                  forall rest, decT td (bs ++ rest) = Ok (nm te td v, rest).

  Definition member_rel (me md : member_of ty) : Prop :=
    m_name me = m_name md /\ m_opt me = m_opt md /\ R (m_ty me) (m_ty md).
  Definition addition_rel (ae ad : addition_of ty) : Prop :=
    fst ae = fst ad /\ Forall2 member_rel (snd ae) (snd ad).

  Fixpoint nmembers (mse msd : list (member_of ty)) (data : list (string * value)) : list (string * value) :=
    match mse, msd with
    | me :: re, md :: rd =>
      match lookup (m_name me) data, m_opt me with
      | Some v, Default d =>
        if is_default_value (res (m_ty me)) v d then (m_name me, d) :: nmembers re rd data
        else (m_name me, nm (m_ty me) (m_ty md) v) :: nmembers re rd data
      | Some v, _ => (m_name me, nm (m_ty me) (m_ty md) v) :: nmembers re rd data
      | None, Default d => (m_name me, d) :: nmembers re rd data
      | None, _ => nmembers re rd data
      end
    | _, _ => []
    end.

  Lemma has_presence_bit2 me md : member_rel me md -> has_presence_bit md = has_presence_bit me.
  Proof. intros (_ & Ho & _). unfold has_presence_bit. rewrite Ho. reflexivity. Qed.

  Lemma presence_count2 mse msd : Forall2 member_rel mse msd ->
    length (filter has_presence_bit msd) = length (filter has_presence_bit mse).
  Proof.
    induction 1 as [|me md re rd Hm Hf IH]; [reflexivity|].
    cbn [filter]. rewrite (has_presence_bit2 _ _ Hm).
    destruct (has_presence_bit me); cbn [length]; congruence.
  Qed.

  Lemma dec_members2 mse msd data : Forall2 member_rel mse msd -> forall body rest,
    enc_members encT res mse data = Ok body ->
    dec_members decT msd (map (fun m => presence_bit res m data) (filter has_presence_bit mse)) (body ++ rest)
    = Ok (nmembers mse msd data, rest).
  Proof.
    induction 1 as [|me md re rd Hm Hf IH]; intros body rest; cbn [enc_members dec_members nmembers filter map].
    - intros H. assert (body = []) by congruence. subst. reflexivity.
    - destruct (enc_member encT res me data false) as [a|] eqn:Ea; [|discriminate]. cbn [bind].
      destruct (enc_members encT res re data) as [b|] eqn:Eb; [|discriminate]. cbn [bind]. intros H.
      assert (body = a ++ b) by congruence. subst body. rewrite <- app_assoc.
      unfold enc_member in Ea. rewrite (has_presence_bit2 _ _ Hm).
      destruct Hm as (Hn & Ho & HR). rewrite <- Hn, <- Ho.
      destruct (m_opt me) as [| |d] eqn:Eo.
      + (* mandatory *)
        assert (Hh : has_presence_bit me = false) by (unfold has_presence_bit; rewrite Eo; reflexivity).
        rewrite Hh. destruct (lookup (m_name me) data) as [v|] eqn:El; [|discriminate].
        unfold rbind. rewrite (HT _ _ _ _ HR Ea). rewrite (IH _ _ eq_refl). reflexivity.
      + (* optional *)
        assert (Hh : has_presence_bit me = true) by (unfold has_presence_bit; rewrite Eo; reflexivity).
        rewrite Hh. cbn [map]. unfold presence_bit at 1. rewrite Eo.
        destruct (lookup (m_name me) data) as [v|] eqn:El.
        * unfold rbind. rewrite (HT _ _ _ _ HR Ea). rewrite (IH _ _ eq_refl). reflexivity.
        * assert (a = []) by congruence. subst a. cbn [app]. apply (IH _ _ eq_refl).
      + (* default *)
        assert (Hh : has_presence_bit me = true) by (unfold has_presence_bit; rewrite Eo; reflexivity).
        rewrite Hh. cbn [map]. unfold presence_bit at 1. rewrite Eo.
        destruct (lookup (m_name me) data) as [v|] eqn:El.
        * destruct (is_default_value (res (m_ty me)) v d) eqn:Ed; cbn [negb orb] in *.
          -- assert (a = []) by congruence. subst a. cbn [app].
             unfold rbind. rewrite (IH _ _ eq_refl). reflexivity.
          -- unfold rbind. rewrite (HT _ _ _ _ HR Ea). rewrite (IH _ _ eq_refl). reflexivity.
        * assert (a = []) by congruence. subst a. cbn [app].
          unfold rbind. rewrite (IH _ _ eq_refl). reflexivity.
  Qed.

  Lemma dec_root2 mse msd data bs rest : Forall2 member_rel mse msd ->
    enc_root encT res mse data = Ok bs -> dec_root decT msd (bs ++ rest) = Ok (nmembers mse msd data, rest).
  Proof.
    intros Hf. unfold enc_root, dec_root. destruct (enc_members encT res mse data) as [body|] eqn:Eb; [|discriminate].
    cbn [bind]. intros H.
    assert (bs = map (fun m => presence_bit res m data) (filter has_presence_bit mse) ++ body) by congruence.
    subst bs. unfold rbind. rewrite <- app_assoc. rewrite (presence_count2 _ _ Hf).
    rewrite <- (map_length (fun m => presence_bit res m data) (filter has_presence_bit mse)).
    rewrite read_n_bits. apply dec_members2; assumption.
  Qed.

  Fixpoint nadds (ae ad : list (addition_of ty)) (data : list (string * value)) : list (string * value) :=
    match ae, ad with
    | (isgroup, mse) :: re, (_, msd) :: rd =>
      if isgroup then
        if group_missing_first encT res mse data then []
        else match enc_group encT res mse data with
             | Ok bs => (if (0 <? length bs)%nat then nmembers mse msd data else []) ++ nadds re rd data
             | Err _ => []
             end
      else
        match mse, msd with
        | [me], [md] =>
          match lookup (m_name me) data, m_opt me with
          | None, Mandatory => []
          | found, _ =>
            match enc_member encT res me data true with
            | Ok _ => (match found with Some v => [(m_name me, nm (m_ty me) (m_ty md) v)] | None => [] end)
                      ++ nadds re rd data
            | Err _ => []
            end
          end
        | _, _ => []
        end
    | _, _ => []
    end.

  (* encoder knows ce ++ xe, decoder knows cd ++ xd, ce ~ cd pairwise, one extra empty *)
  Lemma dec_adds_compat2 ce cd data : Forall2 addition_rel ce cd ->
    forall xe xd processed body k rest,
    xe = [] \/ xd = [] ->
    enc_adds encT res (ce ++ xe) data = Ok processed ->
    enc_open_types processed = Ok body ->
    dec_adds decT (map is_some processed ++ repeat false k) (cd ++ xd) (body ++ rest)
    = Ok (nadds ce cd data, rest).
  Proof.
    induction 1 as [|[isgroup mse] [isg' msd] ce cd Ha Hf IH]; intros xe xd processed body k rest Hx.
    - cbn [app nadds]. destruct Hx as [-> | ->].
      + cbn [enc_adds]. intros H Hb. assert (processed = []) by congruence. subst. cbn in Hb.
        assert (body = []) by congruence. subst. cbn [map app]. apply dec_adds_all_false.
      + intros _ Hb. apply dec_adds_skip_all. exact Hb.
    - destruct Ha as (Hg & Hms). cbn [fst snd] in Hg, Hms. subst isg'.
      cbn [app enc_adds nadds]. destruct isgroup.
      + (* addition group *)
        destruct (group_missing_first encT res mse data).
        { intros H Hb. assert (processed = []) by congruence. subst. cbn in Hb.
          assert (body = []) by congruence. subst. cbn [map app]. apply dec_adds_all_false. }
        destruct (enc_group encT res mse data) as [bs|x] eqn:Eg; cbn [bind]; [|discriminate].
        destruct (enc_adds encT res (ce ++ xe) data) as [rest_p|] eqn:Er; [|discriminate]. cbn [bind].
        intros H. destruct (0 <? length bs)%nat eqn:Epos.
        * assert (processed = Some bs :: rest_p) by congruence. subst processed. intros Hb.
          apply (dec_adds_present decT bs (nmembers mse msd data) rest_p _ body k rest (nadds ce cd data)); [|exact Hb|].
          -- intros r. cbn [dec_one_addition]. apply dec_root2; [exact Hms|]. apply enc_group_present; [exact Eg|].
             apply Nat.ltb_lt. exact Epos.
          -- intros body' Hb'. cbn [tl]. apply (IH _ _ _ _ _ _ Hx Er Hb').
        * assert (processed = None :: rest_p) by congruence. subst processed. cbn [enc_open_types].
          intros Hb. cbn [map app is_some dec_adds negb tl]. cbn [app]. apply (IH _ _ _ _ _ _ Hx Er Hb).
      + (* single addition *)
        destruct Hms as [|me md mse' msd' Hm Hms']; [discriminate|].
        destruct Hms' as [|me2 md2 mse'' msd'' Hm2 Hms'']; [|discriminate].
        destruct Hm as (Hn & Ho & HR).
        destruct (lookup (m_name me) data) as [v|] eqn:Elk.
        * (* present *)
          assert (Henc : enc_member encT res me data true = encT (m_ty me) v).
          { unfold enc_member. rewrite Elk. destruct (m_opt me); try reflexivity. rewrite Bool.orb_true_r. reflexivity. }
          assert (Hgoal : (let* bs := enc_member encT res me data true in
                           let* rest0 := enc_adds encT res (ce ++ xe) data in
                           Ok ((if (0 <? length bs)%nat || true then Some bs else None) :: rest0)) = Ok processed ->
                          enc_open_types processed = Ok body ->
                          dec_adds decT (map is_some processed ++ repeat false k) ((false, [md]) :: cd ++ xd) (body ++ rest) =
                          Ok (match enc_member encT res me data true with
                              | Ok _ => [(m_name me, nm (m_ty me) (m_ty md) v)] ++ nadds ce cd data
                              | Err _ => []
                              end, rest)).
          { rewrite Henc. destruct (encT (m_ty me) v) as [bs|x] eqn:Eb; cbn [bind]; [|discriminate].
            destruct (enc_adds encT res (ce ++ xe) data) as [rest_p|] eqn:Er; [|discriminate]. cbn [bind].
            intros H. rewrite Bool.orb_true_r in H.
            assert (processed = Some bs :: rest_p) by congruence. subst processed. intros Hb.
            apply (dec_adds_present decT bs [(m_name me, nm (m_ty me) (m_ty md) v)] rest_p _ body k rest (nadds ce cd data));
              [|exact Hb|].
            - intros r. cbn [dec_one_addition]. unfold rbind. rewrite (HT _ _ _ _ HR Eb). rewrite Hn. reflexivity.
            - intros body' Hb'. cbn [tl]. apply (IH _ _ _ _ _ _ Hx Er Hb'). }
          destruct (m_opt me); exact Hgoal.
        * (* absent *)
          destruct (m_opt me) eqn:Eo.
          -- intros H Hb. assert (processed = []) by congruence. subst. cbn in Hb.
             assert (body = []) by congruence. subst. cbn [map app]. apply dec_adds_all_false.
          -- assert (Henc : enc_member encT res me data true = Ok []) by (unfold enc_member; rewrite Elk, Eo; reflexivity).
             rewrite Henc. cbn [bind].
             destruct (enc_adds encT res (ce ++ xe) data) as [rest_p|] eqn:Er; [|discriminate]. cbn [bind].
             intros H. cbn [length Nat.ltb Nat.leb orb] in H.
             assert (processed = None :: rest_p) by congruence. subst processed. cbn [enc_open_types].
             intros Hb. cbn [map app is_some dec_adds negb tl]. apply (IH _ _ _ _ _ _ Hx Er Hb).
          -- assert (Henc : enc_member encT res me data true = Ok []) by (unfold enc_member; rewrite Elk, Eo; reflexivity).
             rewrite Henc. cbn [bind].
             destruct (enc_adds encT res (ce ++ xe) data) as [rest_p|] eqn:Er; [|discriminate]. cbn [bind].
             intros H. cbn [length Nat.ltb Nat.leb orb] in H.
             assert (processed = None :: rest_p) by congruence. subst processed. cbn [enc_open_types].
             intros Hb. cbn [map app is_some dec_adds negb tl]. apply (IH _ _ _ _ _ _ Hx Er Hb).
  Qed.

  Lemma nadds_none_gen ce cd data : Forall2 addition_rel ce cd -> forall xe processed,
    enc_adds encT res (ce ++ xe) data = Ok processed -> existsb is_some processed = false ->
    nadds ce cd data = [].
  Proof.
    induction 1 as [|[isgroup mse] [isg' msd] ce cd Ha Hf IH]; intros xe processed; cbn [app enc_adds nadds]; [reflexivity|].
    destruct Ha as (Hg & Hms). cbn [fst snd] in Hg, Hms. subst isg'.
    destruct isgroup.
    - destruct (group_missing_first encT res mse data); [reflexivity|].
      destruct (enc_group encT res mse data) as [bs|x]; cbn [bind]; [|reflexivity].
      destruct (enc_adds encT res (ce ++ xe) data) as [rest_p|] eqn:Er; [|discriminate]. cbn [bind]. intros H.
      destruct (0 <? length bs)%nat.
      + assert (processed = Some bs :: rest_p) by congruence. subst. cbn. discriminate.
      + assert (processed = None :: rest_p) by congruence. subst. cbn [existsb is_some orb]. intros He.
        cbn [app]. apply (IH _ _ Er He).
    - destruct Hms as [|me md mse' msd' Hm Hms']; [reflexivity|].
      destruct Hms' as [|me2 md2 mse'' msd'' Hm2 Hms'']; [|reflexivity].
      assert (Hmain : forall found,
                 (found = lookup (m_name me) data) ->
                 (let* bs := enc_member encT res me data true in
                  let* rest0 := enc_adds encT res (ce ++ xe) data in
                  Ok ((if (0 <? length bs)%nat || match found with Some _ => true | None => false end
                       then Some bs else None) :: rest0)) = Ok processed ->
                 existsb is_some processed = false ->
                 match enc_member encT res me data true with
                 | Ok _ => (match found with Some v => [(m_name me, nm (m_ty me) (m_ty md) v)] | None => [] end)
                           ++ nadds ce cd data
                 | Err _ => []
                 end = []).
      { intros found Hfd. destruct (enc_member encT res me data true) as [bs|x]; cbn [bind]; [|reflexivity].
        destruct (enc_adds encT res (ce ++ xe) data) as [rest_p|] eqn:Er; [|discriminate]. cbn [bind]. intros H.
        destruct found as [v|].
        - rewrite Bool.orb_true_r in H. assert (processed = Some bs :: rest_p) by congruence. subst. cbn. discriminate.
        - rewrite Bool.orb_false_r in H. destruct (0 <? length bs)%nat.
          + assert (processed = Some bs :: rest_p) by congruence. subst. cbn. discriminate.
          + assert (processed = None :: rest_p) by congruence. subst. cbn [existsb is_some orb]. intros He.
            cbn [app]. apply (IH _ _ Er He). }
      destruct (lookup (m_name me) data) as [v|] eqn:Elk; destruct (m_opt me); try reflexivity;
        try (apply (Hmain (Some v)); reflexivity); apply (Hmain None); reflexivity.
  Qed.

  Lemma dec_additions_compat2 ce cd xe xd data abits rest :
    Forall2 addition_rel ce cd -> xe = [] \/ xd = [] -> (1 <= length (ce ++ xe))%nat ->
    enc_additions encT res (ce ++ xe) data = Ok (Some abits) ->
    dec_additions decT (cd ++ xd) (abits ++ rest) = Ok (nadds ce cd data, rest).
  Proof.
    intros Hf Hx Hne. unfold enc_additions, dec_additions.
    destruct (enc_adds encT res (ce ++ xe) data) as [processed|] eqn:Ep; [|discriminate]. cbn [bind].
    destruct (negb (existsb is_some processed)); [discriminate|].
    destruct (enc_small_len (Z.of_nat (length (ce ++ xe)))) as [l|] eqn:El; [|discriminate]. cbn [bind].
    destruct (enc_open_types processed) as [body|] eqn:Eb; [|discriminate]. cbn [bind]. intros H.
    pose proof (enc_adds_length _ _ _ _ _ Ep) as Hlen.
    set (pres := map is_some processed ++ repeat false (length (ce ++ xe) - length processed)) in *.
    assert (abits = l ++ pres ++ body) by congruence. subst abits.
    assert (Hn1 : 1 <= Z.of_nat (length (ce ++ xe))) by lia.
    unfold rbind at 1. rewrite <- app_assoc. rewrite (read_small_len_rt _ _ _ Hn1 El).
    assert (Hpl : length pres = length (ce ++ xe)).
    { unfold pres. rewrite app_length, map_length, repeat_length. lia. }
    unfold rbind at 1. rewrite Nat2Z.id. rewrite <- Hpl at 1. rewrite <- app_assoc. rewrite read_raw_app.
    unfold pres. apply (dec_adds_compat2 _ _ _ Hf _ _ _ _ _ _ Hx Ep Eb).
  Qed.

  Lemma dec_seq_compat2 roote rootd ce cd xe xd data bs rest :
    Forall2 member_rel roote rootd -> Forall2 addition_rel ce cd -> xe = [] \/ xd = [] ->
    enc_seq encT res roote (Some (ce ++ xe)) (VSeq data) = Ok bs ->
    dec_seq decT rootd (Some (cd ++ xd)) (bs ++ rest)
    = Ok (VSeq (nmembers roote rootd data ++ nadds ce cd data), rest).
  Proof.
    intros Hr Hf Hx. unfold enc_seq, dec_seq.
    destruct (enc_root encT res roote data) as [r|] eqn:Er; [|discriminate]. cbn [bind].
    assert (Hfalse : forall processed,
               enc_adds encT res (ce ++ xe) data = Ok processed -> existsb is_some processed = false ->
               (do* b <- read_bit; do* fs <- dec_root decT rootd;
                if b then do* more <- dec_additions decT (cd ++ xd); rret (VSeq (fs ++ more))
                else rret (VSeq fs)) ((false :: r) ++ rest)
               = Ok (VSeq (nmembers roote rootd data ++ nadds ce cd data), rest)).
    { intros processed Hp He. cbn [app]. unfold rbind at 1. cbn [read_bit]. unfold rbind.
      rewrite (dec_root2 _ _ _ _ _ Hr Er).
      rewrite (nadds_none_gen _ _ _ Hf _ _ Hp He), app_nil_r. reflexivity. }
    destruct (ce ++ xe) as [|a l] eqn:Eadds.
    - intros H. assert (bs = false :: r) by congruence. subst bs.
      apply (Hfalse []); reflexivity.
    - destruct (enc_additions encT res (a :: l) data) as [[abits|]|] eqn:Ea; [| |discriminate]; cbn [bind].
      + intros H. assert (bs = true :: r ++ abits) by congruence. subst bs. cbn [app]. unfold rbind at 1. cbn [read_bit].
        unfold rbind. rewrite <- app_assoc. rewrite (dec_root2 _ _ _ _ _ Hr Er).
        rewrite <- Eadds in Ea.
        assert (Hne : (1 <= length (ce ++ xe))%nat) by (rewrite Eadds; cbn [length]; lia).
        rewrite (dec_additions_compat2 _ _ _ _ _ _ _ Hf Hx Hne Ea). reflexivity.
      + intros H. assert (bs = false :: r) by congruence. subst bs.
        unfold enc_additions in Ea.
        destruct (enc_adds encT res (a :: l) data) as [processed|] eqn:Ep; [|discriminate]. cbn [bind] in Ea.
        destruct (existsb is_some processed) eqn:Ee; cbn [negb] in Ea.
        * destruct (enc_small_len (Z.of_nat (length (a :: l)))); [|discriminate]. cbn [bind] in Ea.
          destruct (enc_open_types processed); discriminate.
        * apply (Hfalse processed); auto.
  Qed.

  Lemma dec_seq_noext2 roote rootd data bs rest :
    Forall2 member_rel roote rootd ->
    enc_seq encT res roote None (VSeq data) = Ok bs ->
    dec_seq decT rootd None (bs ++ rest) = Ok (VSeq (nmembers roote rootd data), rest).
  Proof.
    intros Hr. unfold enc_seq, dec_seq. intros H. unfold rbind. rewrite (dec_root2 _ _ _ _ _ Hr H). reflexivity.
  Qed.

  (* CHOICE: first alternative of the ENCODER-side list with this name, together with its partner *)
  Fixpoint find_alt2 (name : string) (ae ad : list (member_of ty)) : option (member_of ty * member_of ty) :=
    match ae, ad with
    | me :: re, md :: rd => if String.eqb (m_name me) name then Some (me, md) else find_alt2 name re rd
    | _, _ => None
    end.

  Definition nchoice (roote rootd ce cd : list (member_of ty)) (name : string) (x : value) : value :=
    match find_alt2 name roote rootd with
    | Some (me, md) => VChoice name (nm (m_ty me) (m_ty md) x)
    | None =>
      match find_alt2 name ce cd with
      | Some (me, md) => VChoice name (nm (m_ty me) (m_ty md) x)
      | None => VUnknownChoice
      end
    end.

  Lemma find_alt2_some name ae ad : Forall2 member_rel ae ad -> forall i0 i me,
    find_alt name ae i0 = Some (i, me) ->
    exists md, find_alt2 name ae ad = Some (me, md) /\ nth_error ad (Z.to_nat (i - i0)) = Some md /\
               member_rel me md.
  Proof.
    induction 1 as [|x y ae ad Hm Hf IH]; intros i0 i me; cbn [find_alt find_alt2]; [discriminate|].
    destruct (String.eqb (m_name x) name) eqn:E.
    - intros H. assert (i0 = i /\ x = me) as (-> & ->) by (split; congruence).
      exists y. split; [reflexivity|]. replace (i - i) with 0 by lia. split; [reflexivity|exact Hm].
    - intros H. destruct (IH _ _ _ H) as (md & A & B & C). exists md. split; [exact A|]. split; [|exact C].
      destruct (find_alt_spec _ _ _ _ _ H) as (Hrange & _ & _).
      replace (Z.to_nat (i - i0)) with (S (Z.to_nat (i - (i0 + 1)))) by lia. exact B.
  Qed.

  Lemma find_alt2_none name ae ad : Forall2 member_rel ae ad -> forall i0,
    find_alt name ae i0 = None -> find_alt2 name ae ad = None.
  Proof.
    induction 1 as [|x y ae ad Hm Hf IH]; intros i0; cbn [find_alt find_alt2]; [reflexivity|].
    destruct (String.eqb (m_name x) name); [discriminate|]. apply IH.
  Qed.

  Lemma dec_choice_root2 roote rootd name x bs rest i me md :
    Forall2 member_rel roote rootd ->
    find_alt name roote 0 = Some (i, me) -> nth_error rootd (Z.to_nat i) = Some md -> member_rel me md ->
    enc_choice_root encT roote name x = Ok bs ->
    dec_choice_root decT rootd (bs ++ rest) = Ok (VChoice name (nm (m_ty me) (m_ty md) x), rest).
  Proof.
    intros Hr Hf Hnd (Hn & _ & HR). unfold enc_choice_root, dec_choice_root. rewrite Hf.
    destruct (encT (m_ty me) x) as [body|] eqn:Eb; [|discriminate]. cbn [bind]. intros H.
    destruct (find_alt_spec _ _ _ _ _ Hf) as (Hrg & _ & Hm).
    pose proof (Forall2_len2 Hr) as Hlen.
    assert (Hcb : choice_root_bits rootd = choice_root_bits roote) by (unfold choice_root_bits; rewrite Hlen; reflexivity).
    rewrite <- Hlen, Hcb.
    destruct (1 <? length roote)%nat eqn:E1.
    - assert (bs = to_bits (choice_root_bits roote) i ++ body) by congruence. subst bs.
      unfold rbind. rewrite <- app_assoc.
      rewrite read_uint_app by (unfold choice_root_bits; apply fits_bit_length; lia).
      rewrite (nth_z_of_index _ i md) by (auto; lia). rewrite (HT _ _ _ _ HR Eb). rewrite <- Hn, Hm. reflexivity.
    - assert (bs = [] ++ body) by congruence. subst bs. cbn [app]. unfold rbind, rret at 1.
      assert (i = 0) by lia. subst i.
      rewrite (nth_z_of_index _ 0 md) by (auto; lia). rewrite (HT _ _ _ _ HR Eb). rewrite <- Hn, Hm. reflexivity.
  Qed.

  Lemma dec_choice_compat2 roote rootd ce cd xe xd name x bs rest :
    Forall2 member_rel roote rootd -> Forall2 member_rel ce cd -> xe = [] \/ xd = [] ->
    enc_choice encT roote (Some (ce ++ xe)) (VChoice name x) = Ok bs ->
    dec_choice decT rootd (Some (cd ++ xd)) (bs ++ rest) = Ok (nchoice roote rootd ce cd name x, rest).
  Proof.
    intros Hr Hc Hx. unfold enc_choice, dec_choice, nchoice.
    destruct (find_alt name roote 0) as [[i me]|] eqn:Ef.
    - destruct (find_alt2_some _ _ _ Hr _ _ _ Ef) as (md & F2 & Hnd & Hm). rewrite F2.
      replace (i - 0) with i in Hnd by lia.
      destruct (enc_choice_root encT roote name x) as [r|] eqn:Er; [|discriminate]. cbn [bind].
      intros H. assert (bs = false :: r) by congruence. subst bs. cbn [app]. unfold rbind at 1.
      cbn [read_bit negb]. eapply dec_choice_root2; eauto.
    - rewrite (find_alt2_none _ _ _ Hr _ Ef). rewrite find_alt_app.
      destruct (find_alt name ce 0) as [[i me]|] eqn:Ea.
      + (* an addition both sides know *)
        destruct (find_alt2_some _ _ _ Hc _ _ _ Ea) as (md & F2 & Hnd & (Hn & _ & HR)). rewrite F2.
        replace (i - 0) with i in Hnd by lia.
        destruct (encT (m_ty me) x) as [body|] eqn:Eb; [|discriminate]. cbn [bind].
        destruct (enc_small_nonneg i) as [idx|] eqn:Ei; [|discriminate]. cbn [bind].
        unfold enc_len_single.
        destruct (Z.of_nat (length (pad8 body) / 8) <? 16384) eqn:El; [|discriminate]. cbn [bind]. intros H.
        assert (bs = true :: idx ++ enc_len_short (Z.of_nat (length (pad8 body) / 8)) ++ pad8 body) by congruence.
        subst bs. cbn [app]. unfold rbind at 1. cbn [read_bit negb].
        destruct (find_alt_spec _ _ _ _ _ Ea) as (Hrg & _ & Hnm).
        pose proof (Forall2_len2 Hc) as Hlen.
        unfold rbind at 1. rewrite <- app_assoc. rewrite (read_small_nonneg_rt i idx _ ltac:(lia) Ei).
        unfold rbind at 1. rewrite <- app_assoc. rewrite read_len_short by lia.
        assert (Hz : nth_z (cd ++ xd) i = Some md).
        { apply nth_z_of_index; [rewrite app_length; lia|]. rewrite nth_error_app1 by lia. exact Hnd. }
        rewrite Hz.
        destruct (pad8_length body) as (k & Hk & Hle & Hdiv).
        unfold pad8. rewrite <- app_assoc. unfold rbind at 1. unfold with_consumed.
        rewrite (HT _ _ _ _ HR Eb).
        rewrite !app_length. rewrite repeat_length.
        set (padn := ((8 - length body mod 8) mod 8)%nat) in *.
        replace (length body + (padn + length rest) - (padn + length rest))%nat with (length body) by lia.
        assert (Hnb : Z.to_nat (8 * Z.of_nat ((length body + padn) / 8)) = (length body + padn)%nat).
        { unfold pad8 in Hk, Hdiv. rewrite app_length, repeat_length in Hk, Hdiv. fold padn in Hk, Hdiv.
          rewrite Hdiv. lia. }
        rewrite Hnb.
        destruct (length body + padn <? length body)%nat eqn:Elt; [lia|].
        replace (length body + padn - length body)%nat with padn by lia.
        unfold rbind. unfold skip_bits. rewrite app_length, repeat_length.
        destruct (padn + length rest <? padn)%nat eqn:E2; [lia|].
        rewrite skipn_app, repeat_length, Nat.sub_diag. cbn [skipn].
        rewrite skipn_all2 by (rewrite repeat_length; lia). cbn [app]. rewrite <- Hn, Hnm. reflexivity.
      + rewrite (find_alt2_none _ _ _ Hc _ Ea). destruct Hx as [-> | ->]; [cbn [find_alt]; discriminate|].
        (* an addition only the encoder knows: the open type is skipped *)
        rewrite (app_nil_r cd).
        destruct (find_alt name xe (0 + Z.of_nat (length ce))) as [[i m]|] eqn:Ex; [|discriminate].
        destruct (encT (m_ty m) x) as [body|] eqn:Eb; [|discriminate]. cbn [bind].
        destruct (enc_small_nonneg i) as [idx|] eqn:Ei; [|discriminate]. cbn [bind].
        unfold enc_len_single.
        destruct (Z.of_nat (length (pad8 body) / 8) <? 16384) eqn:El; [|discriminate]. cbn [bind]. intros H.
        assert (bs = true :: idx ++ enc_len_short (Z.of_nat (length (pad8 body) / 8)) ++ pad8 body) by congruence.
        subst bs. cbn [app]. unfold rbind at 1. cbn [read_bit negb].
        destruct (find_alt_spec _ _ _ _ _ Ex) as (Hrange & _ & _).
        pose proof (Forall2_len2 Hc) as Hlen.
        unfold rbind at 1. rewrite <- app_assoc. rewrite (read_small_nonneg_rt i idx _ ltac:(lia) Ei).
        unfold rbind at 1. rewrite <- app_assoc. rewrite read_len_short by lia.
        assert (Hnone : nth_z cd i = None).
        { unfold nth_z. destruct ((i <? 0) || (Z.of_nat (length cd) <=? i)) eqn:E; [reflexivity|lia]. }
        rewrite Hnone. destruct (pad8_length body) as (q & Hq & _ & Hdiv).
        unfold rbind. unfold skip_bits. rewrite Hdiv.
        replace (Z.to_nat (8 * Z.of_nat q)) with (length (pad8 body)) by lia. rewrite app_length.
        destruct (length (pad8 body) + length rest <? length (pad8 body))%nat eqn:E; [lia|].
        rewrite skipn_app, Nat.sub_diag. cbn [skipn]. rewrite skipn_all. reflexivity.
  Qed.

  Lemma dec_choice_noext2 roote rootd name x bs rest :
    Forall2 member_rel roote rootd ->
    enc_choice encT roote None (VChoice name x) = Ok bs ->
    dec_choice decT rootd None (bs ++ rest) = Ok (nchoice roote rootd [] [] name x, rest).
  Proof.
    intros Hr. unfold enc_choice, dec_choice, nchoice. intros H.
    destruct (find_alt name roote 0) as [[i me]|] eqn:Ef.
    - destruct (find_alt2_some _ _ _ Hr _ _ _ Ef) as (md & F2 & Hnd & Hm). rewrite F2.
      replace (i - 0) with i in Hnd by lia. eapply dec_choice_root2; eauto.
    - unfold enc_choice_root in H. rewrite Ef in H. discriminate.
  Qed.
End Compat2.

Print Assumptions dec_seq_compat2.
Print Assumptions dec_choice_compat2.
