(** Round-trip and prefix-behaviour framework, and the UPER primitives:
    length determinant, unconstrained / constrained whole numbers. *)
From Asn1V Require Import Base.Prelude Base.Sweep Base.Bits Base.BitsProofs Syntax.Asn1 Per.UperImpl.

Definition is_dec_err {A} (r : result A) : Prop :=
  exists e, r = Err e /\ is_decode_error e = true.

(** An encoder/decoder pair round-trips (relative to a normalisation), with
    any continuation of the input left untouched. *)
Definition RT {A B} (enc : A -> result bits) (dec : reader B) (norm : A -> B) : Prop :=
  forall a bs, enc a = Ok bs -> forall rest, dec (bs ++ rest) = Ok (norm a, rest).

(** Prefix behaviour of a decoder: a successful run consumed a prefix [used]
    of its input; the result does not depend on what follows; and every
    strict prefix of [used] is rejected with the library's decode error. *)
Definition PB {B} (dec : reader B) : Prop :=
  forall inp b rest, dec inp = Ok (b, rest) ->
    exists used, inp = used ++ rest /\
      (forall rest', dec (used ++ rest') = Ok (b, rest')) /\
      (forall k, (k < length used)%nat -> is_dec_err (dec (firstn k used))).

Lemma PB_ret {A} (a : A) : PB (rret a).
Proof.
  intros inp b rest H. unfold rret in H. inversion H; subst. exists []. split; [reflexivity|].
  split; [intros; reflexivity | cbn; intros; lia].
Qed.

Lemma PB_fail {A} e : PB (@rfail A e).
Proof. intros inp b rest H. discriminate H. Qed.

Lemma PB_bind {A B} (m : reader A) (f : A -> reader B) :
  PB m -> (forall a, PB (f a)) -> PB (rbind m f).
Proof.
  intros Hm Hf inp b rest H. unfold rbind in H.
  destruct (m inp) as [[a r1]|e] eqn:E1; [|discriminate].
  destruct (Hm _ _ _ E1) as (u1 & -> & Hm2 & Hm3).
  destruct (Hf a _ _ _ H) as (u2 & -> & Hf2 & Hf3).
  exists (u1 ++ u2). split; [rewrite app_assoc; reflexivity|]. split.
  - intros rest'. unfold rbind. rewrite <- app_assoc, Hm2. apply Hf2.
  - intros k Hk. unfold rbind. rewrite app_length in Hk.
    destruct (Nat.lt_ge_cases k (length u1)) as [Hlt|Hge].
    + rewrite firstn_app_le by lia. destruct (Hm3 k Hlt) as (e & -> & He). exists e. auto.
    + rewrite firstn_app_ge by lia. rewrite Hm2.
      apply Hf3. lia.
Qed.

Lemma PB_read_bit : PB read_bit.
Proof.
  intros inp b rest H. destruct inp as [|x inp]; [discriminate|]. cbn in H. inversion H; subst.
  exists [b]. split; [reflexivity|]. split; [reflexivity|].
  intros k Hk. cbn in Hk. assert (k = 0%nat) by lia. subst. exists EOutOfData. auto.
Qed.

Lemma PB_read_raw n : PB (read_raw n).
Proof.
  intros inp b rest H. unfold read_raw in H.
  destruct (length inp <? n)%nat eqn:E; [discriminate|]. inversion H; subst.
  exists (firstn n inp). split; [symmetry; apply firstn_skipn|].
  assert (Hl : length (firstn n inp) = n) by (rewrite firstn_length; lia).
  split.
  - intros rest'. unfold read_raw. rewrite app_length, Hl.
    destruct (n + length rest' <? n)%nat eqn:E2; [lia|].
    rewrite firstn_app, Hl, Nat.sub_diag. cbn [firstn]. rewrite app_nil_r.
    rewrite firstn_firstn, Nat.min_id.
    rewrite skipn_app, Hl, Nat.sub_diag. cbn [skipn].
    rewrite skipn_all2 by lia. reflexivity.
  - intros k Hk. rewrite Hl in Hk. unfold read_raw. rewrite firstn_length, Hl.
    destruct (Init.Nat.min k n <? n)%nat eqn:E2; [|lia]. exists EOutOfData. auto.
Qed.

Lemma PB_ext {A} (d1 d2 : reader A) : (forall bs, d1 bs = d2 bs) -> PB d1 -> PB d2.
Proof.
  intros He H inp b rest Hd. rewrite <- He in Hd. destruct (H _ _ _ Hd) as (u & -> & H2 & H3).
  exists u. split; [reflexivity|]. split.
  - intros r'. rewrite <- He. apply H2.
  - intros k Hk. rewrite <- He. apply H3. exact Hk.
Qed.

Lemma PB_read_uint n : PB (read_uint n).
Proof.
  apply (PB_ext (rbind (read_raw n) (fun x => rret (of_bits x)))).
  - intros bs. unfold rbind, read_raw, read_uint, rret. destruct (length bs <? n)%nat; reflexivity.
  - apply PB_bind; [apply PB_read_raw | intros; apply PB_ret].
Qed.

Lemma PB_skip_bits n : PB (skip_bits n).
Proof.
  apply (PB_ext (rbind (read_raw n) (fun _ => rret tt))).
  - intros bs. unfold rbind, read_raw, skip_bits, rret. destruct (length bs <? n)%nat; reflexivity.
  - apply PB_bind; [apply PB_read_raw | intros; apply PB_ret].
Qed.

Lemma PB_if {A} (c : bool) (d1 d2 : reader A) : PB d1 -> PB d2 -> PB (if c then d1 else d2).
Proof. destruct c; auto. Qed.

Lemma PB_read_n {A} n (rd : reader A) : PB rd -> PB (read_n n rd).
Proof.
  intros H. induction n as [|n IH]; cbn [read_n]; [apply PB_ret|].
  apply PB_bind; [exact H|]. intros x. apply PB_bind; [exact IH|]. intros r. apply PB_ret.
Qed.

(** ** Length determinant *)

Lemma PB_read_len : PB read_len.
Proof.
  unfold read_len. apply PB_bind; [apply PB_read_uint|]. intros v.
  repeat (apply PB_if; [try apply PB_ret|]); try apply PB_fail.
  apply PB_bind; [apply PB_read_uint | intros; apply PB_ret].
Qed.

Definition len2_ok (n : Z) : bool :=
  let b0 := Z.lor 128 (Z.shiftr n 8) in
  let b1 := Z.land n 255 in
  (0 <=? b0) && (b0 <? 256) && (0 <=? b1) && (b1 <? 256) &&
  negb (Z.land b0 128 =? 0) && (Z.land b0 192 =? 128) &&
  (Z.lor (Z.shiftl (Z.land b0 127) 8) b1 =? n).

Lemma len2_sweep n : 128 <= n < 16384 -> len2_ok n = true.
Proof.
  intros H. apply (sweep len2_ok 128 (Z.to_nat 16256)); [vm_compute; reflexivity | lia].
Qed.

Lemma read_len_short n rest :
  0 <= n < 16384 -> read_len (enc_len_short n ++ rest) = Ok (n, rest).
Proof.
  intros H. unfold enc_len_short, read_len, rbind.
  destruct (n <? 128) eqn:E.
  - rewrite read_uint_app by (change (2 ^ Z.of_nat 8) with 256; lia).
    rewrite land_128_small by lia. reflexivity.
  - pose proof (len2_sweep n ltac:(lia)) as Hs. unfold len2_ok in Hs.
    set (b0 := Z.lor 128 (Z.shiftr n 8)) in *. set (b1 := Z.land n 255) in *.
    repeat (apply andb_prop in Hs; destruct Hs as [Hs ?]).
    rewrite <- app_assoc.
    rewrite read_uint_app by (change (2 ^ Z.of_nat 8) with 256; lia).
    destruct (Z.land b0 128 =? 0) eqn:E1; [discriminate|].
    destruct (Z.land b0 192 =? 128) eqn:E2; [|discriminate].
    rewrite read_uint_app by (change (2 ^ Z.of_nat 8) with 256; lia).
    unfold rret. f_equal. f_equal. lia.
Qed.
