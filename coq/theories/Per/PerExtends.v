(** C07 for the ALIGNED PER model, at any nesting depth, for the SAME relation
    [extends] / [extends_strict] and the SAME projection [proj] as
    UperExtends.v (imported, not redefined), in the positional form [ERT]:
    - forward: what version 2 appends at any encoder position is read by
      version 1 as the version-1 projection of the value version 2 would
      decode ([pnorm] at version 2);
    - backward: what version 1 appends is read by version 2 as exactly the
      version-1 normal form.
    [proj] is purely type directed, so it is shared; [norm] has to be [pnorm]
    because which additions count as present is decided by the aligned
    encoders ([pnorm_adds]). *)
From Asn1V Require Import Base.Prelude Base.Sweep Base.Bits Base.BitsProofs
     Syntax.Asn1 Per.UperImpl Per.UperPrim Per.UperPB Per.UperRT Per.UperExt
     Per.UperReenc Per.UperCompat2 Per.UperExtends
     Per.PerImpl Per.PerPrim Per.PerPB Per.PerRT Per.PerReenc Per.PerCompat2.

Ltac Zify.zify_post_hook ::= Z.div_mod_to_equations.

(** ** Projection of the aligned normal form of the additions *)
Section PProjFields.
  Variable encT : ty -> value -> penc.
  Variable normT : ty -> value -> value.
  Variable res : ty -> ty.
  Variable P : ty -> ty -> value -> value.
  Variable K : list (string * (ty * ty)).

  Lemma pf_padds c2 a1 data :
    Forall2 (fun x2 x1 => Forall2 (pair_ok P K) (snd x2) (snd x1)) c2 a1 ->
    proj_fields P K (pnorm_adds encT normT res c2 data) = pnadds encT res (nm_fwd normT P) c2 a1 data.
  Proof.
    intros F. induction F as [|[g2 ms2] [g1 ms1] r2 r1 Hm F IH]; [reflexivity|].
    cbn [snd] in Hm. cbn [pnorm_adds pnadds]. destruct g2.
    - destruct (p_group_missing_first encT res ms2 data _); [reflexivity|].
      destruct (p_group encT res ms2 data) as [bs|]; [|reflexivity].
      rewrite proj_fields_app, IH. f_equal.
      destruct (0 <? length bs)%nat; [|reflexivity]. apply pf_members. exact Hm.
    - destruct Hm as [|m2 m1 l2 l1 [Hk Hd] Hm']; [reflexivity|].
      destruct Hm' as [|m2' m1' l2' l1' _ _]; [|reflexivity].
      assert (Hc : forall found : option value,
        proj_fields P K
          (match prun (p_member encT res m2 data true) with
           | Ok _ => (match found with Some v => [(m_name m2, normT (m_ty m2) v)] | None => [] end)
                     ++ pnorm_adds encT normT res r2 data
           | Err _ => []
           end)
        = match prun (p_member encT res m2 data true) with
          | Ok _ => (match found with Some v => [(m_name m2, nm_fwd normT P (m_ty m2) (m_ty m1) v)] | None => [] end)
                    ++ pnadds encT res (nm_fwd normT P) r2 r1 data
          | Err _ => []
          end).
      { intros found. destruct (prun (p_member encT res m2 data true)); [|reflexivity].
        rewrite proj_fields_app, IH. f_equal. destruct found as [v|]; [|reflexivity].
        rewrite (pf_cons _ _ _ _ _ _ _ Hk). reflexivity. }
      destruct (lookup (m_name m2) data) as [v|]; destruct (m_opt m2); try reflexivity;
        first [exact (Hc (Some v)) | exact (Hc None)].
  Qed.
End PProjFields.

Lemma pnorm_adds_app encT normT res c new data :
  exists tl, pnorm_adds encT normT res (c ++ new) data = pnorm_adds encT normT res c data ++ tl /\
             (forall n, In n (keys tl) -> In n (add_names new)).
Proof.
  induction c as [|[g ms] c (tl & IH & Hk)]; cbn [app].
  - exists (pnorm_adds encT normT res new data). split; [reflexivity|]. intros n. apply keys_pnorm_adds.
  - assert (Hstop : exists tl0, @nil (string * value) = [] ++ tl0 /\ (forall n, In n (keys tl0) -> In n (add_names new)))
      by (exists []; split; [reflexivity|intros n []]).
    cbn [pnorm_adds]. destruct g.
    + destruct (p_group_missing_first encT res ms data _); [exact Hstop|].
      destruct (p_group encT res ms data) as [bs|]; [|exact Hstop].
      exists tl. rewrite IH, app_assoc. split; [reflexivity|exact Hk].
    + destruct ms as [|m [|m' ms']]; try exact Hstop.
      assert (Hc : forall found : option value, exists tl0,
        match prun (p_member encT res m data true) with
        | Ok _ => (match found with Some v => [(m_name m, normT (m_ty m) v)] | None => [] end)
                  ++ pnorm_adds encT normT res (c ++ new) data
        | Err _ => []
        end
        = match prun (p_member encT res m data true) with
          | Ok _ => (match found with Some v => [(m_name m, normT (m_ty m) v)] | None => [] end)
                    ++ pnorm_adds encT normT res c data
          | Err _ => []
          end ++ tl0 /\ (forall n, In n (keys tl0) -> In n (add_names new))).
      { intros found. destruct (prun (p_member encT res m data true)); [|exact Hstop].
        exists tl. rewrite IH, app_assoc. split; [reflexivity|exact Hk]. }
      destruct (lookup (m_name m) data) as [v|]; destruct (m_opt m); try exact Hstop;
        first [exact (Hc (Some v)) | exact (Hc None)].
Qed.

Lemma pnadds_norm encT res (normT : ty -> value -> value) ce cd data :
  Forall2 (fun x1 x2 : addition_of ty => length (snd x1) = length (snd x2)) ce cd ->
  pnadds encT res (fun te _ v => normT te v) ce cd data = pnorm_adds encT normT res ce data.
Proof.
  intros F. induction F as [|[g1 ms1] [g2 ms2] r1 r2 Hl F IH]; [reflexivity|].
  cbn [snd] in Hl. cbn [pnadds pnorm_adds]. rewrite IH. destruct g1.
  - rewrite (nmembers_norm _ _ _ _ _ Hl). reflexivity.
  - destruct ms1 as [|m1 [|m1' l1]]; destruct ms2 as [|m2 [|m2' l2]]; cbn [length] in Hl; try discriminate; reflexivity.
Qed.

(** ** Forward: version 2 encodes, version 1 decodes *)
Section PForward.
  Variable numeric : bool.
  Variables e1 e2 : env.
  Variable f : nat.
  Hypothesis IHf : forall t1 t2 v,
    ext_gen numeric e1 e2 true f t1 t2 ->
    ERT (penc_ty numeric e2 f t2 v) (pdec_ty numeric e1 f t1)
        (proj numeric e1 e2 f t1 t2 (pnorm numeric e2 f t2 v)).

  Let Rf (te td : ty) : Prop := ext_gen numeric e1 e2 true f td te.
  Let nmf := nm_fwd (pnorm numeric e2 f) (proj numeric e1 e2 f).
  Let Q := mrel true (ext_gen numeric e1 e2 true f) (proj numeric e1 e2 f).
  Let Qc := mrel false (ext_gen numeric e1 e2 true f) (proj numeric e1 e2 f).

  Lemma pHTf : forall te td v, Rf te td ->
    ERT (penc_ty numeric e2 f te v) (pdec_ty numeric e1 f td) (nmf te td v).
  Proof. intros te td v HR. apply IHf. exact HR. Qed.

  Lemma pseq_fwd r1 r2 a1 c2 new data :
    Forall2 Q r1 r2 ->
    NoDup (map m_name r2 ++ add_names (c2 ++ new)) ->
    Forall2 (arel true (ext_gen numeric e1 e2 true f) (proj numeric e1 e2 f)) a1 c2 ->
    ERT (p_seq (penc_ty numeric e2 f) (resolve e2 f) r2 (Some (c2 ++ new)) (VSeq data))
        (pd_seq (pdec_ty numeric e1 f) r1 (Some a1))
        (VSeq (proj_fields (proj numeric e1 e2 f) (known r1 r2 (Some a1) (Some (c2 ++ new)))
                 (norm_members (pnorm numeric e2 f) (resolve e2 f) r2 data ++
                  pnorm_adds (penc_ty numeric e2 f) (pnorm numeric e2 f) (resolve e2 f) (c2 ++ new) data))).
  Proof.
    intros Hr Hnd Ha.
    pose proof (ERT_seq_compat2 (penc_ty numeric e2 f) (pdec_ty numeric e1 f) (resolve e2 f) Rf nmf pHTf
                  r2 r1 c2 a1 new [] data (mrel_flip _ _ _ _ _ _ _ Hr) (arel_flip _ _ _ _ _ _ Ha) (or_intror eq_refl)) as Hd.
    rewrite app_nil_r in Hd. eapply ERT_val; [|exact Hd]. f_equal.
    set (K := known r1 r2 (Some a1) (Some (c2 ++ new))).
    assert (Hlen_r : length r1 = length r2) by (apply (Forall2_len2 Hr)).
    assert (Ha' : Forall2 (fun x1 x2 => Forall2 Q (snd x1) (snd x2)) a1 c2)
      by (eapply Forall2_imp; [|exact Ha]; intros x y [_ Hm]; exact Hm).
    assert (HkK : keys K = map m_name r2 ++ add_names c2).
    { unfold K, known, keys. rewrite map_app. fold (keys (zipm r1 r2)). rewrite (keys_zipm _ _ Hlen_r). f_equal.
      cbn [opt_list]. apply (keys_zipa (fun x1 x2 => Forall2 Q (snd x1) (snd x2))); [|exact Ha'].
      intros x1 x2 Hx. apply (Forall2_len2 Hx). }
    unfold add_names in Hnd. rewrite flat_map_app in Hnd. fold (add_names c2) in Hnd. fold (add_names new) in Hnd.
    rewrite app_assoc in Hnd.
    assert (HndK : NoDup (keys K)) by (rewrite HkK; exact (NoDup_app_l _ _ Hnd)).
    destruct (pnorm_adds_app (penc_ty numeric e2 f) (pnorm numeric e2 f) (resolve e2 f) c2 new data) as (tl & Etl & Htl).
    rewrite Etl, !proj_fields_app.
    rewrite (pf_members (pnorm numeric e2 f) (resolve e2 f) (proj numeric e1 e2 f) K r2 r1 data).
    2:{ eapply Forall2_imp; [intros x y; apply (Q_pair_ok numeric e1 e2 f K x y HndK)|].
        apply (zipm_In Q _ _ Hr). unfold K, known. apply incl_appl. apply incl_refl. }
    rewrite (pf_padds (penc_ty numeric e2 f) (pnorm numeric e2 f) (resolve e2 f) (proj numeric e1 e2 f) K c2 a1 data).
    2:{ eapply Forall2_imp; [intros x y Hxy; eapply Forall2_imp; [intros x' y'; apply (Q_pair_ok numeric e1 e2 f K x' y' HndK)|exact Hxy]|].
        apply (zipa_In Q _ _ new Ha'). unfold K, known. cbn [opt_list]. apply incl_appr. apply incl_refl. }
    rewrite proj_fields_drop; [rewrite app_nil_r; reflexivity|].
    intros n Hn. apply lookup_notin. rewrite HkK. intros Hin.
    exact (NoDup_app_disj _ _ _ Hnd Hin (Htl _ Hn)).
  Qed.

  Lemma pseq_fwd_noext r1 r2 data :
    Forall2 Q r1 r2 ->
    NoDup (map m_name r2 ++ []) ->
    ERT (p_seq (penc_ty numeric e2 f) (resolve e2 f) r2 None (VSeq data))
        (pd_seq (pdec_ty numeric e1 f) r1 None)
        (VSeq (proj_fields (proj numeric e1 e2 f) (known r1 r2 None None)
                 (norm_members (pnorm numeric e2 f) (resolve e2 f) r2 data ++ []))).
  Proof.
    intros Hr Hnd.
    eapply ERT_val; [|exact (ERT_seq_noext2 (penc_ty numeric e2 f) (pdec_ty numeric e1 f) (resolve e2 f) Rf nmf pHTf
                               r2 r1 data (mrel_flip _ _ _ _ _ _ _ Hr))].
    f_equal. set (K := known r1 r2 None None). rewrite app_nil_r in *.
    assert (HkK : keys K = map m_name r2).
    { unfold K, known. cbn [opt_list zipa]. rewrite app_nil_r. apply keys_zipm. apply (Forall2_len2 Hr). }
    assert (HndK : NoDup (keys K)) by (rewrite HkK; exact Hnd).
    rewrite (pf_members (pnorm numeric e2 f) (resolve e2 f) (proj numeric e1 e2 f) K r2 r1 data); [reflexivity|].
    eapply Forall2_imp; [intros x y; apply (Q_pair_ok numeric e1 e2 f K x y HndK)|].
    apply (zipm_In Q _ _ Hr). unfold K, known. apply incl_appl. apply incl_refl.
  Qed.

  (** CHOICE: the two-sided result is the projection of the version-2 normal form *)
  Lemma pchoice_fwd_eq r1 r2 a1 c2 new name x :
    Forall2 Qc r1 r2 -> Forall2 Qc a1 c2 ->
    nchoice nmf r2 r1 c2 a1 name x
    = proj numeric e1 e2 (S f) (TChoice r1 (Some a1)) (TChoice r2 (Some (c2 ++ new)))
           (pnorm numeric e2 (S f) (TChoice r2 (Some (c2 ++ new))) (VChoice name x)).
  Proof.
    intros Hr Ha. cbn [pnorm proj opt_list]. unfold nchoice.
    pose proof (mrel_flip _ _ _ _ _ _ _ Hr) as Hr'. pose proof (mrel_flip _ _ _ _ _ _ _ Ha) as Ha'.
    pose proof (find_alt2_app_l name c2 a1 new (Forall2_len2 Ha')) as Happ.
    destruct (find_alt name r2 0) as [[i me]|] eqn:Ef; cbv beta iota.
    - destruct (find_alt2_some Rf name r2 r1 Hr' 0 i me Ef) as (md & E2 & _ & _). rewrite E2. reflexivity.
    - rewrite (find_alt2_none Rf name r2 r1 Hr' 0 Ef).
      rewrite find_alt_app. destruct (find_alt name c2 0) as [[i me]|] eqn:Ec; cbv beta iota.
      + destruct (find_alt2_some Rf name c2 a1 Ha' 0 i me Ec) as (md & E2 & _ & _).
        rewrite (find_alt2_none Rf name r2 r1 Hr' 0 Ef), Happ, E2. reflexivity.
      + rewrite (find_alt2_none Rf name c2 a1 Ha' 0 Ec).
        destruct (find_alt name new (0 + Z.of_nat (length c2))) as [[i me]|]; cbv beta iota;
          rewrite (find_alt2_none Rf name r2 r1 Hr' 0 Ef), Happ, (find_alt2_none Rf name c2 a1 Ha' 0 Ec); reflexivity.
  Qed.

  Lemma pchoice_fwd_eq_noext r1 r2 name x i me :
    Forall2 Qc r1 r2 -> find_alt name r2 0 = Some (i, me) ->
    nchoice nmf r2 r1 [] [] name x
    = proj numeric e1 e2 (S f) (TChoice r1 None) (TChoice r2 None)
           (pnorm numeric e2 (S f) (TChoice r2 None) (VChoice name x)).
  Proof.
    intros Hr Ef. cbn [pnorm proj opt_list]. unfold nchoice.
    pose proof (mrel_flip _ _ _ _ _ _ _ Hr) as Hr'. rewrite Ef. cbv beta iota.
    destruct (find_alt2_some Rf name r2 r1 Hr' 0 i me Ef) as (md & E2 & _ & _). rewrite E2. reflexivity.
  Qed.
End PForward.

Section PForwardMain.
  Variable numeric : bool.
  Variables e1 e2 : env.

  (** C07 forward, any depth, positional. *)
  Theorem per_forward : forall f t1 t2 v,
    extends_strict numeric e1 e2 f t1 t2 ->
    ERT (penc_ty numeric e2 f t2 v) (pdec_ty numeric e1 f t1)
        (proj numeric e1 e2 f t1 t2 (pnorm numeric e2 f t2 v)).
  Proof.
    unfold extends_strict. induction f as [|f IH]; intros t1 t2 v Hx; [apply ERT_fail|].
    pose (Rf := fun te td : ty => ext_gen numeric e1 e2 true f td te).
    pose (nmf := nm_fwd (pnorm numeric e2 f) (proj numeric e1 e2 f)).
    pose proof (pHTf numeric e1 e2 f IH) as HT.
    destruct t1; destruct t2; cbn [ext_gen] in Hx; try discriminate Hx.
    - (* BOOLEAN *) exact (penc_pdec_rt numeric e2 (S f) _ v).
    - (* NULL *) exact (penc_pdec_rt numeric e2 (S f) _ v).
    - (* INTEGER *) inversion Hx; subst. exact (penc_pdec_rt numeric e2 (S f) _ v).
    - (* ENUMERATED *)
      destruct Hx as [-> Hx]. destruct ext as [a1|], ext0 as [a2|]; try contradiction.
      + destruct Hx as [new ->]. cbn [penc_ty pdec_ty pnorm proj].
        apply ERT_plift. intros b Hb rest. apply read_enum_fwd. exact Hb.
      + exact (penc_pdec_rt numeric e2 (S f) _ v).
    - (* BIT STRING *) inversion Hx; subst. exact (penc_pdec_rt numeric e2 (S f) _ v).
    - (* OCTET STRING *) inversion Hx; subst. exact (penc_pdec_rt numeric e2 (S f) _ v).
    - (* character strings *) inversion Hx; subst. exact (penc_pdec_rt numeric e2 (S f) _ v).
    - (* OBJECT IDENTIFIER *) exact (penc_pdec_rt numeric e2 (S f) _ v).
    - (* SEQUENCE / SET *)
      destruct Hx as (-> & Hr & Hnd & Hx). specialize (Hnd eq_refl).
      destruct ext as [a1|], ext0 as [a2|]; try contradiction.
      + destruct Hx as (c2 & new & -> & Ha). cbn [penc_ty pdec_ty]. destruct v; try apply ERT_fail.
        cbn [pnorm proj]. unfold pnorm_seq. cbn [opt_list] in Hnd.
        apply (pseq_fwd numeric e1 e2 f IH); assumption.
      + cbn [penc_ty pdec_ty]. destruct v; try apply ERT_fail.
        cbn [pnorm proj]. unfold pnorm_seq. cbn [opt_list add_names flat_map] in Hnd.
        apply (pseq_fwd_noext numeric e1 e2 f IH); assumption.
    - (* SEQUENCE OF / SET OF *)
      destruct Hx as (-> & -> & Hx). cbn [penc_ty pdec_ty]. destruct v; try apply ERT_fail.
      cbn [pnorm proj]. rewrite map_map.
      exact (ERT_seqof (fun _ => penc_ty numeric e2 f t2) (fun _ => pdec_ty numeric e1 f t1)
               (fun _ w => proj numeric e1 e2 f t1 t2 (pnorm numeric e2 f t2 w)) (fun t => t)
               (fun _ v0 => IH _ _ v0 Hx) t2 sz0 vs).
    - (* CHOICE *)
      destruct Hx as (Hr & Hx). destruct ext as [a1|], ext0 as [a2|]; try contradiction.
      + destruct Hx as (c2 & new & -> & Ha). cbn [penc_ty pdec_ty]. destruct v; try apply ERT_fail.
        rewrite <- (pchoice_fwd_eq numeric e1 e2 f root root0 a1 c2 new alt v Hr Ha).
        pose proof (ERT_choice_compat2 (penc_ty numeric e2 f) (pdec_ty numeric e1 f) Rf nmf HT root0 root c2 a1 new []
                      alt v (mrel_flip numeric e1 e2 f _ _ _ Hr) (mrel_flip numeric e1 e2 f _ _ _ Ha)
                      (or_intror eq_refl)) as Hd.
        rewrite app_nil_r in Hd. exact Hd.
      + cbn [penc_ty pdec_ty]. destruct v; try apply ERT_fail.
        destruct (find_alt alt root0 0) as [[i me]|] eqn:Ef.
        * rewrite <- (pchoice_fwd_eq_noext numeric e1 e2 f root root0 alt v i me Hr Ef).
          exact (ERT_choice_noext2 (penc_ty numeric e2 f) (pdec_ty numeric e1 f) Rf nmf HT root0 root
                   alt v (mrel_flip numeric e1 e2 f _ _ _ Hr)).
        * unfold p_choice, p_choice_root. rewrite Ef. apply ERT_fail.
    - (* reference *)
      destruct Hx as [-> Hx]. cbn [penc_ty pdec_ty pnorm proj].
      destruct (lookup name0 e1) as [a|]; [|contradiction].
      destruct (lookup name0 e2) as [b|]; [|contradiction]. apply IH. exact Hx.
    - (* tagged *)
      cbn [penc_ty pdec_ty pnorm proj]. apply IH. exact Hx.
  Qed.
End PForwardMain.

Print Assumptions per_forward.

(** ** Backward: version 1 encodes, version 2 decodes *)
Section PBackward.
  Variable numeric : bool.
  Variables e1 e2 : env.
  Variable f : nat.
  Hypothesis IHb : forall t1 t2 v,
    ext_gen numeric e1 e2 false f t1 t2 ->
    ERT (penc_ty numeric e1 f t1 v) (pdec_ty numeric e2 f t2) (pnorm numeric e1 f t1 v).

  Let Rb (te td : ty) : Prop := ext_gen numeric e1 e2 false f te td.
  Let nmb (te td : ty) (v : value) : value := pnorm numeric e1 f te v.

  Lemma pHTb : forall te td v, Rb te td ->
    ERT (penc_ty numeric e1 f te v) (pdec_ty numeric e2 f td) (nmb te td v).
  Proof. intros te td v HR. apply IHb. exact HR. Qed.

  Lemma pseq_bwd r1 r2 a1 c2 new data :
    Forall2 (mrel false (ext_gen numeric e1 e2 false f) (proj numeric e1 e2 f)) r1 r2 ->
    Forall2 (arel false (ext_gen numeric e1 e2 false f) (proj numeric e1 e2 f)) a1 c2 ->
    ERT (p_seq (penc_ty numeric e1 f) (resolve e1 f) r1 (Some a1) (VSeq data))
        (pd_seq (pdec_ty numeric e2 f) r2 (Some (c2 ++ new)))
        (pnorm_seq (penc_ty numeric e1 f) (pnorm numeric e1 f) (resolve e1 f) r1 (Some a1) data).
  Proof.
    intros Hr Ha.
    pose proof (ERT_seq_compat2 (penc_ty numeric e1 f) (pdec_ty numeric e2 f) (resolve e1 f) Rb nmb pHTb
                  r1 r2 a1 c2 [] new data (mrel_b _ _ _ _ _ _ Hr) (arel_b _ _ _ _ _ _ Ha) (or_introl eq_refl)) as Hd.
    rewrite app_nil_r in Hd. eapply ERT_val; [|exact Hd].
    unfold pnorm_seq, nmb. rewrite (nmembers_norm _ _ _ _ _ (Forall2_len2 Hr)).
    rewrite pnadds_norm; [reflexivity|].
    eapply Forall2_imp; [|exact Ha]. intros x y [_ Hm]. exact (Forall2_len2 Hm).
  Qed.

  Lemma pseq_bwd_noext r1 r2 data :
    Forall2 (mrel false (ext_gen numeric e1 e2 false f) (proj numeric e1 e2 f)) r1 r2 ->
    ERT (p_seq (penc_ty numeric e1 f) (resolve e1 f) r1 None (VSeq data))
        (pd_seq (pdec_ty numeric e2 f) r2 None)
        (pnorm_seq (penc_ty numeric e1 f) (pnorm numeric e1 f) (resolve e1 f) r1 None data).
  Proof.
    intros Hr.
    eapply ERT_val; [|exact (ERT_seq_noext2 (penc_ty numeric e1 f) (pdec_ty numeric e2 f) (resolve e1 f) Rb nmb pHTb
                               r1 r2 data (mrel_b _ _ _ _ _ _ Hr))].
    unfold pnorm_seq, nmb. rewrite (nmembers_norm _ _ _ _ _ (Forall2_len2 Hr)), app_nil_r. reflexivity.
  Qed.

  Lemma pchoice_bwd_eq r1 r2 a1 c2 name x i me :
    Forall2 (member_rel Rb) r1 r2 -> Forall2 (member_rel Rb) a1 c2 ->
    (find_alt name r1 0 = Some (i, me) \/ (find_alt name r1 0 = None /\ find_alt name a1 0 = Some (i, me))) ->
    nchoice nmb r1 r2 a1 c2 name x = pnorm numeric e1 (S f) (TChoice r1 (Some a1)) (VChoice name x).
  Proof.
    intros Hr Ha Hfa. cbn [pnorm]. unfold nchoice, nmb.
    destruct Hfa as [Ef | [Ef Ec]]; rewrite Ef.
    - destruct (find_alt2_some Rb name r1 r2 Hr 0 i me Ef) as (md & E2 & _ & _). rewrite E2. reflexivity.
    - rewrite (find_alt2_none Rb name r1 r2 Hr 0 Ef), Ec.
      destruct (find_alt2_some Rb name a1 c2 Ha 0 i me Ec) as (md & E2 & _ & _). rewrite E2. reflexivity.
  Qed.

  Lemma pchoice_bwd_eq_noext r1 r2 name x i me :
    Forall2 (member_rel Rb) r1 r2 -> find_alt name r1 0 = Some (i, me) ->
    nchoice nmb r1 r2 [] [] name x = pnorm numeric e1 (S f) (TChoice r1 None) (VChoice name x).
  Proof.
    intros Hr Ef. cbn [pnorm]. unfold nchoice, nmb. rewrite Ef.
    destruct (find_alt2_some Rb name r1 r2 Hr 0 i me Ef) as (md & E2 & _ & _). rewrite E2. reflexivity.
  Qed.
End PBackward.

Section PBackwardMain.
  Variable numeric : bool.
  Variables e1 e2 : env.

  (** C07 backward, any depth, positional: version 2 returns EXACTLY the
      version-1 normal form (an absent DEFAULT addition of version 2 stays absent). *)
  Theorem per_backward : forall f t1 t2 v,
    extends numeric e1 e2 f t1 t2 ->
    ERT (penc_ty numeric e1 f t1 v) (pdec_ty numeric e2 f t2) (pnorm numeric e1 f t1 v).
  Proof.
    unfold extends. induction f as [|f IH]; intros t1 t2 v Hx; [apply ERT_fail|].
    pose (Rb := fun te td : ty => ext_gen numeric e1 e2 false f te td).
    pose (nmb := fun (te td : ty) (w : value) => pnorm numeric e1 f te w).
    pose proof (pHTb numeric e1 e2 f IH) as HT.
    destruct t1; destruct t2; cbn [ext_gen] in Hx; try discriminate Hx.
    - exact (penc_pdec_rt numeric e1 (S f) _ v).
    - exact (penc_pdec_rt numeric e1 (S f) _ v).
    - inversion Hx; subst. exact (penc_pdec_rt numeric e1 (S f) _ v).
    - (* ENUMERATED *)
      destruct Hx as [-> Hx]. destruct ext as [a1|], ext0 as [a2|]; try contradiction.
      + destruct Hx as [new ->]. cbn [penc_ty pdec_ty pnorm].
        apply ERT_plift. intros b Hb rest. apply read_enum_bwd. exact Hb.
      + exact (penc_pdec_rt numeric e1 (S f) _ v).
    - inversion Hx; subst. exact (penc_pdec_rt numeric e1 (S f) _ v).
    - inversion Hx; subst. exact (penc_pdec_rt numeric e1 (S f) _ v).
    - inversion Hx; subst. exact (penc_pdec_rt numeric e1 (S f) _ v).
    - exact (penc_pdec_rt numeric e1 (S f) _ v).
    - (* SEQUENCE / SET *)
      destruct Hx as (-> & Hr & _ & Hx).
      destruct ext as [a1|], ext0 as [a2|]; try contradiction.
      + destruct Hx as (c2 & new & -> & Ha). cbn [penc_ty pdec_ty]. destruct v; try apply ERT_fail.
        cbn [pnorm]. apply (pseq_bwd numeric e1 e2 f IH); assumption.
      + cbn [penc_ty pdec_ty]. destruct v; try apply ERT_fail.
        cbn [pnorm]. apply (pseq_bwd_noext numeric e1 e2 f IH); assumption.
    - (* SEQUENCE OF / SET OF *)
      destruct Hx as (-> & -> & Hx). cbn [penc_ty pdec_ty]. destruct v; try apply ERT_fail.
      cbn [pnorm].
      exact (ERT_seqof (fun _ => penc_ty numeric e1 f t1) (fun _ => pdec_ty numeric e2 f t2)
               (fun _ w => pnorm numeric e1 f t1 w) (fun t => t)
               (fun _ v0 => IH _ _ v0 Hx) t1 sz0 vs).
    - (* CHOICE *)
      destruct Hx as (Hr & Hx). apply (mrel_b numeric e1 e2 f) in Hr.
      destruct ext as [a1|], ext0 as [a2|]; try contradiction.
      + destruct Hx as (c2 & new & -> & Ha). apply (mrel_b numeric e1 e2 f) in Ha.
        cbn [penc_ty pdec_ty]. destruct v; try apply ERT_fail.
        assert (Hc : ERT (p_choice (penc_ty numeric e1 f) root (Some (a1 ++ [])) (VChoice alt v))
                         (pd_choice (pdec_ty numeric e2 f) root0 (Some (c2 ++ new)))
                         (nchoice nmb root root0 a1 c2 alt v))
          by (exact (ERT_choice_compat2 (penc_ty numeric e1 f) (pdec_ty numeric e2 f) Rb nmb HT root root0 a1 c2 [] new
                       alt v Hr Ha (or_introl eq_refl))).
        rewrite app_nil_r in Hc.
        destruct (find_alt alt root 0) as [[i me]|] eqn:Ef.
        * rewrite <- (pchoice_bwd_eq numeric e1 e2 f root root0 a1 c2 alt v i me Hr Ha (or_introl Ef)). exact Hc.
        * destruct (find_alt alt a1 0) as [[i me]|] eqn:Ec.
          -- rewrite <- (pchoice_bwd_eq numeric e1 e2 f root root0 a1 c2 alt v i me Hr Ha (or_intror (conj Ef Ec))). exact Hc.
          -- unfold p_choice. rewrite Ef, Ec. apply ERT_fail.
      + cbn [penc_ty pdec_ty]. destruct v; try apply ERT_fail.
        destruct (find_alt alt root 0) as [[i me]|] eqn:Ef.
        * rewrite <- (pchoice_bwd_eq_noext numeric e1 e2 f root root0 alt v i me Hr Ef).
          exact (ERT_choice_noext2 (penc_ty numeric e1 f) (pdec_ty numeric e2 f) Rb nmb HT root root0 alt v Hr).
        * unfold p_choice, p_choice_root. rewrite Ef. apply ERT_fail.
    - (* reference *)
      destruct Hx as [-> Hx]. cbn [penc_ty pdec_ty pnorm].
      destruct (lookup name0 e1) as [a|]; [|contradiction].
      destruct (lookup name0 e2) as [b|]; [|contradiction]. apply IH. exact Hx.
    - (* tagged *)
      cbn [penc_ty pdec_ty pnorm]. apply IH. exact Hx.
  Qed.
End PBackwardMain.

Print Assumptions per_backward.

(** ** Bit-level statements in the shape of [per_roundtrip_bits] *)
Theorem per_forward_bits numeric e1 e2 f t1 t2 v st st' :
  extends_strict numeric e1 e2 f t1 t2 ->
  penc_ty numeric e2 f t2 v st = Ok st' ->
  exists b, st' = pst_app st b /\ pst_bits st' = pst_bits st ++ b /\
    forall rest, ((fst st + length b + length rest) mod 8 = 0)%nat ->
      pdec_ty numeric e1 f t1 (b ++ rest) = Ok (proj numeric e1 e2 f t1 t2 (pnorm numeric e2 f t2 v), rest).
Proof.
  intros Hx H. destruct (per_forward numeric e1 e2 f t1 t2 v Hx _ _ H) as (b & -> & D).
  exists b. split; [reflexivity|]. split; [apply pst_bits_app | exact D].
Qed.

Theorem per_backward_bits numeric e1 e2 f t1 t2 v st st' :
  extends numeric e1 e2 f t1 t2 ->
  penc_ty numeric e1 f t1 v st = Ok st' ->
  exists b, st' = pst_app st b /\ pst_bits st' = pst_bits st ++ b /\
    forall rest, ((fst st + length b + length rest) mod 8 = 0)%nat ->
      pdec_ty numeric e2 f t2 (b ++ rest) = Ok (pnorm numeric e1 f t1 v, rest).
Proof.
  intros Hx H. destruct (per_backward numeric e1 e2 f t1 t2 v Hx _ _ H) as (b & -> & D).
  exists b. split; [reflexivity|]. split; [apply pst_bits_app | exact D].
Qed.

(** ** Octet level: per.CompiledType.encode of one version, decode of the other,
    with any trailing octets *)
Lemma per_cross_octets {B} numeric fuel e t v (d : reader B) w data :
  ERT (penc_ty numeric e fuel t v) d w ->
  per_encode numeric fuel e t v = Ok data ->
  forall tail, exists n rest,
    d (bytes_to_bits (data ++ tail)) = Ok (w, rest) /\
    n = (length (bytes_to_bits (data ++ tail)) - length rest)%nat /\
    (n <= 8 * length data)%nat /\ (8 * length data < n + 8)%nat.
Proof.
  intros HE. unfold per_encode. destruct (prun (penc_ty numeric e fuel t v)) as [bs|] eqn:E; [|discriminate].
  cbn [bind]. intros H tail. assert (data = bits_to_bytes bs) by congruence. subst data.
  rewrite bytes_to_bits_app, bytes_bits_roundtrip, <- app_assoc.
  pose proof (bits_to_bytes_length bs) as Hl.
  exists (length bs), (repeat false ((8 - length bs mod 8) mod 8) ++ bytes_to_bits tail).
  split; [|split].
  - apply (prun_ERT _ _ _ _ HE E). rewrite app_length, repeat_length, bytes_to_bits_length. lia.
  - rewrite !app_length. lia.
  - pose proof (Nat.mod_upper_bound (8 - length bs mod 8) 8 ltac:(lia)). lia.
Qed.

Theorem per_forward_octets numeric e1 e2 fuel t1 t2 v data :
  extends_strict numeric e1 e2 fuel t1 t2 ->
  per_encode numeric fuel e2 t2 v = Ok data ->
  forall tail, exists n,
    per_decode numeric fuel e1 t1 (data ++ tail)
    = Ok (proj numeric e1 e2 fuel t1 t2 (pnorm numeric e2 fuel t2 v), n) /\
    (n <= 8 * length data)%nat /\ (8 * length data < n + 8)%nat.
Proof.
  intros Hx H tail.
  destruct (per_cross_octets numeric fuel e2 t2 v _ _ data (per_forward numeric e1 e2 fuel t1 t2 v Hx) H tail)
    as (n & rest & Hd & Hn & Hle & Hgt).
  exists n. unfold per_decode. rewrite Hd. subst n. auto.
Qed.

Theorem per_backward_octets numeric e1 e2 fuel t1 t2 v data :
  extends numeric e1 e2 fuel t1 t2 ->
  per_encode numeric fuel e1 t1 v = Ok data ->
  forall tail, exists n,
    per_decode numeric fuel e2 t2 (data ++ tail) = Ok (pnorm numeric e1 fuel t1 v, n) /\
    (n <= 8 * length data)%nat /\ (8 * length data < n + 8)%nat.
Proof.
  intros Hx H tail.
  destruct (per_cross_octets numeric fuel e1 t1 v _ _ data (per_backward numeric e1 e2 fuel t1 t2 v Hx) H tail)
    as (n & rest & Hd & Hn & Hle & Hgt).
  exists n. unfold per_decode. rewrite Hd. subst n. auto.
Qed.

Print Assumptions per_forward_octets.
Print Assumptions per_backward_octets.
