(** Specification model of ITU-T X.691 (PER), ALIGNED variant.

    Same method as [Per/X691.v] (which it imports for the clause-level
    functions that do not depend on the variant) and independent of the
    implementation models: this file imports neither [UperImpl] nor [PerImpl].

    What the aligned variant changes (clause numbers of X.691 08/2015):
    - the field-list distinguishes bit-fields from OCTET-ALIGNED bit-fields
      (3.7.x, 11.1): before an octet-aligned bit-field 0 to 7 zero bits are
      inserted so that it starts on an octet boundary of the complete encoding;
    - 11.5.7: a constrained whole number is a minimal bit-field for a range up
      to 255, one aligned octet for 256, two aligned octets up to 64K, and
      above that the minimal octets, aligned, preceded by their count as a
      constrained whole number 1..(octets of the largest offset);
    - 11.7/11.8/11.9.3.5: semi-constrained and unconstrained whole numbers,
      unconstrained length determinants (every fragment header) and open
      types are octet-aligned;
    - 16/17/30: strings of fixed size are octet-aligned when longer than 16
      bits; strings of variable (constrained) size are octet-aligned after
      their length (BIT STRING, OCTET STRING: always; known-multiplier
      strings: when aub * b >= 16);
    - 30.5.2: a character takes b = B2 bits, B rounded up to a power of two
      (0 for a single-character alphabet), and 30.5.4 is applied with that b.

    The UPER field type [X691.field] has no octet-aligned bit-field and its
    string clauses emit UPER character widths, so the aligned variant has its
    own field type [afield] (same constructors plus [AOctets]) and its own
    field-list function [x691a_fields]; INTEGER, ENUMERATED, OBJECT IDENTIFIER
    and UTF8String reuse the clause functions of X691.v through [lift];
    presence of components and additions reuses [comp_present] /
    [addition_present] / [alt_lookup] / [bitstring_bits] / [class_alphabet].

    One point of the Recommendation is read in two ways by implementations:
    whether an EMPTY octet-aligned bit-field (a string of variable size with
    zero units) still causes padding.  The serialiser takes this as the
    parameter [pad_empty] and everything is stated for both readings. *)
From Asn1V Require Import Base.Prelude Base.Bits Base.Utf8 Syntax.Asn1 Per.X691.

(** * The aligned field-list *)

Inductive afield : Type :=
| ABit (b : bool)
| ABits (bs : bits)                     (* bit-field *)
| AOctets (bs : bits)                   (* octet-aligned bit-field *)
| ACwn (lb ub v : Z)                    (* 11.5 *)
| ANsnnwn (n : Z)                       (* 11.6 *)
| ASemi (lb v : Z)                      (* 11.7 *)
| AUncon (v : Z)                        (* 11.8 *)
| ACounted (lb : Z) (ub : option Z) (items : list (list afield))     (* 11.9, then the items *)
| ASmallCounted (items : list (list afield))                         (* 11.9.3.4, then the items *)
| AOpen (fs : list afield).                                          (* 11.2 *)

(** the variant-independent fields of X691.v *)
Fixpoint lift (f : field) : afield :=
  match f with
  | FBit b => ABit b
  | FRaw bs => ABits bs
  | FCwn lb ub v => ACwn lb ub v
  | FNsnnwn n => ANsnnwn n
  | FSemi lb v => ASemi lb v
  | FUncon v => AUncon v
  | FCounted lb ub items => ACounted lb ub (map (map lift) items)
  | FSmallCounted items => ASmallCounted (map (map lift) items)
  | FOpen fs => AOpen (map lift fs)
  end.

(** * Clause 11: serialisation, relative to the current bit position *)

(** bits that depend on the number of bits already in the complete encoding *)
Definition pbits : Type := nat -> bits.
Definition pconst (b : bits) : pbits := fun _ => b.
Definition pcat (a b : pbits) : pbits := fun pos => let x := a pos in x ++ b (length x + pos)%nat.
Fixpoint pconcat (l : list pbits) : pbits :=
  match l with
  | [] => pconst []
  | a :: r => pcat a (pconcat r)
  end.
(** 11.1: the padding before an octet-aligned bit-field *)
Definition pad : pbits := fun pos => repeat false ((8 - pos mod 8) mod 8).
Definition aligned (b : bits) : pbits := pcat pad (pconst b).

(** 11.5.7 (ALIGNED).  [depth] bounds the nesting "length of the length"
    (11.5.7.4 encodes the octet count as a constrained whole number again);
    two levels cover every range below 2^(8 * 2^(8 * 65536)). *)
Fixpoint acwn (depth : nat) (lb ub v : Z) : pbits :=
  let range := ub - lb + 1 in
  if range <=? 255 then pconst (to_bits (width range) (v - lb))         (* 11.5.7.1 *)
  else if range =? 256 then aligned (to_bits 8 (v - lb))                 (* 11.5.7.2 *)
  else if range <=? 65536 then aligned (to_bits 16 (v - lb))             (* 11.5.7.3 *)
  else
    match depth with
    | O => pconst []
    | S d =>
      (* 11.5.7.4 with 13.2.6 a): the minimal octets of the offset, aligned,
         preceded by their number (1 .. octets of the largest offset) *)
      let k := nnbi_octets (v - lb) in
      pcat (acwn d 1 (nnbi_octets (ub - lb)) k) (aligned (to_bits (Z.to_nat (8 * k)) (v - lb)))
    end.

(** 11.7, 11.8: length and contents are octet-aligned; contents are whole
    octets, so everything after the padding is as in the unaligned variant *)
Definition asemi (lb v : Z) : pbits := aligned (semi_bits lb v).
Definition auncon (v : Z) : pbits := aligned (ser (FUncon v)).

(** 11.9.3.5 - 11.9.3.8 (ALIGNED): every length octet is octet-aligned *)
Fixpoint afrag (fuel : nat) (its : list pbits) : pbits :=
  let n := Z.of_nat (length its) in
  if n <? 16384 then pcat (aligned (len_short n)) (pconcat its)
  else
    match fuel with
    | O => pconst []
    | S f =>
      let m := Z.min 4 (n / 16384) in
      let k := Z.to_nat (m * 16384) in
      pcat (aligned (true :: true :: to_bits 6 m)) (pcat (pconcat (firstn k its)) (afrag f (skipn k its)))
    end.
Definition acount_unbounded (its : list pbits) : pbits := afrag (S (length its)) its.

Section Serialise.
  (** does an EMPTY octet-aligned bit-field cause padding? *)
  Variable pad_empty : bool.

  Fixpoint aser (f : afield) : pbits :=
    match f with
    | ABit b => pconst [b]
    | ABits bs => pconst bs
    | AOctets bs =>
      match bs with
      | [] => if pad_empty then pad else pconst []
      | _ => aligned bs
      end
    | ACwn lb ub v => acwn 2 lb ub v
    | ANsnnwn n =>
      if n <=? 63 then pconst (false :: to_bits 6 n) else pcat (pconst [true]) (asemi 0 n)
    | ASemi lb v => asemi lb v
    | AUncon v => auncon v
    | ACounted lb ub items =>
      let n := Z.of_nat (length items) in
      let its := map (fun it => pconcat (map aser it)) items in
      match ub with
      | Some u =>
        (* 11.9.3.3: a constrained count is a constrained whole number *)
        if u <? 65536 then pcat (acwn 2 lb u n) (pconcat its) else acount_unbounded its
      | None => acount_unbounded its
      end
    | ASmallCounted items =>
      let n := Z.of_nat (length items) in
      let its := map (fun it => pconcat (map aser it)) items in
      if n <=? 64 then pcat (pconst (false :: to_bits 6 (n - 1))) (pconcat its)
      else pcat (pconst [true]) (acount_unbounded its)
    | AOpen fs =>
      (* 11.2: the complete encoding of the value, started afresh *)
      aligned (unbounded_count (map (to_bits 8) (complete_octets (pconcat (map aser fs) 0%nat))))
    end.

  Definition serialise_aligned (fs : list afield) : pbits := pconcat (map aser fs).
End Serialise.

(** * Clauses 12 to 30 *)

(** ** Strings: [units] of [w] bits each under the SIZE constraint [s]
    (16.8 - 16.11, 17.5 - 17.8, 30.5.6 - 30.5.7).  [var_aligned]: is the
    string an octet-aligned bit-field when its size is variable? *)
Definition astring_fields (s : size) (w : Z) (var_aligned : bool) (units : list bits)
  : result (list afield) :=
  let n := Z.of_nat (length units) in
  let data := concat units in
  let items := map (fun u => [ABits u]) units in
  if sz_in_root s n then
    Ok ((if sz_ext s then [ABit false] else []) ++
        match sz_ub s with
        | Some u =>
          if u <? 65536 then
            if sz_lb s =? u
            then [if u * w >? 16 then AOctets data else ABits data]          (* fixed size: no length *)
            else [ACwn (sz_lb s) u n; if var_aligned then AOctets data else ABits data]
          else [ACounted (sz_lb s) (Some u) items]
        | None => [ACounted (sz_lb s) None items]
        end)
  else if sz_ext s then Ok [ABit true; ACounted 0 None items]
  else Err EConstraints.

Definition abitstring_fields (named : bool) (s : size) (bytes : list Z) (nbits : Z) : result (list afield) :=
  if (nbits <? 0) || (8 * Z.of_nat (length bytes) <? nbits) then Err EEncode
  else astring_fields s 1 true (map (fun b : bool => [b]) (bitstring_bits named s bytes nbits)).

Definition aoctets_fields (s : size) (bytes : list Z) : result (list afield) :=
  astring_fields s 8 true (map (to_bits 8) bytes).

(** 30.5.2: bits per character in the ALIGNED variant *)
Definition b2 (B : nat) : nat :=
  match B with O => O | _ => Z.to_nat (2 ^ Z.log2_up (Z.of_nat B)) end.
Definition achar_bits (a : list Z) : nat := b2 (width (Z.of_nat (length a))).
(** 30.5.4 with b = B2 *)
Definition achar_value (a : list Z) (c : Z) : Z :=
  if fold_right Z.max 0 a <=? 2 ^ Z.of_nat (achar_bits a) - 1 then c
  else Z.of_nat (length (filter (fun x => x <? c) a)).
Definition achar (a : list Z) (c : Z) : result bits :=
  if memb c a then Ok (to_bits (achar_bits a) (achar_value a c)) else Err EEncode.

Definition akmstring_fields (k : strkind) (s : size) (alpha : option (list Z)) (cps : list Z)
  : result (list afield) :=
  match class_alphabet k with
  | None => Err EUnmodelled
  | Some cls =>
    let a := match alpha with Some a => a | None => cls end in
    let b := Z.of_nat (achar_bits a) in
    let* units := map_result (achar a) cps in
    (* 30.5.7: octet-aligned when aub * b >= 16 *)
    astring_fields s b (match sz_ub s with Some u => 16 <=? u * b | None => true end) units
  end.

(** ** Counted components (20) *)
Definition asized (s : size) (items : list (list afield)) : result (list afield) :=
  let n := Z.of_nat (length items) in
  if sz_in_root s n
  then Ok ((if sz_ext s then [ABit false] else []) ++ [ACounted (sz_lb s) (sz_ub s) items])
  else if sz_ext s then Ok [ABit true; ACounted 0 None items]
  else Err EConstraints.

Section ATypes.
  Variable numeric : bool.
  Variable e : env.

  Section AConstructed.
    Variable rec : ty -> value -> result (list afield).
    Variable der : ty -> ty.

    Definition acomp_fields (m : member_of ty) (data : list (string * value)) : result (list afield) :=
      match lookup (m_name m) data with
      | Some v => if comp_present der m data then rec (m_ty m) v else Ok []
      | None => match m_opt m with Mandatory => Err EEncode | _ => Ok [] end
      end.

    Fixpoint acomps_fields (ms : list (member_of ty)) (data : list (string * value)) : result (list afield) :=
      match ms with
      | [] => Ok []
      | m :: r => let* a := acomp_fields m data in let* b := acomps_fields r data in Ok (a ++ b)
      end.

    Definition aseq_root_fields (ms : list (member_of ty)) (data : list (string * value))
      : result (list afield) :=
      let* body := acomps_fields ms data in
      Ok (map (fun m => ABit (comp_present der m data)) (filter optional_or_default ms) ++ body).

    Definition aaddition_fields (a : addition_of ty) (data : list (string * value)) : result (list afield) :=
      match a with
      | (true, ms) => aseq_root_fields ms data
      | (false, [m]) => acomp_fields m data
      | (false, _) => Err EUnmodelled
      end.

    Fixpoint aadditions_open (adds : list (addition_of ty)) (data : list (string * value))
      : result (list afield) :=
      match adds with
      | [] => Ok []
      | a :: r =>
        if addition_present der a data then
          let* fs := aaddition_fields a data in
          let* rest := aadditions_open r data in
          Ok (AOpen fs :: rest)
        else aadditions_open r data
      end.

    (** 19 / 21 *)
    Definition aseq_fields (root : list (member_of ty)) (ext : option (list (addition_of ty)))
               (v : value) : result (list afield) :=
      match v with
      | VSeq data =>
        let* r := aseq_root_fields root data in
        match ext with
        | None => Ok r
        | Some adds =>
          if existsb (fun a => addition_present der a data) adds then
            let* opens := aadditions_open adds data in
            Ok (ABit true :: r
                ++ ASmallCounted (map (fun a => [ABit (addition_present der a data)]) adds) :: opens)
          else Ok (ABit false :: r)
        end
      | _ => Err EEncode
      end.

    (** 20 / 22 *)
    Definition aseqof_fields (elem : ty) (s : size) (v : value) : result (list afield) :=
      match v with
      | VList vs => let* items := map_result (rec elem) vs in asized s items
      | _ => Err EEncode
      end.

    (** 23 *)
    Definition achoice_fields (root : list (member_of ty)) (ext : option (list (member_of ty)))
               (v : value) : result (list afield) :=
      match v with
      | VChoice name x =>
        let marker (b : bool) := match ext with Some _ => [ABit b] | None => [] end in
        match alt_lookup name root with
        | Some (i, t) =>
          let* body := rec t x in
          Ok (marker false ++ ACwn 0 (Z.of_nat (length root) - 1) (Z.of_nat i) :: body)
        | None =>
          match ext with
          | None => Err EEncode
          | Some adds =>
            match alt_lookup name adds with
            | Some (j, t) =>
              let* body := rec t x in
              Ok [ABit true; ANsnnwn (Z.of_nat j); AOpen body]
            | None => Err EEncode
            end
          end
        end
      | _ => Err EEncode
      end.
  End AConstructed.

  Definition lifted (r : result (list field)) : result (list afield) :=
    let* fs := r in Ok (map lift fs).

  Fixpoint x691a_fields (fuel : nat) (t : ty) (v : value) {struct fuel} : result (list afield) :=
    match fuel with
    | O => Err EFuel
    | S f =>
      match t with
      | TBool => match v with VBool b => Ok [ABit b] | _ => Err EEncode end
      | TNull => Ok []
      | TInt c => match v with VInt z => lifted (int_fields c z) | _ => Err EEncode end
      | TEnum root ext => lifted (enum_fields numeric root ext v)
      | TBits named s =>
        match v with
        | VBits b n => abitstring_fields (match named with Some _ => true | None => false end) s b n
        | _ => Err EEncode
        end
      | TOctets s => match v with VBytes b => aoctets_fields s b | _ => Err EEncode end
      | TStr SkUTF8 _ _ => match v with VStr c => lifted (utf8_fields c) | _ => Err EEncode end
      | TStr k s alpha => match v with VStr c => akmstring_fields k s alpha c | _ => Err EEncode end
      | TOid => match v with VOid a => lifted (oid_fields a) | _ => Err EEncode end
      | TSeq _ root ext => aseq_fields (x691a_fields f) (deref e f) root ext v
      | TSeqOf _ elem s => aseqof_fields (x691a_fields f) elem s v
      | TChoice root ext => achoice_fields (x691a_fields f) root ext v
      | TRef n => match lookup n e with Some t' => x691a_fields f t' v | None => Err EUnmodelled end
      | TTag _ t' => x691a_fields f t' v
      end
    end.

  (** the encoding of an outermost value (position 0), as bits and as octets (11.1) *)
  Definition x691a_encode (pad_empty : bool) (fuel : nat) (t : ty) (v : value) : result bits :=
    let* fs := x691a_fields fuel t v in Ok (serialise_aligned pad_empty fs 0%nat).

  Definition x691a_encode_octets (pad_empty : bool) (fuel : nat) (t : ty) (v : value) : result (list Z) :=
    let* bs := x691a_encode pad_empty fuel t v in Ok (complete_octets bs).
End ATypes.
