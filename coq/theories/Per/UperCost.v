(** C08, work bound for the UPER decoder model: a cost-instrumented copy of
    the decoder of [Per/UperImpl.v].

    [creader A := bits -> result (A * bits) * N] is the reader monad of
    [Base/Bits.v] paired with a step counter; an error keeps the steps spent
    before it.  Every reader used by [dec] has a copy here, written with the
    same control structure ([cbind] for [rbind], [cret] for [rret], ...), and
    the counter is advanced by

      - one step for every primitive read of the Python decoder object
        ([read_bit], [read_non_negative_binary_integer], [read_bits],
        [skip_bits]): [prim];
      - one step for every loop iteration (per element / octet / bit /
        character in [c_read_n], per 16K-fragment in [c_read_frag], per root
        member in [c_dec_members], per presence bit in [c_dec_root] (through
        [c_read_n]) and in [c_dec_adds], per octet in the OBJECT IDENTIFIER
        subidentifier loop): [tick 1];
      - one step for every call of a type's [decode] method ([dec_cost], one
        per fuel level, also for the model-only levels [TRef]/[TTag] and for
        the call that finds the fuel exhausted = RecursionError).

    Steps are counted in [N] (binary) so that the constants 8192 / 65536 of the
    bound and the measured costs of hostile inputs can be computed.

    [Per/UperCostProofs.v] proves that erasing the counter gives back [dec]
    ([dec_cost_erases]) and the linear bound ([dec_cost_bound]). *)
From Asn1V Require Import Base.Prelude Base.Bits Base.Utf8 Syntax.Asn1 Per.UperImpl.

Definition creader (A : Type) : Type := bits -> result (A * bits) * N.

Definition cret {A} (a : A) : creader A := fun bs => (Ok (a, bs), 0%N).
Definition cfail {A} (e : err) : creader A := fun _ => (Err e, 0%N).
Definition cbind {A B} (m : creader A) (f : A -> creader B) : creader B :=
  fun bs => match m bs with
            | (Ok (a, r), c1) => let (res, c2) := f a r in (res, (c1 + c2)%N)
            | (Err e, c1) => (Err e, c1)
            end.
(** [n] more steps *)
Definition tick {A} (n : N) (m : creader A) : creader A :=
  fun bs => let (res, c) := m bs in (res, (n + c)%N).
(** a primitive read of the decoder object: one step *)
Definition prim {A} (rd : reader A) : creader A := fun bs => (rd bs, 1%N).

Notation "'dc*' x '<-' m ';' k" := (cbind m (fun x => k))
  (at level 200, x pattern, m at level 100, k at level 200).

Definition c_read_bit : creader bool := prim read_bit.
Definition c_read_uint (n : nat) : creader Z := prim (read_uint n).
Definition c_read_raw (n : nat) : creader bits := prim (read_raw n).
Definition c_skip_bits (n : nat) : creader unit := prim (skip_bits n).

(** Decoder.read_length_determinant: one or two reads *)
Definition c_read_len : creader Z :=
  dc* v <- c_read_uint 8;
  if Z.land v 128 =? 0 then cret v
  else if Z.land v 192 =? 128 then
    dc* w <- c_read_uint 8; cret (Z.lor (Z.shiftl (Z.land v 127) 8) w)
  else if v =? 193 then cret 16384
  else if v =? 194 then cret 32768
  else if v =? 195 then cret 49152
  else if v =? 196 then cret 65536
  else cfail EDecode.

(** [for _ in range(n)]: one step per iteration plus the body *)
Fixpoint c_read_n {A} (n : nat) (rd : creader A) : creader (list A) :=
  match n with
  | O => cret []
  | S k => tick 1 (dc* x <- rd; dc* r <- c_read_n k rd; cret (x :: r))
  end.

Definition c_with_consumed {A} (m : creader A) : creader (A * nat) :=
  fun bs => match m bs with
            | (Ok (a, r), c) => (Ok ((a, (length bs - length r)%nat), r), c)
            | (Err x, c) => (Err x, c)
            end.

(** read_length_determinant_chunks: one step per fragment *)
Fixpoint c_read_frag {A} (fuel : nat) (rd : creader A) : creader (list A) :=
  match fuel with
  | O => cfail EFuel
  | S f =>
    tick 1 (
    dc* n <- c_read_len;
    dc* items <- c_read_n (Z.to_nat n) rd;
    if n <? 16384 then cret items
    else dc* more <- c_read_frag f rd; cret (items ++ more))
  end.
Definition c_read_frag_auto {A} (rd : creader A) : creader (list A) :=
  fun bs => c_read_frag (S (Nat.div (length bs) 8)) rd bs.

Definition c_read_unconstrained : creader Z :=
  dc* len <- c_read_len;
  dc* d <- c_read_uint (Z.to_nat (8 * len));
  if len =? 0 then cfail (EForeign "ValueError")
  else
    let nbits := 8 * len in
    if Z.testbit d (nbits - 1) then cret (d - 2 ^ nbits) else cret d.

Definition c_read_small_nonneg : creader Z :=
  dc* b <- c_read_bit;
  if negb b then c_read_uint 6
  else dc* len <- c_read_len; c_read_uint (Z.to_nat (8 * len)).

Definition c_read_small_len : creader Z :=
  dc* b <- c_read_bit;
  if negb b then dc* v <- c_read_uint 6; cret (v + 1)
  else dc* b2 <- c_read_bit;
       if negb b2 then c_read_uint 7 else cfail (EForeign "NotImplementedError").

Definition c_read_int_root (c : intc) : creader Z :=
  match int_bounds c with
  | None => c_read_unconstrained
  | Some (lo, hi) =>
    dc* d <- c_read_uint (Z.to_nat (bit_length (hi - lo))); cret (d + lo)
  end.

Definition c_read_int (c : intc) : creader Z :=
  if int_ext c then
    dc* b <- c_read_bit;
    if b then c_read_unconstrained else c_read_int_root c
  else c_read_int_root c.

Definition c_read_enum_root (numeric : bool) (root : list (string * Z)) : creader value :=
  dc* i <- c_read_uint (enum_root_bits root);
  match nth_z (sort_by_value root) i with
  | Some it => cret (enum_datum numeric it)
  | None => cfail EDecode
  end.

Definition c_read_enum (numeric : bool) (root : list (string * Z))
           (ext : option (list (string * Z))) : creader value :=
  match ext with
  | None => c_read_enum_root numeric root
  | Some adds =>
    dc* b <- c_read_bit;
    if negb b then c_read_enum_root numeric root
    else
      dc* i <- c_read_small_nonneg;
      match nth_z adds i with
      | Some it => cret (enum_datum numeric it)
      | None => cret VNone
      end
  end.

Definition c_read_bitstring (sz : size) : creader value :=
  let mk (bs : bits) := VBits (bits_to_bytes bs) (Z.of_nat (length bs)) in
  dc* _ <- (if size_ext sz then
              dc* b <- c_read_bit; if b then cfail (EForeign "NotImplementedError") else cret tt
            else cret tt);
  if size_unbound sz then
    dc* bs <- c_read_frag_auto c_read_bit; cret (mk bs)
  else
    dc* extra <- (if negb (size_lo sz =? size_hi sz) then c_read_uint (size_nbits sz) else cret 0);
    dc* bs <- c_read_raw (Z.to_nat (size_lo sz + extra)); cret (mk bs).

Definition c_read_byte : creader Z := c_read_uint 8.

Definition c_read_octets (sz : size) : creader value :=
  let fixed_or_var :=
    if size_unbound sz then
      dc* bs <- c_read_frag_auto c_read_byte; cret (VBytes bs)
    else
      dc* extra <- (if negb (size_lo sz =? size_hi sz) then c_read_uint (size_nbits sz) else cret 0);
      dc* bs <- c_read_n (Z.to_nat (size_lo sz + extra)) c_read_byte; cret (VBytes bs) in
  if size_ext sz then
    dc* b <- c_read_bit;
    if b then dc* bs <- c_read_frag_auto c_read_byte; cret (VBytes bs)
    else fixed_or_var
  else fixed_or_var.

(** one character: the read; the alphabet lookup is a dict access *)
Definition c_km_read_char (a : list Z) (ident : bool) : creader Z :=
  dc* v <- c_read_uint (km_bits a);
  if ident then (if mem_z v a then cret v else cfail EDecode)
  else match nth_z a v with
       | Some c => cret c
       | None => cfail EDecode
       end.

Definition c_read_kmstring (k : strkind) (sz : size) (alpha : option (list Z)) : creader value :=
  match km_alphabet k alpha with
  | None => cfail EUnmodelled
  | Some (a, ident) =>
    dc* _ <- (if size_ext sz then
                dc* b <- c_read_bit; if b then cfail (EForeign "NotImplementedError") else cret tt
              else cret tt);
    if size_unbound sz then
      dc* cs <- c_read_frag_auto (c_km_read_char a ident); cret (VStr cs)
    else
      dc* extra <- (if negb (size_lo sz =? size_hi sz) then c_read_uint (size_nbits sz) else cret 0);
      dc* cs <- c_read_n (Z.to_nat (size_lo sz + extra)) (c_km_read_char a ident); cret (VStr cs)
  end.

(** one more step for the final [.decode('utf-8')] *)
Definition c_read_utf8 : creader value :=
  dc* bs <- c_read_frag_auto c_read_byte;
  tick 1 (match utf8_decode bs with
          | Some cps => cret (VStr cps)
          | None => cfail (EForeign "UnicodeDecodeError")
          end).

(** each octet is read and then visited once by the subidentifier loops of
    decode_object_identifier: two steps per octet besides the iteration *)
Definition c_read_oid : creader value :=
  dc* n <- c_read_len;
  dc* bs <- c_read_n (Z.to_nat n) (tick 1 c_read_byte);
  match dec_oid_bytes bs with
  | Ok arcs => cret (VOid arcs)
  | Err e => cfail e
  end.

Section CompositeCost.
  Variable numeric : bool.
  Variable e : env.

  Section MembersCost.
    Variable decT : ty -> creader value.

    (** MembersType.decode_root, the loop over root_members: one step per member *)
    Fixpoint c_dec_members (ms : list (member_of ty)) (pres : list bool)
      : creader (list (string * value)) :=
      match ms with
      | [] => cret []
      | m :: r =>
        tick 1 (
        if has_presence_bit m then
          match pres with
          | [] => cfail EUnmodelled
          | p :: pres' =>
            if p then
              dc* v <- decT (m_ty m); dc* vs <- c_dec_members r pres'; cret ((m_name m, v) :: vs)
            else
              match m_opt m with
              | Default d => dc* vs <- c_dec_members r pres'; cret ((m_name m, d) :: vs)
              | _ => c_dec_members r pres'
              end
          end
        else
          dc* v <- decT (m_ty m); dc* vs <- c_dec_members r pres; cret ((m_name m, v) :: vs))
      end.

    Definition c_dec_root (ms : list (member_of ty)) : creader (list (string * value)) :=
      dc* pres <- c_read_n (length (filter has_presence_bit ms)) c_read_bit;
      c_dec_members ms pres.

    Definition c_dec_one_addition (adds : list (addition_of ty)) (open_len : Z)
      : creader (list (string * value)) :=
      match adds with
      | [] => dc* _ <- c_skip_bits (Z.to_nat (8 * open_len)); cret []
      | (isgroup, ms) :: _ =>
        if isgroup then c_dec_root ms
        else match ms with
             | [m] => dc* v <- decT (m_ty m); cret [(m_name m, v)]
             | _ => cfail EUnmodelled
             end
      end.

    (** decode_additions, the loop over the presence bits: one step per bit *)
    Fixpoint c_dec_adds (pres : list bool) (adds : list (addition_of ty))
      : creader (list (string * value)) :=
      match pres with
      | [] => cret []
      | p :: pres' =>
        let adds' := tl adds in
        tick 1 (
        if negb p then c_dec_adds pres' adds'
        else
          dc* open_len <- c_read_len;
          dc* (fields, consumed) <- c_with_consumed (c_dec_one_addition adds open_len);
          dc* _ <- (let al := (consumed mod 8)%nat in
                    if (al =? 0)%nat then cret tt else c_skip_bits (8 - al));
          dc* more <- c_dec_adds pres' adds';
          cret (fields ++ more))
      end.

    Definition c_dec_additions (adds : list (addition_of ty)) : creader (list (string * value)) :=
      dc* n <- c_read_small_len;
      dc* pres <- c_read_raw (Z.to_nat n);
      c_dec_adds pres adds.

    Definition c_dec_seq (root : list (member_of ty)) (ext : option (list (addition_of ty)))
      : creader value :=
      match ext with
      | None => dc* fs <- c_dec_root root; cret (VSeq fs)
      | Some adds =>
        dc* b <- c_read_bit;
        dc* fs <- c_dec_root root;
        if b then dc* more <- c_dec_additions adds; cret (VSeq (fs ++ more))
        else cret (VSeq fs)
      end.

    Definition c_dec_seqof (elem : ty) (sz : size) : creader value :=
      let normal :=
          if size_unbound sz then
            dc* vs <- c_read_frag_auto (decT elem); cret (VList vs)
          else
            dc* extra <- (if negb (size_lo sz =? size_hi sz) then c_read_uint (size_nbits sz) else cret 0);
            dc* vs <- c_read_n (Z.to_nat (size_lo sz + extra)) (decT elem); cret (VList vs) in
      if size_ext sz then
        dc* b <- c_read_bit;
        if b then dc* vs <- c_read_frag_auto (decT elem); cret (VList vs)
        else normal
      else normal.

    Definition c_dec_choice_root (root : list (member_of ty)) : creader value :=
      dc* i <- (if (1 <? length root)%nat then c_read_uint (choice_root_bits root) else cret 0);
      match nth_z root i with
      | None => cfail EDecode
      | Some m => dc* v <- decT (m_ty m); cret (VChoice (m_name m) v)
      end.

    Definition c_dec_choice (root : list (member_of ty)) (ext : option (list (member_of ty)))
      : creader value :=
      match ext with
      | None => c_dec_choice_root root
      | Some adds =>
        dc* b <- c_read_bit;
        if negb b then c_dec_choice_root root
        else
          dc* i <- c_read_small_nonneg;
          dc* len <- c_read_len;
          let nbits := Z.to_nat (8 * len) in
          match nth_z adds i with
          | None => dc* _ <- c_skip_bits nbits; cret VUnknownChoice
          | Some m =>
            dc* (v, consumed) <- c_with_consumed (decT (m_ty m));
            if (nbits <? consumed)%nat then cfail EUnmodelled
            else dc* _ <- c_skip_bits (nbits - consumed); cret (VChoice (m_name m) v)
          end
      end.
  End MembersCost.

  (** one step per [decode] call, including the one that finds the fuel
      exhausted (Python: RecursionError) *)
  Fixpoint dec_cost (fuel : nat) (t : ty) {struct fuel} : creader value :=
    match fuel with
    | O => tick 1 (cfail EFuel)
    | S f =>
      tick 1 (
      match t with
      | TBool => dc* b <- c_read_bit; cret (VBool b)
      | TNull => cret VNone
      | TInt c => dc* z <- c_read_int c; cret (VInt z)
      | TEnum root ext => c_read_enum numeric root ext
      | TBits _ sz => c_read_bitstring sz
      | TOctets sz => c_read_octets sz
      | TStr SkUTF8 _ _ => c_read_utf8
      | TStr k sz alpha => c_read_kmstring k sz alpha
      | TOid => c_read_oid
      | TSeq _ root ext => c_dec_seq (dec_cost f) root ext
      | TSeqOf _ elem sz => c_dec_seqof (dec_cost f) elem sz
      | TChoice root ext => c_dec_choice (dec_cost f) root ext
      | TRef n => match lookup n e with Some t' => dec_cost f t' | None => cfail EUnmodelled end
      | TTag _ t' => dec_cost f t'
      end)
    end.
End CompositeCost.

(** the whole decode call on octets, as [uper_decode]: result and steps *)
Definition uper_decode_cost (numeric : bool) (fuel : nat) (e : env) (t : ty) (data : list Z)
  : result (value * nat) * N :=
  let input := bytes_to_bits data in
  match dec_cost numeric e fuel t input with
  | (Ok (v, rest), c) => (Ok (v, (length input - length rest)%nat), c)
  | (Err x, c) => (Err x, c)
  end.
